#!/bin/sh
# regenerate the Makefile when the set of .v files changed, then make the given targets (under the same lock as the checks)
cd /verif/coq || exit 1
exec 9>/verif/.lock
flock 9
cur="$(find . -name '*.v' -not -path './Corr/*' | sed 's|^\./||' | LC_ALL=C sort)"
if [ ! -f Makefile ] || [ "$cur" != "$(cat .vfiles 2>/dev/null)" ]; then
  coq_makefile -f _CoqProject $cur -o Makefile >/dev/null && rm -f .Makefile.d && printf '%s' "$cur" > .vfiles
fi
timeout 3000 make -j12 "$@" 2>&1 | grep -v "^ \|^Axioms\|^Classical\|^Functional\|^Closed\|^ClassicalDed\|^COQDEP"
