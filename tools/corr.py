"""Correspondence runner: writes shards of cases as Coq files, lets coqc evaluate the model on
them with vm_compute, and reads back three short index lists per shard."""
from __future__ import annotations

import os
import re
import shutil
import subprocess
import time
from concurrent.futures import ThreadPoolExecutor

VERIF = os.path.dirname(os.path.dirname(os.path.abspath(__file__)))
COQ = os.path.join(VERIF, "coq")
CORR = os.path.join(COQ, "Corr")

IMPORTS = ("From CP Require Import Base.Prelude Base.Str Base.Regex Base.Cfg Base.Float64 Base.Timedelta "
           "Model.Lines Model.Sync Model.Instrument Model.Chart Model.Obs Gen.Src.\n")

_LIST_RE = re.compile(r"=\s*(\[[^\]]*\])\s*:\s*list N", re.S)


class ShardError(Exception):
    pass


def _parse_lists(out: str):
    res = []
    for m in _LIST_RE.finditer(out):
        res.append([int(x) for x in re.findall(r"\d+", m.group(1).replace("%N", ""))])
    return res


def run_shards(name, in_type, out_type, verdict_fn, spec_fn, cases, *, extra_imports="", defs="",
               shard_size=150, jobs=None, timeout=900):
    """cases: list of (input_term, output_term).
    verdict_fn : Coq term of type  in_type -> out_type -> N   (0 agree, 1 disagree, 2 declined)
    spec_fn    : Coq term of type  in_type -> out_type -> bool (does the implementation's own output
                 satisfy the property's executable spec?) or None.
    Returns dict(mism=[...], declined=[...], viol=[...], errors=[...], wall_s=float, shards=int)."""
    jobs = jobs or min(16, os.cpu_count() or 4)
    os.makedirs(CORR, exist_ok=True)
    shards = [cases[i:i + shard_size] for i in range(0, len(cases), shard_size)]
    files = []
    tag = "%s_%d" % (re.sub(r"\W", "_", name), os.getpid())
    for k, sh in enumerate(shards):
        path = os.path.join(CORR, "%s_%d.v" % (tag, k))
        with open(path, "w") as f:
            f.write(IMPORTS)
            f.write(extra_imports)
            f.write("Open Scope Z_scope.\n")
            f.write(defs)
            f.write("Definition cases : list (%s * %s) := [\n" % (in_type, out_type))
            f.write(";\n".join("(%s,\n %s)" % (i, o) for i, o in sh))
            f.write("\n].\n")
            f.write("Definition vs := Eval vm_compute in map (fun io => (%s) (fst io) (snd io)) cases.\n" % verdict_fn)
            f.write("Eval vm_compute in filter_idx (N.eqb 1) vs.\n")
            f.write("Eval vm_compute in filter_idx (N.eqb 2) vs.\n")
            if spec_fn is not None:
                f.write("Eval vm_compute in filter_idx (fun io => negb ((%s) (fst io) (snd io))) cases.\n" % spec_fn)
            else:
                f.write("Eval vm_compute in (@nil N).\n")
        files.append(path)

    def one(path):
        try:
            # large literal terms (a chart with a thousand notes) need a deep stack in coqc's parser / vm
            p = subprocess.run(["sh", "-c", 'ulimit -s unlimited 2>/dev/null; exec coqc -R "$0" CP -w -all "$1"', COQ, path], capture_output=True, text=True, timeout=timeout)
        except subprocess.TimeoutExpired:
            return path, None, "timeout after %ds" % timeout
        if p.returncode != 0:
            return path, None, (p.stderr or p.stdout)[-2000:]
        lists = _parse_lists(p.stdout)
        if len(lists) != 3:
            return path, None, "unexpected coqc output: %s" % p.stdout[-500:]
        return path, lists, None

    t0 = time.time()
    res = dict(mism=[], declined=[], viol=[], errors=[], shards=len(shards))
    with ThreadPoolExecutor(max_workers=jobs) as ex:
        for k, (path, lists, err) in enumerate(ex.map(one, files)):
            base = k * shard_size
            if err is not None:
                res["errors"].append({"shard": os.path.basename(path), "error": err, "first_case": base, "n": len(shards[k])})
                continue
            res["mism"] += [base + i for i in lists[0]]
            res["declined"] += [base + i for i in lists[1]]
            res["viol"] += [base + i for i in lists[2]]
    res["wall_s"] = round(time.time() - t0, 2)
    # clean up generated shard files and their outputs (keep failing shards for inspection)
    keep = {e["shard"] for e in res["errors"]}
    for path in files:
        stem = path[:-2]
        for ext in (".v", ".vo", ".vok", ".vos", ".glob"):
            q = stem + ext
            if os.path.basename(path) in keep and ext == ".v":
                continue
            try:
                os.remove(q)
            except FileNotFoundError:
                pass
        try:
            os.remove(os.path.join(os.path.dirname(path), "." + os.path.basename(stem) + ".aux"))
        except FileNotFoundError:
            pass
    return res
