"""Rendering of Python values as Coq terms (shared by the translator and the harness)."""
from __future__ import annotations

import math


def coq_str(s: str) -> str:
    """A Coq term of type [str] (list of code points) for the Python string s.

    Printable ASCII goes into an escaped string literal decoded by [Str.esc]; everything else is
    written as a backslash, the decimal code point and a semicolon.  Short non-ASCII-heavy strings
    could be written as raw lists, but one scheme keeps the Coq side simple.
    """
    out = []
    for ch in s:
        o = ord(ch)
        if ch == "\\":
            out.append("\\\\")
        elif ch == '"':
            out.append('""')
        elif 32 <= o < 127:
            out.append(ch)
        else:
            out.append("\\%d;" % o)
    return '(esc "%s"%%string)' % "".join(out)


def coq_Z(n: int) -> str:
    return "(%d)" % n if n < 0 else "%d" % n


def coq_N(n: int) -> str:
    assert n >= 0
    return "%d%%N" % n


def coq_bool(b: bool) -> str:
    return "true" if b else "false"


def coq_list(items) -> str:
    return "[" + "; ".join(items) + "]"


def coq_option(x, f) -> str:
    return "None" if x is None else "(Some %s)" % f(x)


def coq_float(x: float) -> str:
    """Exact literal for a Python float (see Float64.F)."""
    if x != x:
        return "Fnan"
    if x in (math.inf, -math.inf):
        return "(Finf %s)" % coq_bool(x < 0)
    if x == 0:
        return "Fnegzero" if math.copysign(1.0, x) < 0 else "fzero"
    m, e = math.frexp(x)
    mi = int(m * (1 << 53))
    assert mi / (1 << 53) == m
    return "(F %s %s)" % (coq_Z(mi), coq_Z(e - 53))


def coq_ranges(rs) -> str:
    return coq_list("(%s, %s)" % (coq_N(a), coq_N(b)) for a, b in rs)
