"""Driver of every check: extract -> build obligations -> correspondence -> triage -> evidence.

Usage (through /verif/check):
    check --setup
    check Cxx [--tier quick|thorough] [--replay FILE]

Environment: VERIF_SEED (int, default 0), VERIF_TIER (quick|thorough).
Exit status 0 = the property held on everything explored; 1 = a line
"VIOLATION property=<id> replay=<path>[ no-failing-input-found]" was printed.
"""
from __future__ import annotations

import fcntl
import glob
import hashlib
import importlib
import json
import os
import random
import re
import shutil
import subprocess
import sys
import time

VERIF = os.path.dirname(os.path.dirname(os.path.abspath(__file__)))
COQ = os.path.join(VERIF, "coq")
TOOLS = os.path.join(VERIF, "tools")
REPO = os.environ.get("CHARTPARSE_REPO", "/repo")
WORK = os.path.join(VERIF, "work")
REPLAYS = os.path.join(WORK, "replays")
EVID = os.environ.get("VERIF_EVIDENCE_DIR") or os.path.join(VERIF, "evidence")
LOCK = os.path.join(VERIF, ".lock")
PY = "/venv/bin/python"

sys.path.insert(0, TOOLS)
sys.path.insert(0, REPO)

FORBIDDEN = re.compile(r"\b(Admitted|admit|Axiom|Axioms|Parameter|Parameters|Conjecture|Hypothesis|Hypotheses|Variable|Variables|Unset Guard Checking|bypass_check|Admit Obligations|Unset Positivity Checking|Unset Universe Checking)\b")

STD_AXIOMS = (
    "ClassicalDedekindReals.sig_not_dec", "ClassicalDedekindReals.sig_forall_dec",
    "FunctionalExtensionality.functional_extensionality_dep", "Classical_Prop.classic",
)


STD_PREFIXES = ("Uint63.", "PrimInt63.", "Sint63.", "FloatAxioms.", "PrimFloat.")   # primitive machine integers (used by the Interval tactic), declared by the standard library


def std_axiom(a):
    return a in STD_AXIOMS or a.startswith(STD_PREFIXES)


class Lock:
    def __enter__(self):
        self.f = open(LOCK, "w")
        fcntl.flock(self.f, fcntl.LOCK_EX)
        return self

    def __exit__(self, *a):
        fcntl.flock(self.f, fcntl.LOCK_UN)
        self.f.close()


def sh(cmd, timeout=3600, cwd=None, env=None):
    e = dict(os.environ)
    e.update(PYTHONPATH=REPO, PYTHONHASHSEED="0")
    if env:
        e.update(env)
    try:
        p = subprocess.run(cmd, shell=isinstance(cmd, str), cwd=cwd, env=e, capture_output=True, text=True, timeout=timeout)
        return p.returncode, p.stdout + p.stderr
    except subprocess.TimeoutExpired as ex:
        return 124, "timeout after %ss: %s" % (timeout, ex)


# ------------------------------------------------------------------------------------------------
# source scan: no axioms, no admits, no kernel switches (section Variables/Hypotheses are allowed
# only inside a Section: checked by looking for an enclosing Section in the same file)
# ------------------------------------------------------------------------------------------------

def _strip_comments(text):
    out = []
    depth = 0
    i = 0
    n = len(text)
    in_str = False
    while i < n:
        if not in_str and text.startswith("(*", i):
            depth += 1
            i += 2
            continue
        if not in_str and depth > 0 and text.startswith("*)", i):
            depth -= 1
            i += 2
            continue
        ch = text[i]
        if depth == 0:
            if ch == '"':
                in_str = not in_str
            out.append(ch)
        elif ch == "\n":
            out.append(ch)
        i += 1
    return "".join(out)


def scan_sources():
    """Returns list of offending (file, line, word)."""
    bad = []
    for path in sorted(glob.glob(os.path.join(COQ, "**", "*.v"), recursive=True)):
        rel = os.path.relpath(path, COQ)
        if rel.startswith("Corr" + os.sep):
            continue
        text = _strip_comments(open(path, encoding="utf-8").read())
        text = re.sub(r'"(?:[^"]|"")*"', '""', text)
        section_depth = 0
        for ln, line in enumerate(text.split("\n"), 1):
            if re.match(r"\s*Section\s+\w+", line):
                section_depth += 1
            if re.match(r"\s*End\s+\w+", line) and section_depth > 0:
                section_depth -= 1
            for m in FORBIDDEN.finditer(line):
                w = m.group(1)
                if w in ("Variable", "Variables", "Hypothesis", "Hypotheses") and section_depth > 0:
                    continue
                bad.append((rel, ln, w))
    proj = open(os.path.join(COQ, "_CoqProject")).read()
    for flag in ("-type-in-type", "-impredicative-set", "-vos", "-vok"):
        if flag in proj:
            bad.append(("_CoqProject", 0, flag))
    return bad


# ------------------------------------------------------------------------------------------------
# extraction and build
# ------------------------------------------------------------------------------------------------

def extract():
    rc, out = sh([PY, os.path.join(TOOLS, "extract.py")], timeout=600)
    info = None
    for line in out.splitlines():
        line = line.strip()
        if line.startswith("{"):
            try:
                info = json.loads(line)
            except ValueError:
                pass
    if info is None:
        info = {"ok": False, "reason": "extractor crashed: " + out[-1500:]}
    rc2, out2 = sh([PY, os.path.join(TOOLS, "extract_imports.py")], timeout=600)
    iinfo = None
    for line in out2.splitlines():
        line = line.strip()
        if line.startswith("{"):
            try:
                iinfo = json.loads(line)
            except ValueError:
                pass
    if iinfo is None:
        iinfo = {"ok": False, "reason": "import extractor crashed: " + out2[-1500:]}
    info["imports"] = iinfo
    rc3, out3 = sh([PY, os.path.join(TOOLS, "extract_leaf.py")], timeout=600)
    linfo = None
    for line in out3.splitlines():
        line = line.strip()
        if line.startswith("{"):
            try:
                linfo = json.loads(line)
            except ValueError:
                pass
    if linfo is None:
        linfo = {"ok": False, "groups": {}, "reason": "leaf translator crashed: " + out3[-1500:]}
    info["leaf"] = linfo
    return info


def v_files():
    fs = []
    for path in sorted(glob.glob(os.path.join(COQ, "**", "*.v"), recursive=True)):
        rel = os.path.relpath(path, COQ)
        if rel.startswith("Corr" + os.sep):
            continue
        fs.append(rel)
    return fs


def coq_makefile():
    rc, out = sh("coq_makefile -f _CoqProject %s -o Makefile" % " ".join(v_files()), cwd=COQ)
    if rc != 0:
        raise RuntimeError("coq_makefile failed: " + out)


def make(targets, timeout=3000, jobs=16):
    stamp = os.path.join(COQ, ".vfiles_py")
    cur = "\n".join(v_files())
    try:
        old = open(stamp).read()
    except FileNotFoundError:
        old = None
    if old != cur or not os.path.exists(os.path.join(COQ, "Makefile")):
        coq_makefile()
        try:
            os.remove(os.path.join(COQ, ".Makefile.d"))
        except FileNotFoundError:
            pass
        open(stamp, "w").write(cur)
    rc, out = sh("make -j%d %s" % (jobs, " ".join(targets)), cwd=COQ, timeout=timeout)
    if rc != 0 and "No rule to make target" in out:
        coq_makefile()
        rc, out = sh("make -j%d %s" % (jobs, " ".join(targets)), cwd=COQ, timeout=timeout)
    return rc, out


def setup():
    os.makedirs(WORK, exist_ok=True)
    with Lock():
        info = extract()
        if not info.get("ok"):
            print("setup: extraction failed: %s" % info.get("reason"))
            return 1
        if not info["imports"].get("ok"):
            print("setup: import extraction failed: %s" % info["imports"].get("reason"))
            return 1
        sh("make clean", cwd=COQ) if os.path.exists(os.path.join(COQ, "Makefile")) else None
        for pat in ("**/*.vo", "**/*.vok", "**/*.vos", "**/*.glob", "**/.*.aux"):
            for p in glob.glob(os.path.join(COQ, pat), recursive=True):
                os.remove(p)
        shutil.rmtree(os.path.join(COQ, "Corr"), ignore_errors=True)
        os.makedirs(os.path.join(COQ, "Corr"), exist_ok=True)
        coq_makefile()
        t0 = time.time()
        targets = ["Harness/H.vo", "Model/Obs.vo", "Base/RegexDiff.vo"] + [os.path.relpath(x, COQ)[:-2] + ".vo" for x in sorted(glob.glob(os.path.join(COQ, "Tie", "*.v")))]
        rc, out = make(targets, timeout=6000)
        open(os.path.join(WORK, "setup_build.log"), "w").write(out)
        if rc != 0:
            print(out[-4000:])
            print("setup: build failed")
            return 1
        print("setup: built %d files in %.0fs" % (len(v_files()), time.time() - t0))
    return 0


def run_coq_snippet(name, body, timeout=600):
    """Compile a throw-away file under Corr/ and return (rc, output)."""
    d = os.path.join(COQ, "Corr")
    os.makedirs(d, exist_ok=True)
    stem = "%s_%d" % (name, os.getpid())
    path = os.path.join(d, stem + ".v")
    open(path, "w").write(body)
    rc, out = sh(["coqc", "-R", COQ, "CP", "-w", "-all", path], timeout=timeout)
    for ext in (".v", ".vo", ".vok", ".vos", ".glob"):
        try:
            os.remove(os.path.join(d, stem + ext))
        except FileNotFoundError:
            pass
    try:
        os.remove(os.path.join(d, "." + stem + ".aux"))
    except FileNotFoundError:
        pass
    return rc, out


def theorem_names(pid):
    path = os.path.join(COQ, "Properties", pid + ".v")
    names = re.findall(r"^\s*(?:Theorem|Corollary)\s+(\w+)", _strip_comments(open(path).read()), re.M)
    return names


def print_assumptions(pid, extra_requires=""):
    names = theorem_names(pid)
    body = "From CP Require Import Properties.%s.\n%s" % (pid, extra_requires)
    for n in names:
        body += 'Print Assumptions %s.\n' % n
    rc, out = run_coq_snippet("assume_" + pid, body)
    if rc != 0:
        return names, None, out[-2000:]
    # split per theorem: coq prints either "Closed under the global context" or "Axioms:\n..."
    axioms = sorted(set(re.findall(r"^([A-Za-z_][\w.]*)\s*(?::|$)", "\n".join(
        l for l in out.splitlines() if not l.startswith(" ") and l.strip() not in ("Axioms:", "Closed under the global context")), re.M)))
    return names, axioms, out


# ------------------------------------------------------------------------------------------------
# known findings
# ------------------------------------------------------------------------------------------------

def known_findings(pid):
    path = os.path.join(VERIF, "known_findings.json")
    try:
        data = json.load(open(path))
    except FileNotFoundError:
        return []
    return [e for e in data.get("findings", []) if e.get("property") == pid]


# ------------------------------------------------------------------------------------------------
# the check itself
# ------------------------------------------------------------------------------------------------

def write_replay(pid, seed, payload):
    os.makedirs(REPLAYS, exist_ok=True)
    h = hashlib.sha256(json.dumps(payload, sort_keys=True, default=str).encode()).hexdigest()[:12]
    path = os.path.join(REPLAYS, "%s_%s.json" % (pid, h))
    json.dump(payload, open(path, "w"), indent=1, default=str)
    return path


def run_check(pid, tier, seed, replay=None):
    t0 = time.time()
    os.makedirs(WORK, exist_ok=True)
    os.makedirs(EVID, exist_ok=True)
    mod = importlib.import_module("props." + pid)
    obligations = []      # (name, ok, detail)
    notes = []

    with Lock():
        bad = scan_sources()
        obligations.append(("no Admitted/admit/Axiom/Parameter/kernel switch in the development", not bad, bad[:10]))
        info = extract()
        ok_extract = bool(info.get("ok")) and (pid != "C20" or bool(info.get("imports", {}).get("ok")))
        obligations.append(("translator regenerates Gen/Src.v from /repo (fail-closed)", bool(info.get("ok")), info.get("reason")))
        if pid == "C20":
            obligations.append(("translator regenerates Gen/Imports.v from /repo (fail-closed)", bool(info.get("imports", {}).get("ok")), info.get("imports", {}).get("reason")))
        # the per-run obligations: Properties/<pid>.vo (generic theorems) and Tie/<pid>.vo (cfg_ok on the
        # regenerated configuration and the closed corollaries)
        rc, out = make(["Properties/%s.vo" % pid])
        obligations.append(("Properties/%s.v compiles (all generic theorems re-checked if stale)" % pid, rc == 0, out[-1500:] if rc else None))
        tie_ok = False
        if info.get("ok"):
            rc, out = make(["Tie/%s.vo" % pid, "Model/Obs.vo", "Harness/H.vo", "Gen/Src.vo"])
            tie_ok = rc == 0
            obligations.append(("Tie/%s.v compiles: cfg_ok items hold of the regenerated configuration and the closed corollaries follow" % pid, tie_ok, out[-2500:] if rc else None))
            for grp in getattr(mod, "LEAF", []):
                # a Tie file is named after the translator group it is about (Tie/Leaf_build.v is a second file about Leaf_note)
                g = info.get("leaf", {}).get("groups", {}).get({"Leaf_build": "Leaf_note"}.get(grp, grp), {})
                rc, out = make(["Tie/%s.vo" % grp]) if g.get("ok") else (1, g.get("reason") or info.get("leaf", {}).get("reason") or "not translated")
                obligations.append(("Tie/%s.v compiles: the function bodies translated from the current source by tools/extract_leaf.py equal the model's definitions" % grp,
                                    rc == 0, out[-1500:] if rc else None))
        else:
            obligations.append(("Tie/%s.v compiles" % pid, False, "extraction failed"))
            # make sure the model itself is built against the last good Gen/Src.v so that the
            # search for a failing input can still judge the implementation's outputs
            make(["Model/Obs.vo", "Harness/H.vo", "Gen/Src.vo"])

    names, axioms, ass_out = print_assumptions(pid)
    obligations.append(("Print Assumptions on %d theorems of Properties/%s.v lists only standard-library axioms" % (len(names), pid),
                        axioms is not None and all(std_axiom(a) for a in axioms), axioms if axioms is not None else ass_out))

    if tier == "thorough" and tie_ok:
        # independent re-check of the compiled theorems and everything they depend on, with the axiom list
        mods = ["CP.Tie.%s" % pid] + ["CP.Tie.%s" % g for g in getattr(mod, "LEAF", [])]
        rc, out = sh(["timeout", "-k", "5", "1200", "coqchk", "-silent", "-o", "-R", COQ, "CP"] + mods, timeout=1300)
        chk_axioms = []
        if "* Axioms:" in out:
            blk = out.split("* Axioms:", 1)[1].split("* Constants/Inductives", 1)[0]
            chk_axioms = [l.strip() for l in blk.splitlines() if l.strip() and l.strip() != "<none>"]
        def chk_std(a):
            short = a[4:] if a.startswith("Coq.") else a
            return any(short.endswith(x) for x in STD_AXIOMS) or any(("." + pre) in ("." + short) for pre in STD_PREFIXES) \
                or short.startswith(("Numbers.Cyclic.Int63.", "Floats.", "Interval.", "Flocq."))
        clean = rc == 0 and all(chk_std(a) for a in chk_axioms) and "type-in-type: <none>" in out and "unsafe (co)fixpoints: <none>" in out and "positivity is assumed: <none>" in out
        if rc in (124, 137):
            # the independent checker also re-checks every library the theorems depend on; with the Interval library
            # (float error analysis) that exceeds the time budget of a check: recorded, not counted either way
            notes.append("coqchk %s: did not finish within 20 min (Flocq/Interval dependencies are re-checked too); not counted as an obligation" % " ".join(mods))
        else:
            obligations.append(("coqchk re-checks %s (independent checker; %d axioms, all declared by the standard library; no type-in-type, unsafe fixpoints or assumed positivity)" % (" ".join(mods), len(chk_axioms)),
                                clean, None if clean else out[-1500:]))
            notes.append("coqchk axioms: " + "; ".join(chk_axioms))

    failing_items = []
    if info.get("ok") and not tie_ok and hasattr(mod, "DIAG"):
        rc, out = run_coq_snippet("diag_" + pid, mod.DIAG)
        failing_items = re.findall(r'"([^"]+)"', out) if rc == 0 else ["(diagnostic failed) " + out[-300:]]

    # correspondence ------------------------------------------------------------------------
    rng = random.Random((seed * 1000003) ^ int(hashlib.sha256(pid.encode()).hexdigest()[:8], 16))
    ctx = dict(tier=tier, seed=seed, rng=rng, extract=info, broken=not all(o[1] for o in obligations))
    empty = dict(evaluations=0, distinct_nontrivial=0, mism=[], viol=[], declined=0, errors=[], samples=[], distribution={}, obligations=[])
    try:
        if replay:
            payload = json.load(open(replay))
            result = mod.run(ctx, only=payload.get("cases") or [payload.get("case")])
        else:
            result = mod.run(ctx)
    except Exception as e:  # noqa: BLE001 - the harness itself could not run against this tree
        import traceback
        result = dict(empty)
        result["obligations"] = [("correspondence harness runs against the current tree", False, traceback.format_exc()[-1500:])]
    if not replay:
        broken_now = not all(o[1] for o in obligations) or result["mism"] or not all(o[1] for o in result.get("obligations", []))
        extra = None
        if broken_now and not result["viol"] and hasattr(mod, "search"):
            # something is no longer shown: look harder for a concrete failing input
            try:
                extra = mod.search(ctx, result)
            except Exception:  # noqa: BLE001
                extra = None
        if extra:
            if True:
                result["viol"] += extra.get("viol", [])
                result["evaluations"] += extra.get("evaluations", 0)
                notes.append("search: %s" % extra.get("note", ""))
    for name, ok, detail in result.get("obligations", []):
        obligations.append((name, ok, detail))

    # triage ------------------------------------------------------------------------------------
    known = known_findings(pid)
    open_known = [k for k in known if k.get("status") == "open"]
    violations = []
    known_hits = []
    for v in result["viol"]:
        sig = v.get("signature", "")
        hit = next((k for k in open_known if k.get("signature") == sig), None)
        if hit:
            known_hits.append((hit, v))
        else:
            violations.append(v)
    lines_out = []
    for hit, v in known_hits[:1] if known_hits else []:
        pass
    seen = set()
    for hit, v in known_hits:
        if hit["signature"] in seen:
            continue
        seen.add(hit["signature"])
        lines_out.append("KNOWN-FINDING: property=%s %s" % (pid, hit.get("what", hit["signature"])))

    unshown = [o for o in obligations if not o[1]]
    exit_code = 0
    if violations:
        v = violations[0]
        path = write_replay(pid, seed, dict(property=pid, kind="failing-input", case=v.get("case"), observed=v.get("observed"),
                                            required=v.get("required"), detail=v.get("detail"), seed=seed, tier=tier,
                                            n_violations=len(violations)))
        lines_out.append("VIOLATION property=%s replay=%s" % (pid, path))
        exit_code = 1
    elif unshown or result["mism"] or result["errors"]:
        first = result["mism"][0] if result["mism"] else None
        path = write_replay(pid, seed, dict(
            property=pid, kind="no-failing-input-found",
            broken_obligations=[dict(name=o[0], detail=o[2]) for o in unshown],
            failing_cfg_ok_items=failing_items,
            correspondence_disagreements=len(result["mism"]),
            first_disagreement=first, shard_errors=result["errors"][:3],
            cases=[first["case"]] if first else [], seed=seed, tier=tier,
            explanation="a proof obligation or the model/implementation correspondence no longer checks, so the property is "
                        "no longer shown to hold; the search evaluated %d inputs against the executable specification without finding a failing one" % result["evaluations"]))
        lines_out.append("VIOLATION property=%s replay=%s no-failing-input-found" % (pid, path))
        exit_code = 1

    # evidence ---------------------------------------------------------------------------------
    n_ob = len(obligations)
    n_ok = sum(1 for o in obligations if o[1])
    ev = dict(
        property_id=pid, tier=tier, seed=seed, level="proof",
        coverage=dict(
            obligations=n_ob, discharged=n_ok,
            checker_cmd="cd /verif/coq && make Properties/%s.vo Tie/%s.vo (coqc 8.16.1, full .vo build) ; coqc Corr/*.v (vm_compute correspondence shards)" % (pid, pid),
            trusted_base=[
                "Coq 8.16.1 kernel incl. vm_compute (no native_compute, no extraction)",
                "axioms reported by Print Assumptions for the theorems of Properties/%s.v: %s" % (pid, ", ".join(axioms) if axioms else ("none (closed under the global context)" if axioms == [] else "unavailable")),
                "tools/extract.py (translator /repo -> Gen/Src.v), tools/props/%s.py + tools/pyval.py + tools/corr.py (correspondence harness)" % pid,
                "tools/extract_leaf.py and tools/extract_meta.py (translators of function bodies and of the metadata closures, /repo -> Gen/Leaf_*.v; its output is proved equal to the model in Tie/Leaf_*.v, listed among the obligations)",
                "hand-written model coq/Model/*.v, tied to /repo by those equalities and by the correspondence below",
            ],
            theorems=names,
            obligation_list=[dict(name=o[0], ok=bool(o[1])) for o in obligations],
            evaluations=result["evaluations"], distinct_nontrivial=result["distinct_nontrivial"],
            rule=getattr(mod, "RULE", ""), samples=result.get("samples", [])[:5],
            distribution=result.get("distribution", {}),
            model_vs_impl_disagreements=len(result["mism"]), model_declined=result.get("declined", 0),
            spec_violations_on_impl_output=len(result["viol"]),
            source_fingerprints=info.get("fingerprints", {}),
            exhaustive=False,
        ),
        assumptions=getattr(mod, "ASSUMPTIONS", []),
        wall_s=round(time.time() - t0, 1),
        violations=len(violations) + (1 if (exit_code and not violations) else 0),
    )
    if notes:
        ev["coverage"]["notes"] = notes
    json.dump(ev, open(os.path.join(EVID, pid + ".json"), "w"), indent=1, default=str)
    for l in lines_out:
        print(l)
    print("%s %s tier=%s seed=%d: obligations %d/%d, %d cases (%d distinct non-trivial), %d disagreements, %d spec violations, %.0fs" % (
        "FAIL" if exit_code else "ok", pid, tier, seed, n_ok, n_ob, result["evaluations"], result["distinct_nontrivial"],
        len(result["mism"]), len(result["viol"]), time.time() - t0))
    if exit_code and unshown:
        for o in unshown:
            print("  unshown: %s :: %s" % (o[0], str(o[2])[:600]))
    return exit_code


def main(argv):
    if len(argv) >= 2 and argv[1] == "--setup":
        return setup()
    if len(argv) < 2:
        print(__doc__)
        return 2
    pid = argv[1]
    tier = os.environ.get("VERIF_TIER", "quick")
    replay = None
    i = 2
    while i < len(argv):
        if argv[i] == "--tier":
            tier = argv[i + 1]
            i += 2
        elif argv[i] == "--replay":
            replay = argv[i + 1]
            i += 2
        else:
            i += 1
    seed = int(os.environ.get("VERIF_SEED", "0") or 0)
    return run_check(pid, tier, seed, replay)


if __name__ == "__main__":
    sys.exit(main(sys.argv))
