"""Static purity scan of /repo/chartparse (C17): which process-wide state exists and who writes it.

Returns a list of (description, ok) items:
 * every functools cache-decorated function takes only hashable parameters it fully keys on (all its free
   variables are parameters, builtins, or module-level names that are never rebound or mutated);
 * no function has a mutable default argument;
 * no module-level or class-level name is bound to a mutable container that some function body mutates
   (subscript/attribute assignment, augmented assignment, mutating method call), and no function uses
   `global` / rebinding of module names;
Everything is decided from the ast; unknown constructs fail closed.
"""
from __future__ import annotations

import ast
import builtins
import os

MUTATORS = {"append", "extend", "insert", "add", "update", "pop", "popitem", "clear", "setdefault", "remove", "discard", "sort", "reverse",
            "__setitem__", "__delitem__", "appendleft", "extendleft", "subtract", "move_to_end"}
MUTABLE_CALLS = {"dict", "list", "set", "defaultdict", "Counter", "OrderedDict", "deque", "bytearray", "ChainMap"}
CACHE_DECOS = {"lru_cache", "cache", "cached"}


def _is_mutable_value(node):
    if isinstance(node, (ast.Dict, ast.List, ast.Set, ast.ListComp, ast.DictComp, ast.SetComp)):
        return True
    if isinstance(node, ast.Call):
        f = node.func
        name = f.id if isinstance(f, ast.Name) else f.attr if isinstance(f, ast.Attribute) else None
        return name in MUTABLE_CALLS
    return False


def _deco_name(d):
    if isinstance(d, ast.Call):
        d = d.func
    if isinstance(d, ast.Attribute):
        return d.attr
    if isinstance(d, ast.Name):
        return d.id
    return None


def scan(repo):
    items = []
    pkg = os.path.join(repo, "chartparse")
    for fn in sorted(os.listdir(pkg)):
        if not fn.endswith(".py"):
            continue
        mod = fn[:-3]
        tree = ast.parse(open(os.path.join(pkg, fn)).read())
        # containers at module and class level
        containers = {}          # name -> where
        for node in tree.body:
            if isinstance(node, (ast.Assign, ast.AnnAssign)):
                val = node.value
                tgts = node.targets if isinstance(node, ast.Assign) else [node.target]
                if val is not None and _is_mutable_value(val):
                    for t in tgts:
                        if isinstance(t, ast.Name):
                            containers[t.id] = "module"
        for cls in [n for n in ast.walk(tree) if isinstance(n, ast.ClassDef)]:
            for node in cls.body:
                if isinstance(node, (ast.Assign, ast.AnnAssign)):
                    val = node.value
                    tgts = node.targets if isinstance(node, ast.Assign) else [node.target]
                    if val is not None and _is_mutable_value(val):
                        for t in tgts:
                            if isinstance(t, ast.Name):
                                containers[t.id] = "class " + cls.name
        module_names = {n.id for node in tree.body for n in ast.walk(node) if isinstance(node, (ast.Assign, ast.AnnAssign)) and isinstance(n, ast.Name) and isinstance(n.ctx, ast.Store)}
        funcs = [n for n in ast.walk(tree) if isinstance(n, (ast.FunctionDef, ast.AsyncFunctionDef, ast.Lambda))]
        written = set()
        for f in funcs:
            if isinstance(f, ast.Lambda):
                continue
            # mutable defaults
            for d in list(f.args.defaults) + [d for d in f.args.kw_defaults if d is not None]:
                items.append(("%s.%s: default argument values are immutable" % (mod, f.name), not _is_mutable_value(d)))
            local = {a.arg for a in f.args.args + f.args.kwonlyargs + f.args.posonlyargs}
            if f.args.vararg:
                local.add(f.args.vararg.arg)
            if f.args.kwarg:
                local.add(f.args.kwarg.arg)
            for n in ast.walk(f):
                if isinstance(n, ast.Name) and isinstance(n.ctx, ast.Store):
                    local.add(n.id)
            for n in ast.walk(f):
                if isinstance(n, (ast.Global, ast.Nonlocal)):
                    for nm in n.names:
                        if nm in module_names or isinstance(n, ast.Global):
                            written.add((nm, f.name, "global/nonlocal"))
                tgt = None
                if isinstance(n, ast.Assign):
                    tgt = n.targets
                elif isinstance(n, (ast.AugAssign, ast.AnnAssign)):
                    tgt = [n.target]
                elif isinstance(n, ast.Delete):
                    tgt = n.targets
                for t in tgt or []:
                    base = t
                    while isinstance(base, (ast.Subscript, ast.Attribute)):
                        base = base.value
                    if isinstance(t, (ast.Subscript, ast.Attribute)) and isinstance(base, ast.Name):
                        # x[...] = / x.attr = where x is a module/class container (not a local), or cls./self.<container>
                        if base.id in containers and base.id not in local:
                            written.add((base.id, f.name, "item/attribute assignment"))
                        if base.id in ("cls", "self") or base.id[:1].isupper():
                            chain = t
                            names = []
                            while isinstance(chain, (ast.Subscript, ast.Attribute)):
                                if isinstance(chain, ast.Attribute):
                                    names.append(chain.attr)
                                chain = chain.value
                            for nm in names:
                                if nm in containers and isinstance(t, ast.Subscript):
                                    written.add((nm, f.name, "item assignment through %s" % base.id))
                if isinstance(n, ast.Call) and isinstance(n.func, ast.Attribute) and n.func.attr in MUTATORS:
                    recv = n.func.value
                    names = []
                    r = recv
                    while isinstance(r, (ast.Attribute, ast.Subscript)):
                        if isinstance(r, ast.Attribute):
                            names.append(r.attr)
                        r = r.value
                    if isinstance(r, ast.Name):
                        if r.id in containers and r.id not in local:
                            written.add((r.id, f.name, "." + n.func.attr))
                        for nm in names:
                            if nm in containers and r.id in ("cls", "self") or (nm in containers and r.id[:1].isupper()):
                                written.add((nm, f.name, "." + n.func.attr))
        for name, where in sorted(containers.items()):
            ws = sorted(w for w in written if w[0] == name)
            items.append(("%s: %s-level container %s is never mutated by a function%s" % (mod, where, name, "" if not ws else " (written by %s via %s)" % (ws[0][1], ws[0][2])), not ws))
        for w in sorted(written):
            if w[0] not in containers:
                items.append(("%s: function %s does not rebind module state %s" % (mod, w[1], w[0]), False))
        # cache-decorated functions
        for f in funcs:
            if isinstance(f, ast.Lambda):
                continue
            if any(_deco_name(d) in CACHE_DECOS for d in f.decorator_list):
                params = {a.arg for a in f.args.args + f.args.kwonlyargs + f.args.posonlyargs}
                local = set(params)
                for n in ast.walk(f):
                    if isinstance(n, ast.Name) and isinstance(n.ctx, ast.Store):
                        local.add(n.id)
                    if isinstance(n, ast.comprehension):
                        for x in ast.walk(n.target):
                            if isinstance(x, ast.Name):
                                local.add(x.id)
                free = set()
                for n in ast.walk(ast.Module(body=f.body, type_ignores=[])):
                    if isinstance(n, ast.Name) and isinstance(n.ctx, ast.Load) and n.id not in local and not hasattr(builtins, n.id):
                        free.add(n.id)
                bad = sorted(x for x in free if x in containers or any(w[0] == x for w in written))
                items.append(("%s.%s: memoised function reads only its parameters and immutable module-level names (free names: %s)" % (mod, f.name, ", ".join(sorted(free)) or "none"), not bad))
                items.append(("%s.%s: memoised function has no *args/**kwargs and no defaults" % (mod, f.name),
                              f.args.vararg is None and f.args.kwarg is None and not f.args.defaults and not [d for d in f.args.kw_defaults if d is not None]))
    return items


if __name__ == "__main__":
    import sys
    for d, ok in scan(sys.argv[1] if len(sys.argv) > 1 else "/repo"):
        print("ok " if ok else "BAD", d)
