"""Rendering of chartparse objects / exceptions as Coq terms of the model's observable types
(see coq/Model/Obs.v).  Only public attributes (and the stored `_proximal_bpm_event_index`, which
property C11 speaks about) are read."""
from __future__ import annotations

import dataclasses
import logging
from datetime import timedelta

from coqfmt import coq_str, coq_Z, coq_bool, coq_list, coq_option, coq_float

US = timedelta(microseconds=1)


def us(td) -> int:
    return td // US


def errkind(e: BaseException) -> str:
    import chartparse.exceptions as ex
    if isinstance(e, ex.RegexNotMatchError):
        return "ERegexNotMatch"
    if isinstance(e, ex.MissingRequiredField):
        return "EMissingRequiredField"
    if isinstance(e, ex.UnreachableError):
        return "EUnreachable"
    if isinstance(e, dataclasses.FrozenInstanceError):
        return "EFrozen"
    if isinstance(e, ValueError):
        return "EValue"
    if isinstance(e, IndexError):
        return "EIndex"
    if isinstance(e, KeyError):
        return "EKey"
    if isinstance(e, TypeError):
        return "EType"
    if isinstance(e, AttributeError):
        return "EAttribute"
    if isinstance(e, AssertionError):
        return "EAssertion"
    if isinstance(e, OverflowError):
        return "EOverflow"
    if isinstance(e, ZeroDivisionError):
        return "EZeroDiv"
    if isinstance(e, ImportError):
        return "EImport"
    return "EOther"


def r_result(thunk, render) -> str:
    try:
        v = thunk()
    except Exception as e:  # noqa: BLE001 - the class is the observation
        return "(Err %s)" % errkind(e)
    return "(Ok %s)" % render(v)


def r_timed(e) -> str:
    return "%s %s %s" % (coq_Z(e.tick), coq_Z(us(e.timestamp)), coq_Z(e._proximal_bpm_event_index))


def r_bpm_event(e) -> str:
    return "(mkB %s %s %s %s)" % (coq_Z(e.tick), coq_Z(us(e.timestamp)), coq_float(e.bpm), coq_Z(e._proximal_bpm_event_index))


def r_ts_event(e) -> str:
    return "(mkTS %s %s %s)" % (r_timed(e), coq_Z(e.upper_numeral), coq_Z(e.lower_numeral))


def r_anchor(e) -> str:
    return "(mkA %s %s)" % (coq_Z(e.tick), coq_Z(us(e.timestamp)))


def r_global(e) -> str:
    return "(mkG %s %s)" % (r_timed(e), coq_str(e.value))


def r_special(e) -> str:
    return "(mkSP %s %s)" % (r_timed(e), coq_Z(e.sustain))


def r_track_event(e) -> str:
    return "(mkTE %s %s)" % (r_timed(e), coq_str(e.value))


def r_sustain(s) -> str:
    if isinstance(s, int):
        return "(SInt %s)" % coq_Z(s)
    return "(STuple %s)" % coq_list(coq_option(x, coq_Z) for x in s)


def r_note_event(e) -> str:
    spd = e.star_power_data
    return "(mkN %s %s %s %s %s %s)" % (
        r_timed(e),
        coq_Z(us(e.end_timestamp)),
        coq_list(coq_bool(bool(b)) for b in e.note.value),
        r_sustain(e.sustain),
        e.hopo_state.name,
        coq_option(None if spd is None else spd.star_power_event_index, coq_Z),
    )


def r_track(t) -> str:
    return "(mkTrack %s %s %s %s %s)" % (
        coq_str(t.instrument.value),
        coq_str(t.difficulty.value),
        coq_list(r_note_event(e) for e in t.note_events),
        coq_list(r_special(e) for e in t.star_power_events),
        coq_list(r_track_event(e) for e in t.track_events),
    )


def r_sync(s) -> str:
    return "(mkSync %s %s %s %s)" % (
        coq_list(r_ts_event(e) for e in s.time_signature_events),
        coq_list(r_bpm_event(e) for e in s.bpm_events.events),
        coq_Z(s.bpm_events.resolution),
        coq_list(r_anchor(e) for e in s.anchor_events),
    )


def r_gev(g) -> str:
    return "(mkGev %s %s %s)" % (
        coq_list(r_global(e) for e in g.text_events),
        coq_list(r_global(e) for e in g.section_events),
        coq_list(r_global(e) for e in g.lyric_events),
    )


def r_meta_val(v) -> str:
    import enum
    if v is None:
        return "MVNone"
    if isinstance(v, enum.Enum):
        return "(MVEnum %s)" % coq_str(v.value)
    if isinstance(v, int):
        return "(MVInt %s)" % coq_Z(v)
    if isinstance(v, str):
        return "(MVStr %s)" % coq_str(v)
    raise TypeError("unrenderable metadata value %r" % (v,))


_META_ORDER = None


def meta_order():
    global _META_ORDER
    if _META_ORDER is None:
        import extract
        try:
            _META_ORDER = [n for n, _ in extract.metadata_lookup_order()]
        except Exception:  # noqa: BLE001 - refactored source: fall back to the dataclass field order
            import chartparse.metadata as M
            _META_ORDER = [f.name for f in dataclasses.fields(M.Metadata)]
    return _META_ORDER


def r_metadata(m) -> str:
    return coq_list("(%s, %s)" % (coq_str(n), r_meta_val(getattr(m, n))) for n in meta_order())


def r_tracks(tracks) -> str:
    return coq_list(
        "(%s, %s)" % (coq_str(i.value), coq_list("(%s, %s)" % (coq_str(d.value), r_track(t)) for d, t in inner.items()))
        for i, inner in tracks.items()
    )


def r_chart(c) -> str:
    return "(mkChart %s %s %s %s)" % (r_metadata(c.metadata), r_gev(c.global_events_track), r_sync(c.sync_track), r_tracks(c.instrument_tracks))


# ---------------------------------------------------------------------------------------------
# logging capture
# ---------------------------------------------------------------------------------------------

class _Capture(logging.Handler):
    def __init__(self):
        super().__init__(level=logging.DEBUG)
        self.records = []

    def emit(self, record):
        self.records.append((record.name, record.getMessage()))


class capture_logs:
    """Context manager capturing the records of the chartparse loggers, canonicalised against the
    message templates found in the source (wording changes are not differences; a missing, extra
    or moved warning is)."""

    def __enter__(self):
        self.h = _Capture()
        self.loggers = [logging.getLogger(n) for n in ("chartparse.track", "chartparse.chart", "chartparse.instrument", "chartparse.sync", "chartparse.globalevents", "chartparse.metadata")]
        self.saved = []
        for lg in self.loggers:
            self.saved.append((lg.propagate, lg.level))
            lg.addHandler(self.h)
            lg.propagate = False
            lg.setLevel(logging.DEBUG)
        return self

    def __exit__(self, *a):
        for lg, (p, lv) in zip(self.loggers, self.saved):
            lg.removeHandler(self.h)
            lg.propagate = p
            lg.setLevel(lv)
        return False

    def rendered(self) -> str:
        import chartparse.track as tr
        import chartparse.chart as ch
        t1 = tr._unparsable_line_msg_tmpl.split("{}")
        t2 = ch.Chart._unhandled_data_section_log_msg_tmpl.split("{}")
        out = []
        for name, msg in self.h.records:
            if name == "chartparse.track" and len(t1) == 3 and msg.startswith(t1[0]) and t1[1] in msg[len(t1[0]):]:
                body = msg[len(t1[0]):]
                out.append("(LUnparsable %s)" % coq_str(body[: body.rindex(t1[1])]))
            elif name == "chartparse.chart" and len(t2) == 2 and msg.startswith(t2[0]) and msg.endswith(t2[1]):
                out.append("(LUnhandled %s)" % coq_str(msg[len(t2[0]): len(msg) - len(t2[1])]))
            else:
                out.append("(LOther %s)" % coq_str(name + ":" + msg))
        return coq_list(out)


def to_pairs(want):
    """want as list of (instrument value, difficulty value) -> real enum pairs."""
    import chartparse.instrument as instr
    if want is None:
        return None
    return [(instr.Instrument(i), instr.Difficulty(d)) for i, d in want]


def r_want(want) -> str:
    if want is None:
        return "None"
    return "(Some %s)" % coq_list("(%s, %s)" % (coq_str(i), coq_str(d)) for i, d in want)


def parse_text(text, want=None):
    """Chart.from_file on a StringIO, returning (chart or None, exception or None, Coq term)."""
    import io
    import chartparse.chart as chart_mod
    with capture_logs() as cap:
        try:
            if want is None:
                # no selection: the parameter is left to its default (callers that pass nothing are the common case)
                c = chart_mod.Chart.from_file(io.StringIO(text, newline=""))
            else:
                c = chart_mod.Chart.from_file(io.StringIO(text, newline=""), want_tracks=to_pairs(want))
            exc = None
        except Exception as e:  # noqa: BLE001
            c, exc = None, e
    if exc is not None:
        return None, exc, "(Err %s)" % errkind(exc)
    try:
        return c, None, "(Ok (%s, %s))" % (r_chart(c), cap.rendered())
    except Exception as e:  # noqa: BLE001
        # a returned chart that cannot even be walked (a list that is None, an attribute that is gone): reported as an outcome of its
        # own, which agrees with no model result and satisfies no specification
        return c, None, "(Err EOther)"
