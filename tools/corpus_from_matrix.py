#!/usr/bin/env python3
"""usage: tools/corpus_from_matrix.py <matrix file> ... : keep the failing input each check found on a seeded change as a regression
case corpus/<property>/seed_<id>.json (existing files are left alone).  The corpus runs first on every later run."""
import json, os, re, sys

n = 0
for mf in sys.argv[1:]:
    for line in open(mf):
        m = re.match(r"^(C\d\d_\d+) :: VIOLATION property=(C\d\d) replay=(\S+?)[ |]", line)
        if not m or "no-failing-input-found" in line.split("|")[0]:
            continue
        sid, pid, path = m.groups()
        dst = "/verif/corpus/%s/seed_%s.json" % (pid, sid)
        if os.path.exists(dst) or not os.path.exists(path):
            continue
        r = json.load(open(path))
        case = r.get("case")
        if not case:
            continue
        os.makedirs(os.path.dirname(dst), exist_ok=True)
        json.dump(case, open(dst, "w"), indent=1, sort_keys=True)
        n += 1
print("added", n)
