#!/bin/sh
# usage: tools/seed_matrix.sh <out file> <seed dirs...> : run each seeded change against the check of its own property
out="$1"; shift
: > "$out"
for d in "$@"; do
  id=$(basename "$d"); p=${id%%_*}
  r=$(/verif/tools/mutant.sh "$d/patch.diff" "$p" 2>&1 | grep -E "^VIOLATION|^FAIL|^ok|error:" | cut -c1-220 | tr '\n' '|')
  echo "$id :: $r" >> "$out"
done
