#!/venv/bin/python
"""Leaf translator: straight-line Python functions of /repo/chartparse -> Gallina definitions (coq/Gen/Leaf*.v).

A typed, fail-closed translation of a small Python subset, driven by a table that names each target
function, the types of its parameters, and how the attribute chains / callees it mentions are spelled in
the model.  `Tie/Leaf*.v` proves each generated definition equal to the hand-written model function, so a
change to one of these bodies breaks a Coq obligation directly instead of only through the sampled
correspondence.

Subset.  Statements: `if c: raise ValueError(...)`, `if c: return e`, `if c: return e [else: return e]`,
`x = e`, `return e`, a docstring.  Expressions: names, int literals, `+ - *` on ints, `abs`, comparisons
(incl. chained), `and / or / not`, `x is None`, `!=`/`==` on bools, NewType wrappers (`Ticks(e)` ...), the
float operations `float*int`, `float/int`, `int/float`, `int*float`, `int/int`, `round(float)` (each of which
may raise in Python and is a `result` in the model), indexing of a sequence, calls of functions listed in the
target's table.  Anything else aborts the translation of that group with a named reason.
"""
from __future__ import annotations

import ast
import json
import os
import sys

REPO = os.environ.get("CHARTPARSE_REPO", "/repo")
HERE = os.path.dirname(os.path.abspath(__file__))
GEN = os.environ.get("LEAF_GEN") or os.path.join(HERE, "..", "coq", "Gen")

WRAPPERS = {"Ticks", "Tick", "Seconds", "Timestamp", "int"}


class LeafError(Exception):
    pass


# attributes of typed model records
ATTRS = {"bpm": {"tick": ("b_tick", "int"), "bpm": ("b_bpm", "float"), "timestamp": ("b_ts", "ts"), "_proximal_bpm_event_index": ("b_idx", "int")},
         "timed": {"tick": ("t_tick", "int"), "timestamp": ("t_ts", "ts"), "_proximal_bpm_event_index": ("t_idx", "int")},
         "nd": {"tick": ("nd_tick", "int"), "note_track_index": ("nd_idx", "int"), "sustain": ("nd_sus", "int")},
         "bpmevents": {"resolution": ("resolution", "int")}}

# methods of typed model records: receiver type -> method -> (coq function taking the receiver first, [arg types], result type, monadic?)
METHODS = {"sp": {"tick_is_after_event": ("leaf_tick_is_after_event", ["int"], "bool", False),
                  "tick_is_during_event": ("leaf_tick_is_during_event", ["int"], "bool", False)},
           "bpmevents": {"timestamp_at_tick": ("timestamp_at_tick", ["int", "int"], "tuple:ts,int", True)}}


def find_function(tree, qual):
    parts = qual.split(".")
    body = tree.body
    node = None
    for p in parts:
        node = None
        for n in body:
            if isinstance(n, (ast.FunctionDef, ast.ClassDef)) and n.name == p:
                node = n        # the last definition of a name wins (typing.overload stubs come first)
        if node is None:
            raise LeafError("function %s not found" % qual)
        body = node.body
    if not isinstance(node, ast.FunctionDef):
        raise LeafError("%s is not a function" % qual)
    return node


class Tr:
    """Translator of one function.  env: python source text of an expression -> (coq term, type).
    calls: python callee text -> (coq function, [arg types], result type, monadic?)."""

    def __init__(self, name, env, calls, ret_type):
        self.name, self.env, self.calls, self.ret_type = name, dict(env), dict(calls), ret_type
        self.monadic = False
        self.narrow = {}
        self.fresh = 0

    def err(self, node, why):
        raise LeafError("%s: unsupported %s at line %s: %s" % (self.name, why, getattr(node, "lineno", "?"), ast.unparse(node)[:80]))

    # ---- expressions: returns (code, type, monadic) ------------------------------------------
    def expr(self, e):
        src = ast.unparse(e)
        if src in self.env:
            c, t = self.env[src]
            return c, t, False
        if isinstance(e, ast.Constant):
            if isinstance(e.value, bool):
                return ("true" if e.value else "false"), "bool", False
            if isinstance(e.value, int):
                return ("(%d)" % e.value if e.value < 0 else "%d" % e.value), "int", False
            if e.value is None:
                return "None", "none", False
            self.err(e, "constant")
        if isinstance(e, ast.Attribute):
            c, t, m = self.expr(e.value)
            if t.startswith("some:"):
                t = t[5:]
            if not m and t in ATTRS and e.attr in ATTRS[t]:
                fld, ft = ATTRS[t][e.attr]
                return "(%s %s)" % (fld, c), ft, False
            self.err(e, "attribute")
        if isinstance(e, ast.Call):
            fsrc = ast.unparse(e.func)
            if fsrc == "len" and len(e.args) == 1:
                c, t, m = self.expr(e.args[0])
                if t.startswith("list:") and not m:
                    return "(Zlength_ %s)" % c, "int", False
                self.err(e, "len of non-sequence")
            if fsrc == "int" and len(e.args) == 1 and not e.keywords:
                c, t, m = self.expr(e.args[0])
                if t == "str" and not m:
                    return "(py_int T %s)" % c, "int", True
                if t == "int":
                    return c, t, m
                self.err(e, "int() of %s" % t)
            if fsrc in WRAPPERS and len(e.args) == 1 and not e.keywords:
                return self.expr(e.args[0])
            if fsrc == "round" and len(e.args) == 2 and ast.unparse(e.args[1]) == "3":
                c, t, m = self.expr(e.args[0])
                if t != "float" or m:
                    self.err(e, "round(x, 3) of non-float")
                return "(py_round3 %s)" % c, "float", True
            if fsrc == "abs" and len(e.args) == 1:
                c, t, m = self.expr(e.args[0])
                if t != "int" or m:
                    self.err(e, "abs of non-int")
                return "(Z.abs %s)" % c, "int", False
            if fsrc == "round" and len(e.args) == 1:
                c, t, m = self.expr(e.args[0])
                if t != "float":
                    self.err(e, "round of non-float")
                if m:
                    return "(let* q := %s in py_round_int q)" % c, "int", True
                return "(py_round_int %s)" % c, "int", True
            if fsrc == "any" and len(e.args) == 1 and not e.keywords and isinstance(e.args[0], ast.GeneratorExp):
                g = e.args[0]
                if len(g.generators) != 1 or g.generators[0].ifs or g.generators[0].is_async or not isinstance(g.generators[0].target, ast.Name):
                    self.err(e, "generator shape")
                seq, tseq, mseq = self.expr(g.generators[0].iter)
                if not tseq.startswith("list:") or mseq:
                    self.err(e, "any over a non-sequence")
                v = g.generators[0].target.id
                saved = dict(self.env)
                self.env[v] = (v, tseq[5:])
                c, t, m = self.expr(g.elt)
                self.env = saved
                if t != "bool" or m:
                    self.err(e, "any of a non-boolean or raising test")
                return "(existsb (fun %s => %s) %s)" % (v, c, seq), "bool", False
            if isinstance(e.func, ast.Attribute) and fsrc not in self.calls:
                rc, rt_, rm = self.expr(e.func.value)
                if not rm and rt_ in METHODS and e.func.attr in METHODS[rt_]:
                    fn, argts, rt, mon = METHODS[rt_][e.func.attr]
                    args = list(e.args) + [k.value for k in e.keywords]
                    if len(args) != len(argts):
                        self.err(e, "method arity")
                    cs = [rc]
                    for a, at in zip(args, argts):
                        c, t, m = self.expr(a)
                        if m or t != at:
                            self.err(a, "method argument (type %s, wanted %s)" % (t, at))
                        cs.append(c)
                    return "(%s %s)" % (fn, " ".join(cs)), rt, mon
            if fsrc in self.calls:
                entry = self.calls[fsrc]
                fn, argts, rt, mon = entry[:4]
                if len(entry) > 4:
                    # keyword-only construction: every keyword must be present exactly once, in any order
                    if e.args or sorted(k.arg or "" for k in e.keywords) != sorted(entry[4]):
                        self.err(e, "keywords (wanted exactly %s)" % ", ".join(entry[4]))
                    byname = {k.arg: k.value for k in e.keywords}
                    args = [byname[k] for k in entry[4]]
                else:
                    args = list(e.args) + [k.value for k in e.keywords]
                if len(args) != len(argts):
                    self.err(e, "call arity")
                cs = []
                for a, at in zip(args, argts):
                    c, t, m = self.expr(a)
                    if m or t != at:
                        self.err(a, "call argument (type %s, wanted %s)" % (t, at))
                    cs.append(c)
                return "(%s %s)" % (fn, " ".join(cs)), rt, mon
            self.err(e, "call")
        if isinstance(e, ast.BinOp):
            a, ta, ma = self.expr(e.left)
            b, tb, mb = self.expr(e.right)
            if ma or mb:
                self.err(e, "nested operation that can raise")
            op = type(e.op)
            if ta == "int" and tb == "int":
                if op is ast.Add:
                    return "(%s + %s)" % (a, b), "int", False
                if op is ast.Sub:
                    return "(%s - %s)" % (a, b), "int", False
                if op is ast.Mult:
                    return "(%s * %s)" % (a, b), "int", False
                if op is ast.Pow and a == "2":
                    return "(2 ^ %s)" % b, "int", False
                if op is ast.Div:
                    return "(py_truediv_int %s %s)" % (a, b), "float", True
            if ta == "float" and tb == "int":
                if op is ast.Mult:
                    return "(py_mul_float_int %s %s)" % (a, b), "float", True
                if op is ast.Div:
                    return "(py_div_float_int %s %s)" % (a, b), "float", True
            if ta == "int" and tb == "float":
                if op is ast.Mult:
                    return "(py_mul_int_float %s %s)" % (a, b), "float", True
                if op is ast.Div:
                    return "(py_div_int_float %s %s)" % (a, b), "float", True
            self.err(e, "binary operation on (%s, %s)" % (ta, tb))
        if isinstance(e, ast.Compare):
            parts = []
            left = e.left
            for op, right in zip(e.ops, e.comparators):
                parts.append(self.compare(left, op, right, e))
                left = right
            code = parts[0]
            for p in parts[1:]:
                code = "(%s && %s)" % (code, p)
            return code, "bool", False
        if isinstance(e, ast.BoolOp):
            cs = []
            for v in e.values:
                c, t, m = self.expr(v)
                if t != "bool" or m:
                    self.err(v, "boolean operand")
                cs.append(c)
            sym = "&&" if isinstance(e.op, ast.And) else "||"
            code = cs[0]
            for c in cs[1:]:
                code = "(%s %s %s)" % (code, sym, c)
            return code, "bool", False
        if isinstance(e, ast.UnaryOp) and isinstance(e.op, ast.Not):
            c, t, m = self.expr(e.operand)
            if t.startswith("list:") and not m:
                return "(Zlength_ %s =? 0)" % c, "bool", False
            if t != "bool" or m:
                self.err(e, "not of non-bool")
            return "(negb %s)" % c, "bool", False
        if isinstance(e, ast.Subscript):
            a, ta, ma = self.expr(e.value)
            i, ti, mi = self.expr(e.slice)
            if ta.startswith("list:") and ti == "int" and not ma and not mi:
                return "(seq_get %s %s)" % (a, i), ta[5:], True
            self.err(e, "subscript")
        if isinstance(e, ast.IfExp):
            t0 = e.test
            name = None
            if isinstance(t0, ast.Name):
                name = t0.id
            elif (isinstance(t0, ast.Compare) and len(t0.ops) == 1 and isinstance(t0.ops[0], ast.IsNot) and ast.unparse(t0.comparators[0]) == "None"):
                name = ast.unparse(t0.left)
            if name is None or name not in self.env or not self.env[name][1].startswith("opt:"):
                self.err(e, "conditional expression (only `a if <optional> else b`)")
            c0, t_opt = self.env[name]
            saved = dict(self.env)
            v = "v_%d" % (len(self.env))
            self.env[name] = (v, t_opt[4:])
            for k, val in list(self.narrow.get(name, {}).items()):
                self.env[k] = (val[0].replace(c0, v), val[1]) if isinstance(val, tuple) else val
            a, ta, ma = self.expr(e.body)
            self.env = saved
            b, tb, mb = self.expr(e.orelse)
            if ma or mb or ta != tb:
                self.err(e, "conditional expression branches (%s, %s)" % (ta, tb))
            return "(match %s with Some %s => %s | None => %s end)" % (c0, v, a, b), ta, False
        if isinstance(e, ast.Tuple):
            cs = []
            ts = []
            for v in e.elts:
                c, t, m = self.expr(v)
                if m:
                    self.err(v, "tuple element that can raise")
                cs.append(c)
                ts.append(t)
            return "(%s)" % ", ".join(cs), "tuple:" + ",".join(ts), False
        self.err(e, "expression")

    def compare(self, l, op, r, whole):
        a, ta, ma = self.expr(l)
        b, tb, mb = self.expr(r)
        if ma or mb:
            self.err(whole, "comparison of operations that can raise")
        o = type(op)
        if o in (ast.Is, ast.IsNot) and tb == "none" and ta.startswith("opt:"):
            test = "(match %s with None => true | Some _ => false end)" % a
            return test if o is ast.Is else "(negb %s)" % test
        if ta == "int" and tb == "int":
            return {ast.Lt: "(%s <? %s)", ast.LtE: "(%s <=? %s)", ast.Eq: "(%s =? %s)"}.get(o, None) % (a, b) if o in (ast.Lt, ast.LtE, ast.Eq) else \
                {ast.Gt: "(%s <? %s)", ast.GtE: "(%s <=? %s)"}[o] % (b, a) if o in (ast.Gt, ast.GtE) else \
                "(negb (%s =? %s))" % (a, b) if o is ast.NotEq else self.err(whole, "int comparison")
        if ta == "float" and tb == "int" and b == "0":
            if o is ast.LtE:
                return "(f_le %s fzero)" % a
            if o is ast.Lt:
                return "(f_lt %s fzero)" % a
        if ta == "float" and tb == "float":
            if o is ast.NotEq:
                return "(negb (f_eq %s %s))" % (a, b)
            if o is ast.Eq:
                return "(f_eq %s %s)" % (a, b)
        if ta == "bool" and tb == "bool":
            if o is ast.NotEq:
                return "(negb (Bool.eqb %s %s))" % (a, b)
            if o is ast.Eq:
                return "(Bool.eqb %s %s)" % (a, b)
        if ta == tb and ta == "lanes":
            if o is ast.NotEq:
                return "(negb (lanes_eqb %s %s))" % (a, b)
            if o is ast.Eq:
                return "(lanes_eqb %s %s)" % (a, b)
        self.err(whole, "comparison on (%s, %s)" % (ta, tb))

    # ---- sequencing of sub-expressions that can raise -------------------------------------------
    def lifted(self, e):
        """(binds, code, type, monadic): `X.attr`, `X.method(..)` and `not ...` whose X can raise (an indexing) are sequenced
        through fresh let*-bound names, left to right; everything else is `expr`."""
        binds = []

        def atom(x):
            c, t, m = self.expr(x)
            if m:
                self.fresh += 1
                v = "x%d" % self.fresh
                binds.append((v, c))
                self.env["__tmp_" + v] = (v, t)
                return ast.Name(id="__tmp_" + v, ctx=ast.Load())
            return x

        def walk(x):
            # monadic sub-expressions in strict (always evaluated) positions are bound first, in evaluation order
            if ast.unparse(x) in self.env:
                return x
            if isinstance(x, ast.UnaryOp) and isinstance(x.op, ast.Not):
                return ast.UnaryOp(op=x.op, operand=walk(x.operand))
            if isinstance(x, ast.Attribute):
                return ast.Attribute(value=lift(x.value), attr=x.attr, ctx=ast.Load())
            if isinstance(x, ast.Call):
                func = x.func
                fsrc = ast.unparse(func)
                if fsrc in WRAPPERS and len(x.args) == 1 and not x.keywords:
                    return ast.Call(func=func, args=[walk(x.args[0])], keywords=[])      # NewType wrappers are transparent
                if isinstance(func, ast.Attribute) and fsrc not in self.calls:
                    func = ast.Attribute(value=lift(func.value), attr=func.attr, ctx=ast.Load())
                if any(isinstance(a, ast.GeneratorExp) for a in x.args):
                    return x
                return ast.Call(func=func, args=[lift(a) for a in x.args], keywords=[ast.keyword(arg=k.arg, value=lift(k.value)) for k in x.keywords])
            if isinstance(x, ast.BinOp):
                l = lift(x.left)
                return ast.BinOp(left=l, op=x.op, right=lift(x.right))
            if isinstance(x, ast.Compare):
                l = lift(x.left)
                return ast.Compare(left=l, ops=x.ops, comparators=[lift(c) for c in x.comparators])
            if isinstance(x, ast.Tuple):
                return ast.Tuple(elts=[lift(v) for v in x.elts], ctx=ast.Load())
            if isinstance(x, ast.Subscript):
                return ast.Subscript(value=lift(x.value), slice=lift(x.slice), ctx=ast.Load())
            return x        # names, constants, and the short-circuit forms (and/or, conditional expression): untouched

        def lift(x):
            if ast.unparse(x) in self.env or isinstance(x, (ast.Name, ast.Constant)):
                return x
            y = walk(x)
            c, t, m = self.expr(y)
            if m:
                self.fresh += 1
                v = "x%d" % self.fresh
                binds.append((v, c))
                self.env["__tmp_" + v] = (v, t)
                return ast.Name(id="__tmp_" + v, ctx=ast.Load())
            return y
        c, t, m = self.expr(walk(e))
        return binds, c, t, m

    @staticmethod
    def wrap(binds, code):
        for v, c in reversed(binds):
            code = "let* %s := %s in\n  %s" % (v, c, code)
        return code

    # ---- statements ----------------------------------------------------------------------------
    def ret(self, e):
        binds, c, t, m = self.lifted(e)
        if binds and not self.monadic_fn:
            self.err(e, "raising sub-expression in a total function")
        return self.wrap(binds, c if m else ("Ok %s" % c if self.monadic_fn else c))

    def block(self, stmts):
        if not stmts:
            if getattr(self, "procedure", False):
                return "Ok tt"
            raise LeafError("%s: control reaches the end of a block without return" % self.name)
        s, rest = stmts[0], stmts[1:]
        if isinstance(s, ast.Expr) and isinstance(s.value, ast.Constant) and isinstance(s.value.value, str):
            return self.block(rest)
        if isinstance(s, ast.Return):
            if rest:
                self.err(s, "code after return")
            self.env_after = {k: v[1] for k, v in self.env.items()}
            return self.ret(s.value)
        if isinstance(s, ast.Raise):
            exc = ast.unparse(s.exc.func if isinstance(s.exc, ast.Call) else s.exc)
            if exc != "ValueError":
                self.err(s, "raise of %s" % exc)
            return "Err EValue"
        if isinstance(s, (ast.Assign, ast.AnnAssign)) and not isinstance(s.value, ast.List):
            tgt = s.targets[0] if isinstance(s, ast.Assign) else s.target
            if isinstance(s, ast.Assign) and len(s.targets) != 1:
                self.err(s, "assignment target")
            binds, c, t, m = self.lifted(s.value)
            if isinstance(tgt, ast.Tuple):
                # a, b = <call returning a tuple>
                if not t.startswith("tuple:") or not all(isinstance(x, ast.Name) for x in tgt.elts):
                    self.err(s, "tuple assignment")
                ts = t[6:].split(",")
                if len(ts) != len(tgt.elts):
                    self.err(s, "tuple assignment arity")
                names = []
                for x, tx in zip(tgt.elts, ts):
                    if x.id == "_":
                        names.append("_")
                    else:
                        self.env[x.id] = (x.id, tx)
                        names.append(x.id)
                k = self.block(rest)
                pat = "(%s)" % ", ".join(names)
                return self.wrap(binds, ("let* %s := %s in\n  %s" if m else "let '%s := %s in\n  %s") % (pat, c, k))
            if not isinstance(tgt, ast.Name):
                self.err(s, "assignment target")
            self.env[tgt.id] = (tgt.id, t)
            k = self.block(rest)
            return self.wrap(binds, ("let* %s := %s in\n  %s" if m else "let %s := %s in\n  %s") % (tgt.id, c, k))
        # events = []
        # for D in DATAS:
        #     P = events[-1] if events else None
        #     events.append(F(..D..P..))
        # <rest reads events>
        if (isinstance(s, (ast.Assign, ast.AnnAssign)) and isinstance(s.value, ast.List) and not s.value.elts and len(rest) >= 2 and isinstance(rest[0], ast.For)):
            acc = (s.targets[0] if isinstance(s, ast.Assign) else s.target)
            f = rest[0]
            if (isinstance(acc, ast.Name) and isinstance(f.target, ast.Name) and not f.orelse and len(f.body) == 2
                    and isinstance(f.body[0], ast.Assign) and len(f.body[0].targets) == 1 and isinstance(f.body[0].targets[0], ast.Name)
                    and ast.unparse(f.body[0].value) == "%s[-1] if %s else None" % (acc.id, acc.id)
                    and isinstance(f.body[1], ast.Expr) and isinstance(f.body[1].value, ast.Call)
                    and ast.unparse(f.body[1].value.func) == acc.id + ".append" and len(f.body[1].value.args) == 1 and not f.body[1].value.keywords):
                seq, tseq, mseq = self.expr(f.iter)
                if not tseq.startswith("list:") or mseq:
                    self.err(f, "loop over a non-sequence")
                d, pv = f.target.id, f.body[0].targets[0].id
                call = f.body[1].value.args[0]
                # the element type is the result type of the call; the previous element is an optional of it
                saved = dict(self.env)
                self.env[d] = (d, tseq[5:])
                rt = self.fold_result_type(call)
                self.env[pv] = (pv, "opt:" + rt)
                binds, c, t, m = self.lifted(call)
                self.env = saved
                if t != rt or any(ast.unparse(n) == acc.id for n in ast.walk(call) if isinstance(n, ast.Name)):
                    self.err(f, "loop body")
                body = self.wrap(binds, c if m else "Ok %s" % c).replace("\n  ", " ")
                self.env[acc.id] = (acc.id, "list:" + rt)
                k = self.block(rest[1:])
                return "let* %s := fold_prev (fun %s %s => %s) %s in\n  %s" % (acc.id, d, pv, body, seq, k)
            self.err(s, "accumulation loop shape")
        # if C: <assignments> else: <assignments>   followed by code: the branches are joined on the names both assign
        if isinstance(s, ast.If) and s.orelse and rest:
            def assigned(stmts):
                names = []
                for st in stmts:
                    if isinstance(st, ast.Assign) and len(st.targets) == 1:
                        tg = st.targets[0]
                        for n in (tg.elts if isinstance(tg, ast.Tuple) else [tg]):
                            if isinstance(n, ast.Name) and n.id not in names:
                                names.append(n.id)
                    elif isinstance(st, ast.If):
                        for n in assigned(st.body) + assigned(st.orelse):
                            if n not in names:
                                names.append(n)
                return names
            a_then, a_else = assigned(s.body), assigned(s.orelse)
            joined = [n for n in a_then if n in a_else]
            if not joined:
                self.err(s, "if/else followed by code, with no commonly assigned name")
            synth = ast.Return(value=ast.Tuple(elts=[ast.Name(id=n, ctx=ast.Load()) for n in joined], ctx=ast.Load()) if len(joined) > 1
                               else ast.Name(id=joined[0], ctx=ast.Load()))
            saved_m, self.monadic_fn = self.monadic_fn, True
            saved_p, self.procedure = getattr(self, "procedure", False), False
            t = s.test
            env0 = dict(self.env)
            types = {}
            def branch(stmts):
                self.env = dict(env0)
                code = self.block(list(stmts) + [synth])
                for n in joined:
                    types.setdefault(n, []).append(self.env_after.get(n))
                return code
            if (isinstance(t, ast.Compare) and len(t.ops) == 1 and isinstance(t.ops[0], ast.Is) and ast.unparse(t.comparators[0]) == "None"
                    and ast.unparse(t.left) in self.env and self.env[ast.unparse(t.left)][1].startswith("opt:")):
                name = ast.unparse(t.left)
                c0, t0 = self.env[name]
                then = branch(s.body)
                self.env = dict(env0)
                env0_else = dict(env0)
                env0_else[name] = (c0, "some:" + t0[4:])
                for k2, v2 in list(self.narrow.get(name, {}).items()):
                    env0_else[k2] = v2
                saved_env0 = env0
                env0 = env0_else
                els = branch(s.orelse)
                env0 = saved_env0
                code = "match %s with\n  | None => %s\n  | Some %s =>\n  %s\n  end" % (c0, then, c0, els)
            else:
                binds, c, ty, m = self.lifted(t)
                if ty != "bool" or m or binds:
                    self.err(t, "condition")
                code = "if %s then %s else %s" % (c, branch(s.body), branch(s.orelse))
            self.monadic_fn, self.procedure = saved_m, saved_p
            self.env = dict(env0)
            for n in joined:
                ts_ = types.get(n, [])
                if len(ts_) != 2 or ts_[0] is None or ts_[0] != ts_[1]:
                    self.err(s, "joined name %s has different types in the two branches (%s)" % (n, ts_))
                self.env[n] = (n, ts_[0])
            k = self.block(rest)
            pat = "(%s)" % ", ".join(joined) if len(joined) > 1 else joined[0]
            return "let* %s := (%s) in\n  %s" % (pat, code, k)
        if isinstance(s, ast.For):
            # for V in range(A, B):  if C: return V      followed by      return D
            if (isinstance(s.target, ast.Name) and isinstance(s.iter, ast.Call) and ast.unparse(s.iter.func) == "range" and len(s.iter.args) == 2
                    and not s.orelse and len(s.body) == 1 and isinstance(s.body[0], ast.If) and not s.body[0].orelse
                    and len(s.body[0].body) == 1 and isinstance(s.body[0].body[0], ast.Return)
                    and ast.unparse(s.body[0].body[0].value) == s.target.id
                    and len(rest) == 1 and isinstance(rest[0], ast.Return)):
                a, ta, ma = self.expr(s.iter.args[0])
                b, tb, mb = self.expr(s.iter.args[1])
                if ta != "int" or tb != "int" or ma or mb:
                    self.err(s, "range bounds")
                saved = dict(self.env)
                self.env[s.target.id] = (s.target.id, "int")
                test = self.cond_result(s.body[0].test)
                self.env = saved
                d = self.ret(rest[0].value)
                return "for_first %s %s (fun %s => %s) (%s)" % (a, b, s.target.id, test, d)
            # for V in range(A, B):  if C: break       followed by code that reads V (the loop variable outlives the loop)
            if (isinstance(s.target, ast.Name) and isinstance(s.iter, ast.Call) and ast.unparse(s.iter.func) == "range" and len(s.iter.args) == 2
                    and not s.orelse and len(s.body) == 1 and isinstance(s.body[0], ast.If) and not s.body[0].orelse
                    and len(s.body[0].body) == 1 and isinstance(s.body[0].body[0], ast.Break) and rest):
                a, ta, ma = self.expr(s.iter.args[0])
                b, tb, mb = self.expr(s.iter.args[1])
                if ta != "int" or tb != "int" or ma or mb:
                    self.err(s, "range bounds")
                v = s.target.id
                if v in self.env:
                    self.err(s, "loop variable shadows a name")
                self.env[v] = (v, "int")
                binds, c, t, m = self.lifted(s.body[0].test)
                if t != "bool" or m:
                    self.err(s.body[0].test, "loop test")
                test = self.wrap(binds, "Ok %s" % c).replace("\n  ", " ")
                k = self.block(rest)
                return "let* %s := for_break %s %s (fun %s => %s) in\n  %s" % (v, a, b, v, test, k)
            self.err(s, "for loop shape")
        if isinstance(s, ast.If):
            # narrowing:  if x is None: <returns>   =>   match x with None => … | Some x => rest end
            t = s.test
            if (isinstance(t, ast.Compare) and len(t.ops) == 1 and isinstance(t.ops[0], ast.Is) and ast.unparse(t.comparators[0]) == "None"
                    and ast.unparse(t.left) in self.env and self.env[ast.unparse(t.left)][1].startswith("opt:") and not s.orelse):
                name = ast.unparse(t.left)
                c0, t0 = self.env[name]
                then = self.block(s.body)
                saved = dict(self.env)
                self.env[name] = (c0, "some:" + t0[4:])
                for k, v in list(self.narrow.get(name, {}).items()):
                    self.env[k] = v
                k = self.block(rest)
                self.env = saved
                return "match %s with\n  | None => %s\n  | Some %s =>\n  %s\n  end" % (c0, then, c0, k)
            binds, c, ty, m = self.lifted(t)
            if ty != "bool" or m:
                self.err(t, "condition")
            then = self.block(s.body)
            if s.orelse:
                if rest:
                    self.err(s, "code after if/else")
                return self.wrap(binds, "if %s then %s else %s" % (c, then, self.block(s.orelse)))
            return self.wrap(binds, "if %s then %s else\n  %s" % (c, then, self.block(rest)))
        self.err(s, "statement")

    def cond_result(self, test):
        """A loop test as a `result bool`: comparisons whose operands may raise (indexing) are sequenced."""
        if isinstance(test, ast.Compare) and len(test.ops) == 1:
            l, r = test.left, test.comparators[0]
            binds = []
            def atom(e):
                c, t, m = self.expr(e)
                if m:
                    self.fresh += 1
                    v = "x%d" % self.fresh
                    binds.append((v, c))
                    self.env["__tmp_" + v] = (v, t)
                    return ast.Name(id="__tmp_" + v, ctx=ast.Load())
                return e
            def lift(e):
                # only the pattern  <indexing>.attr  needs sequencing
                if isinstance(e, ast.Attribute):
                    inner = atom(e.value)
                    return ast.Attribute(value=inner, attr=e.attr, ctx=ast.Load())
                return e
            l2, r2 = lift(l), lift(r)
            code = self.compare(l2, test.ops[0], r2, test)
            for v, c in reversed(binds):
                code = "let* %s := %s in Ok %s" % (v, c, code) if binds[-1][0] == v else "let* %s := %s in %s" % (v, c, code)
            if not binds:
                code = "Ok %s" % code
            return code
        c, t, m = self.expr(test)
        if t != "bool" or m:
            self.err(test, "loop test")
        return "Ok %s" % c

    def fold_result_type(self, call):
        fsrc = ast.unparse(call.func)
        if fsrc in self.calls:
            return self.calls[fsrc][2]
        self.err(call, "callee of the accumulation loop")

    def function(self, fn, params, monadic_fn, narrow=None, procedure=False):
        self.monadic_fn = monadic_fn
        self.procedure = procedure
        self.env_after = {}
        self.narrow = narrow or {}
        body = self.block(fn.body)
        return "Definition %s %s :=\n  %s." % (self.name, " ".join("(%s : %s)" % p for p in params), body)


# --------------------------------------------------------------------------------------------------
# targets
# --------------------------------------------------------------------------------------------------

def enum_int(tree, cls, member):
    for n in tree.body:
        if isinstance(n, ast.ClassDef) and n.name == cls:
            for b in n.body:
                if isinstance(b, ast.Assign) and len(b.targets) == 1 and isinstance(b.targets[0], ast.Name) and b.targets[0].id == member:
                    if isinstance(b.value, ast.Constant) and isinstance(b.value.value, int):
                        return b.value.value
    raise LeafError("enum member %s.%s is not an int literal" % (cls, member))


def group_tick():
    tree = ast.parse(open(os.path.join(REPO, "chartparse", "tick.py")).read())
    out = []
    for name in ("add", "sum", "difference", "between"):
        f = find_function(tree, name)
        t = Tr("leaf_tick_" + name, {"a": ("a", "int"), "b": ("b", "int")}, {}, "int")
        out.append(t.function(f, [("a", "Z"), ("b", "Z")], False))
    f = find_function(tree, "seconds_from_ticks_at_bpm")
    t = Tr("leaf_seconds", {"ticks": ("ticks", "int"), "bpm": ("bpm", "float"), "resolution": ("resolution", "int")}, {}, "float")
    out.append(t.function(f, [("ticks", "Z"), ("bpm", "f64"), ("resolution", "Z")], True))
    f = find_function(tree, "note_duration_to_ticks")
    t = Tr("leaf_note_duration_to_ticks", {"resolution": ("resolution", "int"), "note_duration.value": ("dv", "int")}, {}, "int")
    out.append(t.function(f, [("resolution", "Z"), ("dv", "Z")], True))
    return out


def group_special():
    tree = ast.parse(open(os.path.join(REPO, "chartparse", "instrument.py")).read())
    out = []
    env = {"self.tick": ("(sp_tick e)", "int"), "self.sustain": ("(sp_sus e)", "int"), "tick": ("tick", "int"),
           "self.end_tick": ("(leaf_sp_end_tick e)", "int")}
    calls = {"chartparse.tick.add": ("leaf_tick_add", ["int", "int"], "int", False),
             "self.tick_is_after_event": ("leaf_tick_is_after_event e", ["int"], "bool", False)}
    f = find_function(tree, "SpecialEvent.end_tick")
    out.append(Tr("leaf_sp_end_tick", env, calls, "int").function(f, [("e", "special_event")], False))
    f = find_function(tree, "SpecialEvent.tick_is_after_event")
    out.append(Tr("leaf_tick_is_after_event", env, calls, "bool").function(f, [("e", "special_event"), ("tick", "Z")], False))
    f = find_function(tree, "SpecialEvent.tick_is_during_event")
    out.append(Tr("leaf_tick_is_during_event", env, calls, "bool").function(f, [("e", "special_event"), ("tick", "Z")], False))
    # NoteEvent._end_tick
    f = find_function(tree, "NoteEvent._end_tick")
    out.append(Tr("leaf_note_end_tick", {"tick": ("tick", "int"), "sustain": ("sustain", "int")}, calls, "int").function(f, [("tick", "Z"), ("sustain", "Z")], False))
    # Note.is_chord: sum(self.value) > 1
    f = find_function(tree, "Note.is_chord")
    out.append(Tr("leaf_is_chord", {"sum(self.value)": ("(lane_count note)", "int")}, {}, "bool").function(f, [("note", "list bool")], False))
    # NoteTrackIndex.is_5_note: G.value <= self.value <= O.value  (enum constants read from the class body)
    g, o = enum_int(tree, "NoteTrackIndex", "G"), enum_int(tree, "NoteTrackIndex", "O")
    f = find_function(tree, "NoteTrackIndex.is_5_note")
    env5 = {"NoteTrackIndex.G.value": (str(g), "int"), "NoteTrackIndex.O.value": (str(o), "int"), "self.value": ("i", "int")}
    out.append(Tr("leaf_is_5_note", env5, {}, "bool").function(f, [("i", "Z")], False))
    return out


def group_hopo():
    tree = ast.parse(open(os.path.join(REPO, "chartparse", "instrument.py")).read())
    f = find_function(tree, "NoteEvent._compute_hopo_state")
    env = {"resolution": ("resolution", "int"), "tick": ("tick", "int"), "note": ("note", "lanes"), "is_tap": ("is_tap", "bool"),
           "is_forced": ("is_forced", "bool"), "previous": ("previous", "opt:prev"),
           "HOPOState.TAP": ("TAP", "hopo"), "HOPOState.STRUM": ("STRUM", "hopo"), "HOPOState.HOPO": ("HOPO", "hopo"),
           "NoteDuration.EIGHTH_TRIPLET": ("et", "int")}
    narrow = {"previous": {"previous.tick": ("(fst previous)", "int"), "previous.note": ("(snd previous)", "lanes")}}
    calls = {"chartparse.tick.note_duration_to_ticks": ("leaf_note_duration_to_ticks", ["int", "int"], "int", True),
             "note.is_chord": ("leaf_is_chord note", [], "bool", False)}
    t = Tr("leaf_compute_hopo_state", env, calls, "hopo")
    return [t.function(f, [("et", "Z"), ("resolution", "Z"), ("tick", "Z"), ("note", "list bool"), ("is_tap", "bool"), ("is_forced", "bool"),
                           ("previous", "option (Z * list bool)")], True, narrow)]


def group_query():
    tree = ast.parse(open(os.path.join(REPO, "chartparse", "sync.py")).read())
    f = find_function(tree, "BPMEvents.timestamp_at_tick")
    env = {"tick": ("tick", "int"), "start_iteration_index": ("h", "int"), "self.events": ("(evs B)", "list:bpm"), "self.resolution": ("(resolution B)", "int"),
           "proximal_bpm_event.tick": ("(b_tick proximal_bpm_event)", "int"), "proximal_bpm_event.bpm": ("(b_bpm proximal_bpm_event)", "float"),
           "proximal_bpm_event.timestamp": ("(b_ts proximal_bpm_event)", "ts")}
    calls = {"self._index_of_proximal_event": ("index_of_proximal (evs B)", ["int", "int"], "int", True),
             "chartparse.tick.between": ("leaf_tick_between", ["int", "int"], "int", False),
             "chartparse.tick.seconds_from_ticks_at_bpm": ("leaf_seconds", ["int", "float", "int"], "float", True),
             "chartparse.time.add": ("time_add_seconds", ["ts", "float"], "ts", True)}
    t = Tr("leaf_timestamp_at_tick", env, calls, "tuple")
    out = [t.function(f, [("B", "bpm_events"), ("tick", "Z"), ("h", "Z")], True)]
    f = find_function(tree, "BPMEvents._index_of_proximal_event")
    env2 = {"tick": ("tick", "int"), "start_iteration_index": ("h", "int"), "self": ("es", "list:bpm")}
    t2 = Tr("leaf_index_of_proximal", env2, {}, "int")
    out.insert(0, t2.function(f, [("es", "list bpm_event"), ("tick", "Z"), ("h", "Z")], True))
    return out


def group_note():
    tree = ast.parse(open(os.path.join(REPO, "chartparse", "instrument.py")).read())
    out = []
    # NoteEvent._compute_star_power_data
    f = find_function(tree, "NoteEvent._compute_star_power_data")
    env = {"tick": ("tick", "int"), "star_power_events": ("sps", "list:sp"), "proximal_star_power_event_index": ("i", "int")}
    calls = {"StarPowerData": ("Some", ["int"], "opt:int", False, ["star_power_event_index"])}
    out.append(Tr("leaf_compute_sp", env, calls, "tuple").function(f, [("tick", "Z"), ("sps", "list special_event"), ("i", "Z")], True))
    # NoteEvent.from_parsed_data: the order in which a note event's parts are computed and which hint feeds which query
    f = find_function(tree, "NoteEvent.from_parsed_data")
    idx = lambda m: str(enum_int(tree, "NoteTrackIndex", m))
    env = {"datas": ("datas", "list:nd"), "prev_event": ("(option_map (fun p => (n_tick p, n_note p)) prev_event)", "opt:prev"),
           "star_power_events": ("sps", "list:sp"), "bpm_events": ("B", "bpmevents"),
           "proximal_bpm_event_index": ("hint", "int"), "star_power_event_index": ("cursor", "int"),
           "NoteTrackIndex.TAP": (idx("TAP"), "int"), "NoteTrackIndex.FORCED": (idx("FORCED"), "int")}
    calls = {"Note.from_parsed_datas": ("lanes_of", ["list:nd"], "lanes", False),
             "complex_sustain_from_parsed_datas": ("complex_sustain", ["list:nd"], "sustain", True),
             "NoteEvent._compute_hopo_state": ("compute_hopo c", ["int", "int", "lanes", "bool", "bool", "opt:prev"], "hopo", True),
             "NoteEvent._compute_star_power_data": ("compute_sp_py", ["int", "list:sp", "int"], "tuple:opt:int,int", True),
             "cls._longest_sustain": ("longest_sustain", ["sustain"], "int", True),
             "cls._end_tick": ("leaf_note_end_tick", ["int", "int"], "int", False),
             "cls": ("mk_note_event", ["int", "ts", "ts", "lanes", "hopo", "sustain", "opt:int", "int"], "note_event", False,
                     ["tick", "timestamp", "end_timestamp", "note", "hopo_state", "sustain", "star_power_data", "_proximal_bpm_event_index"])}
    t = Tr("leaf_note_from_parsed_data", env, calls, "tuple")
    out.append(t.function(f, [("c", "cfg"), ("datas", "list ndata"), ("prev_event", "option note_event"), ("sps", "list special_event"),
                              ("B", "bpm_events"), ("hint", "Z"), ("cursor", "Z")], True))
    return out


def group_bpm():
    sync = ast.parse(open(os.path.join(REPO, "chartparse", "sync.py")).read())
    track = ast.parse(open(os.path.join(REPO, "chartparse", "track.py")).read())
    out = []
    # BPMEvent.__post_init__
    f = find_function(sync, "BPMEvent.__post_init__")
    out.append(Tr("leaf_bpm_post_init", {"self.bpm": ("bpm", "float")}, {}, "unit").function(f, [("bpm", "f64")], True, procedure=True))
    # BPMEvent.from_parsed_data
    f = find_function(sync, "BPMEvent.from_parsed_data")
    env = {"data.tick": ("tick", "int"), "data.raw_bpm": ("raw", "str"), "prev_event": ("prev_event", "opt:bpm"), "resolution": ("resolution", "int"),
           "timedelta(0)": ("0", "ts")}
    calls = {"chartparse.tick.between": ("leaf_tick_between", ["int", "int"], "int", False),
             "chartparse.tick.seconds_from_ticks_at_bpm": ("leaf_seconds", ["int", "float", "int"], "float", True),
             "timedelta": ("td_of_seconds", ["float"], "td", True, ["seconds"]),
             "chartparse.time.add": ("td_add", ["ts", "td"], "ts", True),
             "cls": ("mk_bpm_event", ["int", "ts", "float", "int"], "bpm", True, ["tick", "timestamp", "bpm", "_proximal_bpm_event_index"])}
    out.append(Tr("leaf_bpm_from_parsed_data", env, calls, "bpm").function(
        f, [("T", "tables"), ("tick", "Z"), ("raw", "str"), ("prev_event", "option bpm_event"), ("resolution", "Z")], True))
    # BPMEvents.__post_init__
    f = find_function(sync, "BPMEvents.__post_init__")
    env = {"self.resolution": ("resolution", "int"), "self.events": ("events", "list:bpm")}
    out.append(Tr("leaf_bpm_events_post_init", env, {}, "unit").function(f, [("events", "list bpm_event"), ("resolution", "Z")], True, procedure=True))
    # track.build_events_from_data.data_to_bpm_events: the accumulation loop that hands each event the previous one
    f = find_function(track, "build_events_from_data.data_to_bpm_events")
    env = {"datas": ("datas", "list:bpmdata"), "resolution": ("resolution", "int")}
    calls = {"BPMEvent.from_parsed_data": ("bpm_from_data_py T", ["bpmdata", "opt:bpm", "int"], "bpm", True),
             "BPMEvents": ("mk_bpm_events", ["list:bpm", "int"], "bpmevents", True, ["events", "resolution"])}
    out.append(Tr("leaf_data_to_bpm_events", env, calls, "bpmevents").function(
        f, [("T", "tables"), ("datas", "list (Z * str)"), ("resolution", "Z")], True))
    # BPMEvents.timestamp_at_tick_no_optimize_return
    f = find_function(sync, "BPMEvents.timestamp_at_tick_no_optimize_return")
    calls = {"self.timestamp_at_tick": ("timestamp_at_tick_d B", ["int"], "tuple:ts,int", True)}
    out.append(Tr("leaf_timestamp_at_tick_no_optimize_return", {"tick": ("tick", "int")}, calls, "ts").function(f, [("B", "bpm_events"), ("tick", "Z")], True))
    return out


BPM_HEADER = """From CP Require Import Base.Prelude Base.Str Base.Cfg Base.Loops Base.Float64 Base.Timedelta Model.Sync Gen.Leaf_tick.
Open Scope Z_scope.
(* argument shapes of the source's call sites; the constructors run the classes' __post_init__ validation *)
Definition mk_bpm_event (tick ts : Z) (bpm : f64) (idx : Z) : result bpm_event :=
  let* _ := check_bpm_3dp bpm in Ok {| b_tick := tick; b_ts := ts; b_bpm := bpm; b_idx := idx |}.
Definition bpm_from_data_py (T : tables) (d : Z * str) (prev : option bpm_event) (R : Z) := bpm_from_data T (fst d) (snd d) prev R.
Definition timestamp_at_tick_d (B : bpm_events) (tick : Z) := timestamp_at_tick B tick 0.
"""


def group_timed():
    out = []
    glob = ast.parse(open(os.path.join(REPO, "chartparse", "globalevents.py")).read())
    instr = ast.parse(open(os.path.join(REPO, "chartparse", "instrument.py")).read())
    sync = ast.parse(open(os.path.join(REPO, "chartparse", "sync.py")).read())
    track = ast.parse(open(os.path.join(REPO, "chartparse", "track.py")).read())
    base_env = {"data.tick": ("tick", "int"), "prev_event": ("prev_event", "opt:timed"), "bpm_events": ("B", "bpmevents")}
    # GlobalEvent / TrackEvent (tick, value), SpecialEvent (tick, sustain)
    for qual, tree, name, fld, fty, coqty in (("GlobalEvent.from_parsed_data", glob, "leaf_global_from_parsed_data", "value", "str", "str"),
                                              ("TrackEvent.from_parsed_data", instr, "leaf_track_event_from_parsed_data", "value", "str", "str"),
                                              ("SpecialEvent.from_parsed_data", instr, "leaf_special_from_parsed_data", "sustain", "int", "Z")):
        f = find_function(tree, qual)
        env = dict(base_env)
        env["data." + fld] = ("payload", fty)
        calls = {"cls": ("mk_timed_with", ["int", "ts", fty, "int"], "timedwith", False, ["tick", "timestamp", fld, "_proximal_bpm_event_index"])}
        out.append(Tr(name, env, calls, "timedwith").function(f, [("tick", "Z"), ("payload", coqty), ("prev_event", "option timed"), ("B", "bpm_events")], True))
    # TimeSignatureEvent (tick, upper, lower | None, class default)
    f = find_function(sync, "TimeSignatureEvent.from_parsed_data")
    env = dict(base_env)
    env.update({"data.upper": ("upper", "int"), "data.lower": ("lower", "opt:int"), "cls._default_lower_numeral": ("dflt", "int")})
    calls = {"cls": ("mk_ts_event", ["int", "ts", "int", "int", "int"], "tsevent", False, ["tick", "timestamp", "upper_numeral", "lower_numeral", "_proximal_bpm_event_index"])}
    out.append(Tr("leaf_ts_from_parsed_data", env, calls, "tsevent").function(
        f, [("dflt", "Z"), ("tick", "Z"), ("upper", "Z"), ("lower", "option Z"), ("prev_event", "option timed"), ("B", "bpm_events")], True))
    # track.build_events_from_data.data_to_events: the accumulation loop shared by every tempo-map-needing event kind
    f = find_function(track, "build_events_from_data.data_to_events")
    env = {"datas": ("datas", "list:A"), "bpm_events": ("B", "bpmevents")}
    calls = {"event_type.from_parsed_data": ("from_pd", ["A", "opt:E", "bpmevents"], "E", True)}
    out.append(Tr("leaf_data_to_events", env, calls, "list:E").function(
        f, [("A", "Type"), ("E", "Type"), ("from_pd", "A -> option E -> bpm_events -> result E"), ("datas", "list A"), ("B", "bpm_events")], True))
    return out


TIMED_HEADER = """From CP Require Import Base.Prelude Base.Str Base.Cfg Base.Loops Base.Float64 Base.Timedelta Model.Sync.
Open Scope Z_scope.
(* the records the source's keyword constructions denote: the timed part of an event and its payload *)
Definition mk_timed_with {P : Type} (tick ts : Z) (payload : P) (idx : Z) : timed * P := ({| t_tick := tick; t_ts := ts; t_idx := idx |}, payload).
Definition mk_ts_event (tick ts upper lower idx : Z) : ts_event := {| ts_at := {| t_tick := tick; t_ts := ts; t_idx := idx |}; ts_upper := upper; ts_lower := lower |}.
"""


NOTE_HEADER = """From CP Require Import Base.Prelude Base.Cfg Base.Loops Base.Float64 Base.Timedelta Model.Sync Model.Instrument Gen.Leaf_tick Gen.Leaf_special.
Open Scope Z_scope.
(* argument order of the source's call sites; the record constructor the source's keyword construction denotes *)
Definition compute_sp_py (tick : Z) (sps : list special_event) (i : Z) := compute_sp sps tick i.
Definition mk_note_event (tick ts end_ts : Z) (note : list bool) (h : hopo) (sus : sustain) (spd : option Z) (idx : Z) : note_event :=
  {| n_at := {| t_tick := tick; t_ts := ts; t_idx := idx |}; n_end_ts := end_ts; n_note := note; n_sustain := sus; n_hopo := h; n_sp := spd |}.
"""

GROUPS = [
    ("Leaf_tick", group_tick, "From CP Require Import Base.Prelude Base.Float64.\nOpen Scope Z_scope.\n"),
    ("Leaf_special", group_special, "From CP Require Import Base.Prelude Base.Float64 Model.Sync Model.Instrument Gen.Leaf_tick.\nOpen Scope Z_scope.\n"),
    ("Leaf_hopo", group_hopo, "From CP Require Import Base.Prelude Base.Float64 Model.Sync Model.Instrument Gen.Leaf_tick Gen.Leaf_special.\nOpen Scope Z_scope.\n"),
    ("Leaf_note", group_note, NOTE_HEADER),
    ("Leaf_bpm", group_bpm, BPM_HEADER),
    ("Leaf_timed", group_timed, TIMED_HEADER),
    ("Leaf_query", group_query, "From CP Require Import Base.Prelude Base.Loops Base.Float64 Base.Timedelta Model.Sync Gen.Leaf_tick.\nOpen Scope Z_scope.\n"),
]


def write_if_changed(path, text):
    try:
        if open(path).read() == text:
            return False
    except FileNotFoundError:
        pass
    tmp = path + ".tmp.%d" % os.getpid()
    open(tmp, "w").write(text)
    os.replace(tmp, path)
    return True


def main():
    info = {"ok": True, "groups": {}}
    for name, fn, header in GROUPS:
        try:
            defs = fn()
            text = "(* GENERATED by tools/extract_leaf.py from the working tree of the repository — do not edit *)\n%s\n%s\n" % (header, "\n\n".join(defs))
            info["groups"][name] = {"ok": True, "definitions": len(defs)}
        except (LeafError, OSError, SyntaxError) as e:
            text = "(* GENERATED by tools/extract_leaf.py: translation FAILED (fail-closed): %s *)\n" % str(e).replace("*)", "* )").replace('"', "'")
            info["groups"][name] = {"ok": False, "reason": str(e)}
            info["ok"] = False
        write_if_changed(os.path.join(GEN, name + ".v"), text)
    print(json.dumps(info))
    sys.exit(0 if info["ok"] else 2)


if __name__ == "__main__":
    main()
