#!/venv/bin/python
"""Leaf translator: straight-line Python functions of /repo/chartparse -> Gallina definitions (coq/Gen/Leaf*.v).

A typed, fail-closed translation of a small Python subset, driven by a table that names each target
function, the types of its parameters, and how the attribute chains / callees it mentions are spelled in
the model.  `Tie/Leaf*.v` proves each generated definition equal to the hand-written model function, so a
change to one of these bodies breaks a Coq obligation directly instead of only through the sampled
correspondence.

Subset.  Statements: `if c: raise ValueError(...)`, `if c: return e`, `if c: return e [else: return e]`,
`x = e`, `return e`, a docstring.  Expressions: names, int literals, `+ - *` on ints, `abs`, comparisons
(incl. chained), `and / or / not`, `x is None`, `!=`/`==` on bools, NewType wrappers (`Ticks(e)` ...), the
float operations `float*int`, `float/int`, `int/float`, `int*float`, `int/int`, `round(float)` (each of which
may raise in Python and is a `result` in the model), indexing of a sequence, calls of functions listed in the
target's table.  Anything else aborts the translation of that group with a named reason.
"""
from __future__ import annotations

import ast
import json
import os
import sys

REPO = os.environ.get("CHARTPARSE_REPO", "/repo")
HERE = os.path.dirname(os.path.abspath(__file__))
GEN = os.path.join(HERE, "..", "coq", "Gen")

WRAPPERS = {"Ticks", "Tick", "Seconds", "Timestamp", "int"}


class LeafError(Exception):
    pass


# attributes of typed model records
ATTRS = {"bpm": {"tick": ("b_tick", "int"), "bpm": ("b_bpm", "float"), "timestamp": ("b_ts", "ts")}}


def find_function(tree, qual):
    parts = qual.split(".")
    body = tree.body
    node = None
    for p in parts:
        node = None
        for n in body:
            if isinstance(n, (ast.FunctionDef, ast.ClassDef)) and n.name == p:
                node = n
                break
        if node is None:
            raise LeafError("function %s not found" % qual)
        body = node.body
    if not isinstance(node, ast.FunctionDef):
        raise LeafError("%s is not a function" % qual)
    return node


class Tr:
    """Translator of one function.  env: python source text of an expression -> (coq term, type).
    calls: python callee text -> (coq function, [arg types], result type, monadic?)."""

    def __init__(self, name, env, calls, ret_type):
        self.name, self.env, self.calls, self.ret_type = name, dict(env), dict(calls), ret_type
        self.monadic = False
        self.fresh = 0

    def err(self, node, why):
        raise LeafError("%s: unsupported %s at line %s: %s" % (self.name, why, getattr(node, "lineno", "?"), ast.unparse(node)[:80]))

    # ---- expressions: returns (code, type, monadic) ------------------------------------------
    def expr(self, e):
        src = ast.unparse(e)
        if src in self.env:
            c, t = self.env[src]
            return c, t, False
        if isinstance(e, ast.Constant):
            if isinstance(e.value, bool):
                return ("true" if e.value else "false"), "bool", False
            if isinstance(e.value, int):
                return ("(%d)" % e.value if e.value < 0 else "%d" % e.value), "int", False
            if e.value is None:
                return "None", "none", False
            self.err(e, "constant")
        if isinstance(e, ast.Attribute):
            c, t, m = self.expr(e.value)
            if not m and t in ATTRS and e.attr in ATTRS[t]:
                fld, ft = ATTRS[t][e.attr]
                return "(%s %s)" % (fld, c), ft, False
            self.err(e, "attribute")
        if isinstance(e, ast.Call):
            fsrc = ast.unparse(e.func)
            if fsrc == "len" and len(e.args) == 1:
                c, t, m = self.expr(e.args[0])
                if t.startswith("list:") and not m:
                    return "(Zlength_ %s)" % c, "int", False
                self.err(e, "len of non-sequence")
            if fsrc in WRAPPERS and len(e.args) == 1 and not e.keywords:
                return self.expr(e.args[0])
            if fsrc == "abs" and len(e.args) == 1:
                c, t, m = self.expr(e.args[0])
                if t != "int" or m:
                    self.err(e, "abs of non-int")
                return "(Z.abs %s)" % c, "int", False
            if fsrc == "round" and len(e.args) == 1:
                c, t, m = self.expr(e.args[0])
                if t != "float":
                    self.err(e, "round of non-float")
                if m:
                    return "(let* q := %s in py_round_int q)" % c, "int", True
                return "(py_round_int %s)" % c, "int", True
            if fsrc in self.calls:
                fn, argts, rt, mon = self.calls[fsrc]
                args = list(e.args) + [k.value for k in e.keywords]
                if len(args) != len(argts):
                    self.err(e, "call arity")
                cs = []
                for a, at in zip(args, argts):
                    c, t, m = self.expr(a)
                    if m or t != at:
                        self.err(a, "call argument (type %s, wanted %s)" % (t, at))
                    cs.append(c)
                return "(%s %s)" % (fn, " ".join(cs)), rt, mon
            self.err(e, "call")
        if isinstance(e, ast.BinOp):
            a, ta, ma = self.expr(e.left)
            b, tb, mb = self.expr(e.right)
            if ma or mb:
                self.err(e, "nested operation that can raise")
            op = type(e.op)
            if ta == "int" and tb == "int":
                if op is ast.Add:
                    return "(%s + %s)" % (a, b), "int", False
                if op is ast.Sub:
                    return "(%s - %s)" % (a, b), "int", False
                if op is ast.Mult:
                    return "(%s * %s)" % (a, b), "int", False
                if op is ast.Div:
                    return "(py_truediv_int %s %s)" % (a, b), "float", True
            if ta == "float" and tb == "int":
                if op is ast.Mult:
                    return "(py_mul_float_int %s %s)" % (a, b), "float", True
                if op is ast.Div:
                    return "(py_div_float_int %s %s)" % (a, b), "float", True
            if ta == "int" and tb == "float":
                if op is ast.Mult:
                    return "(py_mul_int_float %s %s)" % (a, b), "float", True
                if op is ast.Div:
                    return "(py_div_int_float %s %s)" % (a, b), "float", True
            self.err(e, "binary operation on (%s, %s)" % (ta, tb))
        if isinstance(e, ast.Compare):
            parts = []
            left = e.left
            for op, right in zip(e.ops, e.comparators):
                parts.append(self.compare(left, op, right, e))
                left = right
            code = parts[0]
            for p in parts[1:]:
                code = "(%s && %s)" % (code, p)
            return code, "bool", False
        if isinstance(e, ast.BoolOp):
            cs = []
            for v in e.values:
                c, t, m = self.expr(v)
                if t != "bool" or m:
                    self.err(v, "boolean operand")
                cs.append(c)
            sym = "&&" if isinstance(e.op, ast.And) else "||"
            code = cs[0]
            for c in cs[1:]:
                code = "(%s %s %s)" % (code, sym, c)
            return code, "bool", False
        if isinstance(e, ast.UnaryOp) and isinstance(e.op, ast.Not):
            c, t, m = self.expr(e.operand)
            if t != "bool" or m:
                self.err(e, "not of non-bool")
            return "(negb %s)" % c, "bool", False
        if isinstance(e, ast.Subscript):
            a, ta, ma = self.expr(e.value)
            i, ti, mi = self.expr(e.slice)
            if ta.startswith("list:") and ti == "int" and not ma and not mi:
                return "(seq_get %s %s)" % (a, i), ta[5:], True
            self.err(e, "subscript")
        if isinstance(e, ast.Tuple):
            cs = []
            ts = []
            for v in e.elts:
                c, t, m = self.expr(v)
                if m:
                    self.err(v, "tuple element that can raise")
                cs.append(c)
                ts.append(t)
            return "(%s)" % ", ".join(cs), "tuple:" + ",".join(ts), False
        self.err(e, "expression")

    def compare(self, l, op, r, whole):
        a, ta, ma = self.expr(l)
        b, tb, mb = self.expr(r)
        if ma or mb:
            self.err(whole, "comparison of operations that can raise")
        o = type(op)
        if o in (ast.Is, ast.IsNot) and tb == "none" and ta.startswith("opt:"):
            test = "(match %s with None => true | Some _ => false end)" % a
            return test if o is ast.Is else "(negb %s)" % test
        if ta == "int" and tb == "int":
            return {ast.Lt: "(%s <? %s)", ast.LtE: "(%s <=? %s)", ast.Eq: "(%s =? %s)"}.get(o, None) % (a, b) if o in (ast.Lt, ast.LtE, ast.Eq) else \
                {ast.Gt: "(%s <? %s)", ast.GtE: "(%s <=? %s)"}[o] % (b, a) if o in (ast.Gt, ast.GtE) else \
                "(negb (%s =? %s))" % (a, b) if o is ast.NotEq else self.err(whole, "int comparison")
        if ta == "float" and tb == "int" and b == "0":
            if o is ast.LtE:
                return "(f_le %s fzero)" % a
            if o is ast.Lt:
                return "(f_lt %s fzero)" % a
        if ta == "bool" and tb == "bool":
            if o is ast.NotEq:
                return "(negb (Bool.eqb %s %s))" % (a, b)
            if o is ast.Eq:
                return "(Bool.eqb %s %s)" % (a, b)
        if ta == tb and ta == "lanes":
            if o is ast.NotEq:
                return "(negb (lanes_eqb %s %s))" % (a, b)
            if o is ast.Eq:
                return "(lanes_eqb %s %s)" % (a, b)
        self.err(whole, "comparison on (%s, %s)" % (ta, tb))

    # ---- statements ----------------------------------------------------------------------------
    def ret(self, e):
        c, t, m = self.expr(e)
        return c if m else ("Ok %s" % c if self.monadic_fn else c)

    def block(self, stmts):
        if not stmts:
            raise LeafError("%s: control reaches the end of a block without return" % self.name)
        s, rest = stmts[0], stmts[1:]
        if isinstance(s, ast.Expr) and isinstance(s.value, ast.Constant) and isinstance(s.value.value, str):
            return self.block(rest)
        if isinstance(s, ast.Return):
            if rest:
                self.err(s, "code after return")
            return self.ret(s.value)
        if isinstance(s, ast.Raise):
            exc = ast.unparse(s.exc.func if isinstance(s.exc, ast.Call) else s.exc)
            if exc != "ValueError":
                self.err(s, "raise of %s" % exc)
            return "Err EValue"
        if isinstance(s, (ast.Assign, ast.AnnAssign)):
            tgt = s.targets[0] if isinstance(s, ast.Assign) else s.target
            if not isinstance(tgt, ast.Name) or (isinstance(s, ast.Assign) and len(s.targets) != 1):
                self.err(s, "assignment target")
            c, t, m = self.expr(s.value)
            self.env[tgt.id] = (tgt.id, t)
            k = self.block(rest)
            return ("let* %s := %s in\n  %s" if m else "let %s := %s in\n  %s") % (tgt.id, c, k)
        if isinstance(s, ast.For):
            # for V in range(A, B):  if C: return V      followed by      return D
            if (isinstance(s.target, ast.Name) and isinstance(s.iter, ast.Call) and ast.unparse(s.iter.func) == "range" and len(s.iter.args) == 2
                    and not s.orelse and len(s.body) == 1 and isinstance(s.body[0], ast.If) and not s.body[0].orelse
                    and len(s.body[0].body) == 1 and isinstance(s.body[0].body[0], ast.Return)
                    and ast.unparse(s.body[0].body[0].value) == s.target.id
                    and len(rest) == 1 and isinstance(rest[0], ast.Return)):
                a, ta, ma = self.expr(s.iter.args[0])
                b, tb, mb = self.expr(s.iter.args[1])
                if ta != "int" or tb != "int" or ma or mb:
                    self.err(s, "range bounds")
                saved = dict(self.env)
                self.env[s.target.id] = (s.target.id, "int")
                test = self.cond_result(s.body[0].test)
                self.env = saved
                d = self.ret(rest[0].value)
                return "for_first %s %s (fun %s => %s) (%s)" % (a, b, s.target.id, test, d)
            self.err(s, "for loop shape")
        if isinstance(s, ast.If):
            # narrowing:  if x is None: <returns>   =>   match x with None => … | Some x => rest end
            t = s.test
            if (isinstance(t, ast.Compare) and len(t.ops) == 1 and isinstance(t.ops[0], ast.Is) and ast.unparse(t.comparators[0]) == "None"
                    and ast.unparse(t.left) in self.env and self.env[ast.unparse(t.left)][1].startswith("opt:") and not s.orelse):
                name = ast.unparse(t.left)
                c0, t0 = self.env[name]
                then = self.block(s.body)
                saved = dict(self.env)
                self.env[name] = (c0, "some:" + t0[4:])
                for k, v in list(self.narrow.get(name, {}).items()):
                    self.env[k] = v
                k = self.block(rest)
                self.env = saved
                return "match %s with\n  | None => %s\n  | Some %s =>\n  %s\n  end" % (c0, then, c0, k)
            c, ty, m = self.expr(t)
            if ty != "bool" or m:
                self.err(t, "condition")
            then = self.block(s.body)
            if s.orelse:
                if rest:
                    self.err(s, "code after if/else")
                return "if %s then %s else %s" % (c, then, self.block(s.orelse))
            return "if %s then %s else\n  %s" % (c, then, self.block(rest))
        self.err(s, "statement")

    def cond_result(self, test):
        """A loop test as a `result bool`: comparisons whose operands may raise (indexing) are sequenced."""
        if isinstance(test, ast.Compare) and len(test.ops) == 1:
            l, r = test.left, test.comparators[0]
            binds = []
            def atom(e):
                c, t, m = self.expr(e)
                if m:
                    self.fresh += 1
                    v = "x%d" % self.fresh
                    binds.append((v, c))
                    self.env["__tmp_" + v] = (v, t)
                    return ast.Name(id="__tmp_" + v, ctx=ast.Load())
                return e
            def lift(e):
                # only the pattern  <indexing>.attr  needs sequencing
                if isinstance(e, ast.Attribute):
                    inner = atom(e.value)
                    return ast.Attribute(value=inner, attr=e.attr, ctx=ast.Load())
                return e
            l2, r2 = lift(l), lift(r)
            code = self.compare(l2, test.ops[0], r2, test)
            for v, c in reversed(binds):
                code = "let* %s := %s in Ok %s" % (v, c, code) if binds[-1][0] == v else "let* %s := %s in %s" % (v, c, code)
            if not binds:
                code = "Ok %s" % code
            return code
        c, t, m = self.expr(test)
        if t != "bool" or m:
            self.err(test, "loop test")
        return "Ok %s" % c

    def function(self, fn, params, monadic_fn, narrow=None):
        self.monadic_fn = monadic_fn
        self.narrow = narrow or {}
        body = self.block(fn.body)
        return "Definition %s %s :=\n  %s." % (self.name, " ".join("(%s : %s)" % p for p in params), body)


# --------------------------------------------------------------------------------------------------
# targets
# --------------------------------------------------------------------------------------------------

def enum_int(tree, cls, member):
    for n in tree.body:
        if isinstance(n, ast.ClassDef) and n.name == cls:
            for b in n.body:
                if isinstance(b, ast.Assign) and len(b.targets) == 1 and isinstance(b.targets[0], ast.Name) and b.targets[0].id == member:
                    if isinstance(b.value, ast.Constant) and isinstance(b.value.value, int):
                        return b.value.value
    raise LeafError("enum member %s.%s is not an int literal" % (cls, member))


def group_tick():
    tree = ast.parse(open(os.path.join(REPO, "chartparse", "tick.py")).read())
    out = []
    for name in ("add", "sum", "difference", "between"):
        f = find_function(tree, name)
        t = Tr("leaf_tick_" + name, {"a": ("a", "int"), "b": ("b", "int")}, {}, "int")
        out.append(t.function(f, [("a", "Z"), ("b", "Z")], False))
    f = find_function(tree, "seconds_from_ticks_at_bpm")
    t = Tr("leaf_seconds", {"ticks": ("ticks", "int"), "bpm": ("bpm", "float"), "resolution": ("resolution", "int")}, {}, "float")
    out.append(t.function(f, [("ticks", "Z"), ("bpm", "f64"), ("resolution", "Z")], True))
    f = find_function(tree, "note_duration_to_ticks")
    t = Tr("leaf_note_duration_to_ticks", {"resolution": ("resolution", "int"), "note_duration.value": ("dv", "int")}, {}, "int")
    out.append(t.function(f, [("resolution", "Z"), ("dv", "Z")], True))
    return out


def group_special():
    tree = ast.parse(open(os.path.join(REPO, "chartparse", "instrument.py")).read())
    out = []
    env = {"self.tick": ("(sp_tick e)", "int"), "self.sustain": ("(sp_sus e)", "int"), "tick": ("tick", "int"),
           "self.end_tick": ("(leaf_sp_end_tick e)", "int")}
    calls = {"chartparse.tick.add": ("leaf_tick_add", ["int", "int"], "int", False),
             "self.tick_is_after_event": ("leaf_tick_is_after_event e", ["int"], "bool", False)}
    f = find_function(tree, "SpecialEvent.end_tick")
    out.append(Tr("leaf_sp_end_tick", env, calls, "int").function(f, [("e", "special_event")], False))
    f = find_function(tree, "SpecialEvent.tick_is_after_event")
    out.append(Tr("leaf_tick_is_after_event", env, calls, "bool").function(f, [("e", "special_event"), ("tick", "Z")], False))
    f = find_function(tree, "SpecialEvent.tick_is_during_event")
    out.append(Tr("leaf_tick_is_during_event", env, calls, "bool").function(f, [("e", "special_event"), ("tick", "Z")], False))
    # NoteEvent._end_tick
    f = find_function(tree, "NoteEvent._end_tick")
    out.append(Tr("leaf_note_end_tick", {"tick": ("tick", "int"), "sustain": ("sustain", "int")}, calls, "int").function(f, [("tick", "Z"), ("sustain", "Z")], False))
    # Note.is_chord: sum(self.value) > 1
    f = find_function(tree, "Note.is_chord")
    out.append(Tr("leaf_is_chord", {"sum(self.value)": ("(lane_count note)", "int")}, {}, "bool").function(f, [("note", "list bool")], False))
    # NoteTrackIndex.is_5_note: G.value <= self.value <= O.value  (enum constants read from the class body)
    g, o = enum_int(tree, "NoteTrackIndex", "G"), enum_int(tree, "NoteTrackIndex", "O")
    f = find_function(tree, "NoteTrackIndex.is_5_note")
    env5 = {"NoteTrackIndex.G.value": (str(g), "int"), "NoteTrackIndex.O.value": (str(o), "int"), "self.value": ("i", "int")}
    out.append(Tr("leaf_is_5_note", env5, {}, "bool").function(f, [("i", "Z")], False))
    return out


def group_hopo():
    tree = ast.parse(open(os.path.join(REPO, "chartparse", "instrument.py")).read())
    f = find_function(tree, "NoteEvent._compute_hopo_state")
    env = {"resolution": ("resolution", "int"), "tick": ("tick", "int"), "note": ("note", "lanes"), "is_tap": ("is_tap", "bool"),
           "is_forced": ("is_forced", "bool"), "previous": ("previous", "opt:prev"),
           "HOPOState.TAP": ("TAP", "hopo"), "HOPOState.STRUM": ("STRUM", "hopo"), "HOPOState.HOPO": ("HOPO", "hopo"),
           "NoteDuration.EIGHTH_TRIPLET": ("et", "int")}
    narrow = {"previous": {"previous.tick": ("(fst previous)", "int"), "previous.note": ("(snd previous)", "lanes")}}
    calls = {"chartparse.tick.note_duration_to_ticks": ("leaf_note_duration_to_ticks", ["int", "int"], "int", True),
             "note.is_chord": ("leaf_is_chord note", [], "bool", False)}
    t = Tr("leaf_compute_hopo_state", env, calls, "hopo")
    return [t.function(f, [("et", "Z"), ("resolution", "Z"), ("tick", "Z"), ("note", "list bool"), ("is_tap", "bool"), ("is_forced", "bool"),
                           ("previous", "option (Z * list bool)")], True, narrow)]


def group_query():
    tree = ast.parse(open(os.path.join(REPO, "chartparse", "sync.py")).read())
    f = find_function(tree, "BPMEvents.timestamp_at_tick")
    env = {"tick": ("tick", "int"), "start_iteration_index": ("h", "int"), "self.events": ("(evs B)", "list:bpm"), "self.resolution": ("(resolution B)", "int"),
           "proximal_bpm_event.tick": ("(b_tick proximal_bpm_event)", "int"), "proximal_bpm_event.bpm": ("(b_bpm proximal_bpm_event)", "float"),
           "proximal_bpm_event.timestamp": ("(b_ts proximal_bpm_event)", "ts")}
    calls = {"self._index_of_proximal_event": ("index_of_proximal (evs B)", ["int", "int"], "int", True),
             "chartparse.tick.between": ("leaf_tick_between", ["int", "int"], "int", False),
             "chartparse.tick.seconds_from_ticks_at_bpm": ("leaf_seconds", ["int", "float", "int"], "float", True),
             "chartparse.time.add": ("time_add_seconds", ["ts", "float"], "ts", True)}
    t = Tr("leaf_timestamp_at_tick", env, calls, "tuple")
    out = [t.function(f, [("B", "bpm_events"), ("tick", "Z"), ("h", "Z")], True)]
    f = find_function(tree, "BPMEvents._index_of_proximal_event")
    env2 = {"tick": ("tick", "int"), "start_iteration_index": ("h", "int"), "self": ("es", "list:bpm")}
    t2 = Tr("leaf_index_of_proximal", env2, {}, "int")
    out.insert(0, t2.function(f, [("es", "list bpm_event"), ("tick", "Z"), ("h", "Z")], True))
    return out


GROUPS = [
    ("Leaf_tick", group_tick, "From CP Require Import Base.Prelude Base.Float64.\nOpen Scope Z_scope.\n"),
    ("Leaf_special", group_special, "From CP Require Import Base.Prelude Base.Float64 Model.Sync Model.Instrument Gen.Leaf_tick.\nOpen Scope Z_scope.\n"),
    ("Leaf_hopo", group_hopo, "From CP Require Import Base.Prelude Base.Float64 Model.Sync Model.Instrument Gen.Leaf_tick Gen.Leaf_special.\nOpen Scope Z_scope.\n"),
    ("Leaf_query", group_query, "From CP Require Import Base.Prelude Base.Loops Base.Float64 Base.Timedelta Model.Sync Gen.Leaf_tick.\nOpen Scope Z_scope.\n"),
]


def write_if_changed(path, text):
    try:
        if open(path).read() == text:
            return False
    except FileNotFoundError:
        pass
    tmp = path + ".tmp.%d" % os.getpid()
    open(tmp, "w").write(text)
    os.replace(tmp, path)
    return True


def main():
    info = {"ok": True, "groups": {}}
    for name, fn, header in GROUPS:
        try:
            defs = fn()
            text = "(* GENERATED by tools/extract_leaf.py from %s — do not edit *)\n%s\n%s\n" % (REPO, header, "\n\n".join(defs))
            info["groups"][name] = {"ok": True, "definitions": len(defs)}
        except (LeafError, OSError, SyntaxError) as e:
            text = "(* GENERATED by tools/extract_leaf.py: translation FAILED (fail-closed): %s *)\n" % str(e).replace("*)", "* )").replace('"', "'")
            info["groups"][name] = {"ok": False, "reason": str(e)}
            info["ok"] = False
        write_if_changed(os.path.join(GEN, name + ".v"), text)
    print(json.dumps(info))
    sys.exit(0 if info["ok"] else 2)


if __name__ == "__main__":
    main()
