#!/venv/bin/python
"""Leaf translator: straight-line Python functions of /repo/chartparse -> Gallina definitions (coq/Gen/Leaf*.v).

A typed, fail-closed translation of a small Python subset, driven by a table that names each target
function, the types of its parameters, and how the attribute chains / callees it mentions are spelled in
the model.  `Tie/Leaf*.v` proves each generated definition equal to the hand-written model function, so a
change to one of these bodies breaks a Coq obligation directly instead of only through the sampled
correspondence.

Subset.  Statements: `if c: raise ValueError(...)`, `if c: return e`, `if c: return e [else: return e]`,
`x = e`, `return e`, a docstring.  Expressions: names, int literals, `+ - *` on ints, `abs`, comparisons
(incl. chained), `and / or / not`, `x is None`, `!=`/`==` on bools, NewType wrappers (`Ticks(e)` ...), the
float operations `float*int`, `float/int`, `int/float`, `int*float`, `int/int`, `round(float)` (each of which
may raise in Python and is a `result` in the model), indexing of a sequence, calls of functions listed in the
target's table.  Anything else aborts the translation of that group with a named reason.
"""
from __future__ import annotations

import ast
import json
import os
import sys

REPO = os.environ.get("CHARTPARSE_REPO", "/repo")
HERE = os.path.dirname(os.path.abspath(__file__))
GEN = os.environ.get("LEAF_GEN") or os.path.join(HERE, "..", "coq", "Gen")

WRAPPERS = {"Ticks", "Tick", "Seconds", "Timestamp", "int", "_SustainList", "SustainTuple", "InstrumentTrackMap"}


class LeafError(Exception):
    pass


RAISES = {"ValueError": "EValue", "RegexNotMatchError": "ERegexNotMatch", "UnreachableError": "EUnreachable"}

# element types of annotated empty lists, and the Coq spelling of translator types
LIST_ANN = {"list[NoteEvent]": "note_event"}
DICT_ANN = {"dict[str, Iterable[str]]": ("str", "list:str", "(str * list str)")}
COQ_TYPES = {"note_event": "note_event", "int": "Z", "str": "str"}


# attributes of typed model records
ATTRS = {"note_event": {"timestamp": ("n_ts_", "ts"), "end_timestamp": ("n_end_ts", "ts")},
         "itrack": {"note_events": ("it_notes", "list:note_event")},
         "chart": {"sync_track": ("c_sync", "synctrack")},
         "synctrack": {"bpm_events": ("st_bpm", "bpmevents")},
         "bpm": {"tick": ("b_tick", "int"), "bpm": ("b_bpm", "float"), "timestamp": ("b_ts", "ts"), "_proximal_bpm_event_index": ("b_idx", "int")},
         "timed": {"tick": ("t_tick", "int"), "timestamp": ("t_ts", "ts"), "_proximal_bpm_event_index": ("t_idx", "int")},
         "nd": {"tick": ("nd_tick", "int"), "note_track_index": ("nd_idx", "ndidx"), "sustain": ("nd_sus", "int")},
         "ndidx": {"value": ("", "int")},
         "bpmevents": {"resolution": ("resolution", "int")}}

# attributes whose read can fail in the model (an attribute the object was built without)
ATTRS_M = {"metadata": {"resolution": ("meta_resolution", "int")}}

# methods of typed model records: receiver type -> method -> (coq function taking the receiver first, [arg types], result type, monadic?)
METHODS = {"bpmevents_": {},
           "ndidx": {"is_5_note": ("leaf_is_5_note", [], "bool", False)},
           "sp": {"tick_is_after_event": ("leaf_tick_is_after_event", ["int"], "bool", False),
                  "tick_is_during_event": ("leaf_tick_is_during_event", ["int"], "bool", False)},
           "bpmevents": {"timestamp_at_tick": ("timestamp_at_tick", ["int", "int"], "tuple:ts,int", True),
                         "timestamp_at_tick_no_optimize_return": ("timestamp_at_tick_no_optimize_return", ["int"], "ts", True)}}


def find_function(tree, qual):
    parts = qual.split(".")
    body = tree.body
    node = None
    for p in parts:
        node = None
        for n in body:
            if isinstance(n, (ast.FunctionDef, ast.ClassDef)) and n.name == p:
                node = n        # the last definition of a name wins (typing.overload stubs come first)
        if node is None:
            raise LeafError("function %s not found" % qual)
        body = node.body
    if not isinstance(node, ast.FunctionDef):
        raise LeafError("%s is not a function" % qual)
    return node


class Tr:
    """Translator of one function.  env: python source text of an expression -> (coq term, type).
    calls: python callee text -> (coq function, [arg types], result type, monadic?)."""

    def __init__(self, name, env, calls, ret_type):
        self.name, self.env, self.calls, self.ret_type = name, dict(env), dict(calls), ret_type
        self.monadic = False
        self.narrow = {}
        self.fresh = 0

    def err(self, node, why):
        raise LeafError("%s: unsupported %s at line %s: %s" % (self.name, why, getattr(node, "lineno", "?"), ast.unparse(node)[:80]))

    # ---- expressions: returns (code, type, monadic) ------------------------------------------
    def expr(self, e):
        src = ast.unparse(e)
        if isinstance(e, (ast.BoolOp, ast.Call)) and self.bound_test(e) is not None:
            return self.bound_test(e), "bool", False
        if src in self.env:
            c, t = self.env[src]
            return c, t, False
        if isinstance(e, ast.Name) and e.id in getattr(self, "consts", {}):
            v = self.consts[e.id]
            return ("(%d)" % v if v < 0 else "%d" % v), "int", False
        if isinstance(e, ast.Constant):
            if isinstance(e.value, bool):
                return ("true" if e.value else "false"), "bool", False
            if isinstance(e.value, int):
                return ("(%d)" % e.value if e.value < 0 else "%d" % e.value), "int", False
            if e.value is None:
                return "None", "none", False
            if isinstance(e.value, str) and e.value.isascii() and e.value.isprintable() and '"' not in e.value:
                return '(of_string "%s"%%string)' % e.value, "str", False
            self.err(e, "constant")
        if (isinstance(e, ast.Attribute) and isinstance(e.value, ast.Call) and ast.unparse(e.value.func) == "max" and len(e.value.args) == 1
                and len(e.value.keywords) == 1 and e.value.keywords[0].arg == "key" and isinstance(e.value.keywords[0].value, ast.Lambda)
                and len(e.value.keywords[0].value.args.args) == 1
                and ast.unparse(e.value.keywords[0].value.body) == "%s.%s" % (e.value.keywords[0].value.args.args[0].arg, e.attr)):
            # max(xs, key=lambda e: e.A).A  =  the greatest A  (ValueError on an empty sequence)
            seq, tseq, mseq = self.expr(e.value.args[0])
            if not tseq.startswith("list:") or mseq or tseq[5:] not in ATTRS or e.attr not in ATTRS[tseq[5:]]:
                self.err(e, "max by key")
            fld, ft = ATTRS[tseq[5:]][e.attr]
            if ft not in ("int", "ts"):
                self.err(e, "max by a non-integer key")
            return "(py_max (map %s %s))" % (fld, seq), ft, True
        if isinstance(e, ast.Call) and isinstance(e.func, ast.Attribute) and e.func.attr == "total_seconds" and not e.args and not e.keywords:
            c, t, m = self.expr(e.func.value)
            if t != "td":
                self.err(e, "total_seconds of a non-timedelta")
            return ("(let* d_ := %s in total_seconds d_)" % c) if m else "(total_seconds %s)" % c, "float", True
        if isinstance(e, ast.Attribute):
            c, t, m = self.expr(e.value)
            if t.startswith("some:"):
                t = t[5:]
            if not m and t in ATTRS and e.attr in ATTRS[t]:
                fld, ft = ATTRS[t][e.attr]
                return ("(%s %s)" % (fld, c) if fld else c), ft, False
            if not m and t in ATTRS_M and e.attr in ATTRS_M[t]:
                fld, ft = ATTRS_M[t][e.attr]
                return "(%s %s)" % (fld, c), ft, True
            self.err(e, "attribute")
        if isinstance(e, ast.Call):
            fsrc = ast.unparse(e.func)
            if fsrc == "len" and len(e.args) == 1:
                c, t, m = self.expr(e.args[0])
                if t.startswith("list:") and not m:
                    return "(Zlength_ %s)" % c, "int", False
                self.err(e, "len of non-sequence")
            if fsrc == "int" and len(e.args) == 1 and not e.keywords:
                c, t, m = self.expr(e.args[0])
                if t == "str" and not m:
                    return "(py_int T %s)" % c, "int", True
                if t == "int":
                    return c, t, m
                self.err(e, "int() of %s" % t)
            if fsrc in WRAPPERS and len(e.args) == 1 and not e.keywords:
                return self.expr(e.args[0])
            if fsrc == "round" and len(e.args) == 2 and ast.unparse(e.args[1]) == "3":
                c, t, m = self.expr(e.args[0])
                if t != "float" or m:
                    self.err(e, "round(x, 3) of non-float")
                return "(py_round3 %s)" % c, "float", True
            if fsrc == "abs" and len(e.args) == 1:
                c, t, m = self.expr(e.args[0])
                if t != "int" or m:
                    self.err(e, "abs of non-int")
                return "(Z.abs %s)" % c, "int", False
            if fsrc == "round" and len(e.args) == 1:
                c, t, m = self.expr(e.args[0])
                if t != "float":
                    self.err(e, "round of non-float")
                if m:
                    return "(let* q := %s in py_round_int q)" % c, "int", True
                return "(py_round_int %s)" % c, "int", True
            if fsrc == "itertools.islice" and len(e.args) == 3 and not e.keywords:
                a, ta, ma = self.expr(e.args[0])
                lo, tl, ml = self.expr(e.args[1])
                hi, th, mh = self.expr(e.args[2])
                if not ta.startswith("list:") or ma or ml or mh or th != "int":
                    self.err(e, "islice")
                lo = self.coerce(lo, tl, "opt:int", e)
                return "(py_islice %s %s %s)" % (a, lo, hi), ta, False
            if fsrc == "collections.defaultdict" and ast.unparse(e) == "collections.defaultdict(dict)":
                return "(@nil (str * list (str * itrack)))", "tracks", False
            if fsrc in ("tuple", "list", "dict") and len(e.args) == 1 and not e.keywords:
                return self.expr(e.args[0])
            if fsrc == "typ.cast" and len(e.args) == 2 and not e.keywords:
                return self.expr(e.args[1])
            if fsrc in getattr(self, "local_defs", {}) and len(e.args) == 1 and not e.keywords:
                # a local one-expression function: inlined at the call
                pname, body = self.local_defs[fsrc]
                a, ta, ma = self.expr(e.args[0])
                if ma:
                    self.err(e, "argument of a local function")
                saved = dict(self.env)
                self.env[pname] = (a, ta)
                c, t, m = self.expr(body)
                self.env = saved
                return c, t, m
            if (fsrc == "sum" and len(e.args) == 1 and not e.keywords and isinstance(e.args[0], ast.GeneratorExp) and ast.unparse(e.args[0].elt) == "1"
                    and len(e.args[0].generators) == 1 and len(e.args[0].generators[0].ifs) == 1 and isinstance(e.args[0].generators[0].target, ast.Name)):
                g = e.args[0].generators[0]
                seq, tseq, mseq = self.expr(g.iter)
                if not tseq.startswith("list:") or mseq:
                    self.err(e, "sum over a non-sequence")
                v = g.target.id
                saved = dict(self.env)
                self.env[v] = (v, tseq[5:])
                c, t, m = self.expr(g.ifs[0])
                self.env = saved
                if t != "bool" or m:
                    self.err(e, "count condition")
                return "(Zlength_ (filter (fun %s => %s) %s))" % (v, c, seq), "int", False
            if (fsrc == "max" and len(e.args) == 1 and len(e.keywords) == 1 and e.keywords[0].arg == "key" and isinstance(e.keywords[0].value, ast.Lambda)):
                # max(xs, key=lambda e: e.A): handled by the attribute access around it (see Attribute)
                self.err(e, "max with key outside `max(xs, key=lambda e: e.A).A`")
            if fsrc in ("all", "next", "max") and len(e.args) == 1 and not e.keywords and isinstance(e.args[0], ast.GeneratorExp):
                g = e.args[0]
                if len(g.generators) != 1 or g.generators[0].is_async or not isinstance(g.generators[0].target, ast.Name) or len(g.generators[0].ifs) > 1:
                    self.err(e, "generator shape")
                seq, tseq, mseq = self.expr(g.generators[0].iter)
                if not tseq.startswith("list:") or mseq:
                    self.err(e, "generator over a non-sequence")
                v = g.generators[0].target.id
                et = tseq[5:]
                saved = dict(self.env)
                self.env[v] = (v, et)
                if fsrc == "all":
                    if g.generators[0].ifs:
                        self.err(e, "all() with a filter")
                    c, t, m = self.expr(g.elt)
                    self.env = saved
                    if t != "bool" or m:
                        self.err(e, "all of a non-boolean or raising test")
                    return "(forallb (fun %s => %s) %s)" % (v, c, seq), "bool", False
                # next(s for s in t if s is not None) / max(...): the elements that are not None, as a list of values
                ifs = g.generators[0].ifs
                if (ast.unparse(g.elt) != v or len(ifs) != 1 or ast.unparse(ifs[0]) != "%s is not None" % v or not et.startswith("opt:")):
                    self.err(e, "%s() generator (only `x for x in seq if x is not None`)" % fsrc)
                self.env = saved
                vals = "(somes %s)" % seq
                if fsrc == "next":
                    return "(py_next %s)" % vals, et[4:], True
                if et[4:] != "int":
                    self.err(e, "max of non-int")
                return "(py_max %s)" % vals, "int", True
            if fsrc == "any" and len(e.args) == 1 and not e.keywords and isinstance(e.args[0], ast.GeneratorExp):
                g = e.args[0]
                if len(g.generators) != 1 or g.generators[0].ifs or g.generators[0].is_async or not isinstance(g.generators[0].target, ast.Name):
                    self.err(e, "generator shape")
                seq, tseq, mseq = self.expr(g.generators[0].iter)
                if not tseq.startswith("list:") or mseq:
                    self.err(e, "any over a non-sequence")
                v = g.generators[0].target.id
                saved = dict(self.env)
                self.env[v] = (v, tseq[5:])
                c, t, m = self.expr(g.elt)
                self.env = saved
                if t != "bool" or m:
                    self.err(e, "any of a non-boolean or raising test")
                return "(existsb (fun %s => %s) %s)" % (v, c, seq), "bool", False
            if isinstance(e.func, ast.Attribute) and fsrc not in self.calls and not any(k.startswith(fsrc + "@") for k in self.calls):
                rc, rt_, rm = self.expr(e.func.value)
                if not rm and rt_ in METHODS and e.func.attr in METHODS[rt_]:
                    fn, argts, rt, mon = METHODS[rt_][e.func.attr]
                    args = list(e.args) + [k.value for k in e.keywords]
                    if len(args) != len(argts):
                        self.err(e, "method arity")
                    cs = [rc]
                    for a, at in zip(args, argts):
                        c, t, m = self.expr(a)
                        if m or t != at:
                            self.err(a, "method argument (type %s, wanted %s)" % (t, at))
                        cs.append(c)
                    return "(%s %s)" % (fn, " ".join(cs)), rt, mon
            if e.args and (fsrc + "@" + ast.unparse(e.args[0])) in self.calls:
                # a callee that dispatches on its first argument (a class): one table entry per class
                entry = self.calls[fsrc + "@" + ast.unparse(e.args[0])]
                e = ast.Call(func=ast.Name(id=fsrc + "@" + ast.unparse(e.args[0]), ctx=ast.Load()), args=e.args[1:], keywords=e.keywords)
                fsrc = e.func.id
            if fsrc in self.calls:
                entry = self.calls[fsrc]
                fn, argts, rt, mon = entry[:4]
                if len(entry) > 4 and entry[4] is not None:
                    # keyword-only construction: every keyword must be present exactly once, in any order
                    if e.args or sorted(k.arg or "" for k in e.keywords) != sorted(entry[4]):
                        self.err(e, "keywords (wanted exactly %s)" % ", ".join(entry[4]))
                    byname = {k.arg: k.value for k in e.keywords}
                    args = [byname[k] for k in entry[4]]
                else:
                    args = list(e.args) + [k.value for k in e.keywords]
                if len(args) != len(argts):
                    self.err(e, "call arity")
                cs = []
                for a, at in zip(args, argts):
                    c, t, m = self.expr(a)
                    if m or t != at:
                        self.err(a, "call argument (type %s, wanted %s)" % (t, at))
                    cs.append(c)
                return "(%s %s)" % (fn, " ".join(cs)), rt, mon
            self.err(e, "call")
        if (isinstance(e, ast.BinOp) and isinstance(e.op, ast.Mult) and isinstance(e.left, ast.List) and len(e.left.elts) == 1
                and isinstance(e.right, ast.Constant) and isinstance(e.right.value, int) and 0 <= e.right.value <= 64):
            x = e.left.elts[0]
            if isinstance(x, ast.Constant) and x.value is None:
                return "(repeat (@None Z) %d)" % e.right.value, "list:opt:int", False
            if isinstance(x, ast.Constant) and isinstance(x.value, int) and not isinstance(x.value, bool):
                return "(repeat %d %d)" % (x.value, e.right.value), "list:int", False
            self.err(e, "list repetition")
        if isinstance(e, ast.BinOp):
            a, ta, ma = self.expr(e.left)
            b, tb, mb = self.expr(e.right)
            if ma or mb:
                self.err(e, "nested operation that can raise")
            op = type(e.op)
            if ta == "ts" and tb == "ts" and op is ast.Sub:
                return "(td_sub %s %s)" % (a, b), "td", True
            if ta == "int" and tb == "int":
                if op is ast.Add:
                    return "(%s + %s)" % (a, b), "int", False
                if op is ast.Sub:
                    return "(%s - %s)" % (a, b), "int", False
                if op is ast.Mult:
                    return "(%s * %s)" % (a, b), "int", False
                if op is ast.Pow and a == "2":
                    return "(2 ^ %s)" % b, "int", False
                if op is ast.Div:
                    return "(py_truediv_int %s %s)" % (a, b), "float", True
            if ta == "float" and tb == "int":
                if op is ast.Mult:
                    return "(py_mul_float_int %s %s)" % (a, b), "float", True
                if op is ast.Div:
                    return "(py_div_float_int %s %s)" % (a, b), "float", True
            if ta == "int" and tb == "float":
                if op is ast.Mult:
                    return "(py_mul_int_float %s %s)" % (a, b), "float", True
                if op is ast.Div:
                    return "(py_div_int_float %s %s)" % (a, b), "float", True
            self.err(e, "binary operation on (%s, %s)" % (ta, tb))
        if isinstance(e, ast.Compare):
            parts = []
            left = e.left
            for op, right in zip(e.ops, e.comparators):
                parts.append(self.compare(left, op, right, e))
                left = right
            code = parts[0]
            for p in parts[1:]:
                code = "(%s && %s)" % (code, p)
            return code, "bool", False
        if (isinstance(e, ast.BoolOp) and isinstance(e.op, ast.Or) and len(e.values) == 2 and isinstance(e.values[0], ast.Compare)
                and len(e.values[0].ops) == 1 and isinstance(e.values[0].ops[0], ast.Is) and ast.unparse(e.values[0].comparators[0]) == "None"
                and ast.unparse(e.values[0].left) in self.env and self.env[ast.unparse(e.values[0].left)][1].startswith("opt:")):
            # x is None or P(x): in P the name denotes the value
            nm = ast.unparse(e.values[0].left)
            c0, t0 = self.env[nm]
            saved = dict(self.env)
            self.env[nm] = (c0, t0[4:])
            c, t, m = self.expr(e.values[1])
            self.env = saved
            if t != "bool" or m:
                self.err(e, "right operand of `is None or`")
            return "(match %s with None => true | Some %s => %s end)" % (c0, c0, c), "bool", False
        if (isinstance(e, ast.BoolOp) and isinstance(e.op, ast.And) and len(e.values) == 2 and isinstance(e.values[0], ast.Compare)
                and len(e.values[0].ops) == 1 and isinstance(e.values[0].ops[0], ast.IsNot) and ast.unparse(e.values[0].comparators[0]) == "None"
                and ast.unparse(e.values[0].left) in self.env and self.env[ast.unparse(e.values[0].left)][1].startswith("opt:")):
            # x is not None and P(x): in P the name denotes the value
            nm = ast.unparse(e.values[0].left)
            c0, t0 = self.env[nm]
            saved = dict(self.env)
            self.env[nm] = (c0, t0[4:])
            c, t, m = self.expr(e.values[1])
            self.env = saved
            if t != "bool" or m:
                self.err(e, "right operand of `is not None and`")
            return "(match %s with None => false | Some %s => %s end)" % (c0, c0, c), "bool", False
        if isinstance(e, ast.BoolOp):
            cs = []
            for v in e.values:
                c, t, m = self.expr(v)
                if t != "bool" or m:
                    self.err(v, "boolean operand")
                cs.append(c)
            sym = "&&" if isinstance(e.op, ast.And) else "||"
            code = cs[0]
            for c in cs[1:]:
                code = "(%s %s %s)" % (code, sym, c)
            return code, "bool", False
        if isinstance(e, ast.UnaryOp) and isinstance(e.op, ast.Not):
            c, t, m = self.expr(e.operand)
            if t.startswith("list:") and not m:
                return "(Zlength_ %s =? 0)" % c, "bool", False
            if t != "bool" or m:
                self.err(e, "not of non-bool")
            return "(negb %s)" % c, "bool", False
        if isinstance(e, ast.Subscript) and not isinstance(e.slice, ast.Slice):
            a0, ta0, ma0 = self.expr(e.value)
            if ta0.startswith("dict:") and not ma0:
                kt, vt = ta0[5:].split(",", 1)
                kx, tk, mk = self.expr(e.slice)
                if tk != kt or mk:
                    self.err(e, "dict key (%s)" % tk)
                return "(dict_get %s %s)" % (a0, kx), vt, True
            if ta0 == "pdm" and not ma0:
                kx, tk, mk = self.expr(e.slice)
                if tk != "kind" or mk:
                    self.err(e, "ParsedDataMap key")
                return "(pdm_get %s %s)" % (a0, kx), "list:pdata", False
        if isinstance(e, ast.Subscript) and isinstance(e.slice, ast.Slice):
            a, ta, ma = self.expr(e.value)
            if e.slice.step is not None or e.slice.lower is None or e.slice.upper is None or not ta.startswith("list:") or ma:
                self.err(e, "slice")
            lo, tl, ml = self.expr(e.slice.lower)
            hi, th, mh = self.expr(e.slice.upper)
            if tl != "int" or th != "int" or ml or mh:
                self.err(e, "slice bounds")
            return "(slice_Z %s %s %s)" % (a, lo, hi), ta, False
        if isinstance(e, ast.Subscript):
            a, ta, ma = self.expr(e.value)
            i, ti, mi = self.expr(e.slice)
            if ta.startswith("list:") and ti == "int" and not ma and not mi:
                return "(seq_get %s %s)" % (a, i), ta[5:], True
            self.err(e, "subscript")
        if (isinstance(e, ast.IfExp) and isinstance(e.test, ast.Compare) and len(e.test.ops) == 1 and isinstance(e.test.ops[0], ast.IsNot)
                and ast.unparse(e.test.comparators[0]) == "None" and ast.unparse(e.test.left) in self.env and self.env[ast.unparse(e.test.left)][1] == "bound"):
            # A(x) if x is not None else B   for a bound x known (by the enclosing branch) to be a tick or None / a time or None
            nm = ast.unparse(e.test.left)
            ctx = getattr(self, "bound_ctx", {}).get(nm)
            if ctx not in ("tick", "time"):
                self.err(e, "conditional on a bound outside an isinstance branch")
            c0, _ = self.env[nm]
            saved = dict(self.env)
            self.env[nm] = (c0, "int" if ctx == "tick" else "ts")
            a, ta, ma = self.expr(e.body)
            self.env = saved
            b, tb, mb = self.expr(e.orelse)
            if ta != tb:
                self.err(e, "conditional expression branches (%s, %s)" % (ta, tb))
            ctor = "BTick" if ctx == "tick" else "BTime"
            if ma or mb:
                return "(match %s with %s %s => %s | _ => %s end)" % (c0, ctor, c0, a if ma else "Ok %s" % a, b if mb else "Ok %s" % b), ta, True
            return "(match %s with %s %s => %s | _ => %s end)" % (c0, ctor, c0, a, b), ta, False
        if (isinstance(e, ast.IfExp) and isinstance(e.test, ast.Name) and e.test.id in self.env and self.env[e.test.id][1].startswith("list:")
                and ast.unparse(e.body) == e.test.id + "[-1]" and ast.unparse(e.orelse) == "None"):
            c0, t0 = self.env[e.test.id]
            return "(last_opt %s)" % c0, "opt:" + t0[5:], False
        if isinstance(e, ast.IfExp):
            t0 = e.test
            name = None
            if isinstance(t0, ast.Name):
                name = t0.id
            elif (isinstance(t0, ast.Compare) and len(t0.ops) == 1 and isinstance(t0.ops[0], ast.IsNot) and ast.unparse(t0.comparators[0]) == "None"):
                name = ast.unparse(t0.left)
            if name is None or name not in self.env or not self.env[name][1].startswith("opt:"):
                self.err(e, "conditional expression (only `a if <optional> else b`)")
            c0, t_opt = self.env[name]
            saved = dict(self.env)
            v = "v_%d" % (len(self.env))
            self.env[name] = (v, t_opt[4:])
            for k, val in list(self.narrow.get(name, {}).items()):
                self.env[k] = (val[0].replace(c0, v), val[1]) if isinstance(val, tuple) else val
            a, ta, ma = self.expr(e.body)
            self.env = saved
            b, tb, mb = self.expr(e.orelse)
            if ma or mb or ta != tb:
                self.err(e, "conditional expression branches (%s, %s)" % (ta, tb))
            return "(match %s with Some %s => %s | None => %s end)" % (c0, v, a, b), ta, False
        if isinstance(e, ast.Tuple):
            cs = []
            ts = []
            for v in e.elts:
                c, t, m = self.expr(v)
                if m:
                    self.err(v, "tuple element that can raise")
                cs.append(c)
                ts.append(t)
            if cs and all(t == "kind" for t in ts):
                return "[%s]" % "; ".join(cs), "list:kind", False
            return "(%s)" % ", ".join(cs), "tuple:" + ",".join(ts), False
        self.err(e, "expression")

    def compare(self, l, op, r, whole):
        a, ta, ma = self.expr(l)
        b, tb, mb = self.expr(r)
        if type(op) in (ast.In, ast.NotIn) and not ma and not mb:
            if tb.startswith("dict:") and tb[5:].split(",", 1)[0] == ta:
                test = "(dict_mem %s %s)" % (a, b)
            elif tb == "list:str" and ta == "str":
                test = "(mem_str %s %s)" % (a, b)
            elif tb == "list:pair" and ta == "pair":
                test = "(existsb (pair_eqb %s) %s)" % (a, b)
            else:
                self.err(whole, "membership test on (%s, %s)" % (ta, tb))
            return test if type(op) is ast.In else "(negb %s)" % test
        if ta == "ndidx" and tb == "int":      # an enum member compared with an enum constant: by value
            ta = "int"
        if ma or mb:
            self.err(whole, "comparison of operations that can raise")
        o = type(op)
        if o in (ast.Is, ast.IsNot) and tb == "none" and ta.startswith("opt:"):
            test = "(match %s with None => true | Some _ => false end)" % a
            return test if o is ast.Is else "(negb %s)" % test
        if ta == "ts" and tb == "ts":
            ta = tb = "int"
        if ta == "int" and tb == "int":
            return {ast.Lt: "(%s <? %s)", ast.LtE: "(%s <=? %s)", ast.Eq: "(%s =? %s)"}.get(o, None) % (a, b) if o in (ast.Lt, ast.LtE, ast.Eq) else \
                {ast.Gt: "(%s <? %s)", ast.GtE: "(%s <=? %s)"}[o] % (b, a) if o in (ast.Gt, ast.GtE) else \
                "(negb (%s =? %s))" % (a, b) if o is ast.NotEq else self.err(whole, "int comparison")
        if ta == "float" and tb == "int" and b == "0":
            if o is ast.LtE:
                return "(f_le %s fzero)" % a
            if o is ast.Lt:
                return "(f_lt %s fzero)" % a
        if ta == "str" and tb == "str" and o in (ast.Eq, ast.NotEq):
            return ("(str_eqb %s %s)" if o is ast.Eq else "(negb (str_eqb %s %s))") % (a, b)
        if ta == "float" and tb == "float":
            if o is ast.NotEq:
                return "(negb (f_eq %s %s))" % (a, b)
            if o is ast.Eq:
                return "(f_eq %s %s)" % (a, b)
        if ta == "bool" and tb == "bool":
            if o is ast.NotEq:
                return "(negb (Bool.eqb %s %s))" % (a, b)
            if o is ast.Eq:
                return "(Bool.eqb %s %s)" % (a, b)
        if ta == tb and ta == "lanes":
            if o is ast.NotEq:
                return "(negb (lanes_eqb %s %s))" % (a, b)
            if o is ast.Eq:
                return "(lanes_eqb %s %s)" % (a, b)
        self.err(whole, "comparison on (%s, %s)" % (ta, tb))

    def bound_test(self, e):
        """Type tests on a parameter that is a tick, a timestamp or None (the model's `bound`)."""
        src = ast.unparse(e)
        for nm, (c0, t0) in list(self.env.items()):
            if t0 != "bound":
                continue
            table = {"%s is None or isinstance(%s, int)" % (nm, nm): "(match %s with BTime _ => false | _ => true end)" % c0,
                     "isinstance(%s, timedelta)" % nm: "(match %s with BTime _ => true | _ => false end)" % c0,
                     "%s is None or isinstance(%s, timedelta)" % (nm, nm): "(match %s with BTick _ => false | _ => true end)" % c0}
            if src in table:
                return table[src]
        return None

    def bound_branch_ctx(self, test):
        """Which bound names does a true outcome of this test narrow, and to what?"""
        src = ast.unparse(test)
        out = {}
        for nm, (c0, t0) in self.env.items():
            if t0 == "bound":
                if src == "%s is None or isinstance(%s, int)" % (nm, nm):
                    out[nm] = "tick"
                if src in ("isinstance(%s, timedelta)" % nm, "%s is None or isinstance(%s, timedelta)" % (nm, nm)):
                    out[nm] = "time"
        return out

    def coerce(self, code, have, want, node=None):
        if have == want or want is None:
            return code
        if want.startswith("opt:") and have == want[4:]:
            return "(Some %s)" % code
        if want.startswith("opt:") and have == "none":
            return "None"
        if want.startswith("opt:") and have == "some:" + want[4:]:
            return "(Some %s)" % code
        self.err(node or ast.Constant(value=None), "value of type %s where %s is wanted" % (have, want))

    # ---- sequencing of sub-expressions that can raise -------------------------------------------
    def lifted(self, e):
        """(binds, code, type, monadic): `X.attr`, `X.method(..)` and `not ...` whose X can raise (an indexing) are sequenced
        through fresh let*-bound names, left to right; everything else is `expr`."""
        binds = []

        def atom(x):
            c, t, m = self.expr(x)
            if m:
                self.fresh += 1
                v = "x%d" % self.fresh
                binds.append((v, c))
                self.env["__tmp_" + v] = (v, t)
                return ast.Name(id="__tmp_" + v, ctx=ast.Load())
            return x

        def walk(x):
            # monadic sub-expressions in strict (always evaluated) positions are bound first, in evaluation order
            if ast.unparse(x) in self.env:
                return x
            if isinstance(x, ast.UnaryOp) and isinstance(x.op, ast.Not):
                return ast.UnaryOp(op=x.op, operand=walk(x.operand))
            if isinstance(x, ast.Attribute) and isinstance(x.value, ast.Call) and ast.unparse(x.value.func) == "max" and x.value.keywords:
                return x        # max(xs, key=lambda e: e.A).A is one operation
            if isinstance(x, ast.Call) and isinstance(x.func, ast.Attribute) and x.func.attr == "total_seconds":
                return ast.Call(func=ast.Attribute(value=walk(x.func.value), attr="total_seconds", ctx=ast.Load()), args=[], keywords=[])
            if isinstance(x, ast.Attribute):
                return ast.Attribute(value=lift(x.value), attr=x.attr, ctx=ast.Load())
            if isinstance(x, ast.Call):
                func = x.func
                fsrc = ast.unparse(func)
                if fsrc in WRAPPERS and len(x.args) == 1 and not x.keywords:
                    return ast.Call(func=func, args=[walk(x.args[0])], keywords=[])      # NewType wrappers are transparent
                if isinstance(func, ast.Attribute) and fsrc not in self.calls and not any(k.startswith(fsrc + "@") for k in self.calls):
                    func = ast.Attribute(value=lift(func.value), attr=func.attr, ctx=ast.Load())
                if any(isinstance(a, ast.GeneratorExp) for a in x.args):
                    return x
                return ast.Call(func=func, args=[lift(a) for a in x.args], keywords=[ast.keyword(arg=k.arg, value=lift(k.value)) for k in x.keywords])
            if isinstance(x, ast.BinOp) and isinstance(x.left, ast.List):
                return x
            if isinstance(x, ast.BinOp):
                l = lift(x.left)
                return ast.BinOp(left=l, op=x.op, right=lift(x.right))
            if isinstance(x, ast.Compare):
                l = lift(x.left)
                return ast.Compare(left=l, ops=x.ops, comparators=[lift(c) for c in x.comparators])
            if isinstance(x, ast.Tuple):
                return ast.Tuple(elts=[lift(v) for v in x.elts], ctx=ast.Load())
            if isinstance(x, ast.Subscript) and isinstance(x.slice, ast.Slice):
                return x
            if isinstance(x, ast.Subscript):
                return ast.Subscript(value=lift(x.value), slice=lift(x.slice), ctx=ast.Load())
            return x        # names, constants, and the short-circuit forms (and/or, conditional expression): untouched

        def lift(x):
            if ast.unparse(x) in self.env or isinstance(x, (ast.Name, ast.Constant)):
                return x
            y = walk(x)
            c, t, m = self.expr(y)
            if m:
                self.fresh += 1
                v = "x%d" % self.fresh
                binds.append((v, c))
                self.env["__tmp_" + v] = (v, t)
                return ast.Name(id="__tmp_" + v, ctx=ast.Load())
            return y
        c, t, m = self.expr(walk(e))
        return binds, c, t, m

    @staticmethod
    def wrap(binds, code):
        for v, c in reversed(binds):
            code = "let* %s := %s in\n  %s" % (v, c, code)
        return code

    # ---- statements ----------------------------------------------------------------------------
    def call_logs(self, call):
        fsrc = ast.unparse(call.func)
        for key in ([fsrc + "@" + ast.unparse(call.args[0])] if call.args else []) + [fsrc]:
            if key in self.calls:
                return len(self.calls[key]) > 5 and bool(self.calls[key][5])
        return False

    def ret(self, e):
        if getattr(self, "logs", False):
            binds, c, t, m = self.lifted(e)
            parts = getattr(self, "log_parts", None) or ["log_"]
            lg = " ++ ".join(parts)
            if m:
                return self.wrap(binds, "let* r_ := %s in Ok (r_, %s)" % (c, lg))
            return self.wrap(binds, "Ok (%s, %s)" % (c, lg))
        binds, c, t, m = self.lifted(e)
        if self.ret_type.startswith("opt:") and t in (self.ret_type[4:], "none"):
            c = "(let* r_ := %s in Ok (Some r_))" % c if (m and t != "none") else ("(Some %s)" % c if t != "none" else "None")
            m = m and t != "none"
        if self.ret_type == "sustain" and t in ("int", "list:opt:int"):
            # ComplexSustain = Ticks | SustainTuple: the model's tagged union
            tag = "SInt" if t == "int" else "STuple"
            c = "(let* r_ := %s in Ok (%s r_))" % (c, tag) if m else "(%s %s)" % (tag, c)
        if binds and not self.monadic_fn:
            self.err(e, "raising sub-expression in a total function")
        return self.wrap(binds, c if m else ("Ok %s" % c if self.monadic_fn else c))

    def block(self, stmts):
        if not stmts:
            if getattr(self, "procedure", False):
                return "Ok tt"
            raise LeafError("%s: control reaches the end of a block without return" % self.name)
        s, rest = stmts[0], stmts[1:]
        if isinstance(s, ast.Expr) and isinstance(s.value, ast.Constant) and isinstance(s.value.value, str):
            return self.block(rest)
        if isinstance(s, ast.Return) and isinstance(s.value, ast.Name) and s.value.id == "__loop_state__":
            state, types0 = self.loop_state
            parts = []
            for n in state:
                c, t = self.env[n]
                parts.append(self.coerce(c, t, types0[n], s))
            return "Ok (%s)" % ", ".join(parts) if len(parts) > 1 else "Ok %s" % parts[0]
        if isinstance(s, ast.Return):
            if rest:
                self.err(s, "code after return")
            self.env_after = {k: v[1] for k, v in self.env.items()}
            return self.ret(s.value)
        if isinstance(s, ast.Raise):
            exc = ast.unparse(s.exc.func if isinstance(s.exc, ast.Call) else s.exc)
            if exc not in RAISES:
                self.err(s, "raise of %s" % exc)
            return "Err %s" % RAISES[exc]
        # def f(x): return E      (a local one-expression function, inlined at its calls)
        if (isinstance(s, ast.FunctionDef) and len(s.args.args) == 1 and not s.decorator_list and len(s.body) == 1 and isinstance(s.body[0], ast.Return)):
            self.local_defs = dict(getattr(self, "local_defs", {}))
            self.local_defs[s.name] = (s.args.args[0].arg, s.body[0].value)
            return self.block(rest)
        # try: X = E  except KeyError: raise ValueError(...)
        if (isinstance(s, ast.Try) and len(s.body) == 1 and isinstance(s.body[0], ast.Assign) and len(s.body[0].targets) == 1
                and isinstance(s.body[0].targets[0], ast.Name) and len(s.handlers) == 1 and ast.unparse(s.handlers[0].type) == "KeyError"
                and len(s.handlers[0].body) == 1 and isinstance(s.handlers[0].body[0], ast.Raise) and not s.orelse and not s.finalbody):
            exc = ast.unparse(s.handlers[0].body[0].exc.func if isinstance(s.handlers[0].body[0].exc, ast.Call) else s.handlers[0].body[0].exc)
            if exc not in RAISES:
                self.err(s, "raise of %s" % exc)
            binds, c, t, m = self.lifted(s.body[0].value)
            if not m:
                self.err(s, "try around an expression that cannot raise")
            nm = s.body[0].targets[0].id
            self.env[nm] = (nm, t)
            inner = self.wrap(binds, c).replace("\n  ", " ")
            k = self.block(rest)
            return "let* %s := (match (%s) with Err EKey => Err %s | r_ => r_ end) in\n  %s" % (nm, inner, RAISES[exc], k)
        # assert X is not None   (an optional that is a value from here on)
        if (isinstance(s, ast.Assert) and s.msg is None and isinstance(s.test, ast.Compare) and len(s.test.ops) == 1 and isinstance(s.test.ops[0], ast.IsNot)
                and ast.unparse(s.test.comparators[0]) == "None"):
            c, t, m = self.expr(s.test.left)
            if t.startswith("opt:") and not m:
                self.fresh += 1
                v = "v%d_" % self.fresh
                self.env[ast.unparse(s.test.left)] = (v, t[4:])
                k = self.block(rest)
                return "match %s with\n  | None => Err EAssertion\n  | Some %s =>\n  %s\n  end" % (c, v, k)
        # assert C
        if isinstance(s, ast.Assert) and s.msg is None:
            binds, c, t, m = self.lifted(s.test)
            if t != "bool" or m:
                self.err(s, "assertion")
            saved_ctx = dict(getattr(self, "bound_ctx", {}))
            self.bound_ctx = dict(saved_ctx, **self.bound_branch_ctx(s.test))
            k = self.block(rest)
            self.bound_ctx = saved_ctx
            return self.wrap(binds, "if %s then\n  %s else Err EAssertion" % (c, k))
        # a statement the target's table replaces by a constant of the configuration, after checking its text
        if isinstance(s, (ast.Assign, ast.AnnAssign)) and ast.unparse(s.targets[0] if isinstance(s, ast.Assign) else s.target) in getattr(self, "const_stmts", {}):
            nm = ast.unparse(s.targets[0] if isinstance(s, ast.Assign) else s.target)
            want_src, code, ty = self.const_stmts[nm]
            if ast.unparse(s.value) != want_src:
                self.err(s, "definition of %s differs from the one the configuration is read from" % nm)
            self.env[nm] = (code, ty)
            return self.block(rest)
        if getattr(self, "log_var", False):
            # logging call assigned:   X = f(..)   ->  the callee's warnings are appended to the log in call order
            if (isinstance(s, ast.Assign) and len(s.targets) == 1 and isinstance(s.targets[0], ast.Name) and isinstance(s.value, ast.Call) and self.call_logs(s.value)):
                binds, c, t, m = self.lifted(s.value)
                nm = s.targets[0].id
                self.env[nm] = (nm, t)
                self.nlog = getattr(self, "nlog", 0) + 1
                lg = "lg%d_" % self.nlog
                k = self.block(rest)
                return self.wrap(binds, "let* (%s, %s) := %s in\n  let log_ := (log_ ++ map LUnparsable %s) in\n  %s" % (nm, lg, c, lg, k))
            if (isinstance(s, ast.Expr) and isinstance(s.value, ast.Call) and ast.unparse(s.value.func) == "logger.warning" and len(s.value.args) == 1
                    and isinstance(s.value.args[0], ast.Call) and ast.unparse(s.value.args[0].func) == "cls._unhandled_data_section_log_msg_tmpl.format"
                    and len(s.value.args[0].args) == 1):
                c, t, m = self.expr(s.value.args[0].args[0])
                if t != "str" or m:
                    self.err(s, "logged value")
                k = self.block(rest)
                return "let log_ := (log_ ++ [LUnhandled %s]) in\n  %s" % (c, k)
        if isinstance(s, ast.Continue) and getattr(self, "loop_state", None) is not None:
            return self.block([ast.Return(value=ast.Name(id="__loop_state__", ctx=ast.Load()))])
        # a, b = PAIR   (a tuple-typed name)
        if (isinstance(s, ast.Assign) and len(s.targets) == 1 and isinstance(s.targets[0], ast.Tuple) and isinstance(s.value, ast.Name)
                and s.value.id in self.env and self.env[s.value.id][1] == "pair"):
            names = [x.id for x in s.targets[0].elts]
            if len(names) != 2:
                self.err(s, "pair unpacking")
            for n in names:
                self.env[n] = (n, "str")
            k = self.block(rest)
            return "let '(%s, %s) := %s in\n  %s" % (names[0], names[1], self.env[s.value.id][0], k)
        # T[I][D] = V   on the instrument-track map
        if (isinstance(s, ast.Assign) and len(s.targets) == 1 and isinstance(s.targets[0], ast.Subscript) and isinstance(s.targets[0].value, ast.Subscript)
                and isinstance(s.targets[0].value.value, ast.Name) and self.env.get(s.targets[0].value.value.id, ("", ""))[1] == "tracks"):
            tn = s.targets[0].value.value.id
            i, ti, mi = self.expr(s.targets[0].value.slice)
            d, td, md = self.expr(s.targets[0].slice)
            v, tv, mv = self.expr(s.value)
            if mi or md or mv or ti != "str" or td != "str" or tv != "itrack":
                self.err(s, "track store")
            k = self.block(rest)
            return "let %s := (tracks_set %s %s %s %s) in\n  %s" % (tn, i, d, v, self.env[tn][0], k)
        # for K, V in D.items(): <body>      (insertion order)
        if (isinstance(s, ast.For) and isinstance(s.target, ast.Tuple) and len(s.target.elts) == 2 and all(isinstance(x, ast.Name) for x in s.target.elts)
                and isinstance(s.iter, ast.Call) and isinstance(s.iter.func, ast.Attribute) and s.iter.func.attr == "items" and not s.iter.args and not s.orelse and rest):
            dct, tdct, mdct = self.expr(s.iter.func.value)
            if not tdct.startswith("dict:") or mdct:
                self.err(s, "items() of a non-dict")
            kt, vt = tdct[5:].split(",", 1)
            kv, vv = s.target.elts[0].id, s.target.elts[1].id
            def stored(stmts):
                names = []
                for st in stmts:
                    if isinstance(st, ast.Assign) and len(st.targets) == 1:
                        tg = st.targets[0]
                        while isinstance(tg, ast.Subscript):
                            tg = tg.value
                        if isinstance(tg, ast.Name) and tg.id not in names:
                            names.append(tg.id)
                    elif isinstance(st, ast.Expr) and "logger.warning" in ast.unparse(st):
                        if "log_" not in names:
                            names.append("log_")
                    elif isinstance(st, ast.If):
                        for n in stored(st.body) + stored(st.orelse):
                            if n not in names:
                                names.append(n)
                return names
            cand = stored(s.body)
            if any(isinstance(n, ast.Call) and self.call_logs(n) for st in s.body for n in ast.walk(st)) and "log_" not in cand:
                cand.append("log_")
            state = [n for n in cand if n in self.env]
            if not state:
                self.err(s, "items() loop state")
            types0 = {n: self.env[n][1] for n in state}
            env0 = dict(self.env)
            for n in state:
                self.env[n] = (n, types0[n])
            self.env[kv] = (kv, kt)
            self.env[vv] = (vv, vt)
            self.loop_state = (state, types0)
            synth = ast.Return(value=ast.Name(id="__loop_state__", ctx=ast.Load()))
            saved_m, self.monadic_fn = self.monadic_fn, True
            saved_p, self.procedure = getattr(self, "procedure", False), False
            body = self.block(list(s.body) + [synth])
            self.monadic_fn, self.procedure = saved_m, saved_p
            self.loop_state = None
            self.env = env0
            for n in state:
                self.env[n] = (n, types0[n])
            tup = "(%s)" % ", ".join(env0[n][0] for n in state) if len(state) > 1 else env0[state[0]][0]
            pat = "'(%s)" % ", ".join(state) if len(state) > 1 else state[0]
            bpat = "(%s)" % ", ".join(state) if len(state) > 1 else state[0]
            k = self.block(rest)
            return "let* %s := foldM (fun %s '(%s, %s) =>\n  %s) %s %s in\n  %s" % (bpat, pat, kv, vv, body, dct, tup, k)
        # M = <regex>.match(LINE); if not M: raise RegexNotMatchError(...)      then  M.group(1)  is the captured text
        if (isinstance(s, ast.Assign) and len(s.targets) == 1 and isinstance(s.targets[0], ast.Name) and isinstance(s.value, ast.Call)
                and ast.unparse(s.value.func) in getattr(self, "regex_calls", {}) and rest and isinstance(rest[0], ast.If) and not rest[0].orelse
                and ast.unparse(rest[0].test) == "not " + s.targets[0].id and len(rest[0].body) == 1 and isinstance(rest[0].body[0], ast.Raise)):
            fn = self.regex_calls[ast.unparse(s.value.func)]
            exc = ast.unparse(rest[0].body[0].exc.func if isinstance(rest[0].body[0].exc, ast.Call) else rest[0].body[0].exc)
            if exc != "RegexNotMatchError" or len(s.value.args) != 1:
                self.err(s, "regex match idiom")
            a, ta, ma = self.expr(s.value.args[0])
            if ta != "str" or ma:
                self.err(s, "regex match argument")
            m = s.targets[0].id
            self.env["%s.group(1)" % m] = (m + "_g1", "str")
            k = self.block(rest[1:])
            return "let* %s_g1 := (%s %s) in\n  %s" % (m, fn, a, k)
        # X = None  /  X = value   for a variable whose type is declared for this function (optionals)
        if (isinstance(s, ast.Assign) and len(s.targets) == 1 and isinstance(s.targets[0], ast.Name) and s.targets[0].id in getattr(self, "var_types", {})):
            nm = s.targets[0].id
            want = self.var_types[nm]
            c, t, m = self.expr(s.value)
            if m:
                self.err(s, "raising value assigned to a declared variable")
            if t == "none":
                c, t = "(@None %s)" % COQ_TYPES[want[4:]], want
            elif self.coerce("x", t, want, s) is None:
                pass
            self.env[nm] = (nm, t)
            k = self.block(rest)
            return "let %s := %s in\n  %s" % (nm, c, k)
        # D: dict[...] = dict()
        if isinstance(s, ast.AnnAssign) and isinstance(s.target, ast.Name) and ast.unparse(s.value) == "dict()" and ast.unparse(s.annotation) in DICT_ANN:
            kt, vt, coq = DICT_ANN[ast.unparse(s.annotation)]
            self.env[s.target.id] = (s.target.id, "dict:%s,%s" % (kt, vt))
            k = self.block(rest)
            return "let %s := (@nil %s) in\n  %s" % (s.target.id, coq, k)
        # D[K] = V   (insertion-ordered dict: overwrite in place, else append)
        if (isinstance(s, ast.Assign) and len(s.targets) == 1 and isinstance(s.targets[0], ast.Subscript) and isinstance(s.targets[0].value, ast.Name)
                and s.targets[0].value.id in self.env and self.env[s.targets[0].value.id][1].startswith("dict:")):
            dn = s.targets[0].value.id
            kt, vt = self.env[dn][1][5:].split(",", 1)
            kc, ktt, km = self.expr(s.targets[0].slice)
            vc, vtt, vm = self.expr(s.value)
            if km or vm or ktt.replace("some:", "") != kt or vtt != vt:
                self.err(s, "dict store (%s -> %s)" % (ktt, vtt))
            k = self.block(rest)
            return "let %s := (dict_set %s %s %s) in\n  %s" % (dn, kc, vc, self.env[dn][0], k)
        if isinstance(s, (ast.Assign, ast.AnnAssign)) and not isinstance(s.value, ast.List):
            tgt = s.targets[0] if isinstance(s, ast.Assign) else s.target
            if isinstance(s, ast.Assign) and len(s.targets) != 1:
                self.err(s, "assignment target")
            binds, c, t, m = self.lifted(s.value)
            logging_call = isinstance(s.value, ast.Call) and self.call_logs(s.value)
            if logging_call:
                self.logs = True
                self.nlog = getattr(self, "nlog", 0) + 1
                lg = "lg%d_" % self.nlog
                self.log_parts = getattr(self, "log_parts", []) + [lg]
            if isinstance(tgt, ast.Tuple):
                # a, b = <call returning a tuple>
                if not t.startswith("tuple:") or not all(isinstance(x, ast.Name) for x in tgt.elts):
                    self.err(s, "tuple assignment")
                ts = t[6:].split(",")
                if len(ts) != len(tgt.elts):
                    self.err(s, "tuple assignment arity")
                names = []
                for x, tx in zip(tgt.elts, ts):
                    if x.id == "_":
                        names.append("_")
                    else:
                        self.env[x.id] = (x.id, tx)
                        names.append(x.id)
                k = self.block(rest)
                pat = "(%s)" % ", ".join(names)
                if logging_call:
                    pat = "(%s, %s)" % (pat, lg)
                return self.wrap(binds, ("let* %s := %s in\n  %s" if m else "let '%s := %s in\n  %s") % (pat, c, k))
            if not isinstance(tgt, ast.Name):
                self.err(s, "assignment target")
            self.env[tgt.id] = (tgt.id, t)
            k = self.block(rest)
            if logging_call:
                return self.wrap(binds, "let* (%s, %s) := %s in\n  %s" % (tgt.id, lg, c, k))
            return self.wrap(binds, ("let* %s := %s in\n  %s" if m else "let %s := %s in\n  %s") % (tgt.id, c, k))
        # the first-match dispatch loop with a warning for lines nobody claims:
        #   for X in LINES:
        #       for T in TYPES:
        #           try: D = T.from_chart_line(X)
        #           except RegexNotMatchError: continue
        #           M[T].append(D); break
        #       else: logger.warning(TEMPLATE.format(X, ...))
        if (isinstance(s, ast.For) and isinstance(s.target, ast.Name) and not s.orelse and len(s.body) == 1 and isinstance(s.body[0], ast.For)
                and isinstance(s.body[0].target, ast.Name) and len(s.body[0].body) == 3 and len(s.body[0].orelse) == 1 and rest):
            inner = s.body[0]
            tr, st2, br = inner.body
            x, tv = s.target.id, inner.target.id
            ok = (isinstance(tr, ast.Try) and len(tr.body) == 1 and isinstance(tr.body[0], ast.Assign) and len(tr.body[0].targets) == 1
                  and isinstance(tr.body[0].targets[0], ast.Name) and len(tr.handlers) == 1 and ast.unparse(tr.handlers[0].type) == "RegexNotMatchError"
                  and len(tr.handlers[0].body) == 1 and isinstance(tr.handlers[0].body[0], ast.Continue) and not tr.orelse and not tr.finalbody
                  and isinstance(br, ast.Break) and isinstance(st2, ast.Expr))
            if ok:
                dv = tr.body[0].targets[0].id
                call = tr.body[0].value
                ok = (ast.unparse(call) == "%s.from_chart_line(%s)" % (tv, x)
                      and ast.unparse(st2.value).replace(" ", "") in ("%s[%s].append(%s)" % (n, tv, dv) for n in self.env if self.env[n][1] == "pdm"))
                w = inner.orelse[0]
                ok = ok and (isinstance(w, ast.Expr) and isinstance(w.value, ast.Call) and ast.unparse(w.value.func) == "logger.warning"
                             and len(w.value.args) == 1 and isinstance(w.value.args[0], ast.Call) and ast.unparse(w.value.args[0].func).endswith(".format")
                             and w.value.args[0].args and ast.unparse(w.value.args[0].args[0]) == x)
            if not ok:
                self.err(s, "nested loop shape (only the first-match dispatch loop)")
            lines, tl, ml = self.expr(s.iter)
            types, tt, mt = self.expr(inner.iter)
            if tl != "list:str" or tt != "list:kind" or ml or mt:
                self.err(s, "dispatch loop sequences")
            mname = ast.unparse(st2.value.func.value.value)
            self.logs = True
            k = self.block(rest)
            return ("let* (%s, log_) := foldM (fun '(%s, log_) %s =>\n  let* r_ := first_match (fun %s => dec c %s %s) %s in\n  match r_ with\n"
                    "  | Some (%s, %s) => Ok (pdm_append %s %s %s, log_)\n  | None => Ok (%s, log_ ++ [%s])\n  end) %s (%s, []) in\n  %s"
                    % (mname, mname, x, tv, tv, x, types, tv, dv, mname, tv, dv, mname, x, lines, self.env[mname][0], k))
        # for I, X in enumerate(SEQ): <body assigning loop-carried variables>
        if (isinstance(s, ast.For) and isinstance(s.target, ast.Tuple) and len(s.target.elts) == 2 and all(isinstance(x, ast.Name) for x in s.target.elts)
                and isinstance(s.iter, ast.Call) and ast.unparse(s.iter.func) == "enumerate" and len(s.iter.args) == 1 and not s.orelse and rest):
            seq, tseq, mseq = self.expr(s.iter.args[0])
            if not tseq.startswith("list:") or mseq:
                self.err(s, "enumerate over a non-sequence")
            iv, xv = s.target.elts[0].id, s.target.elts[1].id
            def assigned(stmts):
                names = []
                for st in stmts:
                    if isinstance(st, ast.Assign) and len(st.targets) == 1:
                        tg = st.targets[0]
                        if isinstance(tg, ast.Name) and tg.id not in names:
                            names.append(tg.id)
                        if isinstance(tg, ast.Subscript) and isinstance(tg.value, ast.Name) and tg.value.id not in names:
                            names.append(tg.value.id)
                    elif isinstance(st, ast.If):
                        for n in assigned(st.body) + assigned(st.orelse):
                            if n not in names:
                                names.append(n)
                return names
            state = [n for n in assigned(s.body) if n in self.env]
            if len(state) < 2:
                self.err(s, "enumerate loop state")
            types0 = {n: self.env[n][1] for n in state}
            env0 = dict(self.env)
            for n in state:
                self.env[n] = (n, types0[n])
            self.env[iv] = (iv, "int")
            self.env[xv] = (xv, tseq[5:])
            self.loop_state = (state, types0)
            synth = ast.Return(value=ast.Name(id="__loop_state__", ctx=ast.Load()))
            saved_m, self.monadic_fn = self.monadic_fn, True
            saved_p, self.procedure = getattr(self, "procedure", False), False
            body = self.block(list(s.body) + [synth])
            self.monadic_fn, self.procedure = saved_m, saved_p
            self.loop_state = None
            self.env = env0
            for n in state:
                self.env[n] = (n, types0[n])
            tup = "(%s)" % ", ".join(env0[n][0] for n in state)
            pat = "(%s)" % ", ".join(state)
            k = self.block(rest)
            return "let* %s := foldM (fun '%s '(%s, %s) =>\n  %s) (enumerate_Z %s) %s in\n  %s" % (pat, pat, iv, xv, body, seq, tup, k)
        # for V in SEQ: if C: return E            (followed by more code)
        if (isinstance(s, ast.For) and isinstance(s.target, ast.Name) and not s.orelse and len(s.body) == 1 and isinstance(s.body[0], ast.If)
                and not s.body[0].orelse and len(s.body[0].body) == 1 and isinstance(s.body[0].body[0], ast.Return) and rest
                and not (isinstance(s.iter, ast.Call) and ast.unparse(s.iter.func) == "range")):
            seq, tseq, mseq = self.expr(s.iter)
            if not tseq.startswith("list:") or mseq:
                self.err(s, "loop over a non-sequence")
            v = s.target.id
            saved = dict(self.env)
            self.env[v] = (v, tseq[5:])
            c, t, m = self.expr(s.body[0].test)
            if t != "bool" or m:
                self.err(s, "loop test")
            found = self.ret(s.body[0].body[0].value)
            self.env = saved
            k = self.block(rest)
            return "match find (fun %s => %s) %s with\n  | Some %s => %s\n  | None =>\n  %s\n  end" % (v, c, seq, v, found, k)
        # for V in [filter(lambda V: P, SEQ) | SEQ]:  [try:] L[I] = E [except IndexError: pass]
        if isinstance(s, ast.For) and isinstance(s.target, ast.Name) and not s.orelse and len(s.body) == 1 and rest:
            b = s.body[0]
            catch = False
            if (isinstance(b, ast.Try) and len(b.body) == 1 and len(b.handlers) == 1 and not b.orelse and not b.finalbody
                    and ast.unparse(b.handlers[0].type) == "IndexError" and len(b.handlers[0].body) == 1 and isinstance(b.handlers[0].body[0], ast.Pass)):
                catch, b = True, b.body[0]
            if (isinstance(b, ast.Assign) and len(b.targets) == 1 and isinstance(b.targets[0], ast.Subscript) and isinstance(b.targets[0].value, ast.Name)
                    and b.targets[0].value.id in self.env and self.env[b.targets[0].value.id][1].startswith("list:")):
                lst = b.targets[0].value.id
                v = s.target.id
                it = s.iter
                pred = None
                if (isinstance(it, ast.Call) and ast.unparse(it.func) == "filter" and len(it.args) == 2 and isinstance(it.args[0], ast.Lambda)
                        and len(it.args[0].args.args) == 1):
                    pred, it = it.args[0], it.args[1]
                seq, tseq, mseq = self.expr(it)
                if not tseq.startswith("list:") or mseq:
                    self.err(s, "loop over a non-sequence")
                saved = dict(self.env)
                self.env[v] = (v, tseq[5:])
                self.env[lst] = (lst, saved[lst][1])
                i, ti, mi = self.expr(b.targets[0].slice)
                x, tx, mx = self.expr(b.value)
                et = saved[lst][1][5:]
                if et.startswith("opt:") and tx == et[4:]:
                    x, tx = "(Some %s)" % x, et
                if ti != "int" or mi or mx or tx != et:
                    self.err(b, "indexed assignment (%s[%s] = %s)" % (et, ti, tx))
                step = "list_set %s %s %s" % (lst, i, x)
                if catch:
                    step = "catch_index (%s) %s" % (step, lst)
                if pred is not None:
                    pv = pred.args.args[0].arg
                    self.env[pv] = (v, tseq[5:])
                    pc, pt, pm = self.expr(pred.body)
                    if pt != "bool" or pm:
                        self.err(pred, "filter predicate")
                    step = "if %s then %s else Ok %s" % (pc, step, lst)
                self.env = saved
                k = self.block(rest)
                return "let* %s := foldM (fun %s %s => %s) %s %s in\n  %s" % (lst, lst, v, step, seq, saved[lst][0], k)
        # if isinstance(X, int): <returns>      (X of the union type `sustain`)
        if (isinstance(s, ast.If) and not s.orelse and isinstance(s.test, ast.Call) and ast.unparse(s.test.func) == "isinstance" and len(s.test.args) == 2
                and ast.unparse(s.test.args[1]) == "int" and ast.unparse(s.test.args[0]) in self.env and self.env[ast.unparse(s.test.args[0])][1] == "sustain"):
            nm = ast.unparse(s.test.args[0])
            c0, _ = self.env[nm]
            saved = dict(self.env)
            self.env[nm] = (c0, "int")
            then = self.block(s.body)
            self.env[nm] = (c0, "list:opt:int")
            k = self.block(rest)
            self.env = saved
            return "match %s with\n  | SInt %s => %s\n  | STuple %s =>\n  %s\n  end" % (c0, c0, then, c0, k)
        if isinstance(s, ast.AugAssign) and isinstance(s.target, ast.Name) and isinstance(s.op, ast.Add):
            nm = s.target.id
            if nm not in self.env or self.env[nm][1] != "int":
                self.err(s, "augmented assignment")
            c, t, m = self.expr(s.value)
            if t != "int" or m:
                self.err(s, "augmented assignment operand")
            k = self.block(rest)
            return "let %s := (%s + %s) in\n  %s" % (nm, self.env[nm][0], c, k)
        if (isinstance(s, ast.Expr) and isinstance(s.value, ast.Call) and isinstance(s.value.func, ast.Attribute) and s.value.func.attr == "append"
                and isinstance(s.value.func.value, ast.Name) and len(s.value.args) == 1 and not s.value.keywords):
            nm = s.value.func.value.id
            if nm not in self.env or not self.env[nm][1].startswith("list:"):
                self.err(s, "append to a non-list")
            c, t, m = self.expr(s.value.args[0])
            if m or t != self.env[nm][1][5:]:
                self.err(s, "appended element (type %s)" % t)
            k = self.block(rest)
            return "let %s := (%s ++ [%s]) in\n  %s" % (nm, self.env[nm][0], c, k)
        if isinstance(s, ast.While) and not s.orelse:
            def assigned(stmts):
                names = []
                def add(n):
                    if n not in names:
                        names.append(n)
                for st in stmts:
                    if isinstance(st, ast.Assign) and len(st.targets) == 1:
                        tg = st.targets[0]
                        for n in (tg.elts if isinstance(tg, ast.Tuple) else [tg]):
                            if isinstance(n, ast.Name):
                                add(n.id)
                    elif isinstance(st, ast.AugAssign) and isinstance(st.target, ast.Name):
                        add(st.target.id)
                    elif (isinstance(st, ast.Expr) and isinstance(st.value, ast.Call) and isinstance(st.value.func, ast.Attribute)
                          and st.value.func.attr == "append" and isinstance(st.value.func.value, ast.Name)):
                        add(st.value.func.value.id)
                    elif isinstance(st, (ast.While, ast.If)):
                        for n in assigned(st.body) + assigned(getattr(st, "orelse", [])):
                            add(n)
                return names
            state = [n for n in assigned(s.body) if n in self.env]
            if not state:
                self.err(s, "while loop without loop-carried state")
            fuel = getattr(self, "fuel", None)
            if not fuel:
                self.err(s, "while loop in a function without a declared fuel bound")
            types0 = {n: self.env[n][1] for n in state}
            pat = "'(%s)" % ", ".join(state) if len(state) > 1 else state[0]
            tup = "(%s)" % ", ".join(self.env[n][0] for n in state) if len(state) > 1 else self.env[state[0]][0]
            env0 = dict(self.env)
            for n in state:
                self.env[n] = (n, types0[n])
            cond = self.cond_m(s.test)
            synth = ast.Return(value=ast.Tuple(elts=[ast.Name(id=n, ctx=ast.Load()) for n in state], ctx=ast.Load()) if len(state) > 1
                               else ast.Name(id=state[0], ctx=ast.Load()))
            saved_m, self.monadic_fn = self.monadic_fn, True
            saved_p, self.procedure = getattr(self, "procedure", False), False
            body = self.block(list(s.body) + [synth])
            self.monadic_fn, self.procedure = saved_m, saved_p
            for n in state:
                if self.env_after.get(n) != types0[n]:
                    self.err(s, "loop-carried %s changes type (%s -> %s)" % (n, types0[n], self.env_after.get(n)))
            self.env = env0
            for n in state:
                self.env[n] = (n, types0[n])
            if not rest:
                self.err(s, "while loop at the end of a block")
            k = self.block(rest)
            bpat = "(%s)" % ", ".join(state) if len(state) > 1 else state[0]
            return "let* %s := while_fuel %s (fun %s => %s) (fun %s =>\n  %s) %s in\n  %s" % (bpat, fuel, pat, cond, pat, body, tup, k)
        # x: list[T] = []   (not followed by the accumulation loop below)
        if (isinstance(s, ast.AnnAssign) and isinstance(s.value, ast.List) and not s.value.elts and isinstance(s.target, ast.Name)
                and not (rest and isinstance(rest[0], ast.For))):
            ann = ast.unparse(s.annotation)
            if ann not in LIST_ANN:
                self.err(s, "list annotation")
            self.env[s.target.id] = (s.target.id, "list:" + LIST_ANN[ann])
            k = self.block(rest)
            return "let %s := (@nil %s) in\n  %s" % (s.target.id, COQ_TYPES[LIST_ANN[ann]], k)
        # events = []
        # for D in DATAS:
        #     P = events[-1] if events else None
        #     events.append(F(..D..P..))
        # <rest reads events>
        if (isinstance(s, (ast.Assign, ast.AnnAssign)) and isinstance(s.value, ast.List) and not s.value.elts and len(rest) >= 2 and isinstance(rest[0], ast.For)):
            acc = (s.targets[0] if isinstance(s, ast.Assign) else s.target)
            f = rest[0]
            if (isinstance(acc, ast.Name) and isinstance(f.target, ast.Name) and not f.orelse and len(f.body) == 2
                    and isinstance(f.body[0], ast.Assign) and len(f.body[0].targets) == 1 and isinstance(f.body[0].targets[0], ast.Name)
                    and ast.unparse(f.body[0].value) == "%s[-1] if %s else None" % (acc.id, acc.id)
                    and isinstance(f.body[1], ast.Expr) and isinstance(f.body[1].value, ast.Call)
                    and ast.unparse(f.body[1].value.func) == acc.id + ".append" and len(f.body[1].value.args) == 1 and not f.body[1].value.keywords):
                seq, tseq, mseq = self.expr(f.iter)
                if not tseq.startswith("list:") or mseq:
                    self.err(f, "loop over a non-sequence")
                d, pv = f.target.id, f.body[0].targets[0].id
                call = f.body[1].value.args[0]
                # the element type is the result type of the call; the previous element is an optional of it
                saved = dict(self.env)
                self.env[d] = (d, tseq[5:])
                rt = self.fold_result_type(call)
                self.env[pv] = (pv, "opt:" + rt)
                binds, c, t, m = self.lifted(call)
                self.env = saved
                if t != rt or any(ast.unparse(n) == acc.id for n in ast.walk(call) if isinstance(n, ast.Name)):
                    self.err(f, "loop body")
                body = self.wrap(binds, c if m else "Ok %s" % c).replace("\n  ", " ")
                self.env[acc.id] = (acc.id, "list:" + rt)
                k = self.block(rest[1:])
                return "let* %s := fold_prev (fun %s %s => %s) %s in\n  %s" % (acc.id, d, pv, body, seq, k)
            if (isinstance(acc, ast.Name) and isinstance(f.target, ast.Name) and not f.orelse and len(f.body) == 2
                    and isinstance(f.body[0], ast.Assign) and len(f.body[0].targets) == 1 and isinstance(f.body[0].targets[0], ast.Name)
                    and isinstance(f.body[0].value, ast.Call)
                    and isinstance(f.body[1], ast.Expr) and ast.unparse(f.body[1].value) == "%s.append(%s)" % (acc.id, f.body[0].targets[0].id)):
                # events = []; for D in DATAS: E = F(D); events.append(E)        (a map that stops at the first exception)
                seq, tseq, mseq = self.expr(f.iter)
                if not tseq.startswith("list:") or mseq:
                    self.err(f, "loop over a non-sequence")
                d = f.target.id
                saved = dict(self.env)
                self.env[d] = (d, tseq[5:])
                binds, c, t, m = self.lifted(f.body[0].value)
                self.env = saved
                if any(ast.unparse(n) == acc.id for n in ast.walk(f.body[0].value) if isinstance(n, ast.Name)):
                    self.err(f, "loop body reads the accumulator")
                body = self.wrap(binds, c if m else "Ok %s" % c).replace("\n  ", " ")
                self.env[acc.id] = (acc.id, "list:" + t)
                k = self.block(rest[1:])
                return "let* %s := mapM (fun %s => %s) %s in\n  %s" % (acc.id, d, body, seq, k)
            self.err(s, "accumulation loop shape")
        # if C: <assignments> else: <assignments>   followed by code: the branches are joined on the names both assign
        if isinstance(s, ast.If) and rest and getattr(self, "loop_state", None) is not None:
            def ends(stmts):
                return bool(stmts) and isinstance(stmts[-1], (ast.Return, ast.Raise))
            if not ends(s.body) or (s.orelse and not ends(s.orelse)):
                # inside a loop body: every path runs into the rest (the synthetic return of the loop state)
                t = s.test
                saved = dict(self.env)
                if (isinstance(t, ast.Compare) and len(t.ops) == 1 and isinstance(t.ops[0], ast.Is) and ast.unparse(t.comparators[0]) == "None"
                        and ast.unparse(t.left) in self.env and self.env[ast.unparse(t.left)][1].startswith("opt:")):
                    name = ast.unparse(t.left)
                    c0, t0 = self.env[name]
                    then = self.block(list(s.body) + rest)
                    self.env = dict(saved)
                    self.env[name] = (c0, t0[4:])
                    els = self.block(list(s.orelse) + rest)
                    self.env = saved
                    return "match %s with\n  | None => %s\n  | Some %s =>\n  %s\n  end" % (c0, then, c0, els)
                binds, c, ty, m = self.lifted(t)
                if ty != "bool" or m or binds:
                    self.err(t, "condition")
                then = self.block(list(s.body) + rest)
                self.env = dict(saved)
                els = self.block(list(s.orelse) + rest)
                self.env = saved
                return "if %s then %s else\n  %s" % (c, then, els)
        if isinstance(s, ast.If) and s.orelse and rest and getattr(self, "loop_state", None) is None:
            def assigned(stmts):
                names = []
                for st in stmts:
                    if isinstance(st, ast.Assign) and len(st.targets) == 1:
                        tg = st.targets[0]
                        for n in (tg.elts if isinstance(tg, ast.Tuple) else [tg]):
                            if isinstance(n, ast.Name) and n.id not in names:
                                names.append(n.id)
                    elif isinstance(st, ast.If):
                        for n in assigned(st.body) + assigned(st.orelse):
                            if n not in names:
                                names.append(n)
                return names
            def terminates(stmts):
                return bool(stmts) and isinstance(stmts[-1], (ast.Raise, ast.Return))
            a_then, a_else = assigned(s.body), assigned(s.orelse)
            joined = a_then if terminates(s.orelse) else a_else if terminates(s.body) else [n for n in a_then if n in a_else]
            if not joined:
                self.err(s, "if/else followed by code, with no commonly assigned name")
            synth = ast.Return(value=ast.Tuple(elts=[ast.Name(id=n, ctx=ast.Load()) for n in joined], ctx=ast.Load()) if len(joined) > 1
                               else ast.Name(id=joined[0], ctx=ast.Load()))
            saved_m, self.monadic_fn = self.monadic_fn, True
            saved_p, self.procedure = getattr(self, "procedure", False), False
            t = s.test
            env0 = dict(self.env)
            types = {}
            def branch(stmts):
                self.env = dict(env0)
                self.env_after = {}
                code = self.block(list(stmts) + [synth])
                if not terminates(stmts):
                    for n in joined:
                        types.setdefault(n, []).append(self.env_after.get(n))
                return code
            if (isinstance(t, ast.Compare) and len(t.ops) == 1 and isinstance(t.ops[0], ast.Is) and ast.unparse(t.comparators[0]) == "None"
                    and ast.unparse(t.left) in self.env and self.env[ast.unparse(t.left)][1].startswith("opt:")):
                name = ast.unparse(t.left)
                c0, t0 = self.env[name]
                then = branch(s.body)
                self.env = dict(env0)
                env0_else = dict(env0)
                env0_else[name] = (c0, "some:" + t0[4:])
                for k2, v2 in list(self.narrow.get(name, {}).items()):
                    env0_else[k2] = v2
                saved_env0 = env0
                env0 = env0_else
                els = branch(s.orelse)
                env0 = saved_env0
                code = "match %s with\n  | None => %s\n  | Some %s =>\n  %s\n  end" % (c0, then, c0, els)
            else:
                binds, c, ty, m = self.lifted(t)
                if ty != "bool" or m or binds:
                    self.err(t, "condition")
                saved_ctx = dict(getattr(self, "bound_ctx", {}))
                self.bound_ctx = dict(saved_ctx, **self.bound_branch_ctx(t))
                then_code = branch(s.body)
                self.bound_ctx = saved_ctx
                code = "if %s then %s else %s" % (c, then_code, branch(s.orelse))
            self.monadic_fn, self.procedure = saved_m, saved_p
            self.env = dict(env0)
            for n in joined:
                ts_ = types.get(n, [])
                if not ts_ or ts_[0] is None or any(t_ != ts_[0] for t_ in ts_):
                    self.err(s, "joined name %s has different types in the two branches (%s)" % (n, ts_))
                self.env[n] = (n, ts_[0])
            k = self.block(rest)
            pat = "(%s)" % ", ".join(joined) if len(joined) > 1 else joined[0]
            return "let* %s := (%s) in\n  %s" % (pat, code, k)
        if isinstance(s, ast.For):
            # for V in range(A, B):  if C: return V      followed by      return D
            if (isinstance(s.target, ast.Name) and isinstance(s.iter, ast.Call) and ast.unparse(s.iter.func) == "range" and len(s.iter.args) == 2
                    and not s.orelse and len(s.body) == 1 and isinstance(s.body[0], ast.If) and not s.body[0].orelse
                    and len(s.body[0].body) == 1 and isinstance(s.body[0].body[0], ast.Return)
                    and ast.unparse(s.body[0].body[0].value) == s.target.id
                    and len(rest) == 1 and isinstance(rest[0], ast.Return)):
                a, ta, ma = self.expr(s.iter.args[0])
                b, tb, mb = self.expr(s.iter.args[1])
                if ta != "int" or tb != "int" or ma or mb:
                    self.err(s, "range bounds")
                saved = dict(self.env)
                self.env[s.target.id] = (s.target.id, "int")
                test = self.cond_result(s.body[0].test)
                self.env = saved
                d = self.ret(rest[0].value)
                return "for_first %s %s (fun %s => %s) (%s)" % (a, b, s.target.id, test, d)
            # for V in range(A, B):  if C: break       followed by code that reads V (the loop variable outlives the loop)
            if (isinstance(s.target, ast.Name) and isinstance(s.iter, ast.Call) and ast.unparse(s.iter.func) == "range" and len(s.iter.args) == 2
                    and not s.orelse and len(s.body) == 1 and isinstance(s.body[0], ast.If) and not s.body[0].orelse
                    and len(s.body[0].body) == 1 and isinstance(s.body[0].body[0], ast.Break) and rest):
                a, ta, ma = self.expr(s.iter.args[0])
                b, tb, mb = self.expr(s.iter.args[1])
                if ta != "int" or tb != "int" or ma or mb:
                    self.err(s, "range bounds")
                v = s.target.id
                if v in self.env:
                    self.err(s, "loop variable shadows a name")
                self.env[v] = (v, "int")
                binds, c, t, m = self.lifted(s.body[0].test)
                if t != "bool" or m:
                    self.err(s.body[0].test, "loop test")
                test = self.wrap(binds, "Ok %s" % c).replace("\n  ", " ")
                k = self.block(rest)
                return "let* %s := for_break %s %s (fun %s => %s) in\n  %s" % (v, a, b, v, test, k)
            self.err(s, "for loop shape")
        if isinstance(s, ast.If):
            # narrowing:  if x is None: <returns>   =>   match x with None => … | Some x => rest end
            t = s.test
            if (isinstance(t, ast.Compare) and len(t.ops) == 1 and isinstance(t.ops[0], ast.Is) and ast.unparse(t.comparators[0]) == "None"
                    and ast.unparse(t.left) in self.env and self.env[ast.unparse(t.left)][1].startswith("opt:") and not s.orelse):
                name = ast.unparse(t.left)
                c0, t0 = self.env[name]
                then = self.block(s.body)
                saved = dict(self.env)
                self.env[name] = (c0, "some:" + t0[4:])
                for k, v in list(self.narrow.get(name, {}).items()):
                    self.env[k] = v
                k = self.block(rest)
                self.env = saved
                return "match %s with\n  | None => %s\n  | Some %s =>\n  %s\n  end" % (c0, then, c0, k)
            binds, c, ty, m = self.lifted(t)
            if ty != "bool" or m:
                self.err(t, "condition")
            then = self.block(s.body)
            if s.orelse:
                if rest:
                    self.err(s, "code after if/else")
                return self.wrap(binds, "if %s then %s else %s" % (c, then, self.block(s.orelse)))
            return self.wrap(binds, "if %s then %s else\n  %s" % (c, then, self.block(rest)))
        self.err(s, "statement")

    def cond_m(self, test):
        if isinstance(test, ast.BoolOp) and isinstance(test.op, ast.And):
            code = None
            for v in reversed(test.values):
                c = self.cond_m(v)
                code = c if code is None else "let* b_ := %s in if b_ then %s else Ok false" % (c, code)
            return code
        binds, c, t, m = self.lifted(test)
        if t != "bool" or m:
            self.err(test, "loop condition")
        return self.wrap(binds, "Ok %s" % c).replace("\n  ", " ")

    def cond_result(self, test):
        """A loop test as a `result bool`: comparisons whose operands may raise (indexing) are sequenced."""
        if isinstance(test, ast.Compare) and len(test.ops) == 1:
            l, r = test.left, test.comparators[0]
            binds = []
            def atom(e):
                c, t, m = self.expr(e)
                if m:
                    self.fresh += 1
                    v = "x%d" % self.fresh
                    binds.append((v, c))
                    self.env["__tmp_" + v] = (v, t)
                    return ast.Name(id="__tmp_" + v, ctx=ast.Load())
                return e
            def lift(e):
                # only the pattern  <indexing>.attr  needs sequencing
                if isinstance(e, ast.Attribute):
                    inner = atom(e.value)
                    return ast.Attribute(value=inner, attr=e.attr, ctx=ast.Load())
                return e
            l2, r2 = lift(l), lift(r)
            code = self.compare(l2, test.ops[0], r2, test)
            for v, c in reversed(binds):
                code = "let* %s := %s in Ok %s" % (v, c, code) if binds[-1][0] == v else "let* %s := %s in %s" % (v, c, code)
            if not binds:
                code = "Ok %s" % code
            return code
        c, t, m = self.expr(test)
        if t != "bool" or m:
            self.err(test, "loop test")
        return "Ok %s" % c

    def fold_result_type(self, call):
        fsrc = ast.unparse(call.func)
        if fsrc in self.calls:
            return self.calls[fsrc][2]
        self.err(call, "callee of the accumulation loop")

    def function(self, fn, params, monadic_fn, narrow=None, procedure=False):
        self.monadic_fn = monadic_fn
        self.procedure = procedure
        self.env_after = {}
        self.narrow = narrow or {}
        if getattr(self, "log_var", False):
            self.logs = True
            self.log_parts = ["log_"]
            self.env["log_"] = ("log_", "list:log")
            body = "let log_ := (@nil log) in\n  " + self.block(fn.body)
        else:
            body = self.block(fn.body)
        return "Definition %s %s :=\n  %s." % (self.name, " ".join("(%s : %s)" % p for p in params), body)


# --------------------------------------------------------------------------------------------------
# targets
# --------------------------------------------------------------------------------------------------

def module_int_consts(tree):
    """Module-level names bound once to an integer literal (NAME = 60, NAME: typ.Final[int] = 60)."""
    out, seen = {}, {}
    for n in tree.body:
        tgt = val = None
        if isinstance(n, ast.Assign) and len(n.targets) == 1 and isinstance(n.targets[0], ast.Name):
            tgt, val = n.targets[0].id, n.value
        elif isinstance(n, ast.AnnAssign) and isinstance(n.target, ast.Name) and n.value is not None:
            tgt, val = n.target.id, n.value
        if tgt is None:
            continue
        seen[tgt] = seen.get(tgt, 0) + 1
        if isinstance(val, ast.Constant) and isinstance(val.value, int) and not isinstance(val.value, bool):
            out[tgt] = val.value
    return {k: v for k, v in out.items() if seen.get(k) == 1}


def enum_int(tree, cls, member):
    for n in tree.body:
        if isinstance(n, ast.ClassDef) and n.name == cls:
            for b in n.body:
                if isinstance(b, ast.Assign) and len(b.targets) == 1 and isinstance(b.targets[0], ast.Name) and b.targets[0].id == member:
                    if isinstance(b.value, ast.Constant) and isinstance(b.value.value, int):
                        return b.value.value
    raise LeafError("enum member %s.%s is not an int literal" % (cls, member))


def group_tick():
    tree = ast.parse(open(os.path.join(REPO, "chartparse", "tick.py")).read())
    consts = module_int_consts(tree)
    out = []
    for name in ("add", "sum", "difference", "between"):
        f = find_function(tree, name)
        t = Tr("leaf_tick_" + name, {"a": ("a", "int"), "b": ("b", "int")}, {}, "int")
        t.consts = consts
        out.append(t.function(f, [("a", "Z"), ("b", "Z")], False))
    f = find_function(tree, "seconds_from_ticks_at_bpm")
    t = Tr("leaf_seconds", {"ticks": ("ticks", "int"), "bpm": ("bpm", "float"), "resolution": ("resolution", "int")}, {}, "float")
    t.consts = consts
    out.append(t.function(f, [("ticks", "Z"), ("bpm", "f64"), ("resolution", "Z")], True))
    f = find_function(tree, "note_duration_to_ticks")
    t = Tr("leaf_note_duration_to_ticks", {"resolution": ("resolution", "int"), "note_duration.value": ("dv", "int")}, {}, "int")
    t.consts = consts
    out.append(t.function(f, [("resolution", "Z"), ("dv", "Z")], True))
    return out


def group_special():
    tree = ast.parse(open(os.path.join(REPO, "chartparse", "instrument.py")).read())
    out = []
    env = {"self.tick": ("(sp_tick e)", "int"), "self.sustain": ("(sp_sus e)", "int"), "tick": ("tick", "int"),
           "self.end_tick": ("(leaf_sp_end_tick e)", "int")}
    calls = {"chartparse.tick.add": ("leaf_tick_add", ["int", "int"], "int", False),
             "self.tick_is_after_event": ("leaf_tick_is_after_event e", ["int"], "bool", False)}
    f = find_function(tree, "SpecialEvent.end_tick")
    out.append(Tr("leaf_sp_end_tick", env, calls, "int").function(f, [("e", "special_event")], False))
    f = find_function(tree, "SpecialEvent.tick_is_after_event")
    out.append(Tr("leaf_tick_is_after_event", env, calls, "bool").function(f, [("e", "special_event"), ("tick", "Z")], False))
    f = find_function(tree, "SpecialEvent.tick_is_during_event")
    out.append(Tr("leaf_tick_is_during_event", env, calls, "bool").function(f, [("e", "special_event"), ("tick", "Z")], False))
    # NoteEvent._end_tick
    f = find_function(tree, "NoteEvent._end_tick")
    out.append(Tr("leaf_note_end_tick", {"tick": ("tick", "int"), "sustain": ("sustain", "int")}, calls, "int").function(f, [("tick", "Z"), ("sustain", "Z")], False))
    # Note.is_chord: sum(self.value) > 1
    f = find_function(tree, "Note.is_chord")
    out.append(Tr("leaf_is_chord", {"sum(self.value)": ("(lane_count note)", "int")}, {}, "bool").function(f, [("note", "list bool")], False))
    # NoteTrackIndex.is_5_note: G.value <= self.value <= O.value  (enum constants read from the class body)
    g, o = enum_int(tree, "NoteTrackIndex", "G"), enum_int(tree, "NoteTrackIndex", "O")
    f = find_function(tree, "NoteTrackIndex.is_5_note")
    env5 = {"NoteTrackIndex.G.value": (str(g), "int"), "NoteTrackIndex.O.value": (str(o), "int"), "self.value": ("i", "int")}
    out.append(Tr("leaf_is_5_note", env5, {}, "bool").function(f, [("i", "Z")], False))
    return out


def group_hopo():
    tree = ast.parse(open(os.path.join(REPO, "chartparse", "instrument.py")).read())
    f = find_function(tree, "NoteEvent._compute_hopo_state")
    env = {"resolution": ("resolution", "int"), "tick": ("tick", "int"), "note": ("note", "lanes"), "is_tap": ("is_tap", "bool"),
           "is_forced": ("is_forced", "bool"), "previous": ("previous", "opt:prev"),
           "HOPOState.TAP": ("TAP", "hopo"), "HOPOState.STRUM": ("STRUM", "hopo"), "HOPOState.HOPO": ("HOPO", "hopo"),
           "NoteDuration.EIGHTH_TRIPLET": ("et", "int")}
    narrow = {"previous": {"previous.tick": ("(fst previous)", "int"), "previous.note": ("(snd previous)", "lanes")}}
    calls = {"chartparse.tick.note_duration_to_ticks": ("leaf_note_duration_to_ticks", ["int", "int"], "int", True),
             "note.is_chord": ("leaf_is_chord note", [], "bool", False)}
    t = Tr("leaf_compute_hopo_state", env, calls, "hopo")
    return [t.function(f, [("et", "Z"), ("resolution", "Z"), ("tick", "Z"), ("note", "list bool"), ("is_tap", "bool"), ("is_forced", "bool"),
                           ("previous", "option (Z * list bool)")], True, narrow)]


def group_query():
    tree = ast.parse(open(os.path.join(REPO, "chartparse", "sync.py")).read())
    f = find_function(tree, "BPMEvents.timestamp_at_tick")
    env = {"tick": ("tick", "int"), "start_iteration_index": ("h", "int"), "self.events": ("(evs B)", "list:bpm"), "self.resolution": ("(resolution B)", "int"),
           "proximal_bpm_event.tick": ("(b_tick proximal_bpm_event)", "int"), "proximal_bpm_event.bpm": ("(b_bpm proximal_bpm_event)", "float"),
           "proximal_bpm_event.timestamp": ("(b_ts proximal_bpm_event)", "ts")}
    calls = {"self._index_of_proximal_event": ("index_of_proximal (evs B)", ["int", "int"], "int", True),
             "chartparse.tick.between": ("leaf_tick_between", ["int", "int"], "int", False),
             "chartparse.tick.seconds_from_ticks_at_bpm": ("leaf_seconds", ["int", "float", "int"], "float", True),
             "chartparse.time.add": ("time_add_seconds", ["ts", "float"], "ts", True)}
    t = Tr("leaf_timestamp_at_tick", env, calls, "tuple")
    out = [t.function(f, [("B", "bpm_events"), ("tick", "Z"), ("h", "Z")], True)]
    f = find_function(tree, "BPMEvents._index_of_proximal_event")
    env2 = {"tick": ("tick", "int"), "start_iteration_index": ("h", "int"), "self": ("es", "list:bpm")}
    t2 = Tr("leaf_index_of_proximal", env2, {}, "int")
    out.insert(0, t2.function(f, [("es", "list bpm_event"), ("tick", "Z"), ("h", "Z")], True))
    return out


def group_note():
    tree = ast.parse(open(os.path.join(REPO, "chartparse", "instrument.py")).read())
    out = []
    # NoteEvent._compute_star_power_data
    f = find_function(tree, "NoteEvent._compute_star_power_data")
    env = {"tick": ("tick", "int"), "star_power_events": ("sps", "list:sp"), "proximal_star_power_event_index": ("i", "int")}
    calls = {"StarPowerData": ("Some", ["int"], "opt:int", False, ["star_power_event_index"])}
    out.append(Tr("leaf_compute_sp", env, calls, "tuple").function(f, [("tick", "Z"), ("sps", "list special_event"), ("i", "Z")], True))
    # NoteEvent.from_parsed_data: the order in which a note event's parts are computed and which hint feeds which query
    f = find_function(tree, "NoteEvent.from_parsed_data")
    idx = lambda m: str(enum_int(tree, "NoteTrackIndex", m))
    env = {"datas": ("datas", "list:nd"), "prev_event": ("(option_map (fun p => (n_tick p, n_note p)) prev_event)", "opt:prev"),
           "star_power_events": ("sps", "list:sp"), "bpm_events": ("B", "bpmevents"),
           "proximal_bpm_event_index": ("hint", "int"), "star_power_event_index": ("cursor", "int"),
           "NoteTrackIndex.TAP": (idx("TAP"), "int"), "NoteTrackIndex.FORCED": (idx("FORCED"), "int")}
    calls = {"Note.from_parsed_datas": ("lanes_of", ["list:nd"], "lanes", False),
             "complex_sustain_from_parsed_datas": ("complex_sustain", ["list:nd"], "sustain", True),
             "NoteEvent._compute_hopo_state": ("compute_hopo c", ["int", "int", "lanes", "bool", "bool", "opt:prev"], "hopo", True),
             "NoteEvent._compute_star_power_data": ("compute_sp_py", ["int", "list:sp", "int"], "tuple:opt:int,int", True),
             "cls._longest_sustain": ("longest_sustain", ["sustain"], "int", True),
             "cls._end_tick": ("leaf_note_end_tick", ["int", "int"], "int", False),
             "cls": ("mk_note_event", ["int", "ts", "ts", "lanes", "hopo", "sustain", "opt:int", "int"], "note_event", False,
                     ["tick", "timestamp", "end_timestamp", "note", "hopo_state", "sustain", "star_power_data", "_proximal_bpm_event_index"])}
    t = Tr("leaf_note_from_parsed_data", env, calls, "tuple")
    out.append(t.function(f, [("c", "cfg"), ("datas", "list ndata"), ("prev_event", "option note_event"), ("sps", "list special_event"),
                              ("B", "bpm_events"), ("hint", "Z"), ("cursor", "Z")], True))
    # InstrumentTrack._build_note_events_from_data: the two nested while loops that cut the note lines into runs of equal tick
    # and thread the previous event, the tempo hint and the star-power cursor through NoteEvent.from_parsed_data
    f = find_function(tree, "InstrumentTrack._build_note_events_from_data")
    env = {"datas": ("datas", "list:nd"), "star_power_events": ("sps", "list:sp"), "bpm_events": ("B", "bpmevents")}
    calls = {"NoteEvent.from_parsed_data": ("leaf_note_from_parsed_data c", ["list:nd", "opt:note_event", "list:sp", "bpmevents", "int", "int"], "tuple:note_event,int,int", True)}
    t = Tr("leaf_build_note_events", env, calls, "list:note_event")
    t.fuel = "(S (length datas))"
    out.append(t.function(f, [("c", "cfg"), ("datas", "list ndata"), ("sps", "list special_event"), ("B", "bpm_events")], True))
    return out


def group_sustain():
    tree = ast.parse(open(os.path.join(REPO, "chartparse", "instrument.py")).read())
    out = []
    idx = lambda m: str(enum_int(tree, "NoteTrackIndex", m))
    # _refined_sustain_tuple
    f = find_function(tree, "_refined_sustain_tuple")
    out.append(Tr("leaf_refined_sustain_tuple", {"sustain_tuple": ("sustain_tuple", "list:opt:int")}, {}, "sustain").function(
        f, [("sustain_tuple", "list (option Z)")], True))
    # complex_sustain_from_parsed_datas
    f = find_function(tree, "complex_sustain_from_parsed_datas")
    env = {"datas": ("datas", "list:nd"), "NoteTrackIndex.OPEN": (idx("OPEN"), "int")}
    calls = {"_refined_sustain_tuple": ("leaf_refined_sustain_tuple", ["list:opt:int"], "sustain", True)}
    out.append(Tr("leaf_complex_sustain", env, calls, "sustain").function(f, [("datas", "list ndata")], True))
    # NoteEvent._longest_sustain
    f = find_function(tree, "NoteEvent._longest_sustain")
    out.append(Tr("leaf_longest_sustain", {"sustain": ("sustain", "sustain")}, {}, "int").function(f, [("sustain", "sustain")], True))
    # Note.from_parsed_datas
    f = find_function(tree, "Note.from_parsed_datas")
    calls = {"cls": ("lanes_of_bits", ["list:int"], "lanes", False)}
    out.append(Tr("leaf_note_from_parsed_datas", {"datas": ("datas", "list:nd")}, calls, "lanes").function(f, [("datas", "list ndata")], True))
    return out


SUSTAIN_HEADER = """From CP Require Import Base.Prelude Base.Cfg Base.Loops Base.While Base.Float64 Model.Sync Model.Instrument Gen.Leaf_tick Gen.Leaf_special.
Open Scope Z_scope.
(* Note(tuple(n)): the enum member whose value is the 0/1 tuple; the model keeps the lanes as booleans *)
Definition lanes_of_bits (n : list Z) : list bool := map (fun z => negb (z =? 0)) n.
"""


def group_chart():
    tree = ast.parse(open(os.path.join(REPO, "chartparse", "chart.py")).read())
    f = find_function(tree, "Chart._partition_lines_by_data_section")
    t = Tr("leaf_partition", {"lines": ("lines", "list:str")}, {}, "dict:str,list:str")
    t.var_types = {"curr_header_tag": "opt:str", "curr_first_line_index": "opt:int", "curr_last_line_index": "opt:int"}
    t.regex_calls = {"cls._header_tag_regex_prog.match": "dec_header c"}
    return [t.function(f, [("c", "cfg"), ("lines", "list str")], True)]


CHART_HEADER = """From CP Require Import Base.Prelude Base.Str Base.Cfg Base.Loops Base.While Model.Lines Model.Chart.
Open Scope Z_scope.
"""


def group_dispatch():
    tree = ast.parse(open(os.path.join(REPO, "chartparse", "track.py")).read())
    f = find_function(tree, "parse_data_from_chart_lines")
    t = Tr("leaf_parse_data_from_chart_lines", {"types": ("types", "list:kind"), "lines": ("lines", "list:str")},
           {"ParsedDataMap": ("pdm_empty", [], "pdm", False)}, "pdm")
    return [t.function(f, [("c", "cfg"), ("types", "list kind"), ("lines", "list str")], True)]


DISPATCH_HEADER = """From CP Require Import Base.Prelude Base.Str Base.Cfg Base.Loops Base.While Model.Lines.
Open Scope Z_scope.
(* ParsedDataMap: a defaultdict(list) keyed by the ParsedData class; m[t].append(d) *)
Definition pdm := list (kind * list pdata).
Definition pdm_empty : pdm := [].
Definition pdm_get (m : pdm) (k : kind) : list pdata :=
  match find (fun p => kind_eqb k (fst p)) m with Some p => snd p | None => [] end.
Fixpoint pdm_append (m : pdm) (k : kind) (d : pdata) : pdm :=
  match m with
  | [] => [(k, [d])]
  | (k', ds) :: m' => if kind_eqb k k' then (k', ds ++ [d]) :: m' else (k', ds) :: pdm_append m' k d
  end.
(* the inner for/try/continue/break: the first type whose recogniser accepts the line; RegexNotMatchError moves on, any other
   exception escapes *)
Fixpoint first_match {T D} (f : T -> result D) (ts : list T) : result (option (T * D)) :=
  match ts with
  | [] => Ok None
  | t :: ts' => match f t with
                | Ok d => Ok (Some (t, d))
                | Err ERegexNotMatch => first_match f ts'
                | Err e => Err e
                end
  end.
"""


KIND_ENV = {"NoteEvent.ParsedData": ("KNote", "kind"), "StarPowerEvent.ParsedData": ("KSP", "kind"), "TrackEvent.ParsedData": ("KTev", "kind"),
            "BPMEvent.ParsedData": ("KBpm", "kind"), "TimeSignatureEvent.ParsedData": ("KTs", "kind"), "AnchorEvent.ParsedData": ("KAnchor", "kind"),
            "TextEvent.ParsedData": ("KText", "kind"), "SectionEvent.ParsedData": ("KSection", "kind"), "LyricEvent.ParsedData": ("KLyric", "kind")}


def group_tracks():
    out = []
    instr = ast.parse(open(os.path.join(REPO, "chartparse", "instrument.py")).read())
    sync = ast.parse(open(os.path.join(REPO, "chartparse", "sync.py")).read())
    glob = ast.parse(open(os.path.join(REPO, "chartparse", "globalevents.py")).read())
    pd3 = "tuple:list:pdata,list:pdata,list:pdata"
    parse_call = {"chartparse.track.parse_data_from_chart_lines": ("leaf_parse_data_from_chart_lines c", ["list:kind", "list:str"], "pdm", True, None, True)}
    # the three _parse_data_from_chart_lines: which kinds, in which order of trial, and which list goes where
    for tree, cls_, name in ((instr, "InstrumentTrack", "leaf_instr_parse_data"), (sync, "SyncTrack", "leaf_sync_parse_data"), (glob, "GlobalEventsTrack", "leaf_globals_parse_data")):
        f = find_function(tree, cls_ + "._parse_data_from_chart_lines")
        env = dict(KIND_ENV)
        env["lines"] = ("lines", "list:str")
        out.append(Tr(name, env, parse_call, pd3).function(f, [("c", "cfg"), ("lines", "list str")], True))
    B = "bpmevents"
    bef = "chartparse.track.build_events_from_data@"
    # InstrumentTrack.from_chart_lines
    f = find_function(instr, "InstrumentTrack.from_chart_lines")
    env = {"instrument": ("instrument", "str"), "difficulty": ("difficulty", "str"), "lines": ("lines", "list:str"), "bpm_events": ("B", B)}
    calls = {"cls._parse_data_from_chart_lines": ("leaf_instr_parse_data c", ["list:str"], pd3, True, None, True),
             bef + "StarPowerEvent": ("build_sp_events", ["list:pdata", B], "list:sp", True),
             bef + "TrackEvent": ("build_tev_events", ["list:pdata", B], "list:tev", True),
             "cls._build_note_events_from_data": ("build_note_events_py c", ["list:pdata", "list:sp", B], "list:note_event", True),
             "cls": ("mk_itrack", ["str", "str", "list:note_event", "list:sp", "list:tev"], "itrack", False,
                     ["instrument", "difficulty", "note_events", "star_power_events", "track_events"])}
    out.append(Tr("leaf_instr_from_chart_lines", env, calls, "itrack").function(
        f, [("c", "cfg"), ("instrument", "str"), ("difficulty", "str"), ("lines", "list str"), ("B", "bpm_events")], True))
    # SyncTrack.__post_init__ and from_chart_lines
    f = find_function(sync, "SyncTrack.__post_init__")
    env = {"self.time_signature_events": ("tss", "list:tsev")}
    ATTRS.setdefault("tsev", {"tick": ("ts_tick_", "int")})
    out.append(Tr("leaf_sync_post_init", env, {}, "unit").function(f, [("tss", "list ts_event")], True, procedure=True))
    f = find_function(sync, "SyncTrack.from_chart_lines")
    env = {"resolution": ("resolution", "int"), "lines": ("lines", "list:str")}
    calls = {"cls._parse_data_from_chart_lines": ("leaf_sync_parse_data c", ["list:str"], pd3, True, None, True),
             bef + "BPMEvent": ("build_bpm_events_py c", ["list:pdata", "int"], B, True),
             bef + "TimeSignatureEvent": ("build_ts_events c", ["list:pdata", B], "list:tsev", True),
             bef + "AnchorEvent": ("build_anchor_events", ["list:pdata"], "list:anchor", True),
             "cls": ("mk_sync_track", ["list:tsev", B, "list:anchor"], "synctrack", True, ["time_signature_events", "bpm_events", "anchor_events"])}
    out.append(Tr("leaf_sync_from_chart_lines", env, calls, "synctrack").function(f, [("c", "cfg"), ("resolution", "Z"), ("lines", "list str")], True))
    # GlobalEventsTrack.from_chart_lines
    f = find_function(glob, "GlobalEventsTrack.from_chart_lines")
    env = {"lines": ("lines", "list:str"), "bpm_events": ("B", B)}
    calls = {"cls._parse_data_from_chart_lines": ("leaf_globals_parse_data c", ["list:str"], pd3, True, None, True),
             bef + "TextEvent": ("build_globals_py", ["list:pdata", B], "list:gev", True),
             bef + "SectionEvent": ("build_globals_py", ["list:pdata", B], "list:gev", True),
             bef + "LyricEvent": ("build_globals_py", ["list:pdata", B], "list:gev", True),
             "cls": ("mk_globals", ["list:gev", "list:gev", "list:gev"], "gevtrack", False, ["text_events", "section_events", "lyric_events"])}
    out.append(Tr("leaf_globals_from_chart_lines", env, calls, "gevtrack").function(f, [("c", "cfg"), ("lines", "list str"), ("B", "bpm_events")], True))
    return out


TRACKS_HEADER = """From CP Require Import Base.Prelude Base.Str Base.Cfg Base.Loops Base.While Base.Float64 Base.Timedelta Model.Lines Model.Sync Model.Instrument Model.Chart Gen.Leaf_dispatch.
Open Scope Z_scope.
(* build_events_from_data for each event class, and the constructors (with their __post_init__), as the model has them *)
Definition build_sp_events (ds : list pdata) (B : bpm_events) : result (list special_event) :=
  let* tms := build_timed B (map pd_tick ds) None in
  Ok (map (fun '(tm, d) => {| sp_at := tm; sp_sus := sp_sus_of d |}) (combine tms ds)).
Definition build_tev_events (ds : list pdata) (B : bpm_events) : result (list track_event) :=
  let* tms := build_timed B (map pd_tick ds) None in
  Ok (map (fun '(tm, d) => {| te_at := tm; te_value := tev_val_of d |}) (combine tms ds)).
Definition build_note_events_py (c : cfg) (ds : list pdata) (sps : list special_event) (B : bpm_events) :=
  build_notes c B sps (group_by_tick (map ndata_of ds)) None 0 0.
Definition mk_itrack (i d : str) (ns : list note_event) (sps : list special_event) (tes : list track_event) : itrack :=
  {| it_instr := i; it_diff := d; it_notes := ns; it_sps := sps; it_tevs := tes |}.
Definition ts_tick_ (e : ts_event) : Z := t_tick (ts_at e).
Definition build_bpm_events_py (c : cfg) (ds : list pdata) (R : Z) := build_bpm_events (tbl c) (map bpm_payload ds) R.
Definition build_ts_events (c : cfg) (ds : list pdata) (B : bpm_events) : result (list ts_event) :=
  let* tms := build_timed B (map pd_tick ds) None in
  Ok (map (fun '(tm, d) => let '(u, l) := ts_payload c d in {| ts_at := tm; ts_upper := u; ts_lower := l |}) (combine tms ds)).
Definition build_anchor_events (ds : list pdata) := mapM anchor_from ds.
Definition build_globals_py (ds : list pdata) (B : bpm_events) := build_globals B ds.
Definition mk_sync_track (tss : list ts_event) (B : bpm_events) (ans : list anchor_event) : result sync_track :=
  match tss with
  | [] => Err EValue
  | t0 :: _ => if t_tick (ts_at t0) =? 0 then Ok {| st_ts := tss; st_bpm := B; st_anchor := ans |} else Err EValue
  end.
Definition mk_globals (tx se ly : list global_event) : global_events_track := {| g_text := tx; g_section := se; g_lyric := ly |}.
"""


def group_fromfile():
    tree = ast.parse(open(os.path.join(REPO, "chartparse", "chart.py")).read())
    f = find_function(tree, "Chart.from_file")
    env = {"fp.read().splitlines()": ("(splitlines (tbl c) text)", "list:str"), "want_tracks": ("want_tracks", "opt:list:pair"),
           "cls._required_header_tags": ("(required_tags c)", "list:str"),
           "Metadata.header_tag": ("(tag_song c)", "str"), "SyncTrack.header_tag": ("(tag_sync c)", "str"), "GlobalEventsTrack.header_tag": ("(tag_events c)", "str")}
    calls = {"cls._partition_lines_by_data_section": ("partition c", ["list:str"], "dict:str,list:str", True),
             "Metadata.from_chart_lines": ("meta_parse c", ["list:str"], "metadata", True),
             "SyncTrack.from_chart_lines": ("sync_from_lines c", ["int", "list:str"], "synctrack", True, None, True),
             "GlobalEventsTrack.from_chart_lines": ("globals_from_lines c", ["list:str", "bpmevents"], "gevtrack", True, None, True),
             "InstrumentTrack.from_chart_lines": ("itrack_from_lines c", ["str", "str", "list:str", "bpmevents"], "itrack", True, None, True),
             "cls": ("mk_chart", ["metadata", "gevtrack", "synctrack", "tracks"], "chart", False)}
    t = Tr("leaf_from_file", env, calls, "chart")
    t.log_var = True
    t.const_stmts = {"instrument_track_name_to_instrument_difficulty_pair":
                     ("{d.value + i.value: (i, d) for i, d in itertools.product(Instrument, Difficulty)}", "(rev (header_pairs c))", "dict:str,pair")}
    return [t.function(f, [("c", "cfg"), ("text", "str"), ("want_tracks", "option (list (str * str))")], True)]


FROMFILE_HEADER = """From CP Require Import Base.Prelude Base.Str Base.Cfg Base.Loops Base.While Base.Float64 Base.Timedelta Model.Lines Model.Sync Model.Instrument Model.Chart.
Open Scope Z_scope.
(* insertion-ordered dicts as association lists: `k in d`, `d[k]` (KeyError) *)
Definition dict_mem {A} (k : str) (d : list (str * A)) : bool := match assoc k d with Some _ => true | None => false end.
Definition dict_get {A} (d : list (str * A)) (k : str) : result A := match assoc k d with Some v => Ok v | None => Err EKey end.
Definition mk_chart (m : metadata) (g : global_events_track) (s : sync_track) (tr : list (str * list (str * itrack))) : chart :=
  {| c_meta := m; c_gev := g; c_sync := s; c_tracks := tr |}.
"""


def group_nps():
    chart = ast.parse(open(os.path.join(REPO, "chartparse", "chart.py")).read())
    instr = ast.parse(open(os.path.join(REPO, "chartparse", "instrument.py")).read())
    out = []
    f = find_function(instr, "InstrumentTrack.last_note_end_timestamp")
    out.append(Tr("leaf_last_note_end_timestamp", {"self.note_events": ("(it_notes tr)", "list:note_event")}, {}, "opt:ts").function(f, [("tr", "itrack")], True))
    f = find_function(chart, "Chart._notes_per_second")
    env = {"events": ("events", "list:note_event"), "start_time": ("start_time", "ts"), "end_time": ("end_time", "ts")}
    out.append(Tr("leaf_nps_core", env, {}, "float").function(f, [("events", "list note_event"), ("start_time", "Z"), ("end_time", "Z")], True))
    f = find_function(chart, "Chart.notes_per_second")
    env = {"self.instrument_tracks": ("(c_tracks self)", "dict:str,dict:str,itrack"), "self.sync_track": ("(c_sync self)", "synctrack"),
           "instrument": ("instrument", "str"), "difficulty": ("difficulty", "str"), "start": ("start", "bound"), "end": ("end_", "bound"),
           "timedelta(0)": ("0", "ts")}
    calls = {"self._notes_per_second": ("leaf_nps_core", ["list:note_event", "ts", "ts"], "float", True)}
    g = find_function(chart, "Chart.__getitem__")
    out.append(Tr("leaf_chart_getitem", {"self.instrument_tracks": ("(c_tracks self)", "dict:str,dict:str,itrack"), "instrument": ("instrument", "str")}, {},
                  "dict:str,itrack").function(g, [("self", "chart"), ("instrument", "str")], True))
    ATTRS["itrack"]["last_note_end_timestamp"] = ("last_note_end", "opt:ts")
    out.append(Tr("leaf_notes_per_second", env, calls, "float").function(
        f, [("self", "chart"), ("instrument", "str"), ("difficulty", "str"), ("start", "bound"), ("end_", "bound")], True))
    return out


NPS_HEADER = """From CP Require Import Base.Prelude Base.Str Base.Cfg Base.Loops Base.While Base.Float64 Base.Timedelta Model.Lines Model.Sync Model.Instrument Model.Chart.
Open Scope Z_scope.
Definition n_ts_ (e : note_event) : Z := t_ts (n_at e).
Definition dict_get {A} (d : list (str * A)) (k : str) : result A := match assoc k d with Some v => Ok v | None => Err EKey end.
"""


def group_bpm():
    sync = ast.parse(open(os.path.join(REPO, "chartparse", "sync.py")).read())
    track = ast.parse(open(os.path.join(REPO, "chartparse", "track.py")).read())
    out = []
    # BPMEvent.__post_init__
    f = find_function(sync, "BPMEvent.__post_init__")
    out.append(Tr("leaf_bpm_post_init", {"self.bpm": ("bpm", "float")}, {}, "unit").function(f, [("bpm", "f64")], True, procedure=True))
    # BPMEvent.from_parsed_data
    f = find_function(sync, "BPMEvent.from_parsed_data")
    env = {"data.tick": ("tick", "int"), "data.raw_bpm": ("raw", "str"), "prev_event": ("prev_event", "opt:bpm"), "resolution": ("resolution", "int"),
           "timedelta(0)": ("0", "ts")}
    calls = {"chartparse.tick.between": ("leaf_tick_between", ["int", "int"], "int", False),
             "chartparse.tick.seconds_from_ticks_at_bpm": ("leaf_seconds", ["int", "float", "int"], "float", True),
             "timedelta": ("td_of_seconds", ["float"], "td", True, ["seconds"]),
             "chartparse.time.add": ("td_add", ["ts", "td"], "ts", True),
             "cls": ("mk_bpm_event", ["int", "ts", "float", "int"], "bpm", True, ["tick", "timestamp", "bpm", "_proximal_bpm_event_index"])}
    out.append(Tr("leaf_bpm_from_parsed_data", env, calls, "bpm").function(
        f, [("T", "tables"), ("tick", "Z"), ("raw", "str"), ("prev_event", "option bpm_event"), ("resolution", "Z")], True))
    # BPMEvents.__post_init__
    f = find_function(sync, "BPMEvents.__post_init__")
    env = {"self.resolution": ("resolution", "int"), "self.events": ("events", "list:bpm")}
    out.append(Tr("leaf_bpm_events_post_init", env, {}, "unit").function(f, [("events", "list bpm_event"), ("resolution", "Z")], True, procedure=True))
    # track.build_events_from_data.data_to_bpm_events: the accumulation loop that hands each event the previous one
    f = find_function(track, "build_events_from_data.data_to_bpm_events")
    env = {"datas": ("datas", "list:bpmdata"), "resolution": ("resolution", "int")}
    calls = {"BPMEvent.from_parsed_data": ("bpm_from_data_py T", ["bpmdata", "opt:bpm", "int"], "bpm", True),
             "BPMEvents": ("mk_bpm_events", ["list:bpm", "int"], "bpmevents", True, ["events", "resolution"])}
    out.append(Tr("leaf_data_to_bpm_events", env, calls, "bpmevents").function(
        f, [("T", "tables"), ("datas", "list (Z * str)"), ("resolution", "Z")], True))
    # BPMEvents.timestamp_at_tick_no_optimize_return
    # AnchorEvent.from_parsed_data and the anchor loop of build_events_from_data
    f = find_function(sync, "AnchorEvent.from_parsed_data")
    env = {"data.tick": ("tick", "int"), "data.microseconds": ("us", "int")}
    calls = {"timedelta": ("td_of_us", ["int"], "ts", True, ["microseconds"]),
             "cls": ("mk_anchor", ["int", "ts"], "anchor", False, ["tick", "timestamp"])}
    out.append(Tr("leaf_anchor_from_parsed_data", env, calls, "anchor").function(f, [("tick", "Z"), ("us", "Z")], True))
    f = find_function(track, "build_events_from_data.data_to_anchor_events")
    calls = {"AnchorEvent.from_parsed_data": ("anchor_from_py", ["pdata"], "anchor", True)}
    out.append(Tr("leaf_data_to_anchor_events", {"datas": ("datas", "list:pdata")}, calls, "list:anchor").function(f, [("datas", "list pdata")], True))
    f = find_function(sync, "BPMEvents.timestamp_at_tick_no_optimize_return")
    calls = {"self.timestamp_at_tick": ("timestamp_at_tick_d B", ["int"], "tuple:ts,int", True)}
    out.append(Tr("leaf_timestamp_at_tick_no_optimize_return", {"tick": ("tick", "int")}, calls, "ts").function(f, [("B", "bpm_events"), ("tick", "Z")], True))
    return out


BPM_HEADER = """From CP Require Import Base.Prelude Base.Str Base.Cfg Base.Loops Base.Float64 Base.Timedelta Model.Lines Model.Sync Gen.Leaf_tick.
Open Scope Z_scope.
(* argument shapes of the source's call sites; the constructors run the classes' __post_init__ validation *)
Definition mk_bpm_event (tick ts : Z) (bpm : f64) (idx : Z) : result bpm_event :=
  let* _ := check_bpm_3dp bpm in Ok {| b_tick := tick; b_ts := ts; b_bpm := bpm; b_idx := idx |}.
Definition bpm_from_data_py (T : tables) (d : Z * str) (prev : option bpm_event) (R : Z) := bpm_from_data T (fst d) (snd d) prev R.
Definition timestamp_at_tick_d (B : bpm_events) (tick : Z) := timestamp_at_tick B tick 0.
Definition mk_anchor (tick ts : Z) : anchor_event := {| a_tick := tick; a_ts := ts |}.
Definition anchor_from_py (d : pdata) : result anchor_event := anchor_from d.
"""


def group_timed():
    out = []
    glob = ast.parse(open(os.path.join(REPO, "chartparse", "globalevents.py")).read())
    instr = ast.parse(open(os.path.join(REPO, "chartparse", "instrument.py")).read())
    sync = ast.parse(open(os.path.join(REPO, "chartparse", "sync.py")).read())
    track = ast.parse(open(os.path.join(REPO, "chartparse", "track.py")).read())
    base_env = {"data.tick": ("tick", "int"), "prev_event": ("prev_event", "opt:timed"), "bpm_events": ("B", "bpmevents")}
    # GlobalEvent / TrackEvent (tick, value), SpecialEvent (tick, sustain)
    for qual, tree, name, fld, fty, coqty in (("GlobalEvent.from_parsed_data", glob, "leaf_global_from_parsed_data", "value", "str", "str"),
                                              ("TrackEvent.from_parsed_data", instr, "leaf_track_event_from_parsed_data", "value", "str", "str"),
                                              ("SpecialEvent.from_parsed_data", instr, "leaf_special_from_parsed_data", "sustain", "int", "Z")):
        f = find_function(tree, qual)
        env = dict(base_env)
        env["data." + fld] = ("payload", fty)
        calls = {"cls": ("mk_timed_with", ["int", "ts", fty, "int"], "timedwith", False, ["tick", "timestamp", fld, "_proximal_bpm_event_index"])}
        out.append(Tr(name, env, calls, "timedwith").function(f, [("tick", "Z"), ("payload", coqty), ("prev_event", "option timed"), ("B", "bpm_events")], True))
    # TimeSignatureEvent (tick, upper, lower | None, class default)
    f = find_function(sync, "TimeSignatureEvent.from_parsed_data")
    env = dict(base_env)
    env.update({"data.upper": ("upper", "int"), "data.lower": ("lower", "opt:int"), "cls._default_lower_numeral": ("dflt", "int")})
    calls = {"cls": ("mk_ts_event", ["int", "ts", "int", "int", "int"], "tsevent", False, ["tick", "timestamp", "upper_numeral", "lower_numeral", "_proximal_bpm_event_index"])}
    out.append(Tr("leaf_ts_from_parsed_data", env, calls, "tsevent").function(
        f, [("dflt", "Z"), ("tick", "Z"), ("upper", "Z"), ("lower", "option Z"), ("prev_event", "option timed"), ("B", "bpm_events")], True))
    # track.build_events_from_data.data_to_events: the accumulation loop shared by every tempo-map-needing event kind
    f = find_function(track, "build_events_from_data.data_to_events")
    env = {"datas": ("datas", "list:A"), "bpm_events": ("B", "bpmevents")}
    calls = {"event_type.from_parsed_data": ("from_pd", ["A", "opt:E", "bpmevents"], "E", True)}
    out.append(Tr("leaf_data_to_events", env, calls, "list:E").function(
        f, [("A", "Type"), ("E", "Type"), ("from_pd", "A -> option E -> bpm_events -> result E"), ("datas", "list A"), ("B", "bpm_events")], True))
    return out


TIMED_HEADER = """From CP Require Import Base.Prelude Base.Str Base.Cfg Base.Loops Base.Float64 Base.Timedelta Model.Sync.
Open Scope Z_scope.
(* the records the source's keyword constructions denote: the timed part of an event and its payload *)
Definition mk_timed_with {P : Type} (tick ts : Z) (payload : P) (idx : Z) : timed * P := ({| t_tick := tick; t_ts := ts; t_idx := idx |}, payload).
Definition mk_ts_event (tick ts upper lower idx : Z) : ts_event := {| ts_at := {| t_tick := tick; t_ts := ts; t_idx := idx |}; ts_upper := upper; ts_lower := lower |}.
"""


NOTE_HEADER = """From CP Require Import Base.Prelude Base.Cfg Base.Loops Base.While Base.Float64 Base.Timedelta Model.Sync Model.Instrument Gen.Leaf_tick Gen.Leaf_special.
Open Scope Z_scope.
(* argument order of the source's call sites; the record constructor the source's keyword construction denotes *)
Definition compute_sp_py (tick : Z) (sps : list special_event) (i : Z) := compute_sp sps tick i.
Definition mk_note_event (tick ts end_ts : Z) (note : list bool) (h : hopo) (sus : sustain) (spd : option Z) (idx : Z) : note_event :=
  {| n_at := {| t_tick := tick; t_ts := ts; t_idx := idx |}; n_end_ts := end_ts; n_note := note; n_sustain := sus; n_hopo := h; n_sp := spd |}.
"""

def group_meta():
    # Metadata.from_chart_lines and its three closures: a translator of its own (tools/extract_meta.py)
    import extract_meta
    extract_meta.REPO = REPO
    try:
        return extract_meta.group_meta()
    except extract_meta.MetaError as e:
        raise LeafError(str(e))


def meta_header():
    import extract_meta
    return extract_meta.HEADER


GROUPS = [
    ("Leaf_meta", group_meta, None),
    ("Leaf_tick", group_tick, "From CP Require Import Base.Prelude Base.Float64.\nOpen Scope Z_scope.\n"),
    ("Leaf_special", group_special, "From CP Require Import Base.Prelude Base.Float64 Model.Sync Model.Instrument Gen.Leaf_tick.\nOpen Scope Z_scope.\n"),
    ("Leaf_hopo", group_hopo, "From CP Require Import Base.Prelude Base.Float64 Model.Sync Model.Instrument Gen.Leaf_tick Gen.Leaf_special.\nOpen Scope Z_scope.\n"),
    ("Leaf_note", group_note, NOTE_HEADER),
    ("Leaf_sustain", group_sustain, SUSTAIN_HEADER),
    ("Leaf_chart", group_chart, CHART_HEADER),
    ("Leaf_dispatch", group_dispatch, DISPATCH_HEADER),
    ("Leaf_tracks", group_tracks, TRACKS_HEADER),
    ("Leaf_fromfile", group_fromfile, FROMFILE_HEADER),
    ("Leaf_nps", group_nps, NPS_HEADER),
    ("Leaf_bpm", group_bpm, BPM_HEADER),
    ("Leaf_timed", group_timed, TIMED_HEADER),
    ("Leaf_query", group_query, "From CP Require Import Base.Prelude Base.Loops Base.Float64 Base.Timedelta Model.Sync Gen.Leaf_tick.\nOpen Scope Z_scope.\n"),
]


def write_if_changed(path, text):
    try:
        if open(path).read() == text:
            return False
    except FileNotFoundError:
        pass
    tmp = path + ".tmp.%d" % os.getpid()
    open(tmp, "w").write(text)
    os.replace(tmp, path)
    return True


def main():
    info = {"ok": True, "groups": {}}
    for name, fn, header in GROUPS:
        try:
            if header is None:
                header = meta_header()
            defs = fn()
            text = "(* GENERATED by tools/extract_leaf.py from the working tree of the repository — do not edit *)\n%s\n%s\n" % (header, "\n\n".join(defs))
            info["groups"][name] = {"ok": True, "definitions": len(defs)}
        except (LeafError, OSError, SyntaxError) as e:
            text = "(* GENERATED by tools/extract_leaf.py: translation FAILED (fail-closed): %s *)\n" % str(e).replace("*)", "* )").replace('"', "'")
            info["groups"][name] = {"ok": False, "reason": str(e)}
            info["ok"] = False
        write_if_changed(os.path.join(GEN, name + ".v"), text)
    print(json.dumps(info))
    sys.exit(0 if info["ok"] else 2)


if __name__ == "__main__":
    main()
