#!/usr/bin/env python3
"""Writes /verif/MANIFEST.json from the table below (kept valid at all times)."""
import json, os
VERIF = os.path.dirname(os.path.dirname(os.path.abspath(__file__)))
props = {json.loads(l)["id"]: json.loads(l) for l in open(os.path.join(VERIF, "properties.jsonl"))}

# id -> (technique, level text, level_note)   — only properties whose check exists are listed
CLAIMED = {}
exec(open(os.path.join(VERIF, "tools", "claims.py")).read())

checks = []
for pid in sorted(CLAIMED):
    tech, text, note = CLAIMED[pid]
    checks.append({
        "property_id": pid,
        "quick_cmd": "./check %s --tier quick" % pid,
        "thorough_cmd": "./check %s --tier thorough" % pid,
        "evidence_file": "evidence/%s.json" % pid,
        "replay_cmd_template": "./check %s --replay {path}" % pid,
        "engine": "coq",
        "level_claimed": {"category": "proof", "text": text, "design_ref": "DESIGN.md section 5, %s" % pid},
        "level_note": note,
        "technique": tech,
    })
na = [{"property_id": pid, "reason": "check not built yet in this session (a Gallina model exists; see DESIGN.md section 5)"} for pid in sorted(props) if pid not in CLAIMED]
m = {
    "version": 1,
    "setup_cmd": "./check --setup",
    "hooks": {
        "guard": "CHARTPARSE_VERIF",
        "enable": "no hooks needed: everything is observed through public attributes, the stored _proximal_bpm_event_index and standard logging handlers",
        "baseline_off_cmd": "cd /repo && /venv/bin/python -m pytest -ra -q -p no:cacheprovider --timeout=900 --continue-on-collection-errors",
        "source_commits": ["028903f", "9b5729a", "2f3b00f", "198f2c7", "e1028e6"],
        "add_only": True,
    },
    "engines": [{"name": "coq", "path": "coq/", "serves_properties": sorted(CLAIMED),
                 "kind_free_text": "Coq 8.16.1 development (logical root CP): executable Gallina model of chartparse, theorems in Properties/, per-run obligations in Tie/ against Gen/Src.v regenerated from /repo by tools/extract.py, and vm_compute correspondence shards in Corr/ written by tools/props/*.py"}],
    "checks": checks,
    "not_applicable": na,
    "notes": "source_commits are the five 'fix:' commits (genuine defects repaired, see known_findings.json); there are no instrumentation hooks in /repo.",
}
json.dump(m, open(os.path.join(VERIF, "MANIFEST.json"), "w"), indent=1)
print("MANIFEST: %d checks, %d not_applicable" % (len(checks), len(na)))
