#!/venv/bin/python
"""Cold concurrent start: in this (fresh) interpreter, N threads released by a barrier parse the given texts as the
very first parses of the process (lazily filled tables are filled under contention), then each text is parsed once more
on the main thread.  stdin: JSON {"items": [[text, want], ...], "threads": N}.  stdout: JSON
{"threads": [[term per item] per thread], "after": [term per item]}.  Used by props/C17.py."""
import json
import os
import sys
import threading

sys.path.insert(0, os.path.dirname(os.path.abspath(__file__)))
sys.path.insert(0, os.environ.get("CHARTPARSE_REPO", "/repo"))
import pyval  # noqa: E402

d = json.load(sys.stdin)
items = [(t, None if w is None else [tuple(x) for x in w]) for t, w in d["items"]]
n = int(d.get("threads", 8))
barrier = threading.Barrier(n)
res = [[None] * len(items) for _ in range(n)]


def work(k):
    barrier.wait()
    for j in range(len(items)):
        idx = (j + k) % len(items) if d.get("rotate") else j
        res[k][idx] = pyval.parse_text(items[idx][0], items[idx][1])[2]


sys.setswitchinterval(1e-6)
ths = [threading.Thread(target=work, args=(k,)) for k in range(n)]
for t in ths:
    t.start()
for t in ths:
    t.join()
sys.setswitchinterval(0.005)
after = [pyval.parse_text(t, w)[2] for t, w in items]
json.dump({"threads": res, "after": after}, sys.stdout)
