#!/bin/sh
# run every claimed check on the unchanged tree (quick tier), 3 at a time
cd /verif
ids=$(python3 -c "import json;print(' '.join(c['property_id'] for c in json.load(open('MANIFEST.json'))['checks']))")
echo $ids | tr ' ' '\n' | xargs -P 3 -I{} sh -c './check {} > work/run_{}.log 2>&1; tail -1 work/run_{}.log'
