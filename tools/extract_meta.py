#!/venv/bin/python
"""Closure translator for Metadata.from_chart_lines (chartparse/metadata.py) -> coq/Gen/Leaf_meta.v.

The function is a straight sequence of calls of three local closures over two captured variables (`lines`, read
only, and the `kwargs` dict, stored into).  Each closure becomes a Gallina function that takes the captured
variables as explicit parameters; a closure that stores into `kwargs` returns the new dict; a callback parameter is
an `option (unit -> result unit)`.  Typed and fail-closed like tools/extract_leaf.py: any statement or expression
outside the shapes below aborts with a named reason.

Statements: `x = e`; `for line in lines: m = P.match(line); if m: return e` followed by `raise RegexNotMatchError(e)`;
`try: kwargs[k] = f(k) except RegexNotMatchError: if cb is not None: cb()`; a call of a sibling closure (positionally,
with an optional `regex_not_match_callback=lambda: raise_(MissingRequiredField(..))`); `return cls(**kwargs)`.
Expressions: parameters, string literals, `_field_parsing_specs[k]` (KeyError), `.regex_prog`, `.regex`,
`.processing_fn(e)`, `m.group(1)`.
"""
from __future__ import annotations

import ast
import os

REPO = os.environ.get("CHARTPARSE_REPO", "/repo")


class MetaError(Exception):
    pass


HEADER = """From CP Require Import Base.Prelude Base.Str Base.Regex Base.Cfg Base.Loops Model.Lines Model.Chart.
Import ListNotations.
Open Scope Z_scope.
(* table (hand-written, see DESIGN 2.1b): what the names of the source denote in the model *)
Definition kwargs_t := list (str * meta_val).                       (* the kwargs dict, insertion-ordered *)
Definition specs_get (c : cfg) (k : str) : result meta_field :=     (* _field_parsing_specs[k]  (KeyError) *)
  match find (fun f => str_eqb k (mf_name f)) (meta_fields c) with Some f => Ok f | None => Err EKey end.
Definition rx_match (c : cfg) (p : meta_field) (line : str) : option str :=   (* p.regex_prog.match(line): the match object is the accepted line *)
  if matchb (tbl c) (mf_re p) line then Some line else None.
Definition rx_group1 (c : cfg) (p : meta_field) (m : str) : result str :=      (* m.group(1) *)
  match meta_capture c p m with Some v => Ok v | None => Err EUnmodelled end.
Fixpoint kw_set (kw : kwargs_t) (k : str) (v : meta_val) : kwargs_t :=        (* kwargs[k] = v *)
  match kw with
  | [] => [(k, v)]
  | (k', v') :: kw' => if str_eqb k k' then (k', v) :: kw' else (k', v') :: kw_set kw' k v
  end.
(* the dataclass constructor applied to the kwargs dict: every field from kwargs or its default; a required field that is absent is a TypeError *)
Definition mk_metadata (c : cfg) (kw : kwargs_t) : result metadata :=
  mapM (fun f => match assoc (mf_name f) kw with
                 | Some v => Ok (mf_name f, v)
                 | None => if mf_required f then Err EType else Ok (mf_name f, mf_default f)
                 end) (meta_fields c).
(* for x in xs: ...; if m: return e     followed by the statements after the loop *)
Fixpoint for_return {A B} (f : A -> option (result B)) (xs : list A) (after : result B) : result B :=
  match xs with
  | [] => after
  | x :: xs' => match f x with Some r => r | None => for_return f xs' after end
  end.
"""


class Cl:
    """one closure"""

    def __init__(self, fn, siblings):
        self.fn, self.siblings = fn, siblings
        self.fresh = 0
        self.env = {}          # python name -> (coq term, type)
        self.match_of = {}     # match variable -> coq term of the pattern it came from

    def err(self, node, why):
        raise MetaError("%s: unsupported %s at line %s: %s" % (self.fn.name, why, getattr(node, "lineno", "?"), ast.unparse(node)[:80]))

    def tmp(self):
        self.fresh += 1
        return "t%d_" % self.fresh

    def ex(self, e):
        """-> (binds, code, type); binds = [(var, monadic code)] in evaluation order"""
        if isinstance(e, ast.Name):
            if e.id in self.env:
                c, t = self.env[e.id]
                return [], c, t
            self.err(e, "name")
        if isinstance(e, ast.Constant) and isinstance(e.value, str) and e.value.isascii() and e.value.isidentifier():
            return [], '(of_string "%s"%%string)' % e.value, "str"
        if isinstance(e, ast.Subscript) and isinstance(e.value, ast.Name) and e.value.id == "_field_parsing_specs":
            b, k, t = self.ex(e.slice)
            if t != "str":
                self.err(e, "spec key")
            v = self.tmp()
            return b + [(v, "specs_get c %s" % k)], v, "spec"
        if isinstance(e, ast.Attribute) and e.attr in ("regex_prog", "regex"):
            b, s, t = self.ex(e.value)
            if t != "spec":
                self.err(e, "attribute receiver")
            return b, s, "prog" if e.attr == "regex_prog" else "regexstr"
        if isinstance(e, ast.Call) and isinstance(e.func, ast.Attribute) and e.func.attr == "processing_fn" and len(e.args) == 1 and not e.keywords:
            b, s, t = self.ex(e.func.value)
            b2, a, ta = self.ex(e.args[0])
            if t != "spec" or ta != "str":
                self.err(e, "processing_fn call")
            v = self.tmp()
            return b + b2 + [(v, "meta_process c %s %s" % (s, a))], v, "val"
        if (isinstance(e, ast.Call) and isinstance(e.func, ast.Attribute) and e.func.attr == "group" and isinstance(e.func.value, ast.Name)
                and e.func.value.id in self.match_of and len(e.args) == 1 and not e.keywords
                and isinstance(e.args[0], ast.Constant) and e.args[0].value == 1):
            v = self.tmp()
            return [(v, "rx_group1 c %s %s" % (self.match_of[e.func.value.id], e.func.value.id))], v, "str"
        self.err(e, "expression")

    @staticmethod
    def wrap(binds, code):
        return "".join("let* %s := %s in\n  " % (v, m) for v, m in binds) + code

    # ---- the three closure shapes ---------------------------------------------------------------
    def params(self):
        a = self.fn.args
        if a.vararg or a.kwarg or a.kwonlyargs or a.posonlyargs:
            self.err(self.fn, "parameter list")
        names = [x.arg for x in a.args]
        defaults = [None] * (len(names) - len(a.defaults)) + list(a.defaults)
        out = []
        for n, d in zip(names, defaults):
            if n == "field_name" and d is None:
                self.env[n] = (n, "str")
                out.append((n, "str"))
            elif n == "regex_not_match_callback" and isinstance(d, ast.Constant) and d.value is None:
                self.env[n] = (n, "cb")
                out.append((n, "option (unit -> result unit)"))
            else:
                self.err(self.fn, "parameter %s" % n)
        return out

    def body(self):
        b = list(self.fn.body)
        if b and isinstance(b[0], ast.Expr) and isinstance(b[0].value, ast.Constant) and isinstance(b[0].value.value, str):
            b = b[1:]
        return b

    def scan(self):
        """x = e; for line in lines: m = P.match(line); if m: return e;  raise RegexNotMatchError(e)   -> result meta_val"""
        ps = self.params()
        pre = []
        stmts = self.body()
        while stmts and isinstance(stmts[0], ast.Assign):
            s = stmts.pop(0)
            if len(s.targets) != 1 or not isinstance(s.targets[0], ast.Name):
                self.err(s, "assignment")
            b, c, t = self.ex(s.value)
            pre += b
            self.env[s.targets[0].id] = (c, t)
        if len(stmts) != 2:
            self.err(self.fn, "statement sequence")
        loop, after = stmts
        if not (isinstance(loop, ast.For) and isinstance(loop.target, ast.Name) and isinstance(loop.iter, ast.Name) and loop.iter.id == "lines"
                and not loop.orelse and len(loop.body) == 2):
            self.err(loop, "loop")
        x = loop.target.id
        self.env[x] = (x, "str")
        asg, test = loop.body
        if not (isinstance(asg, ast.Assign) and len(asg.targets) == 1 and isinstance(asg.targets[0], ast.Name) and isinstance(asg.value, ast.Call)
                and isinstance(asg.value.func, ast.Attribute) and asg.value.func.attr == "match" and len(asg.value.args) == 1 and not asg.value.keywords):
            self.err(asg, "loop body (match)")
        bp, p, tp = self.ex(asg.value.func.value)
        ba, a, ta = self.ex(asg.value.args[0])
        if bp or ba or tp != "prog" or ta != "str":
            self.err(asg, "match call")
        m = asg.targets[0].id
        self.match_of[m] = p
        if not (isinstance(test, ast.If) and isinstance(test.test, ast.Name) and test.test.id == m and not test.orelse
                and len(test.body) == 1 and isinstance(test.body[0], ast.Return) and test.body[0].value is not None):
            self.err(test, "loop body (if m: return)")
        br, r, tr = self.ex(test.body[0].value)
        if tr != "val":
            self.err(test, "returned value")
        if not (isinstance(after, ast.Raise) and isinstance(after.exc, ast.Call) and ast.unparse(after.exc.func) == "RegexNotMatchError"
                and len(after.exc.args) == 1 and not after.exc.keywords):
            self.err(after, "statement after the loop")
        bx, _, tx = self.ex(after.exc.args[0])
        if tx != "regexstr":
            self.err(after, "exception argument")
        code = ("for_return (fun %s => match rx_match c %s %s with\n    | Some %s => Some (%s)\n    | None => None end) lines\n  (%s)"
                % (x, p, a, m, self.wrap(br, "Ok %s" % r), self.wrap(bx, "Err ERegexNotMatch")))
        return ps, "result meta_val", self.wrap(pre, code)

    def store(self):
        """try: kwargs[k] = f(k) except RegexNotMatchError: if cb is not None: cb()   -> result kwargs_t"""
        ps = self.params()
        stmts = self.body()
        if len(stmts) != 1 or not isinstance(stmts[0], ast.Try):
            self.err(self.fn, "body (try)")
        t = stmts[0]
        if t.orelse or t.finalbody or len(t.handlers) != 1 or len(t.body) != 1:
            self.err(t, "try shape")
        h = t.handlers[0]
        if h.type is None or ast.unparse(h.type) != "RegexNotMatchError" or h.name:
            self.err(h, "handler")
        s = t.body[0]
        if not (isinstance(s, ast.Assign) and len(s.targets) == 1 and isinstance(s.targets[0], ast.Subscript)
                and isinstance(s.targets[0].value, ast.Name) and s.targets[0].value.id == "kwargs"
                and isinstance(s.value, ast.Call) and isinstance(s.value.func, ast.Name) and s.value.func.id in self.siblings
                and self.siblings[s.value.func.id][0] == "scan" and len(s.value.args) == 1 and not s.value.keywords):
            self.err(s, "store")
        bk, k, tk = self.ex(s.targets[0].slice)
        ba, a, ta = self.ex(s.value.args[0])
        if bk or ba or tk != "str" or ta != "str":
            self.err(s, "store key")
        # Python evaluates the right-hand side first, then stores
        if len(h.body) != 1:
            self.err(h, "handler body")
        g = h.body[0]
        if not (isinstance(g, ast.If) and not g.orelse and len(g.body) == 1 and isinstance(g.test, ast.Compare) and len(g.test.ops) == 1
                and isinstance(g.test.ops[0], ast.IsNot) and isinstance(g.test.left, ast.Name) and self.env.get(g.test.left.id, ("", ""))[1] == "cb"
                and isinstance(g.test.comparators[0], ast.Constant) and g.test.comparators[0].value is None
                and isinstance(g.body[0], ast.Expr) and isinstance(g.body[0].value, ast.Call) and isinstance(g.body[0].value.func, ast.Name)
                and g.body[0].value.func.id == g.test.left.id and not g.body[0].value.args and not g.body[0].value.keywords):
            self.err(g, "handler body (if cb is not None: cb())")
        cb = g.test.left.id
        code = ("match leaf_%s c lines %s with\n  | Ok v_ => Ok (kw_set kwargs %s v_)\n  | Err ERegexNotMatch =>\n      match %s with Some f_ => let* _ := f_ tt in Ok kwargs | None => Ok kwargs end\n  | Err e_ => Err e_\n  end"
                % (s.value.func.id, a, k, cb))
        return ps, "result kwargs_t", code

    def call_of(self, s, kwvar):
        """a statement `g(name[, regex_not_match_callback=lambda: raise_(MissingRequiredField(e))])` of a storing sibling -> monadic code"""
        if not (isinstance(s, ast.Expr) and isinstance(s.value, ast.Call) and isinstance(s.value.func, ast.Name) and s.value.func.id in self.siblings
                and self.siblings[s.value.func.id][0] in ("store", "delegate") and len(s.value.args) == 1):
            self.err(s, "statement (closure call)")
        c = s.value
        bk, k, tk = self.ex(c.args[0])
        if bk or tk != "str":
            self.err(s, "closure argument")
        cb = "None"
        for kw in c.keywords:
            if kw.arg != "regex_not_match_callback":
                self.err(s, "keyword")
            lam = kw.value
            if not (isinstance(lam, ast.Lambda) and not lam.args.args and isinstance(lam.body, ast.Call) and ast.unparse(lam.body.func) == "raise_"
                    and len(lam.body.args) == 1 and isinstance(lam.body.args[0], ast.Call) and ast.unparse(lam.body.args[0].func) == "MissingRequiredField"
                    and len(lam.body.args[0].args) == 1):
                self.err(lam, "callback")
            bb, _, tb = self.ex(lam.body.args[0].args[0])
            if bb or tb != "str":
                self.err(lam, "callback argument")
            cb = "(Some (fun _ : unit => Err EMissingRequiredField))"
        return "leaf_%s c lines %s %s %s" % (c.func.id, kwvar, k, cb)

    def delegate(self):
        """a closure whose body is one call of a storing sibling (its own callback parameter is not used)"""
        ps = self.params()
        stmts = self.body()
        if len(stmts) != 1:
            self.err(self.fn, "body (one call)")
        return ps, "result kwargs_t", self.call_of(stmts[0], "kwargs")


def classify(fn):
    kinds = [type(s).__name__ for s in fn.body if not (isinstance(s, ast.Expr) and isinstance(s.value, ast.Constant))]
    if "For" in kinds:
        return "scan"
    if kinds == ["Try"]:
        return "store"
    if kinds == ["Expr"]:
        return "delegate"
    raise MetaError("%s: unrecognised closure shape %r" % (fn.name, kinds))


def group_meta():
    tree = ast.parse(open(os.path.join(REPO, "chartparse", "metadata.py")).read())
    fn = None
    for n in tree.body:
        if isinstance(n, ast.ClassDef) and n.name == "Metadata":
            for m in n.body:
                if isinstance(m, ast.FunctionDef) and m.name == "from_chart_lines":
                    fn = m
    if fn is None:
        raise MetaError("Metadata.from_chart_lines not found")
    if [a.arg for a in fn.args.args] != ["cls", "lines_iter"]:
        raise MetaError("from_chart_lines: parameter list")
    body = list(fn.body)
    if body and isinstance(body[0], ast.Expr) and isinstance(body[0].value, ast.Constant):
        body = body[1:]
    closures = [s for s in body if isinstance(s, ast.FunctionDef)]
    rest = [s for s in body if not isinstance(s, ast.FunctionDef)]
    # closures may be defined in any order before the first call (Python resolves them at call time)
    first_call = next((i for i, s in enumerate(body) if isinstance(s, ast.Expr)), len(body))
    if any(isinstance(s, ast.FunctionDef) for s in body[first_call:]):
        raise MetaError("from_chart_lines: a closure is defined after the first call")
    names = [f.name for f in closures]
    if len(set(names)) != len(names):
        raise MetaError("from_chart_lines: a closure is defined twice")
    sib = {f.name: (classify(f), f) for f in closures}
    # prologue
    if len(rest) < 3:
        raise MetaError("from_chart_lines: body too short")
    kw, ls = rest[0], rest[1]
    if not (isinstance(kw, ast.AnnAssign) and isinstance(kw.target, ast.Name) and kw.target.id == "kwargs" and kw.value is not None
            and ast.unparse(kw.value) in ("dict()", "{}")):
        raise MetaError("from_chart_lines: unsupported prologue: %s" % ast.unparse(kw)[:60])
    if not (isinstance(ls, ast.Assign) and ast.unparse(ls) == "lines = list(lines_iter)"):
        raise MetaError("from_chart_lines: unsupported prologue: %s" % ast.unparse(ls)[:60])
    last = rest[-1]
    if not (isinstance(last, ast.Return) and last.value is not None and ast.unparse(last.value) == "cls(**kwargs)"):
        raise MetaError("from_chart_lines: unsupported return: %s" % ast.unparse(last)[:60])
    defs = []
    # emit closures in dependency order: scan, store, delegate
    for kind in ("scan", "store", "delegate"):
        for name, (k, f) in sib.items():
            if k != kind:
                continue
            c = Cl(f, sib)
            ps, rt, code = getattr(c, kind)()
            captured = "(c : cfg) (lines : list str)" + (" (kwargs : kwargs_t)" if kind != "scan" else "")
            defs.append("Definition leaf_%s %s %s : %s :=\n  %s." % (
                name, captured, " ".join("(%s : %s)" % (n, "str" if t == "str" else t) for n, t in ps), rt, code))
    main = Cl(fn, sib)
    steps = []
    for s in rest[2:-1]:
        steps.append(main.call_of(s, "kwargs"))
    code = "let kwargs : kwargs_t := [] in\n  " + "".join("let* kwargs := %s in\n  " % st for st in steps) + "mk_metadata c kwargs"
    defs.append("Definition leaf_meta_from_chart_lines (c : cfg) (lines : list str) : result metadata :=\n  %s." % code)
    return defs


if __name__ == "__main__":
    print(HEADER + "\n" + "\n\n".join(group_meta()))
