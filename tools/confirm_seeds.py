#!/usr/bin/env python3
"""Confirm each seeded change produced by the sub-agents in its scratch worktree and file it under /verif/seeded/<id>_<n>/.
For every /tmp/seed_out/Cxx/patch_n.diff: the existing suite passes with the change, the demonstration fails with it and
passes without it.  (Running the checks against the change is done separately with tools/mutant.sh.)"""
import json, os, shutil, subprocess, sys

OUT = sys.argv[1] if len(sys.argv) > 1 else "/tmp/seed_out"
OFFSET = int(sys.argv[2]) if len(sys.argv) > 2 else 0
DESELECT = "tests/test_instrument.py::TestNoteEvent::TestEndTick::test_wrapper"

def sh(cmd, cwd):
    p = subprocess.run(cmd, shell=True, cwd=cwd, capture_output=True, text=True, timeout=1800)
    return p.returncode, (p.stdout + p.stderr)[-600:]

res = {}
for pid in sorted(os.listdir(OUT)):
    d = os.path.join(OUT, pid)
    wt = "/tmp/wt/" + pid
    if not os.path.isdir(d) or not os.path.isdir(wt):
        continue
    for n in (1, 2, 3, 4):
        patch = os.path.join(d, "patch_%d.diff" % n)
        demo = os.path.join(d, "demo_%d.py" % n)
        if not (os.path.exists(patch) and os.path.exists(demo)):
            continue
        sh("git checkout -- . && git clean -fdq", wt)
        rc0, out0 = sh("/venv/bin/python %s" % demo, wt)
        rca, outa = sh("git apply %s" % patch, wt)
        rct, outt = sh("/venv/bin/python -m pytest -q -p no:cacheprovider --timeout=900 --deselect %s 2>&1 | tail -3" % DESELECT, wt)
        rcd, outd = sh("/venv/bin/python %s" % demo, wt)
        sh("git checkout -- . && git clean -fdq", wt)
        passed = "passed" in outt and "failed" not in outt and "error" not in outt.lower()
        ok = rc0 == 0 and rca == 0 and passed and rcd != 0
        res["%s_%d" % (pid, n)] = dict(ok=ok, demo_pristine_rc=rc0, apply_rc=rca, tests=outt.strip().splitlines()[-1] if outt.strip() else "", demo_changed_rc=rcd,
                                      demo_changed_tail=outd.strip().splitlines()[-1][:300] if outd.strip() else "")
        print(pid, n, "CONFIRMED" if ok else "REJECTED", res["%s_%d" % (pid, n)]["tests"], rc0, rcd, flush=True)
        if ok:
            dst = "/verif/seeded/%s_%d" % (pid, n + OFFSET)
            os.makedirs(dst, exist_ok=True)
            shutil.copy(patch, os.path.join(dst, "patch.diff"))
            shutil.copy(demo, os.path.join(dst, "demo.py"))
            notes = open(os.path.join(d, "notes.md")).read() if os.path.exists(os.path.join(d, "notes.md")) else ""
            open(os.path.join(dst, "notes.md"), "w").write(notes)
            meta = dict(property=pid, seed=n + OFFSET, breaks=pid,
                        needs_to_manifest="see notes.md (section for change %d)" % n,
                        confirmed=dict(
                            worktree="scratch git worktree of /repo HEAD under /tmp/wt/%s (removed afterwards)" % pid,
                            suite="cd <worktree> && /venv/bin/python -m pytest -q -p no:cacheprovider --timeout=900 --deselect %s  -> %s" % (DESELECT, res["%s_%d" % (pid, n)]["tests"]),
                            demo_without_change="exit %d" % rc0, demo_with_change="exit %d: %s" % (rcd, res["%s_%d" % (pid, n)]["demo_changed_tail"])),
                        checks_run="tools/mutant.sh seeded/%s_%d/patch.diff %s (see DESIGN.md section 11 for the outcome)" % (pid, n + OFFSET, pid))
            json.dump(meta, open(os.path.join(dst, "meta.json"), "w"), indent=1)
json.dump(res, open("/verif/work/confirm_seeds_%d.json" % OFFSET, "w"), indent=1)
