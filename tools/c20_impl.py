#!/venv/bin/python
"""C20 observation: import chartparse modules in a given order in a FRESH interpreter.

    observe(["chartparse.sync", "chartparse.chart"]) ->
      {"ok": bool,                      # every import statement finished without exception
       "exc": class name or None, "msg": str or None, "failed_at": index or None,
       "loaded": [package modules in sys.modules afterwards],
       "modules": {module: {public name: identity label}},   # names bound to package objects
       "values": {module: {public name: digest}},            # names bound to plain data (tuples, dicts, strings, numbers ...)
       "all_public": {module: [every public name in vars(module)]}}

A public name has no leading underscore.  A package object is a module of the package, or a class,
function (also behind functools wrappers), TypeVar or NewType whose __module__ is a package module.
Its identity label is the lexicographically smallest "module.name" over all public bindings of the
very same object (`is`) in the loaded package modules — the same rule as [Model.Imports.predicted].

CLI:  /venv/bin/python /verif/tools/c20_impl.py chartparse.sync chartparse.chart      (prints JSON)
      ... --coq   prints the arguments of [C20_verdict import_progs] as Coq terms instead
"""
from __future__ import annotations

import json
import os
import subprocess
import sys

REPO = os.environ.get("CHARTPARSE_REPO", "/repo")
PY = os.environ.get("CHARTPARSE_PYTHON", "/venv/bin/python")
PKG = "chartparse"

# Runs in the child.  Only `sys` (built in) is touched before the imports under test; everything
# needed for reporting is imported afterwards.
CHILD = r'''
import sys
_seq = sys.argv[1:]
_res = {"ok": True, "exc": None, "msg": None, "failed_at": None}
for _i, _m in enumerate(_seq):
    try:
        exec("import " + _m, {})
    except BaseException as _e:
        _res.update(ok=False, exc=type(_e).__name__, msg=str(_e), failed_at=_i)
        break
import json, types, typing
PKG = "chartparse"
def in_pkg(n):
    return isinstance(n, str) and (n == PKG or n.startswith(PKG + "."))
def belongs(v):
    if isinstance(v, types.ModuleType):
        return in_pkg(getattr(v, "__name__", None))
    w = v
    for _ in range(8):
        if isinstance(w, (type, types.FunctionType, typing.TypeVar, typing.NewType)):
            return in_pkg(getattr(w, "__module__", None))
        if hasattr(w, "__wrapped__"):
            w = w.__wrapped__
        else:
            return False
    return False
loaded = sorted(n for n, m in sys.modules.items() if in_pkg(n) and isinstance(m, types.ModuleType))
bindings = []       # (module, name, object)
all_public = {}
for n in loaded:
    d = vars(sys.modules[n])
    pub = sorted(k for k in d if not k.startswith("_"))
    all_public[n] = pub
    for k in pub:
        if belongs(d[k]):
            bindings.append((n, k, d[k]))
label = {}
for n, k, v in bindings:
    lab = n + "." + k
    if id(v) not in label or lab < label[id(v)]:
        label[id(v)] = lab
modules = {n: {} for n in loaded}
for n, k, v in bindings:
    modules[n][k] = label[id(v)]
# public names bound to plain data: a digest of the value, package classes / functions inside it named by their qualified name
import hashlib, enum
def canon(v, depth=0):
    if depth > 6:
        return None
    if v is None or isinstance(v, (bool, int, float, str, bytes)):
        return repr(v)
    if isinstance(v, (type, types.FunctionType)):
        return "<%s.%s>" % (getattr(v, "__module__", "?"), getattr(v, "__qualname__", "?"))
    if isinstance(v, enum.Enum):
        return "<enum %s.%s.%s>" % (type(v).__module__, type(v).__qualname__, v.name)
    if isinstance(v, types.ModuleType):
        return "<module %s>" % v.__name__
    if isinstance(v, (tuple, list)):
        parts = [canon(x, depth + 1) for x in v]
        return None if any(p is None for p in parts) else ("T(" if isinstance(v, tuple) else "L(") + ",".join(parts) + ")"
    if isinstance(v, (set, frozenset)):
        parts = [canon(x, depth + 1) for x in v]
        return None if any(p is None for p in parts) else "S(" + ",".join(sorted(parts)) + ")"
    if isinstance(v, dict):
        parts = [(canon(a, depth + 1), canon(b, depth + 1)) for a, b in v.items()]
        return None if any(a is None or b is None for a, b in parts) else "D(" + ",".join(sorted(a + ":" + b for a, b in parts)) + ")"
    if in_pkg(getattr(type(v), "__module__", None)):
        return "<instance of %s.%s>" % (type(v).__module__, type(v).__qualname__)
    return None
values = {n: {} for n in loaded}
for n in loaded:
    d = vars(sys.modules[n])
    for k in all_public[n]:
        if not belongs(d[k]) and not isinstance(d[k], (types.ModuleType, type, types.FunctionType)):
            c = canon(d[k])
            if c is not None:
                values[n][k] = "=" + hashlib.sha1(c.encode("utf-8", "backslashreplace")).hexdigest()[:16]
_res.update(loaded=loaded, modules=modules, all_public=all_public, values=values)
sys.stdout.write("C20OBS " + json.dumps(_res, sort_keys=True) + "\n")
'''


def _valid(m: str) -> bool:
    return bool(m) and all(p.isidentifier() for p in m.split("."))


def observe(seq: list[str]) -> dict:
    for m in seq:
        if not _valid(m):
            raise ValueError("not a dotted module name: %r" % (m,))
    env = {k: v for k, v in os.environ.items() if not k.startswith("PYTHON")}
    env.update(PYTHONPATH=REPO, PYTHONHASHSEED="0", PYTHONDONTWRITEBYTECODE="1")
    p = subprocess.run([PY, "-c", CHILD] + list(seq), cwd=REPO, env=env, capture_output=True, text=True, timeout=120)
    for line in p.stdout.splitlines():
        if line.startswith("C20OBS "):
            return json.loads(line[len("C20OBS "):])
    raise RuntimeError("observer child failed (rc=%s): %s" % (p.returncode, (p.stderr or p.stdout)[-2000:]))


# ------------------------------------------------------------------------------------------------
# rendering for the Coq side
# ------------------------------------------------------------------------------------------------

def _cs(s: str) -> str:
    if '"' in s or "\\" in s or "\n" in s:
        raise ValueError("cannot render %r as a Coq string" % (s,))
    return '"%s"%%string' % s


def _clist(items) -> str:
    return "[" + "; ".join(items) + "]"


def coq_args(seq: list[str], obs: dict) -> str:
    """`seq obs_ok obs obs_names`, the arguments of [C20_verdict P]."""
    mods = _clist("(%s, %s)" % (_cs(m), _clist("(%s, %s)" % (_cs(k), _cs(v)) for k, v in sorted(d.items())))
                  for m, d in sorted(obs["modules"].items()))
    names = _clist("(%s, %s)" % (_cs(m), _clist(_cs(k) for k in ks)) for m, ks in sorted(obs["all_public"].items()))
    return "%s %s %s %s" % (_clist(_cs(m) for m in seq), "true" if obs["ok"] else "false", mods, names)


def main(argv):
    args = [a for a in argv[1:] if a != "--coq"]
    obs = observe(args)
    if "--coq" in argv[1:]:
        print(coq_args(args, obs))
    else:
        print(json.dumps(obs, sort_keys=True))
    return 0


if __name__ == "__main__":
    sys.exit(main(sys.argv))
