# technique, level text, level note per claimed property (read by mkmanifest.py)
MODEL_NOTE = ("Trusted: Coq 8.16.1 kernel with vm_compute; standard-library axioms reported by Print Assumptions (copied into the evidence file on every run); "
              "tools/extract.py; the correspondence harness (tools/props, pyval, corr). The Gallina model of the Python control flow is hand-written and tied to /repo "
              "by the per-run correspondence (model = implementation, and the executable spec judged inside Coq on the implementation's own output).")
CLAIMED["C05"] = (
    "Coq proof by induction over the phrase cursor (loop invariant) + per-run vm_compute correspondence",
    "Theorems C05_cursor/C05_track/C05_from_lines: for every star-power list ordered by start tick and every non-decreasing note tick sequence the carried cursor yields exactly the index of the first half-open-covering phrase and never raises; zero-length, end-exclusion and none-iff corollaries. Unbounded in list sizes and tick values.",
    MODEL_NOTE)
CLAIMED["C11"] = (
    "Coq proof by induction over the tempo list and over the hinted fold (invariant: stored index = governing index) + per-run vm_compute correspondence",
    "Theorems C11_hint/C11_ts/C11_ts_reject/C11_any_ok/C11_index (every tempo list with strictly increasing ticks, every tick, every hint: hints <= governing index are invisible, hints beyond it raise ValueError, the index is the last event at or before the tick), C11_threaded/C11_threaded_err/C11_notes (body lines in ANY order: the hinted fold either fails or stores exactly the un-hinted query, incl. the start->end hand-over of notes), C11_built_wf/C11_bpm_self (every built tempo list is well formed).",
    MODEL_NOTE)
CLAIMED["C02"] = (
    "Coq proof by induction over the line list (grouping) and a fold invariant (lanes) + per-run vm_compute correspondence",
    "Theorems C02_concat/uniform/maximal/sorted (grouping loses, duplicates, merges nothing; for non-decreasing ticks exactly one group per distinct tick, strictly increasing, each the fibre of its tick), C02_lanes/C02_open (bit k set iff a line of the group names lane k; flag/open indices set nothing), C02_events (one event per group with its tick and lanes), C02_interleave (non-note lines can be interleaved anywhere). Unbounded in section length and tick values.",
    MODEL_NOTE)
CLAIMED["C03"] = (
    "Coq proof: fold invariants over the lane-sustain slots, case analysis of _refined_sustain_tuple, max-fold lemmas + per-run vm_compute correspondence",
    "Theorems C03_open/flags_only/uniform/tuple/flags_ignored (sustain of a group for every lane/length assignment incl. open note anywhere in the tick; flags never contribute), C03_longest/longest_total (maximum, never raises on a built event), C03_event (end time = query at tick + longest with the start's index as hint; C11 removes the hint), C03_last (maximum end; None iff no notes), C03_refuted_pinned (the pinned tree's defect, repaired by fix 2f3b00f).",
    MODEL_NOTE)
CLAIMED["C04"] = (
    "Coq proof: decision-table case analysis + Flocq proof that round(R/3) in binary64 is (2R+3)/6 for all 1<=R<2^50 + per-run vm_compute correspondence",
    "Theorems C04_rule (decision table for any boundary), C04_first/C04_first_forced (first note; documented rejection), C04_threshold (float: round(resolution/3) is resolution/3 to the nearest tick for every resolution below 2^50), C04_closed, C04_track (every event of every built track carries the decision of (predecessor, itself)), C04_chord.",
    MODEL_NOTE + " The eighth-triplet divisor 3 is regenerated from the source and checked in Tie/C04.v.")
