# technique, level text, level note per claimed property (read by mkmanifest.py)
MODEL_NOTE = ("Trusted: Coq 8.16.1 kernel with vm_compute; standard-library axioms reported by Print Assumptions (copied into the evidence file on every run); "
              "tools/extract.py; the correspondence harness (tools/props, pyval, corr). The Gallina model of the Python control flow is hand-written and tied to /repo "
              "by the per-run correspondence (model = implementation, and the executable spec judged inside Coq on the implementation's own output).")
CLAIMED["C05"] = (
    "Coq proof by induction over the phrase cursor (loop invariant) + per-run vm_compute correspondence",
    "Theorems C05_cursor/C05_track/C05_from_lines: for every star-power list ordered by start tick and every non-decreasing note tick sequence the carried cursor yields exactly the index of the first half-open-covering phrase and never raises; zero-length, end-exclusion and none-iff corollaries. Unbounded in list sizes and tick values.",
    MODEL_NOTE)
CLAIMED["C11"] = (
    "Coq proof by induction over the tempo list and over the hinted fold (invariant: stored index = governing index) + per-run vm_compute correspondence",
    "Theorems C11_hint/C11_ts/C11_ts_reject/C11_any_ok/C11_index (every tempo list with strictly increasing ticks, every tick, every hint: hints <= governing index are invisible, hints beyond it raise ValueError, the index is the last event at or before the tick), C11_threaded/C11_threaded_err/C11_notes (body lines in ANY order: the hinted fold either fails or stores exactly the un-hinted query, incl. the start->end hand-over of notes), C11_built_wf/C11_bpm_self (every built tempo list is well formed).",
    MODEL_NOTE)
