# technique, level text, level note per claimed property (read by mkmanifest.py)
MODEL_NOTE = ("Trusted: Coq 8.16.1 kernel with vm_compute; standard-library axioms reported by Print Assumptions (copied into the evidence file on every run); "
              "tools/extract.py, tools/extract_leaf.py, tools/extract_meta.py; the correspondence harness (tools/props, pyval, corr). The Gallina model is tied to /repo on every run in two ways: the bodies of 52 "
              "functions of the parser (tick arithmetic, tempo / timed / note event constructors and loops, sustains, the first-match dispatcher, the three track builders, the section framer, "
              "Chart.from_file, the metadata scan with its closures, notes_per_second) are regenerated from the source by tools/extract_leaf.py and tools/extract_meta.py (a fail-closed typed translation) and PROVED equal to the model's functions in Tie/Leaf_*.v "
              "(the ones on this property's path are listed as obligations in the evidence); and the per-run correspondence runs model and implementation on the same inputs "
              "(model = implementation, and the executable spec judged inside Coq on the implementation's own output). Hand-modelled only: what the line and field recognisers capture, the metadata processing functions, "
              "dataclass / mixin behaviour, and the CPython primitives named in DESIGN.md section 7.")
CLAIMED["C05"] = (
    "Coq proof by induction over the phrase cursor (loop invariant) + per-run vm_compute correspondence",
    "Theorems C05_cursor/C05_track/C05_from_lines: for every star-power list ordered by start tick and every non-decreasing note tick sequence the carried cursor yields exactly the index of the first half-open-covering phrase and never raises; zero-length, end-exclusion and none-iff corollaries. Unbounded in list sizes and tick values.",
    MODEL_NOTE)
CLAIMED["C11"] = (
    "Coq proof by induction over the tempo list and over the hinted fold (invariant: stored index = governing index) + per-run vm_compute correspondence",
    "Theorems C11_hint/C11_ts/C11_ts_reject/C11_any_ok/C11_index (every tempo list with strictly increasing ticks, every tick, every hint: hints <= governing index are invisible, hints beyond it raise ValueError, the index is the last event at or before the tick), C11_threaded/C11_threaded_err/C11_notes (body lines in ANY order: the hinted fold either fails or stores exactly the un-hinted query, incl. the start->end hand-over of notes), C11_built_wf/C11_bpm_self (every built tempo list is well formed).",
    MODEL_NOTE)
CLAIMED["C02"] = (
    "Coq proof by induction over the line list (grouping) and a fold invariant (lanes) + per-run vm_compute correspondence",
    "Theorems C02_concat/uniform/maximal/sorted (grouping loses, duplicates, merges nothing; for non-decreasing ticks exactly one group per distinct tick, strictly increasing, each the fibre of its tick), C02_lanes/C02_open (bit k set iff a line of the group names lane k; flag/open indices set nothing), C02_events (one event per group with its tick and lanes), C02_interleave (non-note lines can be interleaved anywhere). Unbounded in section length and tick values.",
    MODEL_NOTE)
CLAIMED["C03"] = (
    "Coq proof: fold invariants over the lane-sustain slots, case analysis of _refined_sustain_tuple, max-fold lemmas + per-run vm_compute correspondence",
    "Theorems C03_open/flags_only/uniform/tuple/flags_ignored (sustain of a group for every lane/length assignment incl. open note anywhere in the tick; flags never contribute), C03_longest/longest_total (maximum, never raises on a built event), C03_event (end time = query at tick + longest with the start's index as hint; C11 removes the hint), C03_last (maximum end; None iff no notes), C03_refuted_pinned (the pinned tree's defect, repaired by fix 2f3b00f).",
    MODEL_NOTE)
CLAIMED["C04"] = (
    "Coq proof: decision-table case analysis + Flocq proof that round(R/3) in binary64 is (2R+3)/6 for all 1<=R<2^50 + per-run vm_compute correspondence",
    "Theorems C04_rule (decision table for any boundary), C04_first/C04_first_forced (first note; documented rejection), C04_threshold (float: round(resolution/3) is resolution/3 to the nearest tick for every resolution below 2^50), C04_closed, C04_track (every event of every built track carries the decision of (predecessor, itself)), C04_chord.",
    MODEL_NOTE + " The eighth-triplet divisor 3 is regenerated from the source and checked in Tie/C04.v.")
REGEX_NOTE = (" The shipped regular expressions are regenerated from /repo on every run (re._parser -> Regex.re) and compared syntactically with the reference expressions the theorems are about "
              "(cfg_ok items in Tie/); a harmless rewrite of a pattern therefore breaks the obligation and is reported as no-failing-input-found unless the generated lines expose a difference.")
CLAIMED["C07"] = (
    "Coq proof: verified derivative matcher + language inversion of the reference regexes (all strings) and extractor correctness + per-run syntactic tie of the regenerated regexes + vm_compute correspondence",
    "Theorems C07_{note,sp,tev}_only (the recognisers accept EXACTLY the canonical shapes, for all strings), C07_{note,sp,tev}_accept (canonical lines of any digit count and padding decode to exactly the written integers / the verbatim word), C07_reject, C07_disjoint (no string is claimed by two kinds), C07_decimal.",
    MODEL_NOTE + REGEX_NOTE)
CLAIMED["C08"] = (
    "Coq proof: language inversion of the B/TS/A reference regexes + Flocq proof that int(raw)/1000 is the double nearest n/1000 and passes round(x,3)==x for all n<2^52 + per-run tie + vm_compute correspondence",
    "Theorems C08_{bpm,ts,anchor}_only/accept (exact languages and decoded integers for all strings), C08_disjoint, C08_bpm_float/C08_bpm_value/C08_bpm_first (every numeral 1<=n<2^52 is accepted and yields RN(n/1000)), C08_ts_value (u/4, u/2^l), C08_anchor_value (exact microseconds), C08_refuted_pinned (the pinned tree's defect, repaired by fix 028903f).",
    MODEL_NOTE + REGEX_NOTE)
CLAIMED["C09"] = (
    "Coq proof: language inversion of the lyric/section/text reference regexes, lazy-group (shortest prefix) extractor correctness, first-match-wins dispatch + per-run tie (incl. kind order) + vm_compute correspondence",
    "Theorems C09_lyric/C09_section (remainder verbatim incl. inner quotes, blanks, non-ASCII), C09_text (any other quote-free text, whole text), C09_*_only (exact languages), C09_lyric_section_disjoint, C09_partition (each line lands in at most one list, lists are file-order subsequences).",
    MODEL_NOTE + REGEX_NOTE)
CLAIMED["C14"] = (
    "Coq proof by induction over lines (conservation, locality) and permutation argument over pairwise-disjoint recognisers + per-run tie + vm_compute correspondence",
    "Theorems C14_conservation/C14_count (every line yields exactly one datum of one kind or one warning), C14_local/C14_append/C14_data_unchanged (an unparsable line inserted anywhere adds exactly one warning and changes nothing else), C14_order_indep (pairwise disjoint kinds => outcome independent of the order tried); disjointness for all strings is C07_disjoint / C08_disjoint.",
    MODEL_NOTE + REGEX_NOTE)
FLOAT_NOTE = (" Float theorems go through Flocq (binary64 as Flocq's executable binary_float, round-to-nearest-even) and Coq's classical real numbers; the Interval tactic used in the "
              "error analysis brings in the standard library's primitive 63-bit integer axioms (Uint63.*), all listed in the evidence.")
CLAIMED["C01"] = (
    "Coq/Flocq proof: per-segment float error analysis (4 IEEE operations + CPython's timedelta(seconds=float) rounding) and induction over the tempo segments + per-run vm_compute correspondence judged against exact rational time",
    "Theorems dur_acc (one segment is within 1/2 us + 1 ns of k*60/(BPM*resolution) for all n in 1..10^9, resolution < 2^53, ticks < 2^53, times <= 10^6 s), built_tempo_wf/built_matches (every parsed tempo list chains these segments), "
    "C01_query (the public query, any admissible hint: within (segments traversed)*(1/2 us + 1 ns) of the exact time, index = governing tempo), C01_tick0 (tick 0 is exactly 0), C01_tempo_events, C01_stored (every event whose stored time is the un-hinted query, which C11_chart proves for all event kinds and tracks).",
    MODEL_NOTE + FLOAT_NOTE + " Interpretation I1: the nanosecond of float slack per segment is part of the bound (a bound of exactly 1/2 us is false for any double-precision implementation near rounding ties).")
CLAIMED["C12"] = (
    "Coq/Flocq proof: monotonicity of the four float operations and of CPython's timedelta rounding (no accuracy needed), induction over the chained tempo list; strictness from the accuracy lemma + per-run vm_compute correspondence",
    "Theorems dur_mono/dur_nonneg (a segment's duration is monotone in the tick count for EVERY tempo and resolution, sub-microsecond ticks included), C12_mono (all well-formed tempo lists, all pairs a <= b), C12_strict (n*resolution <= 3*10^10 at every tempo), C12_equal_ticks, C12_events (events of any tracks), C12_note (end never before start), C12_chart (through from_file).",
    MODEL_NOTE + FLOAT_NOTE)
CLAIMED["C06"] = (
    "Coq proof by induction over the section list (scanner-state invariant), over lines/characters (splitlines, universal newlines), and over the routing fold (finite-map characterisation) + per-run tie of header regex / 40 names / required tags + vm_compute correspondence incl. real files read by path",
    "Theorems C06_frame_gen/C06_frame (each section's parser receives exactly the body lines between its braces), C06_split (LF = CRLF), C06_bom (BOM + CRLF by path = LF text), C06_route_fixed (Song -> metadata, SyncTrack -> sync, Events -> global events), "
    "utf8_roundtrip/utf8_canonical (the modelled UTF-8 codec is a bijection between valid byte strings and texts of Unicode scalar values: overlong forms, surrogates, > U+10FFFF, stray and missing continuation bytes rejected), utf8_sig_bom/utf8_sig_nobom, C06_bom_bytes (a FILE, as bytes, with or without the mark, LF or CRLF, read by path = the LF text), utf8_error_kind (undecodable bytes are a ValueError), "
    "C06_route_tracks/C06_header (each of the 40 headers feeds the track stored under exactly that key and labelled with it), C06_route_ok, C06_perm (independence of section order, tracks as a finite map, logs as a multiset), C06_unknown/C06_unknown_chart (unknown sections reported once and ignored), C06_required (ValueError).",
    MODEL_NOTE + REGEX_NOTE + " The utf-8-sig decoding of the path entry point is a hand-written executable model of the codec (Base/Utf8.v, strict RFC 3629), tied to CPython by the correspondence on real files incl. undecodable ones; CPython's C implementation of the codec itself is trusted.")
CLAIMED["C10"] = (
    "Coq proof: language inversion of the 24 reference field regexes, greedy-optional-quote + lazy-group extractor correctness, prefix argument for pairwise disjointness (all strings), permutation lemma + per-run tie (regexes, kinds, defaults, lookup order) + vm_compute correspondence",
    "Theorems C10_only (exact language of every field), C10_str_verbatim (one pair of quotes removed, inner text verbatim incl. quotes, '=', field names, blanks, non-ASCII), C10_int, C10_player2/C10_player2_capture, C10_disjoint (no string is claimed by two fields), C10_field/C10_foreign_line (a field's value depends only on its own accepted line), C10_perm (order independence), C10_defaults, C10_required (MissingRequiredField), C10_shape.",
    MODEL_NOTE + REGEX_NOTE)
CLAIMED["C13"] = (
    "Coq proof from the routing characterisation (finite-map lookups, selection filter commutes with the routing fold) + per-run tie + vm_compute correspondence relating restricted and unrestricted parses of the implementation",
    "Theorems C13_select (a restricted parse returns exactly the selected existing tracks, each equal to the unrestricted one, other parts unchanged, no empty instrument entry), C13_empty, C13_select_ok (succeeds iff every SELECTED section builds: unselected invalid sections never matter), C13_noninterf (replacing one section's body never affects another key), C13_unselected_partial (+ C13_unselected_refuted for degenerate configurations).",
    MODEL_NOTE)
CLAIMED["C15"] = (
    "Coq proof following the model's evaluation order through every validator (induction over the tempo list; Flocq bounds exclude ZeroDivision/Overflow before ValueError) + vm_compute correspondence over single corruptions at every position",
    "Theorems C15_never_ok (non-positive resolution, no tempo, first tempo not at tick 0, ticks not strictly increasing: never a tempo list), C15_reject/C15_reject_R (the error is ValueError), C15_ts (no time signature at tick 0), C15_query (any returned time is governed by a strictly positive tempo, at a tick at or after it, with positive resolution), C15_zero_tempo, C15_negative.",
    MODEL_NOTE + FLOAT_NOTE)
CLAIMED["C16"] = (
    "Coq proof: case analysis over the call forms + Flocq lemma (length in seconds <= 0 iff microsecond length <= 0; exact int->float conversions) + vm_compute correspondence judged on the implementation's own chart",
    "Theorems C16_main (for every consistent call form: result = count of notes with start in the closed interval / length in seconds as the two float divisions Python performs; tick bound = tempo-map time; omitted start = 0, omitted end = last note end; ValueError for non-positive length), C16_absent, C16_noteless, C16_tick_vs_time, C16_rate_zero.",
    MODEL_NOTE + FLOAT_NOTE + " Interpretation I3: a tick mixed with a timestamp hits the source's assert and is outside the property.")
CLAIMED["C20"] = (
    "Coq proof: abstract interpreter of the import protocol over import programs regenerated from the source by ast; invariant = canonical state of a dependency-closed set, complete enumeration of reachable states by vm_compute lifted with forallb_forall, induction over the import sequence + fresh-interpreter correspondence",
    "Theorems C20 (every sequence of imports of the 13 modules succeeds; every loaded module has exactly the namespace it has as first import), C20_first, C20_loaded_set, C20_same_names / C20_permutation (any two orders over the same modules end in the same state: same names bound to the same objects), C20_same_prediction.",
    "Trusted: Coq kernel with vm_compute; tools/extract_imports.py (fail-closed ast translator of module-level statements); that Model/Imports.v is CPython's import protocol for the statement forms the package uses — validated on every run by fresh-interpreter observations of all first imports, ordered pairs and permutations (tools/c20_impl.py). Partial: the theorem is about the model of the import system.")
CLAIMED["C17"] = (
    "Coq proof: memoisation transparency for all histories, all interleavings (memoised call atomic) and arbitrary eviction over caches reachable from empty; the note builder as a free-monad program proved equal to the model's parser; per-run static purity scan of the source (ast) + fresh-interpreter / in-process / threaded correspondence",
    "Theorems C17_cached_reachable / C17_history_reachable / C17_schedule_reachable (any programs over any memoised functions: every program returns its cache-free result whatever ran before, whatever is interleaved, whatever is evicted), C17_builder_is_the_parser, C17_sections_after_any_history, C17_sections_schedule_from_empty (chartparse's four lru_cache tables and its note builder), C17_inv_call; C17_inv_evict_refuted records that the first formulation's invariant was too weak.",
    MODEL_NOTE + " The claim that the four lru_cache tables are the package's only cross-call state is the per-run static scan tools/purity.py (memoised functions read only their parameters and immutable module names; no mutable defaults; no module/class-level container mutated by a function), checked in Tie/C17.v. Partial: real thread pre-emption inside CPython and fresh-interpreter equality are exercised by the correspondence only.")
CLAIMED["C18"] = (
    "Coq proof: one parameterised walk through the whole parser model showing which error constructors are reachable (all partial operations are explicit), numeric range analysis with Flocq for texts with <= 8-digit numerals + mutation-fuzzing correspondence with exact error-class comparison and rendering of everything",
    "Theorems C18_struct (for EVERY text: IndexError, KeyError, TypeError, AttributeError, AssertionError, UnreachableError, ZeroDivisionError are unreachable), C18_errors (numeric tokens of at most 8 digits: only ValueError, RegexNotMatchError, MissingRequiredField escape; no float or timedelta conversion overflows), C18_render (every returned chart satisfies the formatters' preconditions: timestamps within the timedelta range, finite tempos).",
    MODEL_NOTE + FLOAT_NOTE + " The Interval tactic in the numeric part also relies on the standard library's primitive-float axioms (FloatAxioms.*). Partial: the TEXT produced by str()/repr() is not modelled; that they succeed is exercised on every chart, track and event the harness parses.")
CLAIMED["C19"] = (
    "Coq proof by induction over operation sequences on a state machine whose only writable place is the outer instrument mapping (kind regenerated from the source by a probe parse) + vm_compute correspondence observing the full chart, key set and twin equality after every operation",
    "Theorems C19_immutable (plain mapping: no sequence of read-only operations, failing ones included, changes the observation), C19_history_free, C19_twin, C19_frozen, C19_refuted_autoinsert (the pinned tree's defaultdict: repaired by fix 9b5729a).",
    MODEL_NOTE + " Partial: that CPython's frozen dataclasses reject assignment and that the listed operations have no other side effect is what the model's step function states; it is checked by the correspondence (assignment and deletion of every field of every event/track class, full observation after every operation).")
