"""C16 — notes_per_second is count-in-closed-interval over interval length."""
from __future__ import annotations

from datetime import timedelta

from .common import *   # noqa: F401,F403
from . import instr_gen as ig

LEAF = ['Leaf_nps', 'Leaf_query', 'Leaf_chart', 'Leaf_fromfile', 'Leaf_meta']      # translated functions this property's model relies on (Tie/<name>.v)
RULE = ("charts with 1-3 tracks over 1-5 segment tempo maps (incl. note-less and absent tracks); per chart 10-25 calls of chart.notes_per_second(instrument, difficulty, start, end) with "
        "bounds given as ticks, as timestamps, or omitted: bounds coinciding exactly with note start times, with each other (zero length), reversed, explicit tick 0 / timestamp 0 ends, "
        "starts after the last note onset (count 0), negative ticks, intervals of one to ten whole days (exactly, and plus a second or a microsecond) by time and by tick, tick- and time-typed twins of the same interval; judged on the implementation's own chart: the float (bit pattern) equals "
        "count-in-closed-interval / length-in-seconds, ValueError exactly for non-positive length, absent or note-less track. Non-trivial: a call whose bound coincides with a note time, or with "
        "count 0, or an error case; distinct by (chart, calls)")
ASSUMPTIONS = ["a tick bound mixed with a timestamp bound runs into the source's assert and is outside the property (interpretation I3); such calls are compared model-vs-implementation only"]

IN_TYPE = "C16_in"
OUT_TYPE = "C16_out"
VERDICT = "fun i o => C16_verdict cfg i o"
SPEC = "fun i o => C16_spec i o"


def r_bound(b):
    if b is None:
        return "BNone"
    if b[0] == "tick":
        return "(BTick %s)" % coq_Z(b[1])
    return "(BTime %s)" % coq_Z(b[1])


def py_bound(b):
    if b is None:
        return None
    if b[0] == "tick":
        return b[1]
    return timedelta(microseconds=b[1])


def make_case(text, calls):
    import chartparse.instrument as I
    ch, exc, out_parse = parse_case(text)
    if ch is None:
        out = "(Err %s)" % pyval.errkind(exc)
    else:
        rs = []
        for i, d, s, e in calls:
            kw = {}
            args = [I.Instrument(i), I.Difficulty(d)]
            # use the positional/keyword form the API offers
            def call(args=args, s=s, e=e):
                if s is None and e is None:
                    return ch.notes_per_second(*args)
                if e is None:
                    return ch.notes_per_second(*args, py_bound(s))
                return ch.notes_per_second(*args, py_bound(s), py_bound(e))
            rs.append(pyval.r_result(call, coq_float))
        out = "(Ok (%s, %s))" % (pyval.r_chart(ch), coq_list(rs))
    return dict(case=dict(text=text, calls=calls),
                in_term="(%s, %s)" % (parse_in_term(text), coq_list("(%s, %s, %s, %s)" % (coq_str(i), coq_str(d), r_bound(s), r_bound(e)) for i, d, s, e in calls)),
                out_term=out, nontrivial=True,
                tags=["calls=%d" % len(calls), "impl_error" if exc is not None else "impl_ok"], signature="C16:" + key_of([text, calls]))


def gen(rng):
    import io
    import chartparse.chart as chart_mod
    R = rng.choice([192, 480, 96])
    groups = ig.gen_groups(rng, R, rng.choice([1, 2, 4, 8]), gaps=[R // 2, R, 2 * R, 1])
    lines = ig.section_lines(rng, groups, R, sp=False, tev=False)
    tm = ig.gen_tempo(rng, R, groups[-1]["tick"] + R)
    tm = [(t, n if n >= 1000 else 60000) for t, n in tm]
    tracks = [("ExpertSingle", lines)]
    if rng.random() < 0.6:
        tracks.append(("HardSingle", rng.choice([[], ["0 = S 2 100", "50 = E solo"]])))
    if rng.random() < 0.4:
        g2 = ig.gen_groups(rng, R, 3, gaps=[R])
        tracks.append(("ExpertDrums", ig.section_lines(rng, g2, R, sp=False, tev=False)))
    text = chart_text(res=R, sync=["0 = TS 4"] + tempo_lines(tm), tracks=tracks)
    try:
        ch = chart_mod.Chart.from_file(io.StringIO(text, newline=""))
        be = ch.sync_track.bpm_events
    except Exception:  # noqa: BLE001
        ch = be = None
    nticks = [g["tick"] for g in groups]
    def us(t):
        # (the generator only needs SOME timestamp near tick t to aim a time bound at; if the implementation cannot say, an
        # approximation at 120 BPM does: what is judged is the call, not this helper)
        try:
            return pyval.us(be.timestamp_at_tick_no_optimize_return(t))
        except Exception:  # noqa: BLE001
            return int(max(t, 0) * 500000 // R)
    last_tick = nticks[-1]
    calls = []
    G, X = "Single", "Expert"   # noqa: E741
    cand_ticks = sorted(set(nticks + [0, last_tick + 1, last_tick + 5 * R, max(0, nticks[0] - 1)] + [t + 1 for t in nticks]))
    def tick_b():
        return ("tick", rng.choice(cand_ticks))
    for _ in range(rng.randint(6, 14)):
        form = rng.choice(["tt", "tt", "TT", "TT", "t-", "T-", "--", "twin", "zero", "rev", "-t", "after", "long"])
        if form == "tt":
            a, b = sorted([tick_b()[1], tick_b()[1]])
            calls.append((G, X, ("tick", a), ("tick", b)))
        elif form == "TT":
            a, b = sorted([us(tick_b()[1]), us(tick_b()[1])])
            calls.append((G, X, ("time", a + rng.choice([0, 0, 1, -1]) if a > 0 else a), ("time", b + rng.choice([0, 0, 1, -1]))))
        elif form == "t-":
            calls.append((G, X, tick_b(), None))
        elif form == "T-":
            calls.append((G, X, ("time", us(tick_b()[1])), None))
        elif form == "--":
            calls.append((G, X, None, None))
        elif form == "-t":
            calls.append((G, X, None, tick_b()))
        elif form == "twin":
            a, b = sorted([tick_b()[1], tick_b()[1]])
            calls.append((G, X, ("tick", a), ("tick", b)))
            calls.append((G, X, ("time", us(a)), ("time", us(b))))
        elif form == "zero":
            t = tick_b()[1]
            calls.append((G, X, ("tick", t), ("tick", t)))
            calls.append((G, X, ("tick", t), ("tick", 0)))
            calls.append((G, X, ("time", us(t)), ("time", 0)))
        elif form == "long":
            # intervals of a day and more (whole days exactly, and a few seconds more), by time and by tick
            a = us(tick_b()[1])
            day = 86400 * 10 ** 6
            calls.append((G, X, ("time", a), ("time", a + rng.choice([1, 1, 2, 10]) * day + rng.choice([0, 0, 5 * 10 ** 6, 1]))))
            calls.append((G, X, tick_b(), ("tick", last_tick + rng.choice([40, 400]) * 10 ** 6)))
        elif form == "rev":
            a, b = sorted([tick_b()[1], tick_b()[1]])
            calls.append((G, X, ("tick", b), ("tick", a)))
        else:
            calls.append((G, X, ("tick", last_tick + 1), None))
            calls.append((G, X, ("tick", last_tick + 1), ("tick", last_tick + 10 * R)))
    calls.append((G, "Hard", None, None))                    # note-less (if present) or absent track
    calls.append((G, "Hard", ("tick", 0), ("tick", 768)))    # … also with explicit bounds of positive length
    calls.append((G, "Hard", ("time", 0), ("time", 1000000)))
    calls.append((G, "Hard", ("tick", 10), None))
    calls.append(("DoubleBass", "Expert", None, None))         # absent instrument
    calls.append((G, "Easy", ("tick", 0), ("tick", 10)))      # present instrument, absent difficulty
    calls.append((G, X, ("tick", -1), None))
    if rng.random() < 0.3:
        calls.append((G, X, ("tick", 0), ("time", 5)))        # mixed: the source's assert
    return text, calls


def run(ctx, only=None):
    if only:
        cs = [make_case(c["text"], [tuple(tuple(y) if isinstance(y, list) else y for y in x) for x in c["calls"]]) for c in only if c]
    else:
        rng = ctx["rng"]
        cs = [make_case(c["text"], [tuple(tuple(y) if isinstance(y, list) else y for y in x) for x in c["calls"]]) for c in load_corpus("C16")]
        n = 70 if ctx["tier"] == "quick" else 2500
        while len(cs) < n:
            cs.append(make_case(*gen(rng)))
    return run_cases("C16", cs, IN_TYPE, OUT_TYPE, VERDICT, SPEC, shard_size=8)


def search(ctx, result):
    rng = ctx["rng"]
    cs = [make_case(*gen(rng)) for _ in range(300)]
    r = run_cases("C16s", cs, IN_TYPE, OUT_TYPE, VERDICT, SPEC, shard_size=8)
    return dict(viol=r["viol"], evaluations=r["evaluations"], note="re-sampled %d cases" % len(cs))
