"""C13 — track selection restricts the parse and tracks do not interfere."""
from __future__ import annotations

from .common import *   # noqa: F401,F403
from . import instr_gen as ig
from . import C06 as c06

LEAF = ['Leaf_chart', 'Leaf_fromfile', 'Leaf_meta', 'Leaf_dispatch', 'Leaf_tracks']      # translated functions this property's model relies on (Tie/<name>.v)
RULE = ("charts with a random subset (0-6) of the 40 tracks; selections: None, [], single pairs, subsets, supersets, pairs absent from the file, pairs differing in both instrument and difficulty "
        "(cross products), duplicated pairs, a tuple instead of a list; optionally ONE instrument section's body replaced by garbage, by another track's body, or by a body that cannot be built "
        "(forced first note, note governed by a zero tempo); optionally extra sections whose names merely BEGIN with a track's name ([ExpertSingle_old], [HardDrums (disabled)], ...) "
        "with a copy of the real body, another valid body or an unbuildable one, placed right after the real section or anywhere; occasionally a section written twice (its later copy counts); judged against the implementation's unrestricted parse of the ORIGINAL text: metadata / sync / events equal, every (instrument, "
        "difficulty) other than the replaced one has exactly the unrestricted track if selected and none otherwise, no empty instrument entry, and a selection alone never turns a successful "
        "parse into a failure (a replaced body may only when it is selected). Non-trivial: a selection other than None or a replaced body; distinct by (text, selection)")
ASSUMPTIONS = ["a section name written twice denotes its later copy (dict assignment); such files are generated too: restricted and unrestricted parses must agree on them"]

IN_TYPE = "(C13_aux * %s)" % PARSE_IN
VERDICT = "fun i o => parse_verdict cfg (snd i) o"
SPEC = "fun i o => C13_spec (fst i) o"

BAD_BODIES = [["  0 = N 0 0", "  }", "  10 = N 1 0"], ["} ", "  0 = N 0 0"], ["\t{", "  0 = N 0 0"], ["  {", "  5 = N 2 0", "  }"],
              ["  0 = N 0 0", "  0 = N 5 0"], ["garbage", "  x"], ["  10 = N 0 0", "  5 = S 2 1", "  1 = S 2 1"], ["  99999999 = N 0 0"]]


def key_of_header(h):
    ivals, dvals = c06.instr_diff()
    for i in ivals:
        for d in dvals:
            if h == d + i:
                return (i, d)
    return None


def gen(rng):
    ivals, dvals = c06.instr_diff()
    all_headers = [d + i for i in ivals for d in dvals]
    hs = rng.sample(all_headers, rng.choice([0, 1, 2, 3, 4, 6]))
    secs = c06.base_chart(rng, hs)
    order = list(range(len(secs)))
    rng.shuffle(order)
    secs = [secs[i] for i in order]
    if rng.random() < 0.12:
        # a section written twice (the later copy is the one every parse must use, selected or not): a track, or [Events] / [SyncTrack]
        tag = rng.choice(hs + ["Events"]) if hs else "Events"
        first = [t for t, _ in secs].index(tag)
        body = ["  " + l for l in ig.section_lines(rng, ig.gen_groups(rng, 192, 2), 192)] if tag != "Events" else ['  5 = E "section other"']
        secs.insert(rng.randint(first + 1, len(secs)), (tag, body))
    present = [key_of_header(h) for h in hs]
    allpairs = [(i, d) for i in ivals for d in dvals]
    mode = rng.choice(["none", "empty", "one", "subset", "superset", "absent", "cross", "dup", "all_expert_plus_guitar"])
    if mode == "none":
        sel = None
    elif mode == "empty":
        sel = []
    elif mode == "one":
        sel = [rng.choice(present or allpairs)]
    elif mode == "subset":
        sel = rng.sample(present, rng.randint(0, len(present))) if present else []
    elif mode == "superset":
        sel = present + rng.sample(allpairs, 3)
    elif mode == "absent":
        sel = rng.sample([p for p in allpairs if p not in present], 2)
    elif mode == "cross":
        sel = rng.sample(present, min(2, len(present))) + rng.sample(allpairs, 1)
    elif mode == "dup":
        base = rng.sample(present, min(2, len(present))) if present else [allpairs[0]]
        sel = base + base
    else:
        sel = [("Single", d) for d in dvals] + [(i, "Expert") for i in ivals]
    changed = None
    secs2 = list(secs)
    if hs and rng.random() < 0.45:
        k = rng.randrange(len(hs))
        h = hs[k]
        idx = [t for t, _ in secs2].index(h)
        r = rng.random()
        if r < 0.4:
            body = rng.choice(BAD_BODIES)
        elif r < 0.7 and len(hs) > 1:
            other = hs[(k + 1) % len(hs)]
            body = dict(secs2)[other]
        else:
            body = ["  " + l for l in ig.section_lines(rng, ig.gen_groups(rng, 192, 2), 192)]
        secs2[idx] = (h, body)
        changed = key_of_header(h)
    if rng.random() < 0.35:
        # sections that are NOT tracks but whose names begin with a track's name (a parked copy, a disabled part): they must
        # neither replace, add nor break any track, wherever they stand relative to the real section
        for _ in range(rng.choice([1, 1, 2])):
            base = rng.choice(hs) if hs and rng.random() < 0.7 else rng.choice(all_headers)
            tag = base + rng.choice(["_old", "2", " (disabled)", "Backup", ".bak", " ", "x"])
            if tag in [t for t, _ in secs2]:
                continue
            r = rng.random()
            if r < 0.4 and base in dict(secs2):
                body = list(dict(secs2)[base])
            elif r < 0.75:
                body = ["  " + l for l in ig.section_lines(rng, ig.gen_groups(rng, 192, 2), 192)]
            else:
                body = rng.choice(BAD_BODIES[4:])
            names = [t for t, _ in secs2]
            pos = names.index(base) + 1 if base in names and rng.random() < 0.7 else rng.randint(0, len(secs2))
            secs2.insert(pos, (tag, body))
    return secs, secs2, sel, changed, mode


def make_case(secs, secs2, sel, changed, mode="replay"):
    base_text = c06.render(secs, "\n")
    text = c06.render(secs2, "\n")
    ch0, exc0, out0 = parse_case(base_text)
    ch, exc, out = parse_case(text, sel)
    aux = "(%s, %s, %s)" % (out0, pyval.r_want(sel), coq_option(changed, lambda k: "(%s, %s)" % (coq_str(k[0]), coq_str(k[1]))))
    return dict(case=dict(secs=[[t, b] for t, b in secs], secs2=[[t, b] for t, b in secs2], sel=sel, changed=changed),
                in_term="(%s, %s)" % (aux, parse_in_term(text, sel)), out_term=out,
                nontrivial=sel is not None or changed is not None,
                tags=["sel=" + mode, "changed" if changed else "unchanged", "impl_error" if exc is not None else "impl_ok",
                      "base_error" if exc0 is not None else "base_ok"],
                signature="C13:" + key_of([text, sel]))


def remake(c):
    sel = None if c["sel"] is None else [tuple(x) for x in c["sel"]]
    ch = None if c["changed"] is None else tuple(c["changed"])
    return make_case([tuple(x) for x in c["secs"]], [tuple(x) for x in c["secs2"]], sel, ch)


def run(ctx, only=None):
    if only:
        cs = [remake(c) for c in only if c]
    else:
        rng = ctx["rng"]
        cs = [remake(c) for c in load_corpus("C13")]
        n = 160 if ctx["tier"] == "quick" else 5000
        while len(cs) < n:
            cs.append(make_case(*gen(rng)))
    return run_cases("C13", cs, IN_TYPE, PARSE_OUT, VERDICT, SPEC, shard_size=12)


def search(ctx, result):
    rng = ctx["rng"]
    cs = [make_case(*gen(rng)) for _ in range(700)]
    r = run_cases("C13s", cs, IN_TYPE, PARSE_OUT, VERDICT, SPEC, shard_size=12)
    return dict(viol=r["viol"], evaluations=r["evaluations"], note="re-sampled %d cases" % len(cs))


DIAG = """From CP Require Import Base.Prelude Base.Cfg Spec.RefRegex Spec.ChartSpec Gen.Src.
Eval vm_compute in map fst (filter (fun p => negb (snd p)) (chart_items cfg)).
"""
