"""Line-level generators and the implementation's line decoders (C07, C08, C09, C14)."""
from __future__ import annotations

import logging

from .common import *   # noqa: F401,F403

KINDS = ["KNote", "KSP", "KTev", "KBpm", "KTs", "KAnchor", "KText", "KSection", "KLyric"]
SECTION_KINDS = {"instr": ["KNote", "KSP", "KTev"], "sync": ["KBpm", "KTs", "KAnchor"], "events": ["KLyric", "KSection", "KText"]}


def classes():
    import chartparse.instrument as I
    import chartparse.sync as S
    import chartparse.globalevents as G
    return {"KNote": I.NoteEvent.ParsedData, "KSP": I.StarPowerEvent.ParsedData, "KTev": I.TrackEvent.ParsedData,
            "KBpm": S.BPMEvent.ParsedData, "KTs": S.TimeSignatureEvent.ParsedData, "KAnchor": S.AnchorEvent.ParsedData,
            "KText": G.TextEvent.ParsedData, "KSection": G.SectionEvent.ParsedData, "KLyric": G.LyricEvent.ParsedData}


def r_pdata(kind, d):
    if kind == "KNote":
        return "(PNote %s %s %s)" % (coq_Z(d.tick), coq_Z(d.note_track_index.value), coq_Z(d.sustain))
    if kind == "KSP":
        return "(PSP %s %s)" % (coq_Z(d.tick), coq_Z(d.sustain))
    if kind == "KTev":
        return "(PTev %s %s)" % (coq_Z(d.tick), coq_str(d.value))
    if kind == "KBpm":
        return "(PBpm %s %s)" % (coq_Z(d.tick), coq_str(d.raw_bpm))
    if kind == "KTs":
        return "(PTs %s %s %s)" % (coq_Z(d.tick), coq_Z(d.upper), coq_option(d.lower, coq_Z))
    if kind == "KAnchor":
        return "(PAnchor %s %s)" % (coq_Z(d.tick), coq_Z(d.microseconds))
    return "(PGlobal %s %s %s)" % (kind, coq_Z(d.tick), coq_str(d.value))


def dec_case(kind, line, tags=None, nontrivial=True):
    cls = classes()[kind]
    out = pyval.r_result(lambda: cls.from_chart_line(line), lambda d: r_pdata(kind, d))
    return dict(case=dict(kind=kind, line=line), in_term="(%s, %s)" % (kind, coq_str(line)), out_term=out,
                nontrivial=nontrivial, tags=(tags or []) + [kind, "accepted" if out.startswith("(Ok") else "rejected"],
                signature="dec:" + key_of([kind, line]))


DEC_IN, DEC_OUT = "dec_in", "dec_out"
DEC_VERDICT = "fun i o => dec_verdict cfg i o"
DEC_SPEC = "fun i o => dec_spec cfg i o"


class _Cap(logging.Handler):
    def __init__(self):
        super().__init__(level=logging.DEBUG)
        self.msgs = []

    def emit(self, record):
        self.msgs.append(record.getMessage())


def disp_case(order, report, lines, tags=None, nontrivial=True):
    import chartparse.track as T
    cl = classes()
    lg = logging.getLogger("chartparse.track")
    h = _Cap()
    saved = (lg.propagate, lg.level)
    lg.addHandler(h)
    lg.propagate = False
    lg.setLevel(logging.DEBUG)
    try:
        try:
            m = T.parse_data_from_chart_lines([cl[k] for k in order], list(lines))
            datas = coq_list(coq_list(r_pdata(k, d) for d in m[cl[k]]) for k in report)
            t1 = T._unparsable_line_msg_tmpl.split("{}")
            warns = []
            for msg in h.msgs:
                if len(t1) == 3 and msg.startswith(t1[0]) and t1[1] in msg[len(t1[0]):]:
                    body = msg[len(t1[0]):]
                    warns.append(coq_str(body[: body.rindex(t1[1])]))
                else:
                    warns.append(coq_str("?? " + msg))
            out = "(Ok (%s, %s))" % (datas, coq_list(warns))
        except Exception as e:  # noqa: BLE001
            out = "(Err %s)" % pyval.errkind(e)
    finally:
        lg.removeHandler(h)
        lg.propagate, lg.level = saved[0], saved[1]
    return dict(case=dict(order=order, report=report, lines=lines),
                in_term="(%s, %s, %s)" % (coq_list(order), coq_list(report), coq_list(coq_str(l) for l in lines)), out_term=out,
                nontrivial=nontrivial, tags=(tags or []) + ["order=" + "".join(k[1] for k in order)],
                signature="disp:" + key_of([order, lines]))


DISP_IN, DISP_OUT = "disp_in", "disp_out"
DISP_VERDICT = "fun i o => disp_verdict cfg i o"
DISP_SPEC = "fun i o => disp_spec cfg i o"

# ------------------------------------------------------------------------------------------------
# strings
# ------------------------------------------------------------------------------------------------
PADS = ["", " ", "  ", "\t", " \t ", " ", "　", "  "]
DIGIT_ZEROS = [0x30, 0x30, 0x30, 0x30, 0x660, 0xFF10, 0x966]


def digits(rng, n=None, big=False, exotic=True):
    if n is None:
        n = rng.choice([0, 1, 7, 10, 96, 192, 768, 2400, 99999999, 12345678901234567890 if big else 4800, rng.randint(0, 10 ** rng.randint(1, 12))])
    s = str(n)
    if rng.random() < 0.15:
        s = "0" * rng.randint(1, 3) + s
    if exotic and rng.random() < 0.1:
        z = rng.choice(DIGIT_ZEROS)
        s = "".join(chr(z + int(ch)) for ch in s)
    return s


def pad(rng, trailing=False):
    p = rng.choice(PADS)
    if trailing and rng.random() < 0.15:
        p += "\n"
    return p


WORD_CHARS = list("abcXYZ019_=\"[]{}-") + ["\t", "é", "歌", "́"]


def word(rng):
    k = rng.choice([0, 1, 3, 4, 8])
    return "".join(rng.choice(WORD_CHARS) for _ in range(k))


VALUE_CHARS = list("abc XYZ 019=[]{}\"'-") + ["\t", "é", "歌", "́", " "]


def value(rng, quotes=True):
    k = rng.choice([0, 1, 2, 5, 9, 16])
    s = "".join(rng.choice(VALUE_CHARS) for _ in range(k))
    if rng.random() < 0.25:
        s = rng.choice(["lyric ", "section ", "lyric", "section", "lyrics ", "sections ", "Lyric ", " lyric ", "lyric\t", "section-2"]) + s
    if not quotes:
        s = s.replace('"', "")
    if rng.random() < 0.1:
        s += rng.choice(['"', '" ', '"  "'])
        if not quotes:
            s = s.replace('"', "")
    return s


def canon_line(rng, kind):
    t = digits(rng)
    p1, p2 = pad(rng), pad(rng, True)
    if kind == "KNote":
        return "%s%s = N %d %s%s" % (p1, t, rng.randrange(8), digits(rng), p2)
    if kind == "KSP":
        return "%s%s = S 2 %s%s" % (p1, t, digits(rng), p2)
    if kind == "KTev":
        return "%s%s = E %s%s" % (p1, t, word(rng), p2)
    if kind == "KBpm":
        return "%s%s = B %s%s" % (p1, t, digits(rng), p2)
    if kind == "KTs":
        return "%s%s = TS %s%s%s" % (p1, t, digits(rng), (" " + digits(rng, rng.choice([0, 1, 2, 3, 4, 16, 63]))) if rng.random() < 0.6 else "", p2)
    if kind == "KAnchor":
        return "%s%s = A %s%s" % (p1, t, digits(rng, big=True), rng.choice(["", "", "", "\n", " "]))
    if kind == "KText":
        return '%s%s = E "%s"%s' % (p1, t, value(rng, quotes=rng.random() < 0.2), p2)
    if kind == "KSection":
        return '%s%s = E "section %s"%s' % (p1, t, value(rng), p2)
    if kind == "KLyric":
        return '%s%s = E "lyric %s"%s' % (p1, t, value(rng), p2)
    raise KeyError(kind)


NEAR_MISSES = [
    "0 = N 8 0", "0 = N 07 0", "0 = N 0", "0 = N  0 0", "0 = N 0  0", "0 =N 0 0", "0= N 0 0", "0 = n 0 0", "-1 = N 0 0", "0 = N 0 -1", "0 = N 0 0.5", "0 = N 0 0 0",
    "0\t=\tN\t3\t0", "768 =\nN 3 0", "0 = N 3 0", "x0 = N 0 0", "0 = N 0 0x", "",
    "0 = S 1 0", "0 = S 64 5", "0 = S 22 5", "0 = S 2", "0 = S  2 5", "0 = S 2  5", "0 = S 0 5", "0 = S 2 5 5", "0\t= S 2 5",
    "0 = E two words", "0 = E", "0 = E ", "0 = E  solo", "0 = Esolo", "0  = E solo", "0 = E solo x",
    "0 = B", "0 = B ", "0 = B -1", "0 = B 120.5", "0 = B 120000 0", "0 = B  120000", "0 = b 120000", "0 = BPM 120000",
    "0 = TS", "0 = TS 4 2 1", "0 = TS  4", "0 = TS 4  2", "0 = TS 4 ", "0 = TS 4 x", "0 = T 4", "0 = TS4",
    "0 = A", "0 = A 100 ", "0 = A 100\t", "0 = A  100", "0 = A -5", "0 = A 100 5", "0 = A 100\n\n",
    '0 = E "', '0 = E ""', '0 = E "a"b"', '0 = E "lyric', '0 = E lyric x"', '0 = E "section"', '0 = E "lyric"', '0 = E "section "', '0 = E "lyric "',
    '0 = E "a" x', '0 = E  "a"', '0 = E "a\nb"', '0 = E "lyric a\nb"', '0 = E "lyric a"b"', '0 = E "section a" "b"  ', '0 = E "lyric=la [x]"', '0 = E "section-2"',
    "Name = \"x\"", "[Song]", "{", "}", "  0 = E \"section Intro\"", "0 = N 5 0\r",
]


def mutate(rng, line):
    if not line:
        return "x"
    i = rng.randrange(len(line))
    op = rng.choice(["del", "dup", "sub", "ins"])
    if op == "del":
        return line[:i] + line[i + 1:]
    if op == "dup":
        return line[:i] + line[i] + line[i:]
    ch = rng.choice(list(" =NSETBA\"0123456789x\t"))
    if op == "sub":
        return line[:i] + ch + line[i + 1:]
    return line[:i] + ch + line[i:]
