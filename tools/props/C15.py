"""C15 — untrustworthy tempo data is rejected loudly, never turned into times."""
from __future__ import annotations

from .common import *   # noqa: F401,F403
from . import C11 as c11
from . import C01 as c01

LEAF = ['Leaf_tick', 'Leaf_query', 'Leaf_bpm', 'Leaf_dispatch', 'Leaf_tracks']      # translated functions this property's model relies on (Tie/<name>.v)
RULE = ("(a) a well-formed chart (1-6 tempos, several time signatures, global events and notes spread over the map) x ONE corruption of the sync data: drop / shift the tick-0 tempo, "
        "drop / shift the tick-0 time signature, duplicate or swap tempo ticks at every position, B 0 at every position incl. last (with nothing, with only a global event, only a time signature or only a note on or after it: rejected exactly when something written lies there), "
        "Resolution = 0, no tempo at all; judged: ValueError where the property demands it, and any returned chart has positive resolution, tempo and signature at tick 0 and no timed point "
        "(incl. sustain ends) governed by a zero tempo; (b) queries on maps whose last tempo is zero and at negative ticks, every hint: ValueError. "
        "Non-trivial: every corrupted chart; distinct by input")
ASSUMPTIONS = ["numerals are within the model's range (n <= 2^53); OverflowError before ValueError needs ticks beyond the float range and is excluded (C15_reject)"]

C_IN = "(option bool * %s)" % PARSE_IN
C_VERDICT = "fun i o => parse_verdict cfg (snd i) o"
C_SPEC = "fun i o => C15c_spec (fst i) o"
Q_IN, Q_OUT = "C11q_in", "C11q_out"
Q_VERDICT = "fun i o => C11q_verdict cfg i o"
Q_SPEC = "fun i o => C15q_spec cfg i o"


def base_chart(rng):
    if rng.random() < 0.25:
        # sub-microsecond ticks: a shifted first event may round to time 0 and must still be rejected
        R = rng.choice([1000000, 192])
        tm = [[0, rng.choice([1000000000, 700000000])]]
        return dict(R=R, tm=tm, tss=[[0, 4, None]], evs=[0, 1, 2], notes=[0, 1, 5], sus=[0, 0, 1])
    R = rng.choice([192, 480, 96])
    k = rng.choice([1, 2, 3, 4, 6])
    tm = []
    t = 0
    for _ in range(k):
        tm.append([t, rng.choice([120000, 60000, 90500, 240000, 1118])])
        t += rng.choice([R, 2 * R, 4 * R])
    end = t + 4 * R
    tss = [[0, 4, None]] + [[rng.randint(1, end), rng.randint(1, 7), rng.choice([None, 2, 3])] for _ in range(rng.randint(0, 2))]
    tss = [tss[0]] + sorted(tss[1:])
    evs = sorted(rng.randint(0, end) for _ in range(3))
    notes = sorted({rng.randint(0, end) for _ in range(rng.randint(1, 6))})
    return dict(R=R, tm=tm, tss=tss, evs=evs, notes=notes, sus=[rng.choice([0, 0, R, 3 * R]) for _ in notes])


def render(b):
    sync = ["%d = TS %d%s" % (t, u, "" if l is None else " %d" % l) for t, u, l in b["tss"]] + ["%d = B %d" % (t, n) for t, n in b["tm"]]
    events = ['%d = E "section s%d"' % (t, i) for i, t in enumerate(b["evs"])]
    body = ["%d = N %d %d" % (t, i % 5, s) for i, (t, s) in enumerate(zip(b["notes"], b["sus"]))]
    return chart_text(res=b["R"], sync=sync, events=events, tracks=[("ExpertSingle", body)])


def corrupt(rng, b):
    """Returns (corrupted description, expectation) with expectation in {'reject', 'accept', 'either'}."""
    import copy
    c = copy.deepcopy(b)
    kinds = ["res0", "drop_t0_tempo", "shift_t0_tempo", "drop_t0_ts", "shift_t0_ts", "no_tempo", "no_ts", "zero_tempo", "zero_last", "none"]
    if len(b["tm"]) >= 2:
        kinds += ["dup_tick", "swap_ticks", "dup_tick", "swap_ticks", "zero_tempo"]
    k = rng.choice(kinds)
    exp = "reject"
    if k == "res0":
        c["R"] = 0
    elif k == "resneg":
        c["R"] = "-5"        # not matched by \d+ : missing Resolution -> MissingRequiredField, not a C15 case
        exp = "other"
    elif k == "drop_t0_tempo":
        c["tm"] = c["tm"][1:]
    elif k == "shift_t0_tempo":
        c["tm"][0][0] = rng.choice([1, 5])
        if len(c["tm"]) > 1 and c["tm"][1][0] <= c["tm"][0][0]:
            c["tm"][0][0] = 1
    elif k == "drop_t0_ts":
        c["tss"] = c["tss"][1:]
    elif k == "shift_t0_ts":
        c["tss"][0][0] = rng.choice([1, 7])
        c["tss"] = sorted(c["tss"])
    elif k == "no_tempo":
        c["tm"] = []
    elif k == "no_ts":
        c["tss"] = []
    elif k == "dup_tick":
        i = rng.randrange(1, len(c["tm"]))
        c["tm"][i][0] = c["tm"][i - 1][0]
    elif k == "swap_ticks":
        i = rng.randrange(1, len(c["tm"]))
        c["tm"][i][0], c["tm"][i - 1][0] = c["tm"][i - 1][0], c["tm"][i][0]
        if i - 1 == 0:
            exp = "reject"
    elif k == "zero_tempo":
        i = rng.randrange(len(c["tm"]))
        c["tm"][i][1] = 0
        exp = "either" if i == len(c["tm"]) - 1 else "reject"
    elif k == "zero_last":
        c["tm"].append([c["tm"][-1][0] + rng.choice([1, c["R"]]), 0])
        if rng.random() < 0.5:
            # put events exactly on / after the zero tempo's tick, or keep everything before it
            zt = c["tm"][-1][0]
            if rng.random() < 0.5:
                c["notes"] = sorted(set([t for t in c["notes"] if t < zt] + [zt]))
                c["sus"] = [0] * len(c["notes"])
            else:
                keep = [(t, s) for t, s in zip(c["notes"], c["sus"]) if t + s < zt]
                c["notes"] = [t for t, _ in keep]
                c["sus"] = [s for _, s in keep]
                c["evs"] = [t for t in c["evs"] if t < zt]
                c["tss"] = [x for x in c["tss"] if x[0] < zt]
                # ... and then exactly ONE kind of thing on or after it: a global event, a time signature, or nothing
                only = rng.choice(["ev", "ts", "none", "none"])
                if only == "ev":
                    c["evs"] = sorted(c["evs"] + [zt + rng.choice([0, 1, 50])])
                elif only == "ts":
                    c["tss"] = c["tss"] + [[zt + rng.choice([0, 3]), 3, None]]
        # the zero tempo is the last one: the chart must be rejected exactly when something WRITTEN (a global event, a time signature, a
        # note's start or end) lies on or after its tick
        zt = c["tm"][-1][0]
        governed = (any(t >= zt for t in c["evs"]) or any(x[0] >= zt for x in c["tss"])
                    or any(t + s >= zt for t, s in zip(c["notes"], c["sus"])))
        exp = "reject" if governed else "accept"
    else:
        exp = "accept"
    return k, c, exp


def make_c(rng):
    b = base_chart(rng)
    k, c, exp = corrupt(rng, b)
    text = render(c)
    ch, exc, out = parse_case(text)
    aux = {"reject": "(Some true)", "accept": "(Some false)", "either": "None", "other": "None"}[exp]
    if exp == "other":
        # not a C15 corruption: only model = implementation is compared; spec vacuous -> use None but allow any error
        pass
    return dict(case=dict(kind="chart", corruption=k, expect=exp, text=text),
                in_term="(%s, %s)" % (aux, parse_in_term(text)), out_term=out, nontrivial=k != "none",
                tags=["corruption=" + k, "impl_error" if exc is not None else "impl_ok"], signature="C15c:" + key_of(text))


def remake_c(c):
    ch, exc, out = parse_case(c["text"])
    aux = {"reject": "(Some true)", "accept": "(Some false)"}.get(c.get("expect"), "None")
    return dict(case=c, in_term="(%s, %s)" % (aux, parse_in_term(c["text"])), out_term=out, nontrivial=True, tags=["replay"], signature="C15c:" + key_of(c["text"]))


def q_cases(ctx, n):
    rng = ctx["rng"]
    out = []
    while len(out) < n:
        R = rng.choice([192, 1, 480])
        k = rng.choice([1, 1, 2, 3, 5])
        tm = []
        t = 0
        for _ in range(k):
            tm.append((t, rng.choice([120000, 60000, 1118])))
            t += rng.choice([1, R, 4 * R])
        if rng.random() < 0.6:
            tm.append((t, 0))      # a zero tempo can only be the last one (and not at tick 0, where the time signature sits)
        ticks = sorted({-1, -5, 0, tm[-1][0] - 1, tm[-1][0], tm[-1][0] + 1, tm[-1][0] + 1000} | {x for x, _ in tm})
        c = c11.make_q(R, tm, ticks)
        c["signature"] = "C15q:" + key_of([R, tm, ticks])
        c["tags"] = ["q:zero_last" if tm[-1][1] == 0 else "q:positive", "q:segments=%d" % min(len(tm), 6)]
        c["nontrivial"] = True
        out.append(c)
    return out


def run(ctx, only=None):
    if only:
        cs = [remake_c(c) for c in only if c and c.get("kind") == "chart"]
        qs = [c11.make_q(c["R"], [tuple(x) for x in c["tm"]], c["ticks"]) for c in only if c and c.get("kind") == "query"]
    else:
        quick = ctx["tier"] == "quick"
        rng = ctx["rng"]
        cs = [remake_c(c) for c in load_corpus("C15") if c.get("kind") == "chart"]
        # the degenerate chart: the only tempo is zero
        cs.append(remake_c(dict(kind="chart", expect="either", text=chart_text(sync=["0 = TS 4", "0 = B 0"]))))
        cs.append(remake_c(dict(kind="chart", expect="either", text=chart_text(sync=["0 = TS 4", "0 = B 120000", "192 = B 0"], tracks=[("ExpertSingle", ["192 = N 0 0"])]))))
        while len(cs) < (220 if quick else 6000):
            cs.append(make_c(rng))
        qs = q_cases(ctx, 40 if quick else 1000)
    return merge([run_cases("C15c", cs, C_IN, PARSE_OUT, C_VERDICT, C_SPEC, shard_size=25),
                  run_cases("C15q", qs, Q_IN, Q_OUT, Q_VERDICT, Q_SPEC, shard_size=8)])


def search(ctx, result):
    rng = ctx["rng"]
    r = merge([run_cases("C15cs", [make_c(rng) for _ in range(900)], C_IN, PARSE_OUT, C_VERDICT, C_SPEC, shard_size=25),
               run_cases("C15qs", q_cases(ctx, 200), Q_IN, Q_OUT, Q_VERDICT, Q_SPEC, shard_size=8)])
    return dict(viol=r["viol"], evaluations=r["evaluations"], note="re-sampled %d cases" % r["evaluations"])
