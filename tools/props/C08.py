"""C08 — tempo, time-signature and anchor lines decode to exact values."""
from __future__ import annotations

from .common import *   # noqa: F401,F403
from . import linegen as lg

KS = ["KBpm", "KTs", "KAnchor"]
LEAF = ['Leaf_bpm', 'Leaf_timed', 'Leaf_dispatch', 'Leaf_tracks']      # translated functions this property's model relies on (Tie/<name>.v)
RULE = ("(a) line level: canonical B/TS/A lines (1-20 digit numbers, leading zeros, pads, non-ASCII decimal digits, trailing newline), canonical lines of the other kinds, near misses and "
        "one-character mutations, each given to BPMEvent/TimeSignatureEvent/AnchorEvent.ParsedData.from_chart_line and judged against the reference decoder; "
        "(b) chart level: [SyncTrack] sections with B n for n over 1..999 (every value once in thorough), stratified larger n incl. the pinned-tree witnesses 1118, 20548, up to 12 digits, "
        "leading zeros; TS u / TS u l for u in 0..99 and big, l in 0..16 and up to 63; A us up to 10^13; judged: bpm bit pattern = RN(n/1000) computed by one IEEE division inside Coq, "
        "upper/lower numerals, anchor microseconds; the [Song] section of these charts carries a zero / non-zero Offset and other metadata, which must not move anything. Non-trivial: all (b) cases with >= 3 distinct values, (a) cases accepted by some kind or near an accepted line; distinct by input")
ASSUMPTIONS = ["n < 2^52 for tempo numerals (the theorem's range; larger n are compared model-vs-implementation only when the model does not decline)"]

C_IN = "(C08_aux * %s)" % PARSE_IN
C_VERDICT = "fun i o => parse_verdict cfg (snd i) o"
C_SPEC = "fun i o => C08_spec (fst i) o"

WITNESS = [1118, 20548, 1, 7, 50, 99, 100, 999, 1000, 1001, 4100, 8201, 16402, 33554, 120000, 117000, 999999, 1000000000, 123456789012, 2 ** 52 - 1]


def chart_case(rng, bpms, tss, ans, song=None, layout=None, spell=None):
    """bpms: [(tick, n, raw)], tss: [(tick, u, l|None)], ans: [(tick, us)]"""
    sync = ["%d = TS %d%s" % (t, u, "" if l is None else " %d" % l) for t, u, l in tss]
    sync += ["%d = B %s" % (t, raw) for t, n, raw in bpms]
    sync += ["%d = A %d" % (t, us) for t, us in ans]
    if rng.random() < 0.5:
        # interleave kinds (each kind keeps its own order)
        by = {"TS": [l for l in sync if " = TS " in l], "B": [l for l in sync if " = B " in l], "A": [l for l in sync if " = A " in l]}
        sync = []
        while any(by.values()):
            k = rng.choice([k for k, v in by.items() if v])
            sync.append(by[k].pop(0))
    if spell is not None:
        import random as _random
        _r = _random.Random(spell)
        # numerals in other scripts, exotic leading white space (no trailing one: the anchor recogniser has none)
        sync = [(_r.choice(["", " ", "\u3000", "\t"]) + respell_digits(_r, l)) if _r.random() < 0.5 else l for l in sync]
    # a non-zero [Song] Offset (and other metadata) must not move anchors or tempo events
    song = rng.choice([None, None, ["Offset = 1"], ["Offset = 3", 'Name = "x"'], ["Offset = 0"], ["PreviewStart = 5", "Offset = 12"]]) if song is None else song
    text = laid_out(chart_text(res=rng.choice([192, 480, 1]), sync=sync, song=song), layout)
    ch, exc, out = parse_case(text)
    aux = "(true, %s, %s, %s)" % (coq_list("(%s, %s)" % (coq_Z(t), coq_Z(n)) for t, n, _ in bpms),
                                 coq_list("(%s, %s, %s)" % (coq_Z(t), coq_Z(u), coq_option(l, coq_Z)) for t, u, l in tss),
                                 coq_list("(%s, %s)" % (coq_Z(t), coq_Z(us)) for t, us in ans))
    return dict(case=dict(kind="chart", text=text, song=song or [], layout=layout, spell=spell, bpms=[list(x) for x in bpms], tss=[list(x) for x in tss], ans=[list(x) for x in ans]),
                in_term="(%s, %s)" % (aux, parse_in_term(text)), out_term=out,
                nontrivial=len({n for _, n, _ in bpms}) + len(tss) + len(ans) >= 3,
                tags=["chart", "impl_error" if exc is not None else "impl_ok"], signature="C08c:" + key_of(text))


def just_above_pow2(rng):
    """A tempo whose value n/1000 lies up to 2.5 % above a power of two (the spacing of doubles doubles there: the
    three-decimal validation and the decode are at their tightest)."""
    k = rng.randint(0, 23)
    return 1000 * 2 ** k + rng.randint(0, 25 * 2 ** k)


def gen_chart(rng, ns):
    bpms = []
    t = 0
    for n in ns:
        raw = str(n)
        if rng.random() < 0.1:
            raw = "0" * rng.randint(1, 3) + raw
        bpms.append((t, n, raw))
        t += rng.choice([1, 2, 10])      # short segments: huge tempos must not overflow anything
    tss = [(0, rng.choice([4, 0, 1, 99]), rng.choice([None, 0, 2]))]
    tt = 0
    for _ in range(rng.randint(0, 4)):
        tt += rng.randint(0, 5)
        tss.append((tt, rng.choice([0, 1, 3, 4, 7, 12, 99, 100000]), rng.choice([None, None, 0, 1, 2, 3, 4, 5, 16, 63])))
    ans = []
    ta = 0
    for _ in range(rng.randint(0, 3)):
        ta += rng.randint(0, 5)
        ans.append((ta, rng.choice([0, 1, 999999, 1000000, 86400 * 10 ** 6, 10 ** 13, rng.randint(0, 10 ** 9)])))
    return chart_case(rng, bpms, tss, ans, layout=pick_layout(rng), spell=rng.randrange(10 ** 9) if rng.random() < 0.25 else None)


def chart_cases(ctx, n):
    rng = ctx["rng"]
    out = []
    for c in load_corpus("C08"):
        if c.get("kind") == "chart":
            out.append(chart_case(rng, [tuple(x) for x in c["bpms"]], [tuple(x) for x in c["tss"]], [tuple(x) for x in c["ans"]], c.get("song", []), c.get("layout"), c.get("spell")))
    out.append(gen_chart(rng, WITNESS[:10]))
    out.append(gen_chart(rng, WITNESS[10:]))
    # TS exponents 0..16 explicitly
    out.append(chart_case(rng, [(0, 120000, "120000")], [(i, 5, i) for i in range(0, 17)] , []))
    small = list(range(1, 1000))
    rng.shuffle(small)
    per = 12
    k = 0
    while len(out) < n:
        if k * per < len(small) and (ctx["tier"] != "quick" or rng.random() < 0.5):
            ns = small[k * per:(k + 1) * per]
            k += 1
        else:
            ns = [rng.choice([rng.randint(1, 99), rng.randint(1, 2000), rng.randint(1, 10 ** 7), rng.randint(10 ** 6, 10 ** 7), rng.randint(1, 10 ** 12), rng.choice(WITNESS), just_above_pow2(rng)])
                  for _ in range(per)]
        out.append(gen_chart(rng, ns))
    return out


def line_cases(ctx, n):
    rng = ctx["rng"]
    lines = [(l, "near_miss") for l in lg.NEAR_MISSES]
    for c in load_corpus("C08"):
        if c.get("kind") in KS:
            lines.append((c["line"], "corpus"))
    while len(lines) < n // 3:
        k = rng.choice(KS + KS + lg.KINDS)
        l = lg.canon_line(rng, k)
        lines.append((l, "canonical"))
        if rng.random() < 0.5:
            lines.append((lg.mutate(rng, l), "mutation"))
    return [lg.dec_case(k, l, [tag]) for l, tag in lines for k in KS]


def run(ctx, only=None):
    if only:
        rng = ctx["rng"]
        cs = [chart_case(rng, [tuple(x) for x in c["bpms"]], [tuple(x) for x in c["tss"]], [tuple(x) for x in c["ans"]], c.get("song", []), c.get("layout"), c.get("spell")) for c in only if c and c.get("kind") == "chart"]
        ls = [lg.dec_case(c["kind"], c["line"]) for c in only if c and c.get("kind") in KS]
    else:
        quick = ctx["tier"] == "quick"
        cs = chart_cases(ctx, 70 if quick else 400)
        ls = line_cases(ctx, 1800 if quick else 40000)
    r1 = run_cases("C08l", ls, lg.DEC_IN, lg.DEC_OUT, lg.DEC_VERDICT, lg.DEC_SPEC, shard_size=400)
    r2 = run_cases("C08c", cs, C_IN, PARSE_OUT, C_VERDICT, C_SPEC, shard_size=10)
    return merge([r1, r2])


def search(ctx, result):
    cs = chart_cases(dict(ctx, tier="thorough"), 200)
    ls = [lg.dec_case(k, w, ["regex_diff_witness"]) for w in regex_witnesses() for k in KS] + line_cases(ctx, 9000)
    r = merge([run_cases("C08ls", ls, lg.DEC_IN, lg.DEC_OUT, lg.DEC_VERDICT, lg.DEC_SPEC, shard_size=400),
               run_cases("C08cs", cs, C_IN, PARSE_OUT, C_VERDICT, C_SPEC, shard_size=10)])
    return dict(viol=r["viol"], evaluations=r["evaluations"], note="re-sampled %d cases" % r["evaluations"])


DIAG = """From CP Require Import Base.Prelude Base.Cfg Spec.RefRegex Gen.Src.
Eval vm_compute in failing (sync_items cfg).
"""
