"""C11 — lookup hints are invisible; timestamps are never silently misplaced."""
from __future__ import annotations

from .common import *   # noqa: F401,F403

LEAF = ['Leaf_query', 'Leaf_bpm', 'Leaf_timed']      # translated functions this property's model relies on (Tie/<name>.v)
RULE = ("(a) tempo maps of 1-8 segments x ticks {0, every boundary, boundary +-1, far past the end, random, -1} x EVERY hint 0..len+1, "
        "observed through bpm_events.timestamp_at_tick(tick, start_iteration_index=h); non-trivial when the map has >= 2 segments; "
        "(b) whole charts whose sync / events / instrument sections carry the six hinted event kinds in sorted, one-swap, block-moved and random "
        "order with sustains crossing tempo changes, every stored (timestamp, index) compared with the implementation's own un-hinted query; "
        "non-trivial when >= 2 tempo segments are traversed by events; distinct by input")
ASSUMPTIONS = ["negative hints are outside the property (hints 0..len) and are not generated",
               "the un-hinted query used as reference in (b) is the implementation's own; (a) ties it to the model and to the governing index"]

Q_IN = "C11q_in"
Q_OUT = "C11q_out"
Q_VERDICT = "fun i o => C11q_verdict cfg i o"
Q_SPEC = "fun i o => C11q_spec i o"
C_IN = "((bool * list (Z * qres)) * %s)" % PARSE_IN
C_VERDICT = "fun i o => parse_verdict cfg (snd i) o"
C_SPEC = "fun i o => C11c_spec (fst i) o"

NS = [1, 999, 1000, 1001, 1118, 20548, 60000, 117000, 120000, 180500, 1000000, 10 ** 9]


def gen_tm(rng, maxseg=8):
    k = rng.choice([1, 2, 2, 3, 3, 4, 5, 6, maxseg])
    R = rng.choice([1, 2, 3, 7, 96, 100, 192, 192, 480, 960, rng.randint(1, 10 ** 6)])
    t = 0
    tm = []
    for i in range(k):
        n = rng.choice(NS + [rng.randint(1, 400000)])
        tm.append((t, n))
        t += rng.choice([1, 2, max(1, R // 3), R, 4 * R, 100000])
    return R, tm


def r_qres(thunk):
    return pyval.r_result(thunk, lambda v: "(%s, %s)" % (coq_Z(pyval.us(v[0])), coq_Z(v[1])))


def tm_term(R, tm):
    return "(%s, %s)" % (coq_Z(R), coq_list("(%s, %s)" % (coq_Z(t), coq_str(str(n))) for t, n in tm))


def make_q(R, tm, ticks):
    import io
    import chartparse.chart as chart_mod
    text = chart_text(res=R, sync=["0 = TS 4"] + tempo_lines(tm))
    qs = []
    for t in ticks:
        for h in range(0, len(tm) + 2):
            qs.append((t, h))
    try:
        ch = chart_mod.Chart.from_file(io.StringIO(text, newline=""))
        be = ch.sync_track.bpm_events
        outs = [r_qres(lambda t=t, h=h: be.timestamp_at_tick(t, start_iteration_index=h)) for t, h in qs]
        out = "(Ok %s)" % coq_list(outs)
    except Exception as e:  # noqa: BLE001
        out = "(Err %s)" % pyval.errkind(e)
    return dict(
        case=dict(kind="query", R=R, tm=[list(x) for x in tm], ticks=ticks),
        in_term="(%s, %s)" % (tm_term(R, tm), coq_list("(%s, %s)" % (coq_Z(t), coq_Z(h)) for t, h in qs)),
        out_term=out, nontrivial=len(tm) >= 2,
        tags=["q:segments=%d" % min(len(tm), 6)], signature="C11q:" + key_of([R, tm, ticks]))


def q_cases(ctx, n):
    rng = ctx["rng"]
    out = []
    fixed = [(192, [(0, 120000), (768, 90000), (1536, 60000), (2304, 200000), (3072, 100000), (3840, 150000)], [0, 767, 768, 3839, 3840, 9000, 100000]),
             (192, [(0, 120000), (384, 60000), (768, 240000)], [0, 383, 384, 500, 768, 5000, -1]),
             (100, [(0, 120000)], [0, 1, 100, -1, -5])]
    for R, tm, ticks in fixed:
        out.append(make_q(R, tm, ticks))
    while len(out) < n:
        R, tm = gen_tm(rng)
        ticks = {0, tm[-1][0] + rng.choice([1, 1000, 10 ** 6])}
        for t, _ in tm:
            ticks.update([t - 1, t, t + 1])
        ticks = sorted(x for x in ticks if x >= -1)
        if len(ticks) > 8:
            ticks = sorted(rng.sample(ticks, 8) + [0])
        ticks = sorted(set(ticks + [rng.randint(0, tm[-1][0] + 50)]))
        out.append(make_q(R, tm, ticks))
    return out


def disorder(rng, items, mode):
    items = list(items)
    if mode == "sorted" or len(items) < 2:
        return items
    if mode == "swap":
        i = rng.randrange(len(items) - 1)
        j = rng.randrange(i + 1, len(items))
        items[i], items[j] = items[j], items[i]
    elif mode == "block":
        i = rng.randrange(len(items))
        j = rng.randrange(i, len(items)) + 1
        blk = items[i:j]
        rest = items[:i] + items[j:]
        k = rng.randrange(len(rest) + 1)
        items = rest[:k] + blk + rest[k:]
    else:
        rng.shuffle(items)
    return items


def make_c(R, tm, mode, rng):
    import io
    import chartparse.chart as chart_mod
    end = tm[-1][0] + 4 * R + 10
    def ticks(k):
        c = sorted(rng.randint(0, end) for _ in range(k))
        if rng.random() < 0.5 and len(tm) > 1:
            c = sorted(c + [rng.choice(tm)[0]])
        return c
    ts_lines = ["0 = TS 4"] + ["%d = TS %d %d" % (t, rng.randint(1, 9), rng.randint(0, 4)) for t in ticks(rng.randint(0, 3)) if t > 0]
    sync = disorder(rng, ts_lines[1:], mode)
    sync = [ts_lines[0]] + sync + tempo_lines(tm)
    ev = ['%d = E "section s%d"' % (t, i) for i, t in enumerate(ticks(rng.randint(0, 3)))]
    ev += ['%d = E "lyric l%d"' % (t, i) for i, t in enumerate(ticks(rng.randint(0, 3)))]
    ev += ['%d = E "txt%d"' % (t, i) for i, t in enumerate(ticks(rng.randint(0, 3)))]
    events = disorder(rng, ev, mode if rng.random() < 0.7 else "sorted")
    nticks = sorted(set(ticks(rng.randint(1, 8))))
    notes = []
    for i, t in enumerate(nticks):
        sus = rng.choice([0, 0, R // 2, R * 3, tm[-1][0] + 5])
        notes.append("%d = N %d %d" % (t, rng.randrange(5), sus))
        if rng.random() < 0.3:
            notes.append("%d = N %d %d" % (t, rng.randrange(5), rng.choice([0, sus, R])))
    sp = ["%d = S 2 %d" % (t, rng.choice([0, R, 10 * R])) for t in ticks(rng.randint(0, 3))]
    te = ["%d = E solo%d" % (t, i) for i, t in enumerate(ticks(rng.randint(0, 2)))]
    tr_mode = mode if rng.random() < 0.7 else "sorted"
    body = disorder(rng, notes, tr_mode) if rng.random() < 0.5 else notes
    body = body + disorder(rng, sp, tr_mode) + disorder(rng, te, tr_mode)
    if rng.random() < 0.3:
        rng.shuffle(body) if tr_mode == "random" else None
    text = chart_text(res=R, sync=sync, events=events, tracks=[("ExpertSingle", body)])
    ch, exc, out = parse_case(text)
    aux = []
    crossed = 0
    if ch is not None:
        be = ch.sync_track.bpm_events
        tks = set()
        for seq in ([be.events, ch.sync_track.time_signature_events, ch.global_events_track.text_events,
                     ch.global_events_track.section_events, ch.global_events_track.lyric_events]
                    + [x for inner in ch.instrument_tracks.values() for tr in inner.values() for x in (tr.note_events, tr.star_power_events, tr.track_events)]):
            for e in seq:
                tks.add(e.tick)
                if hasattr(e, "end_tick"):
                    try:
                        tks.add(e.end_tick)
                    except Exception:  # noqa: BLE001
                        pass
        for t in sorted(tks):
            aux.append("(%s, %s)" % (coq_Z(t), r_qres(lambda t=t: be.timestamp_at_tick(t))))
        crossed = len({e._proximal_bpm_event_index for inner in ch.instrument_tracks.values() for tr in inner.values() for e in tr.note_events})
    is_sorted = mode == "sorted"
    return dict(
        case=dict(kind="chart", mode=mode, text=text),
        in_term="((%s, %s), %s)" % (coq_bool(is_sorted), coq_list(aux), parse_in_term(text)),
        out_term=out, nontrivial=len(tm) >= 2 and (crossed >= 2 or exc is not None),
        tags=["c:order=" + mode, "c:impl_error" if exc is not None else "c:impl_ok"], signature="C11c:" + key_of(text))


def c_cases(ctx, n):
    rng = ctx["rng"]
    out = []
    for c in load_corpus("C11"):
        if c.get("kind") == "chart":
            out.append(remake_c(c["text"], c.get("mode", "random")))
    while len(out) < n:
        R, tm = gen_tm(rng, 6)
        R = rng.choice([96, 192, 192, 480, R])
        mode = rng.choice(["sorted", "sorted", "swap", "block", "random"])
        out.append(make_c(R, tm, mode, rng))
    return out


def remake_c(text, mode):
    """Rebuild a chart case from its text (replay / corpus)."""
    import io
    ch, exc, out = parse_case(text)
    aux = []
    if ch is not None:
        be = ch.sync_track.bpm_events
        tks = set()
        for seq in ([be.events, ch.sync_track.time_signature_events, ch.global_events_track.text_events,
                     ch.global_events_track.section_events, ch.global_events_track.lyric_events]
                    + [x for inner in ch.instrument_tracks.values() for tr in inner.values() for x in (tr.note_events, tr.star_power_events, tr.track_events)]):
            for e in seq:
                tks.add(e.tick)
                if hasattr(e, "end_tick"):
                    tks.add(e.end_tick)
        for t in sorted(tks):
            aux.append("(%s, %s)" % (coq_Z(t), r_qres(lambda t=t: be.timestamp_at_tick(t))))
    return dict(case=dict(kind="chart", mode=mode, text=text),
                in_term="((%s, %s), %s)" % (coq_bool(mode == "sorted"), coq_list(aux), parse_in_term(text)),
                out_term=out, nontrivial=True, tags=["c:replay"], signature="C11c:" + key_of(text))


def run(ctx, only=None):
    if only:
        qs = [make_q(c["R"], [tuple(x) for x in c["tm"]], c["ticks"]) for c in only if c and c.get("kind") == "query"]
        cs = [remake_c(c["text"], c.get("mode", "random")) for c in only if c and c.get("kind") == "chart"]
    else:
        quick = ctx["tier"] == "quick"
        qs = q_cases(ctx, 60 if quick else 1500)
        cs = c_cases(ctx, 120 if quick else 3000)
    r1 = run_cases("C11q", qs, Q_IN, Q_OUT, Q_VERDICT, Q_SPEC, shard_size=8)
    r2 = run_cases("C11c", cs, C_IN, PARSE_OUT, C_VERDICT, C_SPEC, shard_size=20)
    return merge([r1, r2])


def search(ctx, result):
    qs = q_cases(ctx, 300)
    cs = c_cases(ctx, 600)
    r = merge([run_cases("C11qs", qs, Q_IN, Q_OUT, Q_VERDICT, Q_SPEC, shard_size=8),
               run_cases("C11cs", cs, C_IN, PARSE_OUT, C_VERDICT, C_SPEC, shard_size=20)])
    return dict(viol=r["viol"], evaluations=r["evaluations"], note="re-sampled %d cases" % r["evaluations"])
