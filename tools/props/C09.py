"""C09 — global events are classified lyric / section / text with verbatim values."""
from __future__ import annotations

from .common import *   # noqa: F401,F403
from . import linegen as lg

KS = ["KLyric", "KSection", "KText"]
LEAF = ['Leaf_timed', 'Leaf_dispatch', 'Leaf_tracks', 'Leaf_chart', 'Leaf_fromfile', 'Leaf_meta']      # translated functions this property's model relies on (Tie/<name>.v)
RULE = ("(a) [Events] sections of 1-30 quoted-event lines in random order of kinds and ticks (ascending, pasted-block and descending tick orders), values over an alphabet of quotes, blanks, tabs, "
        "'=', brackets, braces, CJK and combining characters, the words lyric/section with and without the trailing blank, empty values, values ending in a quote plus blanks; parsed through "
        "Chart.from_file and judged: each line lands in exactly the expected one of the three lists, with its tick and verbatim value, in file order; "
        "(b) every generated line given to the three ParsedData.from_chart_line recognisers, judged against the reference decoder; (c) the dispatcher called directly with the three kinds in the "
        "shipped order. Non-trivial: a section mixing >= 2 kinds or a value containing a quote / the words lyric|section; distinct by input")
ASSUMPTIONS = ["a single constant tempo is used so that out-of-order ticks never trip the tempo-lookup hint (that interaction is C11's subject)"]

C_IN = "(C09_aux * %s)" % PARSE_IN
C_VERDICT = "fun i o => parse_verdict cfg (snd i) o"
C_SPEC = "fun i o => C09_spec (fst i) o"


def expected_kind(v):
    if v.startswith("lyric "):
        return "KLyric", v[6:]
    if v.startswith("section "):
        return "KSection", v[8:]
    if '"' not in v:
        return "KText", v
    return None, None


def gen_events(rng):
    n = rng.choice([1, 2, 4, 8, 15, 30])
    mode = rng.choice(["asc", "asc", "block", "desc", "same"])
    ticks = sorted(rng.randint(0, 5000) for _ in range(n))
    if mode == "desc":
        ticks.reverse()
    elif mode == "block" and n >= 4:
        i = rng.randrange(1, n - 1)
        ticks = ticks[i:] + ticks[:i]
    elif mode == "same":
        ticks = [ticks[0]] * n
    items = []
    for t in ticks:
        kind = rng.choice(KS)
        if kind == "KLyric":
            v = "lyric " + lg.value(rng)
        elif kind == "KSection":
            v = "section " + lg.value(rng)
        else:
            v = lg.value(rng, quotes=False)
        v = v.replace("\n", "")
        if rng.random() < 0.2:
            # a key word of ANOTHER kind inside the value, behind an inner quote: only the START of the text decides the kind
            v = v + rng.choice([' "lyric video" cut', ' ("section 2")', ' "lyric ', ' "section ', ' the "section 2', '"lyric x'])
        items.append((t, v))
    return items


def chart_case(items):
    lines = ['%d = E "%s"' % (t, v) for t, v in items]
    text = chart_text(events=lines)
    ch, exc, out = parse_case(text)
    exp = {"KText": [], "KSection": [], "KLyric": []}
    wf = True
    for t, v in items:
        k, val = expected_kind(v)
        if k is None:
            wf = False
            continue
        exp[k].append((t, val))
    aux = "(%s, %s, %s, %s)" % (coq_bool(wf), *[coq_list("(%s, %s)" % (coq_Z(t), coq_str(v)) for t, v in exp[k]) for k in ("KText", "KSection", "KLyric")])
    kinds = {expected_kind(v)[0] for _, v in items}
    return dict(case=dict(kind="chart", items=[list(x) for x in items], text=text),
                in_term="(%s, %s)" % (aux, parse_in_term(text)), out_term=out,
                nontrivial=len(kinds) >= 2 or any('"' in v or "lyric" in v or "section" in v for _, v in items),
                tags=["chart", "kinds=%d" % len(kinds), "impl_error" if exc is not None else "impl_ok"], signature="C09c:" + key_of(text))


FIXED = [
    [(0, "section"), (1, "lyric"), (2, "section-2"), (3, "lyric=la [x]"), (4, "lyrics"), (5, "section_end"), (6, "lyric la"), (7, "section Intro"), (8, ""), (9, "lyric "), (10, "section "), (11, "two words")],
    [(100, "section A"), (50, "section B"), (75, "lyric x"), (10, "lyric y"), (60, "t1"), (5, "t2")],
    [(5, 'lyric la "la" la'), (5, 'section a"b'), (5, "lyric x\"  "), (6, "text = [ok] {x}")],
]


def chart_cases(ctx, n):
    rng = ctx["rng"]
    out = [chart_case(f) for f in FIXED]
    for c in load_corpus("C09"):
        if c.get("kind") == "chart":
            out.append(chart_case([tuple(x) for x in c["items"]]))
    while len(out) < n:
        out.append(chart_case(gen_events(rng)))
    return out


def line_cases(ctx, n):
    rng = ctx["rng"]
    lines = [(l, "near_miss") for l in lg.NEAR_MISSES]
    while len(lines) < n // 3:
        k = rng.choice(KS + KS + lg.KINDS)
        l = lg.canon_line(rng, k)
        lines.append((l, "canonical"))
        if rng.random() < 0.4:
            lines.append((lg.mutate(rng, l), "mutation"))
    return [lg.dec_case(k, l, [tag]) for l, tag in lines for k in KS]


def disp_cases(ctx, n):
    rng = ctx["rng"]
    out = []
    while len(out) < n:
        lines = [lg.canon_line(rng, rng.choice(KS + ["KTev"])) if rng.random() < 0.9 else rng.choice(lg.NEAR_MISSES) for _ in range(rng.randint(1, 12))]
        out.append(lg.disp_case(KS, KS, lines))
    return out


def run(ctx, only=None):
    if only:
        cs = [chart_case([tuple(x) for x in c["items"]]) for c in only if c and c.get("kind") == "chart"]
        ls = [lg.dec_case(c["kind"], c["line"]) for c in only if c and c.get("kind") in KS]
        ds = [lg.disp_case(c["order"], c["report"], c["lines"]) for c in only if c and "order" in c]
    else:
        quick = ctx["tier"] == "quick"
        cs = chart_cases(ctx, 150 if quick else 4000)
        ls = line_cases(ctx, 1500 if quick else 40000)
        ds = disp_cases(ctx, 60 if quick else 2000)
    return merge([run_cases("C09c", cs, C_IN, PARSE_OUT, C_VERDICT, C_SPEC, shard_size=25),
                  run_cases("C09l", ls, lg.DEC_IN, lg.DEC_OUT, lg.DEC_VERDICT, lg.DEC_SPEC, shard_size=400),
                  run_cases("C09d", ds, lg.DISP_IN, lg.DISP_OUT, lg.DISP_VERDICT, lg.DISP_SPEC, shard_size=60)])


def search(ctx, result):
    r = merge([run_cases("C09cs", chart_cases(ctx, 800), C_IN, PARSE_OUT, C_VERDICT, C_SPEC, shard_size=25),
               run_cases("C09ls", [lg.dec_case(k, w, ["regex_diff_witness"]) for w in regex_witnesses() for k in KS] + line_cases(ctx, 9000), lg.DEC_IN, lg.DEC_OUT, lg.DEC_VERDICT, lg.DEC_SPEC, shard_size=400)])
    return dict(viol=r["viol"], evaluations=r["evaluations"], note="re-sampled %d cases" % r["evaluations"])


DIAG = """From CP Require Import Base.Prelude Base.Cfg Spec.RefRegex Gen.Src.
Eval vm_compute in failing (events_items cfg).
"""
