"""C20 — every module is importable first; import order does not matter."""
from __future__ import annotations

import itertools
from concurrent.futures import ThreadPoolExecutor

from .common import *   # noqa: F401,F403
import c20_impl

RULE = ("fresh interpreters (one subprocess per sequence): all 13 first-imports (the package and its 12 modules), all 156 ordered pairs (quick: a seeded sample of 60), random permutations of all "
        "13 and random shorter sequences with repetitions; each dumps success / exception class and, per loaded module, the public names with an identity label (smallest 'module.name' bound to "
        "the same object) and, for names bound to plain data (tuples, dicts, strings, numbers, with package classes, enum members and package-class instances inside named by qualified name), a digest of the value; judged (a) against the model's prediction run on the import programs regenerated from the source and (b) on the implementation alone: every import succeeds and every "
        "loaded module shows exactly the names, identities and data values it shows when the same set of modules is imported in sorted order. Non-trivial: sequences of >= 2 modules or a first import of a module that takes part in the "
        "track/instrument/sync/globalevents cycle; distinct by sequence")
ASSUMPTIONS = ["the abstract import protocol of Model/Imports.v is CPython's (validated by this correspondence; the theorem is about the model)",
               "import-time calls do not reach import-sensitive code through objects passed under other names (tools/extract_imports.py fails closed on the cases it can see)"]

IN_TYPE = "((list (modname * list (name * String.string)) * list (modname * list (name * String.string))) * list modname)"
OUT_TYPE = "C20_obs"
EXTRA = "From CP Require Import Harness.H Model.Imports Gen.Imports.\nFrom Coq Require String.\nImport String.StringSyntax.\nOpen Scope string_scope.\n"
VERDICT = "fun i o => C20_verdict_N import_progs (snd i) o"
SPEC = "fun i o => C20_spec (fst i) (snd i) o"

MODS = ["chartparse", "chartparse.chart", "chartparse.event", "chartparse.exceptions", "chartparse.globalevents", "chartparse.hints", "chartparse.instrument",
        "chartparse.metadata", "chartparse.sync", "chartparse.tick", "chartparse.time", "chartparse.track", "chartparse.util"]
CYCLE = {"chartparse.track", "chartparse.instrument", "chartparse.sync", "chartparse.globalevents", "chartparse.chart"}


def cs(s):
    return '"%s"%%string' % s.replace('"', '""')


def obs_term(obs):
    mods = coq_list("(%s, %s)" % (cs(m), coq_list("(%s, %s)" % (cs(n), cs(l)) for n, l in sorted(names.items()))) for m, names in sorted(obs.get("modules", {}).items()))
    alln = coq_list("(%s, %s)" % (cs(m), coq_list(cs(n) for n in sorted(names))) for m, names in sorted(obs.get("all_public", {}).items()))
    return "(%s, %s, %s, %s)" % (coq_bool(bool(obs.get("ok"))), mods, alln, vals_term(obs))


def vals_term(o):
    return coq_list("(%s, %s)" % (cs(m), coq_list("(%s, %s)" % (cs(n), cs(l)) for n, l in sorted(names.items()))) for m, names in sorted(o.get("values", {}).items()))


def observe_all(seqs):
    with ThreadPoolExecutor(max_workers=12) as ex:
        return list(ex.map(c20_impl.observe, seqs))


def mods_term(o):
    return coq_list("(%s, %s)" % (cs(m), coq_list("(%s, %s)" % (cs(n), cs(l)) for n, l in sorted(names.items()))) for m, names in sorted(o.get("modules", {}).items()))


def build_cases(seqs):
    """Each sequence is observed in a fresh interpreter; the baseline it is judged against is the observation
    of importing the SAME set of loaded modules in sorted order (one more fresh interpreter per distinct set)."""
    obs = observe_all(seqs)
    keys = sorted({tuple(sorted(o.get("loaded", []))) for o in obs if o.get("ok")})
    base = dict(zip(keys, observe_all([list(k) for k in keys])))
    out = []
    for seq, o in zip(seqs, obs):
        b = base.get(tuple(sorted(o.get("loaded", [])))) if o.get("ok") else None
        bterm = "(%s, %s)" % (mods_term(b), vals_term(b)) if b is not None and b.get("ok") else "([], [])"
        out.append(dict(case=dict(seq=seq), in_term="(%s, %s)" % (bterm, coq_list(cs(m) for m in seq)), out_term=obs_term(o),
                        nontrivial=len(seq) >= 2 or (len(seq) == 1 and seq[0] in CYCLE),
                        tags=["len=%d" % min(len(seq), 13), "ok" if o.get("ok") else "exc=%s" % o.get("exc")],
                        signature="C20:" + " ".join(seq), detail=None if o.get("ok") else o.get("msg")))
    return out


def sequences(ctx):
    rng = ctx["rng"]
    seqs = [[m] for m in MODS]
    pairs = [[a, b] for a in MODS for b in MODS if a != b]
    if ctx["tier"] == "quick":
        rng.shuffle(pairs)
        pairs = pairs[:60]
    seqs += pairs
    for _ in range(10 if ctx["tier"] == "quick" else 400):
        p = MODS[:]
        rng.shuffle(p)
        seqs.append(p)
    for _ in range(10 if ctx["tier"] == "quick" else 200):
        seqs.append([rng.choice(MODS) for _ in range(rng.randint(2, 6))])
    for c in load_corpus("C20"):
        seqs.append(c["seq"])
    return seqs


def run(ctx, only=None):
    seqs = [c["seq"] for c in only if c] if only else sequences(ctx)
    return run_cases("C20", build_cases(seqs), IN_TYPE, OUT_TYPE, VERDICT, SPEC, extra_imports=EXTRA, shard_size=30)


def search(ctx, result):
    seqs = [[m] for m in MODS] + [[a, b] for a in MODS for b in MODS if a != b]
    r = run_cases("C20s", build_cases(seqs), IN_TYPE, OUT_TYPE, VERDICT, SPEC, extra_imports=EXTRA, shard_size=30)
    return dict(viol=r["viol"], evaluations=r["evaluations"], note="all first imports and ordered pairs")
