"""C04 — strum / HOPO / tap state follows the natural-HOPO rule and flags."""
from __future__ import annotations

from .common import *   # noqa: F401,F403
from . import instr_gen as ig

LEAF = ['Leaf_tick', 'Leaf_special', 'Leaf_hopo', 'Leaf_note', 'Leaf_build', 'Leaf_dispatch', 'Leaf_tracks', 'Leaf_chart', 'Leaf_fromfile', 'Leaf_meta']      # translated functions this property's model relies on (Tie/<name>.v)
RULE = ("tracks of 2-12 note groups through Chart.from_file at resolutions {1,2,3,4,5,100,191,192,193,200,480,500,1000,random}: ordered pairs drawn from all 32 lane combinations "
        "(open included) x distances {thr-1, thr, thr+1, 1, 10*thr} (thr = resolution/3 to the nearest tick) x (tap, forced) in {0,1}^2 at every position; judged against the decision table "
        "spec_hopo; the section is [ExpertSingle] or any of the 40 instrument sections (drums included); lane lines are occasionally written twice in a tick. Non-trivial: some consecutive pair is at distance thr-1..thr+1 or carries a flag; distinct by text")
ASSUMPTIONS = ["a forced FIRST note is the documented rejection (ValueError) and is generated only in the malformed stream"]
IN_TYPE = "((bool * Z * list (bool * bool)) * %s)" % PARSE_IN
VERDICT = "fun i o => parse_verdict cfg (snd i) o"
SPEC = "fun i o => C04_spec (fst i) o"

RES = [1, 2, 3, 4, 5, 100, 191, 192, 193, 200, 480, 500, 1000]


def make_case(R, groups, wf=True, header="ExpertSingle", layout=None, spell=None):
    lines = ["%d = N %d %d" % (g["tick"], i, l) for g in groups for i, l in g["lines"]]
    if spell is not None:
        import random as _random
        _r = _random.Random(spell)
        lines = [(ig.exotic_line(_r, l) if _r.random() < 0.6 else ig.zero_pad(_r, l)) if _r.random() < 0.5 else l for l in lines]
    text = laid_out(chart_text(res=R, tracks=[(header, lines)]), layout)
    ch, exc, out = parse_case(text)
    th = ig.thr(R)
    ticks = [g["tick"] for g in groups]
    near = any(th - 1 <= b - a <= th + 1 for a, b in zip(ticks, ticks[1:]))
    flags = any(g["tap"] or g["forced"] for g in groups)
    return dict(case=dict(R=R, groups=groups, wf=wf, text=text, header=header, layout=layout, spell=spell),
                in_term="((%s, %s, %s), %s)" % (coq_bool(wf), coq_Z(R), coq_list("(%s, %s)" % (coq_bool(g["tap"]), coq_bool(g["forced"])) for g in groups), parse_in_term(text)),
                out_term=out, nontrivial=near or flags,
                tags=["R%%3=%d" % (R % 3), "near_threshold" if near else "far", "flags" if flags else "noflags", "impl_error" if exc is not None else "impl_ok"],
                signature="C04:" + key_of(text))


def note_lines(rng, m):
    """m in 0..31: lane mask, 0 = open.  Sustains (also different per lane) must not influence the decision."""
    sus = rng.choice([0, 0, 0, 48, 144, 1000])
    if m == 0:
        return [(7, sus)]
    lines = [(i, sus + (7 * i if rng.random() < 0.2 and sus else 0)) for i in range(5) if (m >> i) & 1]
    if rng.random() < 0.12:
        # a lane line written twice in its tick: the note is still the same set of lanes
        for _ in range(rng.choice([1, 1, 2])):
            lines.insert(rng.randint(0, len(lines)), rng.choice(lines))
    return lines


def gen(rng, R):
    th = ig.thr(R)
    n = rng.choice([2, 3, 5, 8, 12])
    t = rng.choice([0, 7])
    groups = []
    prev_m = None
    for gi in range(n):
        if gi > 0:
            d = rng.choice([th - 1, th, th, th + 1, 1, 10 * th, th])
            t += max(1, d)
        m = rng.randrange(32)
        if prev_m is not None and rng.random() < 0.2:
            m = prev_m
        prev_m = m
        lines = note_lines(rng, m)
        tap = rng.random() < 0.25
        forced = gi > 0 and rng.random() < 0.45
        if forced:
            # (a flag line may be written more than once in its tick: the note is forced all the same)
            for _ in range(rng.choice([1, 1, 1, 2, 3])):
                lines.insert(rng.randint(0, len(lines)), (5, 0))
        if tap:
            for _ in range(rng.choice([1, 1, 1, 2])):
                lines.insert(rng.randint(0, len(lines)), (6, 0))
        groups.append(dict(tick=t, lines=lines, tap=tap, forced=forced))
    return groups


def cases(ctx, n):
    rng = ctx["rng"]
    out = []
    for c in load_corpus("C04"):
        out.append(make_case(c["R"], c["groups"], c.get("wf", True), c.get("header", "ExpertSingle"), c.get("layout"), c.get("spell")))
    # forced first note: documented rejection (malformed stream, model = implementation only)
    out.append(make_case(192, [dict(tick=0, lines=[(0, 0), (5, 0)], tap=False, forced=True), dict(tick=10, lines=[(1, 0)], tap=False, forced=False)], wf=False))
    for R in RES:
        out.append(make_case(R, gen(rng, R)))
    while len(out) < n:
        R = rng.choice(RES + [rng.randint(1, 5000)])
        out.append(make_case(R, gen(rng, R), header=pick_header(rng, 0.6), layout=pick_layout(rng), spell=rng.randrange(10 ** 9) if rng.random() < 0.25 else None))
    return out


def run(ctx, only=None):
    if only:
        cs = [make_case(c["R"], c["groups"], c.get("wf", True), c.get("header", "ExpertSingle"), c.get("layout"), c.get("spell")) for c in only if c]
    else:
        cs = cases(ctx, 260 if ctx["tier"] == "quick" else 8000)
    return run_cases("C04", cs, IN_TYPE, PARSE_OUT, VERDICT, SPEC, shard_size=30)


def search(ctx, result):
    cs = cases(ctx, 1500)
    r = run_cases("C04s", cs, IN_TYPE, PARSE_OUT, VERDICT, SPEC, shard_size=30)
    return dict(viol=r["viol"], evaluations=r["evaluations"], note="re-sampled %d cases" % len(cs))
