"""C17 — parsing is a pure function of the text, free of history and schedule."""
from __future__ import annotations

import json
import subprocess
import sys
import threading
from concurrent.futures import ThreadPoolExecutor

from .common import *   # noqa: F401,F403
from . import instr_gen as ig

LEAF = ['Leaf_chart', 'Leaf_fromfile', 'Leaf_meta', 'Leaf_dispatch', 'Leaf_tracks', 'Leaf_build']      # translated functions this property's model relies on (Tie/<name>.v)
RULE = ("[cold start] fresh interpreters whose very first parses run on 8 threads at once (barrier, 1 us switch interval) on a chart with 300 (thorough: 1000) star-power phrases, "
        "every distinct result and a later sequential parse in the same process judged against the fresh sequential parse; " + "a corpus of 30-40 chart texts (thorough: 250): valid charts sharing and not sharing resolutions / sustain tuples (so the memo tables hit across charts), a chart with > 128 distinct "
        "sustain tuples (forces lru eviction), charts with many plain text events vs. charts with sections and lyrics, charts stating many optional [Song] fields vs. charts stating none, and "
        "charts of every failure class (missing section, bad header, MissingRequiredField, bad Player2 after other fields, forced first note, zero tempo, unordered tempo); "
        "(i) each text is parsed in a FRESH interpreter (one subprocess each); (ii) the texts are parsed in this process in random orders with repetitions (2-3 passes), failing texts "
        "interleaved, followed by 700 (thorough: 7000) further round-robin parses with nothing kept alive (only results whose rendering differs from the fresh one, and one per text, go to Coq); (iii) 8 threads parse texts concurrently (switch interval 1 us, barrier start); every in-process / threaded result is compared inside Coq with the fresh-interpreter "
        "result of the same text and with the model; a chart parsed again from the same text must also be == (both ways) to the first one, which has meanwhile been looked at (derived attributes, a rate query, str/repr). Non-trivial: every in-process parse that is preceded by at least one parse of a different text; distinct by (text, position in history)")
ASSUMPTIONS = ["thread pre-emption inside the interpreter and fresh-interpreter equality cannot be exhibited by a Gallina model; they are exercised by this correspondence only (the theorems cover "
               "all histories and all interleavings at memoised-call granularity, with arbitrary eviction)"]

IN_TYPE = "(parse_out * %s)" % PARSE_IN
VERDICT = "fun i o => parse_verdict cfg (snd i) o"
SPEC = "fun i o => parse_eqb (fst i) o"


REPO = os.environ.get("CHARTPARSE_REPO", "/repo")


def fresh(texts):
    def one(itw):
        idx, (text, want) = itw
        # every fresh interpreter gets its own string-hash seed: the observation must not depend on it
        p = subprocess.run([sys.executable, os.path.join(VERIF, "tools", "fresh_parse.py")], input=json.dumps(dict(text=text, want=want)),
                           capture_output=True, text=True, cwd=REPO, env=dict(os.environ, PYTHONPATH=REPO, PYTHONHASHSEED=str(1 + idx % 7)), timeout=300)
        if p.returncode != 0:
            return "(Err EOther)"
        return p.stdout
    with ThreadPoolExecutor(max_workers=12) as ex:
        return list(ex.map(one, enumerate(texts)))


def corpus(rng, n):
    texts = []
    # failure classes
    ok_sync = ["0 = TS 4", "0 = B 120000"]
    texts.append((chart_text(sync=ok_sync, order=["Song", "SyncTrack"]), None))                             # missing Events
    texts.append(("[Song\n{\n}\n", None))                                                                     # bad header
    texts.append((chart_text(res=None, song=['Offset = 5', 'Name = "leak"', "Genre = \"metal\""], sync=ok_sync), None))   # MissingRequiredField after nothing
    texts.append((chart_text(song=["Offset = 7", "Player2 = drums", 'Artist = "leaky"', "Difficulty = 3"], sync=ok_sync), None))  # bad Player2
    texts.append((chart_text(sync=ok_sync, tracks=[("ExpertSingle", ["0 = N 0 0", "0 = N 5 0"])]), None))    # forced first note
    texts.append((chart_text(sync=["0 = TS 4", "0 = B 0"]), None))                                           # zero tempo
    texts.append((chart_text(sync=["0 = TS 4", "0 = B 120000", "100 = B 1", "50 = B 2"]), None))             # unordered tempo
    texts.append((chart_text(sync=["0 = TS 4", "0 = B 1118"] + ["%d = B 20548" % 50]), None))
    # many optional song fields / none
    full = ['Name = "n"', 'Artist = "a"', 'Charter = "c"', 'Album = "al"', 'Year = ", 2001"', "Offset = 3", "Difficulty = 4", "PreviewStart = 10", "PreviewEnd = 20",
            'Genre = "metal"', 'MediaType = "vinyl"', 'MusicStream = "song.ogg"', "Player2 = rhythm", 'GuitarStream = "g.ogg"']
    texts.append((chart_text(song=full, sync=ok_sync), None))
    # a field written twice (the first line counts), at different positions of the section in different charts
    texts.append((chart_text(song=['Charter = "c"', 'Artist = "a"', 'Name = "third line"'], sync=ok_sync), None))
    texts.append((chart_text(song=['Name = "Song B"', 'Artist = "b"', 'Name = "Song B (old title)"', "Offset = 2", "Offset = 9"], sync=ok_sync), None))
    texts.append((chart_text(song=["Offset = 5", 'Name = "late"', 'Genre = "g"', 'Name = "later"'], sync=ok_sync), None))
    texts.append((chart_text(sync=ok_sync), None))
    # many plain text events; then sections / lyrics
    texts.append((chart_text(sync=ok_sync, events=['%d = E "t%d"' % (i, i) for i in range(12)]), None))
    texts.append((chart_text(sync=ok_sync, events=['0 = E "section Intro"', '5 = E "lyric la"', '9 = E "section Verse"', '12 = E "lyric li"', '20 = E "plain"']), None))
    # > 128 distinct sustain tuples
    body = []
    for i in range(140):
        body += ["%d = N 0 %d" % (i * 10, i + 1), "%d = N 1 %d" % (i * 10, 2 * i + 3)]
    texts.append((chart_text(res=192, sync=ok_sync, tracks=[("ExpertSingle", body)]), None))
    # charts with many tracks of several instruments (order of the instrument mapping is observable)
    for k in (4, 8):
        hs = ["ExpertSingle", "HardDoubleBass", "EasyDrums", "MediumKeyboard", "ExpertGHLGuitar", "HardSingle", "ExpertDoubleRhythm", "EasyGHLBass"][:k]
        texts.append((chart_text(sync=ok_sync, tracks=[(h, ["%d = N %d 0" % (10 * j, j % 5) for j in range(3)]) for h in hs]), None))
    # random valid charts at a few resolutions (shared and not shared)
    while len(texts) < n:
        R = rng.choice([192, 192, 480, 100, 96])
        groups = ig.gen_groups(rng, R, rng.choice([2, 4, 8]))
        lines = ig.section_lines(rng, groups, R, junk=rng.random() < 0.3)
        tm = ig.gen_tempo(rng, R, groups[-1]["tick"] + R)
        song = rng.sample(full, rng.randint(0, 4))
        ev = rng.sample(['0 = E "section a"', '3 = E "lyric b"', '7 = E "text c"', '9 = E "section d"', '11 = E "e"'], rng.randint(0, 5))
        ev.sort(key=lambda l: int(l.split(" = ")[0]))
        want = rng.choice([None, None, None, [("Single", "Expert")], []])
        texts.append((chart_text(res=R, song=song, sync=["0 = TS 4"] + tempo_lines(tm), events=ev, tracks=[(rng.choice(["ExpertSingle", "HardDrums"]), lines)]), want))
    return texts


def make(text, want, fresh_term, out_term, tag, pos):
    return dict(case=dict(text=text, want=want, position=pos, mode=tag), in_term="(%s, %s)" % (fresh_term, parse_in_term(text, want)), out_term=out_term,
                nontrivial=pos > 0, tags=["mode=" + tag, "ok" if out_term.startswith("(Ok") else "error"], signature="C17:" + key_of([text, want]))


def threaded(items, fresh_terms):
    """items: list of (text, want) free of log output; 8 threads parse them concurrently."""
    import sys as _sys
    old = _sys.getswitchinterval()
    _sys.setswitchinterval(1e-6)
    nthreads = 8
    barrier = threading.Barrier(nthreads)
    results = [[None] * len(items) for _ in range(nthreads)]
    def work(k):
        import io
        import chartparse.chart as chart_mod
        barrier.wait()
        for j in range(len(items)):
            idx = (j + k * 3) % len(items)
            text, want = items[idx]
            try:
                c = chart_mod.Chart.from_file(io.StringIO(text, newline=""), want_tracks=pyval.to_pairs(want))
                results[k][idx] = "(Ok (%s, []))" % pyval.r_chart(c)
            except Exception as e:  # noqa: BLE001
                results[k][idx] = "(Err %s)" % pyval.errkind(e)
    ths = [threading.Thread(target=work, args=(k,)) for k in range(nthreads)]
    try:
        for t in ths:
            t.start()
        for t in ths:
            t.join()
    finally:
        _sys.setswitchinterval(old)
    return results


def look_at(ch):
    """Read-only use of a chart: derived attributes of every track and event, a rate query per track."""
    try:
        ch.sync_track.header_tag, ch.global_events_track.header_tag, ch.metadata.header_tag
        for i, inner in ch.instrument_tracks.items():
            for d, tr in inner.items():
                tr.last_note_end_timestamp, tr.header_tag
                for e in tr.note_events:
                    e.longest_sustain, e.end_tick
                for e in tr.star_power_events:
                    e.end_tick
                try:
                    ch.notes_per_second(i, d)
                except ValueError:
                    pass
        import chartparse.instrument as I
        for i in I.Instrument:
            # look-ups of every instrument, present or not (an absent one raises and must leave nothing behind)
            try:
                ch[i]
            except KeyError:
                pass
            try:
                ch.notes_per_second(i, I.Difficulty.EXPERT)
            except ValueError:
                pass
        str(ch), repr(ch)
    except Exception:  # noqa: BLE001  (C19 judges these operations; here they only have to have happened)
        pass


def big_chart(rng, n_phr):
    """Many star-power phrases and notes, several tempo changes: every lazily filled table is exercised many times."""
    body = []
    for i in range(n_phr):
        t = 100 * i
        body += ["%d = S 2 %d" % (t, rng.choice([40, 60, 100])), "%d = N %d %d" % (t + 10, i % 5, rng.choice([0, 0, 30])), "%d = N %d 0" % (t + 70, (i + 2) % 5)]
    sync = ["0 = TS 4", "0 = B 120000"] + ["%d = B %d" % (1000 * k, rng.choice([90000, 140000, 60000])) for k in range(1, 6)]
    return chart_text(res=192, sync=sync, events=['0 = E "section a"', '500 = E "lyric b"'], tracks=[("ExpertSingle", body)])


def cold_concurrent(items, n_interp, nthreads=8):
    """n_interp fresh interpreters, each starting with nthreads concurrent parses of `items` (tools/cold_parse.py)."""
    def one(k):
        p = subprocess.run([sys.executable, os.path.join(VERIF, "tools", "cold_parse.py")], input=json.dumps(dict(items=items, threads=nthreads, rotate=bool(k % 2))),
                           capture_output=True, text=True, cwd=REPO, env=dict(os.environ, PYTHONPATH=REPO, PYTHONHASHSEED=str(1 + k % 7)), timeout=900)
        if p.returncode != 0:
            return None
        return json.loads(p.stdout)
    with ThreadPoolExecutor(max_workers=4) as ex:
        return list(ex.map(one, range(n_interp)))


def run(ctx, only=None):
    rng = ctx["rng"]
    quick = ctx["tier"] == "quick"
    if only:
        texts = [(c["text"], None if c.get("want") is None else [tuple(x) for x in c["want"]]) for c in only if c]
        # replay with a history in front: the whole quick corpus first
        hist = corpus(rng, 30)
        for t, w in hist:
            parse_case(t, w)
    else:
        texts = corpus(rng, 34 if quick else 250)
        for c in load_corpus("C17"):
            texts.append((c["text"], None if c.get("want") is None else [tuple(x) for x in c["want"]]))
    fr = fresh(texts)
    cases = []
    pos = 0
    kept = {}
    for p in range(2 if quick else 3):
        order = list(range(len(texts)))
        rng.shuffle(order)
        if p > 0:
            order += [rng.randrange(len(texts)) for _ in range(len(texts) // 3)]
        for i in order:
            text, want = texts[i]
            ch, _, out = parse_case(text, want)
            mode = "history"
            if ch is not None:
                # "an equal chart": the chart parsed now must be == to the one parsed from the same text earlier in this process, also
                # after that earlier chart has been looked at (derived attributes read, a rate asked for)
                key = (text, repr(want))
                if key in kept:
                    if not (ch == kept[key] and kept[key] == ch):
                        out, mode = "(Err EOther)", "history_py_eq_failed"
                else:
                    kept[key] = ch
                    look_at(ch)
            cases.append(make(text, want, fr[i], out, mode, pos))
            pos += 1
    # churn: many more parses, round-robin over the texts, nothing kept alive (objects are freed and their addresses reused: a table
    # keyed by id() or by anything else that outlives its owner shows here); a result is sent to Coq only if its rendering differs from
    # the fresh one (equal renderings are equal terms), plus one agreeing sample per text
    if not only:
        seen_ok = set()
        n_churn = 0
        for k in range(700 if quick else 7000):
            i = (k * 7 + k // len(texts)) % len(texts)
            text, want = texts[i]
            _, _, out = parse_case(text, want)
            n_churn += 1
            if out != fr[i] or i not in seen_ok:
                seen_ok.add(i)
                cases.append(make(text, want, fr[i], out, "churn", pos))
                pos += 1
    # threads: only texts whose fresh result has no log records
    quiet = [i for i in range(len(texts)) if fr[i].startswith("(Err") or fr[i].rstrip().endswith(", []))")]
    quiet = quiet[:20] if quick else quiet[:80]
    if quiet and not only:
        res = threaded([texts[i] for i in quiet], [fr[i] for i in quiet])
        for k, row in enumerate(res):
            for j, i in enumerate(quiet):
                if k < (3 if quick else 8):
                    cases.append(make(texts[i][0], texts[i][1], fr[i], row[j] or "(Err EOther)", "threads", pos))
                    pos += 1
    # cold concurrent start: the first parses of a fresh process run on 8 threads at once; every distinct result (per text) that
    # some thread obtained, and the result of a later sequential parse in that process, is judged against the fresh parse
    cold = []
    cold_only = [(c["text"], None if c.get("want") is None else [tuple(x) for x in c["want"]]) for c in (only or []) if c and c.get("mode") == "cold_start_threads"]
    if not only or cold_only:
        # (texts that log warnings are left out: handlers are process-wide, so under threads a capture also sees other threads' records)
        small = (chart_text(res=192, sync=["0 = TS 4", "0 = B 120000", "384 = B 87500"], events=['0 = E "section a"'], tracks=[("ExpertSingle", ["0 = N 0 0", "0 = S 2 100", "96 = N 1 48"])]), None)
        items = cold_only[:2] if cold_only else [(big_chart(rng, 300 if quick else 1000), None), small]
        fr2 = fresh(items)
        for k, r in enumerate(cold_concurrent(items, 14 if cold_only or not quick else 4)):
            for j, (text, want) in enumerate(items):
                outs = ["(Err EOther)"] if r is None else sorted({row[j] or "(Err EOther)" for row in r["threads"]} | {r["after"][j]})
                for o in outs:
                    c = make(text, want, fr2[j], o, "cold_start_threads", pos)
                    c["signature"] = "C17cold:%d:%d:" % (k, j) + key_of([text, o])
                    cold.append(c)
                    pos += 1
    r = run_cases("C17", cases, IN_TYPE, PARSE_OUT, VERDICT, SPEC, shard_size=12)
    if cold:
        r = merge([r, run_cases("C17cold", cold, IN_TYPE, PARSE_OUT, VERDICT, SPEC, shard_size=2)])
    return r


def search(ctx, result):
    r = run(dict(ctx, tier="thorough"))
    return dict(viol=r["viol"], evaluations=r["evaluations"], note="thorough corpus")


DIAG = """From CP Require Import Base.Prelude Gen.Src.
Eval vm_compute in map fst (filter (fun p => negb (snd p)) src_purity).
"""
