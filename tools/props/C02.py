"""C02 — one note event per tick; lanes are exactly the lanes written."""
from __future__ import annotations

from .common import *   # noqa: F401,F403
from . import instr_gen as ig
LEAF = ['Leaf_note', 'Leaf_build', 'Leaf_sustain', 'Leaf_dispatch', 'Leaf_tracks', 'Leaf_chart', 'Leaf_fromfile', 'Leaf_meta']      # translated functions this property's model relies on (Tie/<name>.v)

RULE = ("one well-formed instrument section per case (note ticks non-decreasing): all 31 lane subsets + open, gaps incl. 1, chord as last group, "
        "forced/tap flag lines in every position of a group (incl. both flags on a five-lane chord), S 2 / E lines interleaved between the N lines of one tick; any of the 40 section headers; "
        "lane lines occasionally written twice; numerals with leading zeros / non-ASCII digits and white space; a third of the charts laid out differently (CRLF, other splitlines() boundaries, "
        "blank lines inside the sections); a few padded so that a line end of the note section falls exactly on a 4 / 8 / 64 KiB boundary (filler in an unknown section in front); "
        "judged: exactly one event per distinct tick, strictly increasing, lanes = lanes written. Non-trivial: a chord of >= 3 lanes, or adjacent ticks, or S/E interleaved; distinct by text")
ASSUMPTIONS = ["note ticks are non-decreasing in file order (the property's 'well-formed instrument section')"]
IN_TYPE = "((bool * list (Z * Z)) * %s)" % PARSE_IN
VERDICT = "fun i o => parse_verdict cfg (snd i) o"
SPEC = "fun i o => C02_spec (fst i) o"


def make_case(R, tm, groups, lines, header="ExpertSingle", layout=None, align=None):
    text = laid_out(chart_text(res=R, sync=["0 = TS 4"] + tempo_lines(tm), tracks=[(header, lines)]), layout)
    if align:
        # a line end of the note section exactly on a block boundary of 4 / 8 / 64 KiB
        import random as _random
        text = align_line_end(_random.Random(align[1]), text, align[0], after="[%s]" % header)
    ch, exc, out = parse_case(text)
    nl = [(g["tick"], idx) for g in groups for idx, _ in g["lines"]]
    ticks = [g["tick"] for g in groups]
    nontriv = any(len([1 for i, _ in g["lines"] if i < 5]) >= 3 for g in groups) or any(b - a == 1 for a, b in zip(ticks, ticks[1:])) or any(" = S " in l or " = E " in l for l in lines)
    return dict(case=dict(R=R, tm=[list(x) for x in tm], groups=groups, lines=lines, header=header, layout=layout, align=align, text=text),
                in_term="((true, %s), %s)" % (coq_list("(%s, %s)" % (coq_Z(t), coq_Z(i)) for t, i in nl), parse_in_term(text)),
                out_term=out, nontrivial=nontriv,
                tags=["groups=%d" % min(len(groups), 10), "impl_error" if exc is not None else "impl_ok",
                      "flags" if any(g["tap"] or g["forced"] for g in groups) else "noflags"],
                signature="C02:" + key_of(text))


def fixed_cases():
    out = []
    R = 192
    tm = [(0, 120000)]
    def G(t, lines, tap=False, forced=False):
        return dict(tick=t, lines=lines, tap=tap, forced=forced)
    g1 = [G(0, [(0, 0)]), G(1, [(0, 0), (1, 0), (2, 0), (3, 0), (4, 0), (5, 0), (6, 0)], True, True), G(2, [(7, 0)]), G(3, [(5, 0), (7, 0)], False, True),
          G(4, [(6, 0), (5, 0), (7, 10)], True, True), G(100, [(4, 5), (3, 5), (2, 5)])]
    lines = ["%d = N %d %d" % (g["tick"], i, l) for g in g1 for i, l in g["lines"]]
    out.append((R, tm, g1, lines))
    # S / E lines between the N lines of one tick
    g2 = [G(10, [(0, 0), (1, 0), (2, 0)]), G(11, [(3, 0)])]
    lines2 = ["10 = N 0 0", "10 = S 2 5", "10 = N 1 0", "10 = E solo", "10 = N 2 0", "11 = N 3 0", "11 = S 2 0"]
    out.append((R, tm, g2, lines2))
    # all 31 lane sets + open on adjacent ticks
    g3 = [G(i, [(l, 0) for l in ls]) for i, ls in enumerate(ig.LANESETS)] + [G(31, [(7, 0)])]
    out.append((R, tm, g3, ["%d = N %d %d" % (g["tick"], i, l) for g in g3 for i, l in g["lines"]]))
    return out


def cases(ctx, n):
    rng = ctx["rng"]
    out = [make_case(*f) for f in fixed_cases()]
    for c in load_corpus("C02"):
        out.append(make_case(c["R"], [tuple(x) for x in c["tm"]], c["groups"], c["lines"], c.get("header", "ExpertSingle"), c.get("layout"), c.get("align")))
    while len(out) < n:
        R = rng.choice([192, 192, 480, 100, 96, 3, 1])
        groups = ig.gen_groups(rng, R, rng.choice([1, 2, 3, 5, 8, 14]))
        if rng.random() < 0.1:
            # the same section far along the tick axis (10^6, around 2^31 and 2^32, 10^10): ticks are integers of any size, and two notes
            # whose ticks differ by a power of two are two notes
            base = rng.choice([10 ** 6 - 3, 2 ** 31 - 100, 2 ** 32 - 300, 2 ** 32 + 5, 10 ** 10])
            for g in groups[len(groups) // 2 if rng.random() < 0.5 else 0:]:
                g["tick"] += base
        lines = ig.section_lines(rng, groups, R)
        if rng.random() < 0.25:
            lines = [(ig.exotic_line(rng, l) if rng.random() < 0.7 else ig.zero_pad(rng, l)) if rng.random() < 0.6 else l for l in lines]
        tm = ig.gen_tempo(rng, R, groups[-1]["tick"])
        header = pick_header(rng, 0.4)
        align = [rng.choice([4096, 8192, 65536, 65536]), rng.randrange(10 ** 6)] if rng.random() < 0.04 else None
        out.append(make_case(R, tm, groups, lines, header, None if align else pick_layout(rng), align))
    return out


def run(ctx, only=None):
    if only:
        cs = [make_case(c["R"], [tuple(x) for x in c["tm"]], c["groups"], c["lines"], c.get("header", "ExpertSingle"), c.get("layout"), c.get("align")) for c in only if c]
    else:
        cs = cases(ctx, 200 if ctx["tier"] == "quick" else 5000)
    return run_cases("C02", cs, IN_TYPE, PARSE_OUT, VERDICT, SPEC, shard_size=25)


def search(ctx, result):
    cs = cases(ctx, 1000)
    r = run_cases("C02s", cs, IN_TYPE, PARSE_OUT, VERDICT, SPEC, shard_size=25)
    return dict(viol=r["viol"], evaluations=r["evaluations"], note="re-sampled %d cases" % len(cs))
