"""C19 — a parsed chart is an immutable value under all read-only use."""
from __future__ import annotations

import dataclasses
from datetime import timedelta

from .common import *   # noqa: F401,F403
from . import instr_gen as ig
from . import C16 as c16
from . import C11 as c11

LEAF = ['Leaf_nps']      # translated functions this property's model relies on (Tie/<name>.v)
RULE = ("charts with 1-4 tracks (incl. tracks whose note lines are out of tick order, note-less tracks, second-player parts with a [Song] Player2 field, tempo anchors) and a twin parsed from the same text; sequences of 6-14 read-only operations: "
        "chart[instrument] for each of the ten instruments, present or absent, notes_per_second in every argument form incl. failing ones (absent instrument, present instrument with absent difficulty, "
        "note-less track, non-positive interval), tick-to-time queries with and without hints (incl. rejected ones), str/repr of the chart and of every event, chart == twin, hash of every "
        "event, every derived attribute (longest_sustain, end_tick, last_note_end_timestamp, header_tag), and attribute assignment / deletion on every field of every event and track class; "
        "after EVERY operation the full rendering of the chart, the key set of instrument_tracks and twin equality are recorded. Non-trivial: every sequence (each contains a failing rate "
        "query or an absent-instrument look-up); distinct by (text, ops)")
ASSUMPTIONS = ["that CPython's frozen dataclasses raise FrozenInstanceError and that cached_property writes only into the instance __dict__ of frozen objects (not part of dataclass equality) is "
               "behaviour the model states; it is checked by this correspondence on every run"]

IN_TYPE, OUT_TYPE = "C19_in", "C19_out"
VERDICT = "fun i o => C19_verdict cfg i o"
SPEC = "fun i o => C19_spec i o"


def r_op(o):
    k = o[0]
    if k == "getitem":
        return "(OGetItem %s)" % coq_str(o[1])
    if k == "nps":
        return "(ONps %s %s %s %s)" % (coq_str(o[1]), coq_str(o[2]), c16.r_bound(o[3]), c16.r_bound(o[4]))
    if k == "query":
        return "(OQuery %s %s)" % (coq_Z(o[1]), coq_Z(o[2]))
    if k == "querynoopt":
        return "(OQueryNoOpt %s)" % coq_Z(o[1])
    return {"render": "ORender", "eqtwin": "OEqTwin", "hash": "OHash", "derived": "ODerived", "setattr": "OSetAttr"}[k]


def all_events(ch):
    out = list(ch.sync_track.bpm_events.events) + list(ch.sync_track.time_signature_events) + list(ch.sync_track.anchor_events)
    g = ch.global_events_track
    out += list(g.text_events) + list(g.section_events) + list(g.lyric_events)
    for inner in ch.instrument_tracks.values():
        for tr in inner.values():
            out += list(tr.note_events) + list(tr.star_power_events) + list(tr.track_events)
    return out


def all_tracks(ch):
    return [tr for inner in ch.instrument_tracks.values() for tr in inner.values()] + [ch.sync_track, ch.global_events_track, ch.sync_track.bpm_events, ch.metadata]


def do_op(ch, twin, o):
    import chartparse.instrument as I
    k = o[0]
    try:
        if k == "getitem":
            d = ch[I.Instrument(o[1])]
            return "(RKeys %s)" % coq_list(coq_str(x.value) for x in d.keys())
        if k == "nps":
            args = [I.Instrument(o[1]), I.Difficulty(o[2])]
            def call():
                if o[3] is None and o[4] is None:
                    return ch.notes_per_second(*args)
                if o[4] is None:
                    return ch.notes_per_second(*args, c16.py_bound(o[3]))
                return ch.notes_per_second(*args, c16.py_bound(o[3]), c16.py_bound(o[4]))
            return "(RFloat %s)" % pyval.r_result(call, coq_float)
        if k == "query":
            return "(RQuery %s)" % c11.r_qres(lambda: ch.sync_track.bpm_events.timestamp_at_tick(o[1], start_iteration_index=o[2]))
        if k == "querynoopt":
            return "(RTime %s)" % pyval.r_result(lambda: ch.sync_track.bpm_events.timestamp_at_tick_no_optimize_return(o[1]), lambda v: coq_Z(pyval.us(v)))
        if k == "render":
            str(ch), repr(ch)
            for e in all_events(ch):
                str(e), repr(e)
            for t in all_tracks(ch):
                str(t), repr(t)
            return "RDone"
        if k == "eqtwin":
            return "(RBool %s)" % coq_bool(ch == twin and twin == ch)
        if k == "hash":
            for e in all_events(ch):
                hash(e)
            return "RDone"
        if k == "derived":
            for inner in ch.instrument_tracks.values():
                for tr in inner.values():
                    tr.last_note_end_timestamp, tr.header_tag
                    for e in tr.note_events:
                        e.longest_sustain, e.end_tick
                    for e in tr.star_power_events:
                        e.end_tick
            ch.sync_track.header_tag, ch.global_events_track.header_tag, ch.metadata.header_tag, len(ch.sync_track.bpm_events)
            return "RDone"
        if k == "setattr":
            ok = True
            objs = all_events(ch) + all_tracks(ch)
            seen = set()
            for obj in objs:
                if type(obj) in seen and len(seen) > 12:
                    continue
                seen.add(type(obj))
                for f in dataclasses.fields(obj):
                    for action in (lambda: setattr(obj, f.name, getattr(obj, f.name)), lambda: delattr(obj, f.name)):
                        try:
                            action()
                            ok = False
                        except dataclasses.FrozenInstanceError:
                            pass
                        except Exception:  # noqa: BLE001
                            ok = False
                # non-field names too: derived attributes (cached properties such as end_tick, longest_sustain,
                # last_note_end_timestamp, header_tag) and a brand-new name.  (Finding F5: the four undecorated leaf
                # event classes used to accept these; repaired by a fix: commit.)
                for name in ("end_tick", "longest_sustain", "last_note_end_timestamp", "header_tag", "brand_new_attribute"):
                    try:
                        setattr(obj, name, 1)
                        ok = False
                    except dataclasses.FrozenInstanceError:
                        pass
                    except Exception:  # noqa: BLE001
                        ok = False
            return "(RErr EFrozen)" if ok else "RDone"
    except Exception as e:  # noqa: BLE001
        return "(RErr %s)" % pyval.errkind(e)
    return "RDone"


def text_of(ch):
    """Everything str() / repr() show of the chart, its tracks and its events (the rendering the property speaks of)."""
    try:
        return [str(ch), repr(ch)] + [f(e) for e in all_events(ch) for f in (str, repr)] + [f(t) for t in all_tracks(ch) for f in (str, repr)]
    except Exception as e:  # noqa: BLE001
        return ["rendering failed: %s" % type(e).__name__]


def make_case(text, ops, want=None):
    import io
    import chartparse.chart as chart_mod
    ch, exc, out_parse = parse_case(text, want)
    if ch is None:
        out = "(Err %s)" % pyval.errkind(exc)
    else:
        twin = chart_mod.Chart.from_file(io.StringIO(text, newline=""), want_tracks=pyval.to_pairs(want))
        first = pyval.r_chart(ch)
        first_text = text_of(ch)
        first_vars = sorted(vars(ch).keys())
        steps = []
        for o in ops:
            res = do_op(ch, twin, o)
            try:
                now = pyval.r_chart(ch)
            except Exception:  # noqa: BLE001  (the chart can no longer be walked: an accepted deletion, a list that is gone)
                now = None
            try:
                keys = [k.value if hasattr(k, "value") else str(k) for k in ch.instrument_tracks.keys()]
            except Exception:  # noqa: BLE001
                keys = ["<unreadable>"]
            unchanged = now == first and sorted(vars(ch).keys()) == first_vars and text_of(ch) == first_text
            try:
                teq = bool(ch == twin) and bool(twin == ch)
            except Exception:  # noqa: BLE001
                teq = False
            steps.append("(%s, %s, %s, %s)" % (coq_bool(unchanged), coq_list(coq_str(k) for k in keys), coq_bool(teq), res))
        out = "(Ok (%s, %s))" % (first, coq_list(steps))
    return dict(case=dict(text=text, ops=ops, want=want), in_term="(%s, %s)" % (parse_in_term(text, want), coq_list(r_op(o) for o in ops)), out_term=out,
                nontrivial=True, tags=["ops=%d" % len(ops)] + sorted({"op:" + o[0] for o in ops}), signature="C19:" + key_of([text, ops]))


def gen(rng):
    import io
    import chartparse.chart as chart_mod
    while True:
        text, ops = gen1(rng)
        try:
            chart_mod.Chart.from_file(io.StringIO(text, newline=""))
            # one chart in eight is parsed with a selection that matches nothing: a chart without any instrument track
            return text, ops, ([] if rng.random() < 0.12 else None)
        except Exception:  # noqa: BLE001  (e.g. a forced flag on the first group after reversal): draw again
            continue


def gen1(rng):
    R = 192
    groups = ig.gen_groups(rng, R, rng.choice([2, 4, 6]), gaps=[R // 2, R])
    lines = ig.section_lines(rng, groups, R)
    if rng.random() < 0.4:
        # note lines out of tick order (chartparse keeps file order); single constant tempo so that hints never trip
        nl = [l for l in lines if " = N " in l]
        rest = [l for l in lines if " = N " not in l]
        nl.reverse()
        lines = nl + rest
    tracks = [("ExpertSingle", lines)]
    if rng.random() < 0.08:
        tracks = []          # only the three required sections
    if rng.random() < 0.6:
        tracks.append(("HardSingle", []))
    if rng.random() < 0.4:
        tracks.append(("ExpertDrums", ["0 = N 0 0", "192 = N 1 10"]))
    if rng.random() < 0.4:
        # second-player parts, with the [Song] Player2 field saying which one the chart is meant to have
        tracks.append((rng.choice(["ExpertDoubleBass", "HardDoubleBass", "ExpertDoubleRhythm", "MediumDoubleGuitar"]), ["0 = N 2 0", "96 = N 3 48", "96 = S 2 10"]))
    song = rng.choice([None, None, ["Player2 = rhythm"], ["Player2 = bass"], ["Player2 = rhythm", 'Name = "n"', "Offset = 2"]])
    anchors = rng.choice([[], [], ["0 = A 0"], ["10 = A 1000", "384 = A 2000000"]])
    text = chart_text(res=R, song=song, sync=["0 = TS 4", "0 = B 120000"] + (["384 = B 60000"] if rng.random() < 0.5 and text_flags(lines) == "sorted" else []) + anchors,
                      events=['0 = E "section a"', '96 = E "lyric b"'], tracks=tracks)
    last = groups[-1]["tick"]
    ops = []
    pool = ["getitem_absent", "getitem_present", "nps_ok", "nps_fail_instr", "nps_fail_diff", "nps_fail_interval", "nps_noteless", "query", "query_bad", "querynoopt",
            "render", "eqtwin", "hash", "derived", "setattr", "nps_time"]
    for _ in range(rng.randint(6, 14)):
        k = rng.choice(pool)
        if k == "getitem_absent":
            ops.append(("getitem", rng.choice(INSTRUMENTS())))      # any of the ten: mostly absent, sometimes a second-player part
        elif k == "getitem_present":
            ops.append(("getitem", "Single"))
        elif k == "nps_ok":
            ops.append(("nps", "Single", "Expert", rng.choice([None, ("tick", 0)]), rng.choice([None, ("tick", last + 10)])))
        elif k == "nps_time":
            ops.append(("nps", "Single", "Expert", ("time", 0), ("time", 10 ** 7)))
        elif k == "nps_fail_instr":
            ops.append(("nps", rng.choice(INSTRUMENTS()), rng.choice(["Expert", "Hard", "Easy"]), None, None))
        elif k == "nps_fail_diff":
            ops.append(("nps", "Single", "Easy", None, None))
        elif k == "nps_noteless":
            ops.append(("nps", "Single", "Hard", None, None))
        elif k == "nps_fail_interval":
            ops.append(("nps", "Single", "Expert", ("tick", 100), ("tick", 100)))
        elif k == "query":
            ops.append(("query", rng.randint(0, last + 500), 0))
        elif k == "query_bad":
            ops.append(("query", rng.choice([-1, 0, 5]), rng.choice([1, 2, 7])))
        elif k == "querynoopt":
            ops.append(("querynoopt", rng.randint(0, 2000)))
        else:
            ops.append((k,))
    # every sequence looks every instrument up once (sweep at a random position), and asks each for a rate once
    sweep = [("getitem", i) for i in INSTRUMENTS()]
    rng.shuffle(sweep)
    at = rng.randint(0, len(ops))
    ops[at:at] = sweep[:rng.choice([10, 10, 5])]
    ops.append(("eqtwin",))
    return text, ops


def INSTRUMENTS():
    from . import C06 as c06
    return c06.instr_diff()[0]


def text_flags(lines):
    ticks = [int(l.split(" = ")[0]) for l in lines if " = N " in l]
    return "reverse" if ticks != sorted(ticks) else "sorted"


def fix_ops(ops):
    return [tuple(tuple(y) if isinstance(y, list) else y for y in o) for o in ops]


def run(ctx, only=None):
    if only:
        cs = [make_case(c["text"], fix_ops(c["ops"]), c.get("want")) for c in only if c]
    else:
        rng = ctx["rng"]
        cs = [make_case(c["text"], fix_ops(c["ops"]), c.get("want")) for c in load_corpus("C19")]
        n = 60 if ctx["tier"] == "quick" else 2000
        while len(cs) < n:
            cs.append(make_case(*gen(rng)))
    return run_cases("C19", cs, IN_TYPE, OUT_TYPE, VERDICT, SPEC, shard_size=8, extra_imports=H_IMPORT + "From CP Require Import Model.ChartState.\n")


def search(ctx, result):
    rng = ctx["rng"]
    cs = [make_case(*gen(rng)) for _ in range(300)]
    r = run_cases("C19s", cs, IN_TYPE, OUT_TYPE, VERDICT, SPEC, shard_size=8, extra_imports=H_IMPORT + "From CP Require Import Model.ChartState.\n")
    return dict(viol=r["viol"], evaluations=r["evaluations"], note="re-sampled %d cases" % len(cs))


DIAG = """From CP Require Import Base.Prelude Base.Cfg Gen.Src.
Eval vm_compute in (if autoinsert_tracks cfg then ["from_file stores an auto-inserting instrument mapping"%string] else nil).
"""
