"""C07 — instrument-section lines are recognised and decoded exactly."""
from __future__ import annotations

from .common import *   # noqa: F401,F403
from . import linegen as lg

KS = ["KNote", "KSP", "KTev"]
RULE = ("every generated line is given to NoteEvent/StarPowerEvent/TrackEvent.ParsedData.from_chart_line (all three kinds on every line): canonical N/S/E lines with 1-20 digit numbers, "
        "leading zeros, pads of blanks/tabs/U+00A0/U+3000, non-ASCII decimal digits, trailing newline, E words containing tabs, quotes, '='; canonical lines of the other six kinds; "
        "a fixed list of near misses (N 8, N 07, S 1, S 64, two words, tab separators, ...) and single-character mutations of canonical lines; judged against the reference "
        "recogniser/decoder (Spec/RefRegex.v) inside Coq. Non-trivial: the line is accepted by some kind or is a one-character mutation / near miss of an accepted line; distinct by (kind, line)")
ASSUMPTIONS = ["numerals have at most 4300 digits (CPython's int() limit is modelled as ValueError but not generated)",
               "Python's capture groups equal the model's extractors on accepted strings: exercised by this correspondence, proved for the model (C07_*_accept)"]


def cases(ctx, n):
    rng = ctx["rng"]
    lines = []
    for c in load_corpus("C07"):
        lines.append((c["line"], "corpus"))
    for l in lg.NEAR_MISSES:
        lines.append((l, "near_miss"))
    while len(lines) < n // 3:
        k = rng.choice(KS + KS + lg.KINDS)
        l = lg.canon_line(rng, k)
        lines.append((l, "canonical"))
        if rng.random() < 0.5:
            lines.append((lg.mutate(rng, l), "mutation"))
    out = []
    for l, tag in lines:
        for k in KS:
            out.append(lg.dec_case(k, l, [tag]))
    return out


def run(ctx, only=None):
    if only:
        cs = [lg.dec_case(c["kind"], c["line"]) for c in only if c]
    else:
        cs = cases(ctx, 2400 if ctx["tier"] == "quick" else 60000)
    return run_cases("C07", cs, lg.DEC_IN, lg.DEC_OUT, lg.DEC_VERDICT, lg.DEC_SPEC, shard_size=400)


def search(ctx, result):
    cs = cases(ctx, 12000)
    r = run_cases("C07s", cs, lg.DEC_IN, lg.DEC_OUT, lg.DEC_VERDICT, lg.DEC_SPEC, shard_size=400)
    return dict(viol=r["viol"], evaluations=r["evaluations"], note="re-sampled %d cases" % len(cs))


DIAG = """From CP Require Import Base.Prelude Base.Cfg Spec.RefRegex Gen.Src.
Eval vm_compute in failing (instr_items cfg).
"""
