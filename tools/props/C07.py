"""C07 — instrument-section lines are recognised and decoded exactly."""
from __future__ import annotations

from .common import *   # noqa: F401,F403
from . import linegen as lg

KS = ["KNote", "KSP", "KTev"]
LEAF = ['Leaf_dispatch', 'Leaf_tracks']      # translated functions this property's model relies on (Tie/<name>.v)
RULE = ("every generated line is given to NoteEvent/StarPowerEvent/TrackEvent.ParsedData.from_chart_line (all three kinds on every line): canonical N/S/E lines with 1-20 digit numbers, "
        "leading zeros, pads of blanks/tabs/U+00A0/U+3000, non-ASCII decimal digits, trailing newline, E words containing tabs, quotes, '='; canonical lines of the other six kinds; "
        "a fixed list of near misses (N 8, N 07, S 1, S 64, two words, tab separators, ...) and single-character mutations of canonical lines; judged against the reference "
        "recogniser/decoder (Spec/RefRegex.v) inside Coq. Track level: sections of N / S 2 / E lines (zero-length phrases, empty words, non-ASCII spellings) through Chart.from_file: the parsed track must hold exactly "
        "the written data. Non-trivial: the line is accepted by some kind or is a one-character mutation / near miss of an accepted line; every track case; distinct by (kind, line) / text")
ASSUMPTIONS = ["numerals have at most 4300 digits (CPython's int() limit is modelled as ValueError but not generated)",
               "Python's capture groups equal the model's extractors on accepted strings: exercised by this correspondence, proved for the model (C07_*_accept)"]


def cases(ctx, n):
    rng = ctx["rng"]
    lines = []
    for c in load_corpus("C07"):
        if "line" in c:
            lines.append((c["line"], "corpus"))
    for l in lg.NEAR_MISSES:
        lines.append((l, "near_miss"))
    while len(lines) < n // 3:
        k = rng.choice(KS + KS + lg.KINDS)
        l = lg.canon_line(rng, k)
        lines.append((l, "canonical"))
        if rng.random() < 0.5:
            lines.append((lg.mutate(rng, l), "mutation"))
    out = []
    for l, tag in lines:
        for k in KS:
            out.append(lg.dec_case(k, l, [tag]))
    return out


T_IN = "((bool * list (Z * Z) * list (Z * Z) * list (Z * str)) * %s)" % PARSE_IN
T_VERDICT = "fun i o => parse_verdict cfg (snd i) o"
T_SPEC = "fun i o => C07t_spec (fst i) o"


def track_case(rng, items=None):
    """A section of N / S / E lines (ticks non-decreasing per kind) through Chart.from_file: the parsed track must hold
    exactly the written data (every S line incl. zero-length ones, every E word)."""
    if items is None:
        n = rng.choice([1, 3, 6, 10])
        t = 0
        items = []
        for _ in range(n):
            t += rng.choice([0, 1, 48, 192])
            k = rng.choice(["N", "N", "S", "E"])
            if k == "N":
                items.append(["N", t, rng.randrange(5), rng.choice([0, 0, 96])])
            elif k == "S":
                items.append(["S", t, rng.choice([0, 0, 1, 96, 1000])])
            else:
                items.append(["E", t, rng.choice(["solo", "soloend", "x=1", "a\"b", "歌", "", '"solo"', '"section"', '"x"', "{x}", "a}b", "%s", "{0}"])])
    lines = []
    for it in items:
        if it[0] == "N":
            l = "%d = N %d %d" % (it[1], it[2], it[3])
        elif it[0] == "S":
            l = "%d = S 2 %d" % (it[1], it[2])
        else:
            l = "%d = E %s" % (it[1], it[2])
        if rng.random() < 0.2 and it[0] != "E":
            from . import instr_gen as ig
            l = ig.exotic_line(rng, l)
        lines.append(l)
    # the [Events] section of the same chart holds, character for character, the E lines of the track whose word is a quoted token
    # (there a text event, here a track event): what a line is depends on the section it stands in
    events = [l for l, it in zip(lines, items) if it[0] == "E" and len(it[2]) >= 2 and it[2][0] == '"' and it[2][-1] == '"']
    text = chart_text(events=events, tracks=[("ExpertSingle", lines)])
    ch, exc, out = parse_case(text)
    nl = coq_list("(%s, %s)" % (coq_Z(i[1]), coq_Z(i[2])) for i in items if i[0] == "N")
    sl = coq_list("(%s, %s)" % (coq_Z(i[1]), coq_Z(i[2])) for i in items if i[0] == "S")
    el = coq_list("(%s, %s)" % (coq_Z(i[1]), coq_str(i[2])) for i in items if i[0] == "E")
    return dict(case=dict(kind="track", items=items, text=text), in_term="((true, %s, %s, %s), %s)" % (nl, sl, el, parse_in_term(text)), out_term=out,
                nontrivial=True, tags=["track", "impl_error" if exc is not None else "impl_ok"], signature="C07t:" + key_of(text))


def run(ctx, only=None):
    rng = ctx["rng"]
    if only:
        cs = [lg.dec_case(c["kind"], c["line"]) for c in only if c and c.get("kind") in lg.KINDS]
        ts = [track_case(rng, c["items"]) for c in only if c and c.get("kind") == "track"]
    else:
        cs = cases(ctx, 2400 if ctx["tier"] == "quick" else 60000)
        ts = [track_case(rng, [["S", 0, 0], ["N", 0, 0, 0], ["S", 10, 5], ["S", 20, 0], ["E", 20, "solo"]])]
        ts += [track_case(rng, c["items"]) for c in load_corpus("C07") if c.get("kind") == "track"]
        while len(ts) < (60 if ctx["tier"] == "quick" else 2000):
            ts.append(track_case(rng))
    return merge([run_cases("C07", cs, lg.DEC_IN, lg.DEC_OUT, lg.DEC_VERDICT, lg.DEC_SPEC, shard_size=400),
                  run_cases("C07t", ts, T_IN, PARSE_OUT, T_VERDICT, T_SPEC, shard_size=20)])


def search(ctx, result):
    cs = [lg.dec_case(k, w, ["regex_diff_witness"]) for w in regex_witnesses() for k in KS] + cases(ctx, 12000)
    rng = ctx["rng"]
    r = merge([run_cases("C07s", cs, lg.DEC_IN, lg.DEC_OUT, lg.DEC_VERDICT, lg.DEC_SPEC, shard_size=400),
               run_cases("C07ts", [track_case(rng) for _ in range(400)], T_IN, PARSE_OUT, T_VERDICT, T_SPEC, shard_size=20)])
    return dict(viol=r["viol"], evaluations=r["evaluations"], note="re-sampled %d cases" % len(cs))


DIAG = """From CP Require Import Base.Prelude Base.Cfg Spec.RefRegex Gen.Src.
Eval vm_compute in failing (instr_items cfg).
"""
