"""C12 — time is a non-decreasing function of tick across the whole chart."""
from __future__ import annotations

from .common import *   # noqa: F401,F403
from . import C11 as c11
from . import C01 as c01

LEAF = ['Leaf_tick', 'Leaf_query', 'Leaf_bpm', 'Leaf_timed', 'Leaf_note', 'Leaf_build', 'Leaf_dispatch', 'Leaf_tracks']      # translated functions this property's model relies on (Tie/<name>.v)
RULE = ("(a) tempo maps with extreme accelerations/decelerations (n alternating 1 <-> 10^9), sub-microsecond ticks (BPM x resolution up to 10^12), and ordinary maps; ascending runs of "
        "consecutive ticks straddling 1-5 tempo boundaries plus random ticks (<= 60 per map), queried through timestamp_at_tick_no_optimize_return; judged: non-decreasing, equal ticks equal "
        "times, and strictly increasing whenever n x resolution <= 3*10^10 at every tempo (and the run lies in C01's domain); "
        "(b) whole charts with events of several tracks at equal and neighbouring ticks: all timed points of all tracks compared pairwise, every note end >= its start. "
        "Non-trivial: the run straddles >= 1 boundary, or the map has a sub-microsecond tick; distinct by input")
ASSUMPTIONS = ["strictness is demanded only where theorem C12_strict applies (every tempo with n*resolution <= 3*10^10, times below 10^6 s)"]

Q_IN, Q_OUT = "C11q_in", "C11q_out"
Q_VERDICT = "fun i o => C11q_verdict cfg i o"
Q_SPEC = "fun i o => C12q_spec cfg i o"
C_IN = "(bool * %s)" % PARSE_IN
C_VERDICT = "fun i o => parse_verdict cfg (snd i) o"
C_SPEC = "fun i o => C12c_spec (fst i) o"


def gen_tm(rng):
    mode = rng.choice(["extreme", "subus", "ordinary", "ordinary", "slow"])
    if mode == "extreme":
        R = rng.choice([1, 192, 1000, 10 ** 6])
        ns = [rng.choice([1, 10 ** 9]) for _ in range(rng.randint(2, 6))]
    elif mode == "subus":
        R = rng.choice([10 ** 5, 10 ** 6, 480000])
        ns = [rng.choice([10 ** 9, 640000000, 999999999, 500000000]) for _ in range(rng.randint(1, 5))]
    elif mode == "slow":
        R = rng.choice([1, 2, 3])
        ns = [rng.choice([1, 2, 1000, 999]) for _ in range(rng.randint(1, 4))]
    else:
        R = rng.choice([96, 192, 480, 7])
        ns = [rng.choice([60000, 120000, 129200, 200000, 87500, 1118]) for _ in range(rng.randint(1, 6))]
    tm = []
    t = 0
    for n in ns:
        tm.append((t, n))
        t += rng.choice([1, 2, 3, 5, 6, 10, 100, R])
    return R, tm, mode


def q_cases(ctx, n):
    rng = ctx["rng"]
    out = []
    for c in load_corpus("C12"):
        if c.get("kind") == "query":
            out.append(c01.make_q(c["R"], [tuple(x) for x in c["tm"]], c["ticks"], direct=True))
    out.append(c01.make_q(10 ** 6, [(0, 640000000), (6, 10 ** 9), (11, 999999999)], list(range(0, 30)), direct=True))
    while len(out) < n:
        if rng.random() < 0.15:
            # a long passage in ONE ordinary tempo whose beat is not a whole number of microseconds: ticks around beat boundaries
            # minutes into the song (whole beats must not be timed by another rule than the ticks next to them)
            R = rng.choice([480, 192, 960])
            bpm = rng.choice([290000, 170000, 133000, 97000, 143000, 201000])
            ks = sorted(rng.sample(range(200, 6000), 18))
            ticks = sorted({k * R + d for k in ks for d in (-1, 0, 1)})
            c = c01.make_q(R, [(0, bpm)], ticks, direct=True)
            c["tags"] = ["q:long_single_tempo"]
            c["nontrivial"] = True
            out.append(c)
            continue
        R, tm, mode = gen_tm(rng)
        ticks = set()
        for t, _ in tm:
            ticks.update(range(max(0, t - 3), t + 4))
        ticks.update(rng.randint(0, tm[-1][0] + 20) for _ in range(10))
        ticks = sorted(ticks)[:60]
        c = c01.make_q(R, tm, ticks, direct=True)
        c["tags"] = ["q:" + mode]
        c["nontrivial"] = len(tm) >= 2 or mode == "subus"
        out.append(c)
    return out


def make_c(rng):
    R, tm, mode = gen_tm(rng)
    R = min(R, 10 ** 6)
    end = tm[-1][0] + 10
    pts = sorted({rng.randint(0, end) for _ in range(5)} | {t for t, _ in tm})
    def at(k):
        return sorted(rng.sample(pts, min(k, len(pts))))
    headless = rng.random() < 0.12 and len(tm) >= 2
    if headless:
        # no tempo at tick 0 (dropped, or the whole map shifted): the chart is rejected, never timed from a made-up tempo
        tm = tm[1:] if rng.random() < 0.5 else [(t + rng.choice([1, 5, R]), n) for t, n in tm]
    sync = ["0 = TS 4"] + ["%d = TS 3 2" % t for t in at(2) if t > 0] + tempo_lines(tm)
    if rng.random() < 0.35 and tm:
        # stale tempo anchors on the ticks of tempo changes: recorded, never used for timing
        sync += ["%d = A %d" % (t, rng.choice([0, 1, 500, 10 ** 6, rng.randint(0, 10 ** 7)])) for t in sorted(rng.sample([x for x, _ in tm], min(len(tm), rng.randint(1, 3))))]
    ev = ['%d = E "section s"' % t for t in at(2)] + ['%d = E "lyric l"' % t for t in at(2)] + ['%d = E "t"' % t for t in at(2)]
    def body():
        b = ["%d = N %d %d" % (t, rng.randrange(5), rng.choice([0, 1, 5, end])) for t in at(4)]
        return b + ["%d = S 2 %d" % (t, rng.choice([0, 3])) for t in at(2)] + ["%d = E solo" % t for t in at(1)]
    text = chart_text(res=R, sync=sync, events=ev, tracks=[("ExpertSingle", body()), ("HardDoubleBass", body()), ("EasyDrums", body())])
    ch, exc, out = parse_case(text)
    return dict(case=dict(kind="chart", text=text, wf=not headless), in_term="(%s, %s)" % (coq_bool(not headless), parse_in_term(text)), out_term=out,
                nontrivial=len(tm) >= 2, tags=["c:" + mode, "c:impl_error" if exc is not None else "c:impl_ok"], signature="C12c:" + key_of(text))


def remake_c(c):
    ch, exc, out = parse_case(c["text"])
    return dict(case=c, in_term="(%s, %s)" % (coq_bool(c.get("wf", True)), parse_in_term(c["text"])), out_term=out, nontrivial=True, tags=["c:replay"], signature="C12c:" + key_of(c["text"]))


def run(ctx, only=None):
    if only:
        qs = [c01.make_q(c["R"], [tuple(x) for x in c["tm"]], c["ticks"], direct=True) for c in only if c and c.get("kind") == "query"]
        cs = [remake_c(c) for c in only if c and c.get("kind") == "chart"]
    else:
        quick = ctx["tier"] == "quick"
        rng = ctx["rng"]
        qs = q_cases(ctx, 40 if quick else 1500)
        cs = [remake_c(c) for c in load_corpus("C12") if c.get("kind") == "chart"]
        while len(cs) < (50 if quick else 1500):
            cs.append(make_c(rng))
    return merge([run_cases("C12q", qs, Q_IN, Q_OUT, Q_VERDICT, Q_SPEC, shard_size=3),
                  run_cases("C12c", cs, C_IN, PARSE_OUT, C_VERDICT, C_SPEC, shard_size=8)])


def search(ctx, result):
    rng = ctx["rng"]
    r = merge([run_cases("C12qs", q_cases(ctx, 250), Q_IN, Q_OUT, Q_VERDICT, Q_SPEC, shard_size=3),
               run_cases("C12cs", [make_c(rng) for _ in range(300)], C_IN, PARSE_OUT, C_VERDICT, C_SPEC, shard_size=8)])
    return dict(viol=r["viol"], evaluations=r["evaluations"], note="re-sampled %d cases" % r["evaluations"])
