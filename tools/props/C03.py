"""C03 — sustains, end tick, end time and last-note-end are faithful to the lines."""
from __future__ import annotations

from .common import *   # noqa: F401,F403
from . import instr_gen as ig
from .C11 import r_qres

LEAF = ['Leaf_special', 'Leaf_note', 'Leaf_build', 'Leaf_sustain', 'Leaf_dispatch', 'Leaf_tracks', 'Leaf_chart', 'Leaf_fromfile', 'Leaf_meta']      # translated functions this property's model relies on (Tie/<name>.v)
RULE = ("one well-formed instrument section per case over a 1-5 segment tempo map: all lane subsets x length patterns {all zero, all equal, partly zero, all different, "
        "only orange non-zero} x forced/tap flag lines (with zero AND non-zero lengths) in every position x open notes with flags before/after; sustains crossing tempo changes; "
        "tracks whose longest sustain is not on the last note; judged: sustain value, longest_sustain, end_tick, end_timestamp = the implementation's own query at end_tick >= start, "
        "last_note_end_timestamp = max end. Non-trivial: some group has >= 2 lanes with different lengths, or a flag line with non-zero length, or a sustain crossing a tempo change; distinct by text")
ASSUMPTIONS = ["each lane index occurs at most once per tick and an open line is not combined with lane lines (the property's per-lane 'written length')",
               "the un-hinted query used as the reference for end timestamps is the implementation's own (tied to exact time by C01 and to the model by C11)"]
IN_TYPE = "(C03_aux * %s)" % PARSE_IN
VERDICT = "fun i o => parse_verdict cfg (snd i) o"
SPEC = "fun i o => C03_spec (fst i) o"


def make_case(R, tm, groups, lines, layout=None):
    text = laid_out(chart_text(res=R, sync=["0 = TS 4"] + tempo_lines(tm), tracks=[("ExpertSingle", lines)]), layout)
    ch, exc, out = parse_case(text)
    les, qs, last = [], [], "None"
    crossing = False
    if ch is not None:
        import chartparse.instrument as I
        tr = ch[I.Instrument.GUITAR][I.Difficulty.EXPERT]
        be = ch.sync_track.bpm_events
        seen = set()
        for e in tr.note_events:
            try:
                les.append("(%s, %s)" % (coq_Z(e.longest_sustain), coq_Z(e.end_tick)))
            except Exception:  # noqa: BLE001
                les.append("(-1, -1)")
        for g in groups:
            opens = [l for i, l in g["lines"] if i == 7]
            vals = [l for i, l in g["lines"] if i < 5]
            et = g["tick"] + (opens[0] if opens else (max(vals) if vals else 0))     # an open line decides, wherever it stands
            if any(g["tick"] < t <= et for t, _ in tm):
                crossing = True
            for t in (g["tick"], et):
                if t not in seen:
                    seen.add(t)
                    qs.append("(%s, %s)" % (coq_Z(t), r_qres(lambda t=t: be.timestamp_at_tick(t))))
        try:
            v = tr.last_note_end_timestamp
            last = coq_option(None if v is None else pyval.us(v), coq_Z)
        except Exception:  # noqa: BLE001
            last = "(Some (-1))"
    gterm = coq_list("(%s, %s)" % (coq_Z(g["tick"]), coq_list("(%s, %s)" % (coq_Z(i), coq_Z(l)) for i, l in g["lines"])) for g in groups)
    diff = any(len({l for i, l in g["lines"] if i < 5}) >= 2 for g in groups)
    flaglen = any(l > 0 for g in groups for i, l in g["lines"] if i in (5, 6))
    return dict(case=dict(R=R, tm=[list(x) for x in tm], groups=groups, lines=lines, layout=layout, text=text),
                in_term="((true, %s, %s, %s, %s), %s)" % (gterm, coq_list(les), coq_list(qs), last, parse_in_term(text)),
                out_term=out, nontrivial=diff or flaglen or crossing,
                tags=["different_lengths" if diff else "uniform", "flag_len" if flaglen else "flag0", "crossing" if crossing else "no_crossing",
                      "impl_error" if exc is not None else "impl_ok"],
                signature="C03:" + key_of(text))


def G(t, lines, tap=False, forced=False):
    return dict(tick=t, lines=lines, tap=tap, forced=forced)


def fixed_cases():
    R = 192
    tm = [(0, 120000), (400, 60000), (2000, 240000)]
    out = []
    g = [G(0, [(0, 1536)]), G(192, [(1, 0)]), G(384, [(2, 0)])]
    out.append((R, tm, g))
    g = [G(0, [(0, 10)]), G(192, [(1, 96), (5, 480)], forced=True), G(300, [(6, 999), (7, 50)], tap=True), G(400, [(5, 0), (7, 70)], forced=True)]
    out.append((R, tm, g))
    g = [G(10, [(0, 5), (1, 5), (2, 5), (3, 5), (4, 77)]), G(20, [(4, 30), (0, 0)]), G(30, [(0, 0), (4, 0)]), G(5000, [(2, 3)])]
    out.append((R, tm, g))
    out.append((R, tm, []))
    g = [G(192, [(0, 96), (7, 96)]), G(384, [(1, 0)]), G(500, [(2, 5)])]
    out.append((R, tm, g))
    g = [G(10, [(3, 40), (4, 50), (7, 0)]), G(20, [(4, 0)])]
    out.append((R, tm, g))
    return [(R, tm, g, ["%d = N %d %d" % (x["tick"], i, l) for x in g for i, l in x["lines"]]) for R, tm, g in out]


def cases(ctx, n):
    rng = ctx["rng"]
    out = [make_case(*f) for f in fixed_cases()]
    for c in load_corpus("C03"):
        out.append(make_case(c["R"], [tuple(x) for x in c["tm"]], c["groups"], c["lines"], c.get("layout")))
    while len(out) < n:
        R = rng.choice([192, 192, 480, 100, 7])
        groups = ig.gen_groups(rng, R, rng.choice([1, 2, 3, 5, 9]), flag_len=True)
        if rng.random() < 0.25 and len(groups) >= 2:
            # an "open chord": lane lines with lengths plus an open line at one tick; the NEXT note must be unaffected
            k = rng.randrange(len(groups) - 1)
            groups[k]["lines"] = [(rng.randrange(5), rng.choice([R, 96, 7])), (7, rng.choice([0, 96]))]
        if rng.random() < 0.3 and len(groups) >= 3:
            # a long sustain held under later short notes
            groups[0]["lines"] = [(i, 20 * R) if i < 5 or i == 7 else (i, l) for i, l in groups[0]["lines"]]
        lines = ig.section_lines(rng, groups, R, sp=rng.random() < 0.5, tev=False)
        if rng.random() < 0.3:
            # numerals with leading zeros / non-ASCII digits: the written length is the VALUE of the numeral
            lines = [(ig.zero_pad(rng, l) if rng.random() < 0.6 else ig.exotic_line(rng, l)) if rng.random() < 0.6 else l for l in lines]
        tm = ig.gen_tempo(rng, R, groups[-1]["tick"] + 2 * R)
        out.append(make_case(R, tm, groups, lines, pick_layout(rng)))
    return out


def run(ctx, only=None):
    if only:
        cs = [make_case(c["R"], [tuple(x) for x in c["tm"]], c["groups"], c["lines"], c.get("layout")) for c in only if c]
    else:
        cs = cases(ctx, 200 if ctx["tier"] == "quick" else 5000)
    return run_cases("C03", cs, IN_TYPE, PARSE_OUT, VERDICT, SPEC, shard_size=25)


def search(ctx, result):
    cs = cases(ctx, 1000)
    r = run_cases("C03s", cs, IN_TYPE, PARSE_OUT, VERDICT, SPEC, shard_size=25)
    return dict(viol=r["viol"], evaluations=r["evaluations"], note="re-sampled %d cases" % len(cs))
