"""C06 — sections are framed and routed to the right parser and track key."""
from __future__ import annotations

import io
import os
import shutil
import tempfile

from .common import *   # noqa: F401,F403
from . import instr_gen as ig

LEAF = ['Leaf_chart', 'Leaf_fromfile', 'Leaf_meta', 'Leaf_dispatch', 'Leaf_tracks']      # translated functions this property's model relies on (Tie/<name>.v)
RULE = ("a base chart (Song, SyncTrack, Events (sometimes empty) and a random subset (sometimes with one part copied line for line into another section) of the 40 '<Difficulty><Instrument>' sections; every header is used as a singleton in thorough) is rendered in variants: "
        "random permutations of the sections, LF or CRLF line endings, with or without a UTF-8 byte-order mark (written to a real temporary file and read by Chart.from_filepath) or through "
        "Chart.from_file(StringIO); by-path files carry non-ASCII text (2-, 3- and 4-byte sequences) and a stream of them is damaged into invalid UTF-8 (0xFF byte, overlong form, surrogate, stray continuation, truncated sequence: ValueError on both sides); unknown sections inserted anywhere (names that merely start with a valid header such as ExpertSingleBackup, names with blanks, bodies containing header-like "
        "lines at column 0, other sections' lines, indented braces), each required section removed in turn; judged against the implementation's parse of the canonical rendering: equal metadata / "
        "sync / events, tracks equal as a finite map stored under exactly the expected (instrument, difficulty) keys and labelled with them, chartparse.chart log = one record per unknown "
        "section, ValueError when a required section is missing; a few by-path files are larger than a read block with their first non-ASCII character straddling a 4 / 8 / 64 KiB boundary; the section names are the DOCUMENTED ones (not read back from the implementation); the canonical rendering itself must parse, log nothing and yield one event per body line. Non-trivial: every variant that differs from the canonical rendering; distinct by (text, mode)")
ASSUMPTIONS = ["by path the model starts from the file's BYTES: utf-8-sig decoding is the hand-written codec model Base/Utf8.v (proved a bijection on valid UTF-8), compared with CPython's codec on every by-path case incl. undecodable files; through from_file(StringIO) it starts from code points",
               "section names are distinct, non-empty and free of line breaks; no body line is exactly '{' or '}' (the property's well-formed files)"]

IN_TYPE = "(C06_aux * C06_in)"
VERDICT = "fun i o => C06_verdict cfg (snd i) o"
B_IN_TYPE = "(C06_aux * C06b_in)"
B_VERDICT = "fun i o => C06b_verdict cfg (snd i) o"
SPEC = "fun i o => C06_spec (fst i) o"

INSTR = ["Single", "DoubleGuitar", "DoubleBass", "DoubleRhythm", "Drums", "Keyboard", "GHLGuitar", "GHLBass", "GHLRhythm", "GHLCoop"]
DIFF = ["Easy", "Medium", "Hard", "Expert"]


def instr_diff():
    """The DOCUMENTED instrument and difficulty names (Moonscraper's section names), not the ones read back from the implementation:
    a misspelt enum value must show as a section that is no longer routed."""
    return list(INSTR), list(DIFF)


def render(secs, nl):
    out = []
    for tag, body in secs:
        out.append("[%s]" % tag)
        out.append("{")
        out.extend(body)
        out.append("}")
    return nl.join(out) + nl


UNKNOWN_TAGS = ["Foo", "ExpertSingleBackup", "HardDrumsOld", "x y", "Expert Single", "expertsingle", "Song2", "EventsX", "ExpertSingle ", " ExpertSingle", "]", "[", "a]b", "ExpertGHLCoopX"]
UNKNOWN_BODIES = [
    [], ["  0 = N 0 0", "  10 = N 1 0"], ["[Events]", '  100 = E "section Bogus"'], ["[ExpertSingle]", "  100 = N 0 0", "  200 = N 1 0"], ["[Song]", "  Resolution = 1"],
    ["  {", "  }", " }", "{ "], ["[v2]"], ["garbage", "", "  "], ["  Name = \"x\"", "  0 = B 1"], ["[SyncTrack]", "  0 = B 60000"],
    ["~ tilde", "}}", "歌 = x", "} trailing"], ["}x", "{x", "|", "\x7f"],
]


def file_bytes(text, bom, damage=None):
    data = text.encode("utf-8")
    if damage is not None:
        kind, pos = damage
        pos = pos % (len(data) + 1)
        if kind == "ff":
            data = data[:pos] + b"\xff" + data[pos:]
        elif kind == "overlong":
            data = data[:pos] + b"\xc0\xaf" + data[pos:]
        elif kind == "surrogate":
            data = data[:pos] + b"\xed\xa0\x80" + data[pos:]
        elif kind == "cont":
            data = data[:pos] + b"\x80" + data[pos:]
        else:   # truncate the last (multi-byte) character of the file's non-ASCII title
            i = data.find("歌".encode("utf-8"))
            data = data[:i + 2] + data[i + 3:] if i >= 0 else data + b"\xe6\xad"
    if bom:
        data = b"\xef\xbb\xbf" + data
    return data


def run_impl(text, by_path, bom, want, tmpdir, damage=None):
    import chartparse.chart as chart_mod
    if not by_path:
        return parse_case(text, want)
    path = os.path.join(tmpdir, "c.chart")
    data = file_bytes(text, bom, damage)
    with open(path, "wb") as f:
        f.write(data)
    with pyval.capture_logs() as cap:
        try:
            c = chart_mod.Chart.from_filepath(path, want_tracks=pyval.to_pairs(want))
            exc = None
        except Exception as e:  # noqa: BLE001
            c, exc = None, e
    if exc is not None:
        return None, exc, "(Err %s)" % pyval.errkind(exc)
    return c, None, "(Ok (%s, %s))" % (pyval.r_chart(c), cap.rendered())


def make_case(base_secs, variant, tmpdir):
    """variant: dict(order, nl, bom, by_path, unknown=[(pos, tag, body)], remove=tag|None)"""
    canon = render(base_secs, "\n")
    ch0, exc0, out0 = parse_case(canon)
    secs = [base_secs[i] for i in variant["order"]]
    if variant.get("remove"):
        secs = [s for s in secs if s[0] != variant["remove"]]
    for pos, tag, body in variant.get("unknown", []):
        secs.insert(min(pos, len(secs)), (tag, body))
    text = render(secs, variant["nl"])
    if variant.get("straddle") and "Filler" in [t for t, _ in secs]:
        # size the filler section (an unknown section in front) so that a multi-byte character of the file straddles a block
        # boundary of 4 / 8 / 64 KiB: its first byte is the last byte of a block
        B = variant["straddle"]
        i = next((k for k, ch_ in enumerate(text) if ord(ch_) > 0x7F), None)
        if i is not None:
            before = len(text[:i].encode("utf-8")) + (3 if variant["bom"] else 0)
            pad = (B - 1 - before) % B
            per = 64
            body = []
            nlw = len(variant["nl"])
            while pad >= nlw + 1:
                k = min(pad, per)
                if 0 < pad - k < nlw + 1:
                    k -= nlw + 1
                body.append("y" * (k - nlw))
                pad -= k
            secs = [(t, body if t == "Filler" else b) for t, b in secs]
            variant = dict(variant, unknown=[(p_, t, body if t == "Filler" else b) for p_, t, b in variant["unknown"]])
            text = render(secs, variant["nl"])
    damage = variant.get("damage")
    ch, exc, out = run_impl(text, variant["by_path"], variant["bom"], None, tmpdir, damage)
    decoded = ("﻿" if (variant["by_path"] and variant["bom"]) else "") + text
    ivals, dvals = instr_diff()
    keys = []
    for tag, _ in base_secs:
        for i in ivals:
            for d in dvals:
                if tag == d + i:
                    keys.append((i, d))
    def n_events(tag, body):
        if tag == "Song":
            return 0
        if tag in ("SyncTrack", "Events"):
            return len(body)
        return len({l.split(" = ")[0].strip() for l in body if " = N " in l}) + sum(1 for l in body if " = S " in l or " = E " in l)
    last = {}
    for tag, body in base_secs:
        last[tag] = body          # a section written twice denotes its later copy
    n_ev = sum(n_events(t, b) for t, b in last.items())
    import re as _re
    song_name = ""
    for l in last.get("Song", []):
        m_ = _re.match(r'^\s*Name = "(.*)"\s*$', l)
        if m_:
            song_name = m_.group(1)
            break
    aux = "(%s, %s, %s, %s, %s, %s)" % (out0, coq_list(coq_str(t) for _, t, _ in variant.get("unknown", [])),
                                        coq_list("(%s, %s)" % (coq_str(i), coq_str(d)) for i, d in keys), coq_bool(bool(variant.get("remove")) or damage is not None), coq_Z(n_ev), coq_str(song_name))
    if variant["by_path"]:
        # by path the model starts from the BYTES of the file (utf-8-sig codec, universal newlines)
        inp = "(%s, None)" % coq_list("%d%%N" % b for b in file_bytes(text, variant["bom"], damage))
    else:
        inp = "(%s, %s, None)" % (coq_bool(False), coq_str(decoded))
    trivial = variant["order"] == list(range(len(base_secs))) and variant["nl"] == "\n" and not variant["bom"] and not variant.get("unknown") and not variant.get("remove")
    return dict(case=dict(base=[[t, b] for t, b in base_secs], variant=variant, text=text),
                in_term="(%s, %s)" % (aux, inp), out_term=out, nontrivial=not trivial,
                tags=["nl=" + ("CRLF" if variant["nl"] == "\r\n" else "LF"), "bom" if variant["bom"] else "nobom", "path" if variant["by_path"] else "stringio",
                      "unknown=%d" % len(variant.get("unknown", [])), "removed" if variant.get("remove") else "complete",
                      "undecodable" if damage is not None else "decodable",
                      "impl_error" if exc is not None else "impl_ok"],
                signature="C06:" + key_of([text, variant["by_path"], variant["bom"]]))


def base_chart(rng, headers):
    R = 192
    secs = [("Song", ["  Name = \"Beyoncé 歌 ́\"", "  Resolution = %d" % R, "  Player2 = bass"]),
            ("SyncTrack", ["  0 = TS 4", "  0 = B 120000", "  0 = A 0", "  768 = B 90000", "  768 = A 3500000", "  768 = TS 3 3"]),
            # an [Events] section that is present but empty is a perfectly good required section
            ("Events", ['  0 = E "section a"', '  100 = E "lyric b"', '  200 = E "c"'] if rng.random() < 0.8 else [])]
    for k, h in enumerate(headers):
        groups = ig.gen_groups(rng, R, rng.choice([0, 1, 3]) or 1)
        lines = ["  " + l for l in ig.section_lines(rng, groups, R, junk=False)]
        secs.append((h, lines if rng.random() < 0.9 else []))
    if len(headers) >= 2 and rng.random() < 0.35:
        # a part copied line for line into another section (another instrument or difficulty): still a track of its own
        a, b = rng.sample(range(3, len(secs)), 2)
        secs[b] = (secs[b][0], list(secs[a][1]))
    return secs


def gen_variant(rng, n):
    order = list(range(n))
    if rng.random() < 0.7:
        rng.shuffle(order)
    by_path = rng.random() < 0.6
    v = dict(order=order, nl=rng.choice(["\n", "\r\n"]), bom=by_path and rng.random() < 0.5, by_path=by_path, unknown=[], remove=None)
    r = rng.random()
    if r < 0.45:
        for _ in range(rng.randint(1, 3)):
            tag = rng.choice(UNKNOWN_TAGS)
            if tag in [t for _, t, _ in v["unknown"]]:
                continue
            v["unknown"].append((rng.randint(0, n + 2), tag, rng.choice(UNKNOWN_BODIES)))
    elif r < 0.55:
        v["remove"] = rng.choice(["Song", "SyncTrack", "Events"])
    elif r < 0.65 and by_path:
        # invalid UTF-8 somewhere in the file: UnicodeDecodeError, a ValueError
        v["damage"] = [rng.choice(["ff", "overlong", "surrogate", "cont", "truncate"]), rng.randrange(10 ** 6)]
    elif r < 0.75 and by_path:
        # a file larger than a read block whose first non-ASCII character straddles the block boundary
        v["straddle"] = rng.choice([4096, 4096, 8192, 65536])
        v["unknown"] = [(0, "Filler", [])]
    return v


def cases(ctx, n, tmpdir):
    rng = ctx["rng"]
    ivals, dvals = instr_diff()
    all_headers = [d + i for i in ivals for d in dvals]
    out = []
    for c in load_corpus("C06"):
        out.append(make_case([tuple(x) for x in c["base"]], c["variant"], tmpdir))
    # the two seeded shapes: prefix-named unknown section after the genuine one; header-like body line at column 0
    b = base_chart(rng, ["ExpertSingle"])
    out.append(make_case(b, dict(order=[0, 1, 2, 3], nl="\n", bom=False, by_path=False, unknown=[(4, "ExpertSingleBackup", ["  100 = N 0 0", "  200 = N 1 0"])], remove=None), tmpdir))
    out.append(make_case(b, dict(order=[0, 1, 2, 3], nl="\n", bom=False, by_path=False, unknown=[(4, "Foo", ["[Events]", '  100 = E "section Bogus"'])], remove=None), tmpdir))
    singles = list(all_headers)
    rng.shuffle(singles)
    if ctx["tier"] == "quick":
        singles = singles[:8]
    for h in singles:
        b = base_chart(rng, [h])
        out.append(make_case(b, gen_variant(rng, len(b)), tmpdir))
    while len(out) < n:
        hs = rng.sample(all_headers, rng.choice([0, 1, 2, 3, 5]))
        b = base_chart(rng, hs)
        out.append(make_case(b, gen_variant(rng, len(b)), tmpdir))
    return out


def run(ctx, only=None):
    tmpdir = tempfile.mkdtemp(prefix="c06_", dir=os.path.join(VERIF, "work"))
    try:
        if only:
            cs = [make_case([tuple(x) for x in c["base"]], c["variant"], tmpdir) for c in only if c]
        else:
            cs = cases(ctx, 130 if ctx["tier"] == "quick" else 4000, tmpdir)
    finally:
        shutil.rmtree(tmpdir, ignore_errors=True)
    return split_run("C06", cs)


def split_run(name, cs):
    a = [c for c in cs if not c["case"]["variant"]["by_path"]]
    b = [c for c in cs if c["case"]["variant"]["by_path"]]
    return merge([run_cases(name, a, IN_TYPE, PARSE_OUT, VERDICT, SPEC, shard_size=12),
                  run_cases(name + "b", b, B_IN_TYPE, PARSE_OUT, B_VERDICT, SPEC, shard_size=10)])


def search(ctx, result):
    tmpdir = tempfile.mkdtemp(prefix="c06_", dir=os.path.join(VERIF, "work"))
    try:
        cs = cases(ctx, 600, tmpdir)
    finally:
        shutil.rmtree(tmpdir, ignore_errors=True)
    r = split_run("C06s", cs)
    return dict(viol=r["viol"], evaluations=r["evaluations"], note="re-sampled %d cases" % len(cs))


DIAG = """From CP Require Import Base.Prelude Base.Cfg Spec.RefRegex Spec.ChartSpec Gen.Src.
Eval vm_compute in map fst (filter (fun p => negb (snd p)) (chart_items cfg)).
"""
