"""Shared helpers of the per-property correspondence modules."""
from __future__ import annotations

import hashlib
import json
import os
import sys

sys.path.insert(0, os.path.dirname(os.path.dirname(os.path.abspath(__file__))))
import corr      # noqa: E402
import pyval     # noqa: E402
from coqfmt import coq_str, coq_Z, coq_N, coq_bool, coq_list, coq_option, coq_float  # noqa: E402

VERIF = corr.VERIF
CORPUS = os.path.join(VERIF, "corpus")

PARSE_IN = "(str * option (list (str * str)))"
PARSE_OUT = "(result (chart * list log))"
H_IMPORT = "From CP Require Import Harness.H.\n"


def chart_text(res=192, song=None, sync=None, events=None, tracks=None, nl="\n", indent="  ", order=None, extra_sections=None):
    """Assemble a .chart text.  tracks: list of (header, [lines]).  Lines are given without indent."""
    secs = {}
    song_lines = list(song) if song is not None else []
    if res is not None:
        song_lines = song_lines + ["Resolution = %s" % res]
    secs["Song"] = song_lines
    secs["SyncTrack"] = list(sync) if sync is not None else ["0 = TS 4", "0 = B 120000"]
    secs["Events"] = list(events) if events is not None else []
    names = ["Song", "SyncTrack", "Events"]
    for h, ls in (tracks or []):
        secs[h] = list(ls)
        names.append(h)
    for h, ls in (extra_sections or []):
        secs[h] = list(ls)
        names.append(h)
    if order is not None:
        names = order
    out = []
    for n in names:
        out.append("[%s]" % n)
        out.append("{")
        out.extend(indent + l for l in secs[n])
        out.append("}")
    return nl.join(out) + nl


def tempo_lines(tm):
    """tm: list of (tick, n) -> B lines."""
    return ["%d = B %d" % (t, n) for t, n in tm]


def load_corpus(pid):
    d = os.path.join(CORPUS, pid)
    out = []
    if os.path.isdir(d):
        for fn in sorted(os.listdir(d)):
            if fn.endswith(".json"):
                out.append(json.load(open(os.path.join(d, fn))))
    return out


def key_of(obj) -> str:
    return hashlib.sha256(json.dumps(obj, sort_keys=True, default=str).encode()).hexdigest()[:16]


def run_cases(name, cases, in_type, out_type, verdict, spec, *, defs="", extra_imports=H_IMPORT, shard_size=40, jobs=None, timeout=1500):
    """cases: list of dicts with keys case (JSON-able description, enough to rebuild the input),
    in_term, out_term, nontrivial (bool), tags (list of str, for the distribution).
    Returns the result dict the driver expects."""
    pairs = [(c["in_term"], c["out_term"]) for c in cases]
    r = corr.run_shards(name, in_type, out_type, verdict, spec, pairs, extra_imports=extra_imports, defs=defs,
                        shard_size=shard_size, jobs=jobs, timeout=timeout) if pairs else dict(mism=[], declined=[], viol=[], errors=[], shards=0, wall_s=0)
    seen = set()
    distinct = 0
    dist = {}
    for c in cases:
        k = key_of(c["case"])
        for t in c.get("tags", []):
            dist[t] = dist.get(t, 0) + 1
        if k in seen:
            continue
        seen.add(k)
        if c.get("nontrivial"):
            distinct += 1

    def brief(c):
        return dict(case=c["case"], observed=c["out_term"][:4000], signature=c.get("signature", ""), detail=c.get("detail"))

    return dict(
        evaluations=len(cases), distinct_nontrivial=distinct,
        mism=[brief(cases[i]) for i in r["mism"]],
        viol=[brief(cases[i]) for i in r["viol"]],
        declined=len(r["declined"]), errors=r["errors"],
        samples=[c["case"] for c in cases[:: max(1, len(cases) // 4)]][:5],
        distribution=dist, shards=r["shards"], corr_wall_s=r["wall_s"],
        obligations=[("correspondence: %d cases in %d vm_compute shards evaluated without error" % (len(cases), r["shards"]), not r["errors"], r["errors"][:2] or None),
                     ("correspondence: model = implementation on every case (%d declined by the model)" % len(r["declined"]), not r["mism"], None),
                     ("executable specification holds of the implementation's own output on every case", not r["viol"], None)],
    )


def merge(results):
    out = dict(evaluations=0, distinct_nontrivial=0, mism=[], viol=[], declined=0, errors=[], samples=[], distribution={}, obligations=[])
    for r in results:
        out["evaluations"] += r["evaluations"]
        out["distinct_nontrivial"] += r["distinct_nontrivial"]
        out["mism"] += r["mism"]
        out["viol"] += r["viol"]
        out["declined"] += r.get("declined", 0)
        out["errors"] += r["errors"]
        out["samples"] += r.get("samples", [])[:3]
        for k, v in r.get("distribution", {}).items():
            out["distribution"][k] = out["distribution"].get(k, 0) + v
        out["obligations"] += r.get("obligations", [])
    return out


def parse_case(text, want=None):
    """Run the implementation on a text; returns (chart|None, exc|None, out_term)."""
    return pyval.parse_text(text, want)


def parse_in_term(text, want=None):
    return "(%s, %s)" % (coq_str(text), pyval.r_want(want))


def regex_witnesses():
    """UNTRUSTED search (Base/RegexDiff.v) for strings accepted by exactly one of (regenerated regex, reference regex),
    for the nine line kinds and the metadata fields.  Returns a list of Python strings (possibly empty)."""
    import re as _re
    import driver
    body = ("From CP Require Import Base.Prelude Base.Str Base.Regex Base.Cfg Base.RegexDiff Spec.RefRegex Gen.Src.\n"
            "Eval vm_compute in map (fun k => diff_witness (tbl cfg) (re_of_kind cfg k) (ref_of_kind k)) "
            "[KNote; KSP; KTev; KBpm; KTs; KAnchor; KText; KSection; KLyric].\n"
            "Eval vm_compute in map (fun f => diff_witness (tbl cfg) (mf_re f) (ref_meta (mf_pascal f) (mf_kind f))) (meta_fields cfg).\n")
    try:
        rc, out = driver.run_coq_snippet("rdiff", body, timeout=600)
    except Exception:  # noqa: BLE001
        return []
    if rc != 0:
        return []
    ws = []
    for m in _re.finditer(r"Some\s*\[([^\]]*)\]", out):
        cps = [int(x) for x in _re.findall(r"(\d+)%N", m.group(1))]
        try:
            ws.append("".join(chr(c) for c in cps))
        except ValueError:
            pass
    return ws


def all_headers():
    """The 40 '<Difficulty><Instrument>' section names, read from the package's enums."""
    import chartparse.instrument as I
    return [d.value + i.value for i in I.Instrument for d in I.Difficulty]


def pick_header(rng, p_default=0.5):
    """'ExpertSingle' or, with probability 1 - p_default, any of the 40 instrument sections (note decoding must not
    depend on which instrument the section belongs to)."""
    return "ExpertSingle" if rng.random() < p_default else rng.choice(all_headers())


OTHER_BREAKS = ["\x0b", "\x0c", "\x1c", "\x1d", "\x1e", "\x85", "\u2028", "\u2029", "\r", "\r\n"]


def vary_layout(rng, text, p=0.4, blanks=True):
    """The same chart written differently (a parse must not depend on it): CRLF line ends (the text reaches from_file through a
    StringIO untranslated), other str.splitlines() boundaries between lines, blank / white-space-only lines inside section bodies.
    With probability 1 - p the text is returned unchanged.  Blank lines add warnings, so callers that judge the log pass
    blanks=False."""
    if rng.random() >= p:
        return text
    lines = text.split("\n")
    trailing = lines and lines[-1] == ""
    if trailing:
        lines = lines[:-1]
    mode = rng.choice(["crlf", "breaks", "blanks", "blanks", "mixed", "indent", "indent"] if blanks else ["crlf", "breaks", "mixed", "indent"])
    if mode == "indent":
        # body lines indented differently (not at all, a tab, one blank, four blanks): the recognisers allow any leading white space
        how = rng.choice(["none", "tab", "mixed"])
        def re_indent(l):
            if not l.startswith("  ") or l.strip() in ("{", "}"):
                return l
            return {"none": "", "tab": "\t", "mixed": rng.choice(["", "\t", " ", "    ", "  "])}[how] + l[2:]
        lines = [re_indent(l) for l in lines]
    if blanks and mode in ("blanks", "mixed"):
        out = []
        depth = 0
        for l in lines:
            out.append(l)
            if l == "{":
                depth = 1
            elif l == "}":
                depth = 0
            if depth and rng.random() < 0.12:
                out.append(rng.choice(["", "  ", "\t", "   "]))
        lines = out
    if mode == "crlf":
        sep = lambda: "\r\n"            # noqa: E731
    elif mode in ("breaks", "mixed"):
        sep = lambda: rng.choice(OTHER_BREAKS) if rng.random() < 0.25 else "\n"      # noqa: E731
    else:
        sep = lambda: "\n"               # noqa: E731
    return "".join(l + sep() for l in lines[:-1]) + (lines[-1] + (sep() if trailing else "") if lines else "")


def pick_layout(rng, p=0.35):
    """None (the text as assembled) or a seed for [laid_out]."""
    return rng.randrange(10 ** 9) if rng.random() < p else None


def laid_out(text, layout, blanks=True):
    import random as _random
    return text if layout is None else vary_layout(_random.Random(layout), text, p=1.0, blanks=blanks)


def align_line_end(rng, text, boundary, after="[ExpertSingle]", encode=False):
    """Insert an unknown section of filler lines in front of the file so that a line end inside the section `after` falls EXACTLY on
    offset `boundary` (in characters, or in UTF-8 bytes with encode=True): readers that work in blocks (4 KiB, 8 KiB, 64 KiB) must not
    care where a block ends.  (The filler is an unrecognised section: reported once, never parsed.)  Returns the text unchanged
    when it cannot be aligned."""
    if after not in text:
        return text
    size = (lambda s: len(s.encode("utf-8"))) if encode else len
    start = text.index(after)
    ends = [i + 1 for i in range(start, len(text)) if text[i] == "\n"]
    ends = ends[2:-1] or ends
    if not ends:
        return text
    e = rng.choice(ends)
    frame = "[Filler]\n{\n}\n"
    pad = boundary - size(text[:e]) - len(frame)
    if pad < 2:
        return text
    body = []
    while pad > 0:
        k = min(pad, 64)
        if pad - k == 1:
            k -= 1
        body.append("y" * (k - 1) + "\n")
        pad -= k
    return "[Filler]\n{\n" + "".join(body) + "}\n" + text


DIGIT_ZEROS = [0x660, 0xFF10, 0x966, 0x6F0]


def respell_digits(rng, line, p=0.7):
    """The same line with its decimal numerals written in another script (Arabic-Indic, fullwidth, Devanagari, ...): `\\d` and int()
    read them as the same numbers."""
    import re as _re
    z = rng.choice(DIGIT_ZEROS)
    return _re.sub(r"[0-9]+", lambda m: "".join(chr(z + int(c)) for c in m.group(0)) if rng.random() < p else m.group(0), line)
