"""C01 — event timestamps equal the exact tempo-map time of their tick."""
from __future__ import annotations

from .common import *   # noqa: F401,F403
from . import C11 as c11
from . import instr_gen as ig

LEAF = ['Leaf_tick', 'Leaf_query', 'Leaf_bpm', 'Leaf_timed', 'Leaf_note', 'Leaf_build', 'Leaf_dispatch', 'Leaf_tracks', 'Leaf_chart', 'Leaf_fromfile', 'Leaf_meta']      # translated functions this property's model relies on (Tie/<name>.v)
RULE = ("(a) tempo maps: resolution in {1,2,3,7,96,100,192,480,960,random<=10^6}, 1-40 segments (thorough: up to 400), n in {1,999,1000,1001,1118,20548,117000,120000,129200,10^9,random}, "
        "gaps in {1,2,R/3,R,10^5}; queried through bpm_events.timestamp_at_tick(t): 0, every boundary, boundary+-1, far past the end, random; judged inside Coq against the exact rational "
        "time: |us - exact| <= (segments traversed) * (1/2 us + 1 ns), index = last event at or before the tick, tick 0 -> 0 exactly; "
        "(b) whole charts carrying all eight kinds of timed point (tempo, time-signature, text/section/lyric, note start, sustain end, star-power, track event) with sustains crossing tempo changes, "
        "incl. maps whose tempo changes lie beyond 24 h: every stored timestamp judged the same way. Non-trivial: >= 2 segments traversed, or odd resolution, or a tick shorter than 1 us; distinct by input")
ASSUMPTIONS = ["the one-nanosecond-per-segment float slack (interpretation I1 of DESIGN.md section 8) is part of the bound; it is proved (dur_acc), not assumed",
               "queries outside the property's quantifier (time above 10^6 s, n outside 1..10^9) are compared model-vs-implementation only"]

Q_IN, Q_OUT = "C11q_in", "C11q_out"
Q_VERDICT = "fun i o => C11q_verdict cfg i o"
Q_SPEC = "fun i o => C01q_spec cfg i o"
C_IN = "((bool * Z * list (Z * Z) * option (list Z)) * %s)" % PARSE_IN
C_VERDICT = "fun i o => parse_verdict cfg (snd i) o"
C_SPEC = "fun i o => C01c_spec (fst i) o"

NS = [1, 999, 1000, 1001, 1118, 20548, 117000, 120000, 129200, 128700, 64100, 10 ** 9]


def gen_tm(rng, maxseg):
    R = rng.choice([1, 2, 3, 7, 96, 100, 192, 192, 480, 960, rng.randint(1, 10 ** 6)])
    k = rng.choice([1, 2, 3, 5, 8, 13, 25, maxseg])
    tm = []
    t = 0
    for _ in range(k):
        tm.append((t, rng.choice(NS + [rng.randint(1, 400000), rng.randint(1, 10 ** 9)])))
        t += rng.choice([1, 2, max(1, R // 3), R, 4 * R, 10 ** 5])
    return R, tm


def make_q(R, tm, ticks, direct=False):
    """direct: the time is read through timestamp_at_tick_no_optimize_return (C12's observation point), the index through the hinted query."""
    import io
    import chartparse.chart as chart_mod
    text = chart_text(res=R, sync=["0 = TS 4"] + tempo_lines(tm))
    qs = [(t, 0) for t in ticks]
    try:
        ch = chart_mod.Chart.from_file(io.StringIO(text, newline=""))
        be = ch.sync_track.bpm_events
        if direct:
            outs = [c11.r_qres(lambda t=t: (be.timestamp_at_tick_no_optimize_return(t), be.timestamp_at_tick(t)[1])) for t, _ in qs]
        else:
            outs = [c11.r_qres(lambda t=t: be.timestamp_at_tick(t)) for t, _ in qs]
        out = "(Ok %s)" % coq_list(outs)
    except Exception as e:  # noqa: BLE001
        out = "(Err %s)" % pyval.errkind(e)
    return dict(case=dict(kind="query", R=R, tm=[list(x) for x in tm], ticks=ticks, direct=direct),
                in_term="(%s, %s)" % (c11.tm_term(R, tm), coq_list("(%s, %s)" % (coq_Z(t), coq_Z(h)) for t, h in qs)),
                out_term=out, nontrivial=len(tm) >= 2 or R % 2 == 1,
                tags=["q:segments=%d" % min(len(tm), 10), "q:R_odd" if R % 2 else "q:R_even"], signature="C01q:" + key_of([R, tm, ticks]))


def q_cases(ctx, n, maxseg):
    rng = ctx["rng"]
    out = []
    for c in load_corpus("C01"):
        if c.get("kind") == "query":
            out.append(make_q(c["R"], [tuple(x) for x in c["tm"]], c["ticks"]))
    # tempo changes beyond 24 hours (1.000 BPM at resolution 1: one tick = 60 s)
    out.append(make_q(1, [(0, 1000), (1500, 120000), (1600, 129200)], [0, 1, 1439, 1440, 1441, 1499, 1500, 1501, 1600, 1601, 5000]))
    out.append(make_q(192, [(0, 129200), (3072, 128700), (6144, 64100)], [0, 3071, 3072, 3073, 6144, 7000, 100000]))
    while len(out) < n:
        R, tm = gen_tm(rng, maxseg)
        ticks = {0, tm[-1][0] + rng.choice([1, 1000, 10 ** 6])}
        for t, _ in tm:
            ticks.update([t - 1, t, t + 1])
        ticks = sorted(x for x in ticks if x >= 0)
        if len(ticks) > 14:
            ticks = sorted(set(rng.sample(ticks, 12) + [0, tm[-1][0]]))
        ticks = sorted(set(ticks + [rng.randint(0, tm[-1][0] + 50)]))
        out.append(make_q(R, tm, ticks))
    return out


def make_c(R, tm, rng):
    end = tm[-1][0] + 4 * R + 10
    def ticks(k):
        c = sorted(rng.randint(0, end) for _ in range(k))
        if len(tm) > 1:
            c = sorted(c + [rng.choice(tm)[0]])
        return c
    sync = ["0 = TS 4"] + ["%d = TS %d %d" % (t, rng.randint(1, 9), rng.randint(0, 4)) for t in ticks(2) if t > 0] + tempo_lines(tm)
    ev = ['%d = E "section s%d"' % (t, i) for i, t in enumerate(ticks(2))] + ['%d = E "lyric l%d"' % (t, i) for i, t in enumerate(ticks(2))] + ['%d = E "t%d"' % (t, i) for i, t in enumerate(ticks(2))]
    body = []
    for i, t in enumerate(sorted(set(ticks(6)))):
        ln = rng.choice([0, R // 2, 3 * R, tm[-1][0] + 5])
        body.append("%d = N %d %d" % (t, i % 5, ln))
        if i > 0 and rng.random() < 0.4:
            # a flag line carrying a (meaningless) length larger than the lane's: must not move the end time
            body.append("%d = N %d %d" % (t, rng.choice([5, 6]), ln + rng.choice([1, R, 7 * R])))
    body += ["%d = S 2 %d" % (t, rng.choice([0, R, 10 * R])) for t in ticks(2)] + ["%d = E solo%d" % (t, i) for i, t in enumerate(ticks(2))]
    if rng.random() < 0.35:
        # tempo anchors (A lines), also on the ticks of tempo changes and with times that do not agree with the tempo map (stale
        # anchors): they are recorded, they never time anything
        sync += ["%d = A %d" % (t, rng.choice([0, 1, 137, 2408, 10 ** 6, rng.randint(0, 10 ** 8)])) for t in sorted(rng.sample([x for x, _ in tm], min(len(tm), rng.randint(1, 3))))]
    if rng.random() < 0.25:
        sync = [(rng.choice(["", " ", "\u3000", "\t"]) + respell_digits(rng, l) + ("" if " = A " in l else rng.choice(["", "\u3000"]))) if rng.random() < 0.5 else l for l in sync]
    text = vary_layout(rng, chart_text(res=R, sync=sync, events=ev, tracks=[(rng.choice(["ExpertSingle", "HardDrums", "EasyGHLBass"]), body)]), p=0.3)
    ch, exc, out = parse_case(text)
    # where each note ends, as WRITTEN: its tick plus the longest length among its lane / open lines (flag lines do not count)
    by_tick = {}
    for l in body:
        if " = N " in l:
            t_, i_, ln_ = l.replace(" = N", "").split(" ")
            by_tick.setdefault(int(t_), []).append((int(i_), int(ln_)))
    ends = [t_ + max([ln_ for i_, ln_ in v if i_ <= 4 or i_ == 7] or [0]) for t_, v in sorted(by_tick.items())]
    return dict(case=dict(kind="chart", R=R, tm=[list(x) for x in tm], text=text, ends=ends),
                in_term="((true, %s, %s, (Some %s)), %s)" % (coq_Z(R), coq_list("(%s, %s)" % (coq_Z(t), coq_Z(n)) for t, n in tm), coq_list(coq_Z(x) for x in ends), parse_in_term(text)),
                out_term=out, nontrivial=len(tm) >= 2,
                tags=["c:segments=%d" % min(len(tm), 10), "c:impl_error" if exc is not None else "c:impl_ok"], signature="C01c:" + key_of(text))


def remake_c(c):
    ch, exc, out = parse_case(c["text"])
    tm = [tuple(x) for x in c["tm"]]
    ends = "None" if c.get("ends") is None else "(Some %s)" % coq_list(coq_Z(x) for x in c["ends"])
    return dict(case=c, in_term="((true, %s, %s, %s), %s)" % (coq_Z(c["R"]), coq_list("(%s, %s)" % (coq_Z(t), coq_Z(n)) for t, n in tm), ends, parse_in_term(c["text"])),
                out_term=out, nontrivial=True, tags=["c:replay"], signature="C01c:" + key_of(c["text"]))


def c_cases(ctx, n):
    rng = ctx["rng"]
    out = [remake_c(c) for c in load_corpus("C01") if c.get("kind") == "chart"]
    # a tempo change later than 24 h into the chart
    out.append(make_c(1, [(0, 1000), (1600, 120000), (1700, 90000)], rng))
    while len(out) < n:
        R, tm = gen_tm(rng, 6)
        out.append(make_c(rng.choice([96, 192, 480, R]), tm, rng))
    return out


def run(ctx, only=None):
    if only:
        qs = [make_q(c["R"], [tuple(x) for x in c["tm"]], c["ticks"]) for c in only if c and c.get("kind") == "query"]
        cs = [remake_c(c) for c in only if c and c.get("kind") == "chart"]
    else:
        quick = ctx["tier"] == "quick"
        qs = q_cases(ctx, 70 if quick else 1200, 40 if quick else 400)
        cs = c_cases(ctx, 50 if quick else 800)
    return merge([run_cases("C01q", qs, Q_IN, Q_OUT, Q_VERDICT, Q_SPEC, shard_size=6),
                  run_cases("C01c", cs, C_IN, PARSE_OUT, C_VERDICT, C_SPEC, shard_size=10)])


def search(ctx, result):
    r = merge([run_cases("C01qs", q_cases(ctx, 400, 60), Q_IN, Q_OUT, Q_VERDICT, Q_SPEC, shard_size=6),
               run_cases("C01cs", c_cases(ctx, 300), C_IN, PARSE_OUT, C_VERDICT, C_SPEC, shard_size=10)])
    return dict(viol=r["viol"], evaluations=r["evaluations"], note="re-sampled %d cases" % r["evaluations"])
