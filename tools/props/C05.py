"""C05 — star-power membership of notes is exact and half-open."""
from __future__ import annotations

from .common import *   # noqa: F401,F403

LEAF = ['Leaf_special', 'Leaf_note', 'Leaf_build', 'Leaf_timed', 'Leaf_dispatch', 'Leaf_tracks', 'Leaf_chart', 'Leaf_fromfile', 'Leaf_meta']      # translated functions this property's model relies on (Tie/<name>.v)
RULE = ("one instrument section per case: 0-8 star-power phrases ordered by start tick (adjacent, nested, overlapping, "
        "zero-length, before/after all notes) and note ticks drawn from start-1/start/end-1/end of every phrase plus random ticks, the notes unsustained or held for 1..2000 ticks (past phrase ends, over later notes); "
        "a case is non-trivial when it has >= 2 phrases and at least one note inside and one outside a phrase; distinct by (phrases, notes)")
ASSUMPTIONS = ["ticks of notes and phrases are non-decreasing in file order (the property's 'ordered by start tick')",
               "the Gallina model of instrument.py/track.py is tied to the code by this correspondence only"]

IN_TYPE = "((bool * list (Z * Z)) * %s)" % PARSE_IN
VERDICT = "fun i o => parse_verdict cfg (snd i) o"
SPEC = "fun i o => C05_spec (fst i) o"


def gen_phrases(rng):
    n = rng.choice([0, 1, 1, 2, 2, 3, 3, 4, 5, 8])
    ps = []
    t = rng.choice([0, 0, 5, 100])
    for _ in range(n):
        mode = rng.choice(["adjacent", "gap", "nested", "overlap", "zero", "same"])
        if ps:
            pt, pl = ps[-1]
            if mode == "adjacent":
                t = pt + pl
            elif mode == "gap":
                t = pt + pl + rng.choice([1, 2, 50])
            elif mode == "nested":
                t = pt + rng.randint(0, max(0, pl - 1)) if pl > 0 else pt
            elif mode == "overlap":
                t = pt + max(0, pl - rng.choice([1, 2, 10]))
            elif mode == "same":
                t = pt
            else:
                t = pt + rng.choice([0, 1, 3])
            t = max(t, pt)
        ln = 0 if mode == "zero" else rng.choice([1, 2, 3, 10, 50, 200, 1000])
        if mode == "nested" and ps and ps[-1][1] > 0:
            ln = rng.randint(0, max(0, ps[-1][0] + ps[-1][1] - t))
        ps.append((t, ln))
    return ps


def gen_case(rng):
    ps = gen_phrases(rng)
    cand = set()
    for t, l in ps:
        for x in (t - 1, t, t + 1, t + l - 1, t + l, t + l + 1):
            if x >= 0:
                cand.add(x)
    for _ in range(rng.randint(0, 4)):
        cand.add(rng.randint(0, 1500))
    cand = sorted(cand)
    k = rng.randint(1, min(len(cand), 14)) if cand else 0
    notes = sorted(rng.sample(cand, k)) if cand else []
    if rng.random() < 0.2 and ps:
        last_end = max(t + l for t, l in ps)
        notes += [last_end + 10 * i for i in range(1, rng.randint(2, 5))]
    notes = sorted(set(notes))
    if rng.random() < 0.15:
        # the same picture far along the tick axis (around 2^31, 2^32 and beyond): membership is a matter of integers only
        base = rng.choice([2 ** 31 - 100, 2 ** 32 - 300, 2 ** 32 - 1500, 2 ** 32 + 5, 10 ** 10])
        ps = [(t + base, l) for t, l in ps]
        notes = [t + base for t in notes]
    return ps, notes


def gen_sus(rng, notes):
    """Sustains: membership depends on the note's tick alone, however long this or an earlier note is held."""
    if rng.random() < 0.55:
        return [0] * len(notes)
    return [rng.choice([0, 0, 1, 50, 300, 2000]) for _ in notes]


def build(ps, notes, sus=None, layout=None):
    lines = []
    sus = sus or [0] * len(notes)
    items = [(t, 0, "%d = S 2 %d" % (t, l)) for t, l in ps] + [(t, 1, "%d = N %d %d" % (t, i % 5, sus[i])) for i, t in enumerate(notes)]
    # file order: phrases keep their order; notes keep theirs; interleave by tick (stable)
    items.sort(key=lambda x: (x[0], x[1]))
    lines = [x[2] for x in items]
    text = chart_text(res=192, sync=["0 = TS 4", "0 = B 120000", "600 = B 87500"], tracks=[("ExpertSingle", lines)])
    return laid_out(text, layout)


def make_case(ps, notes, sus=None, layout=None):
    text = build(ps, notes, sus, layout)
    ch, exc, out = parse_case(text)
    inside = sum(1 for n in notes if any(t <= n < t + l for t, l in ps))
    return dict(
        case=dict(phrases=[list(p) for p in ps], notes=notes, sus=sus or [0] * len(notes), layout=layout, text=text),
        in_term="((true, %s), %s)" % (coq_list("(%s, %s)" % (coq_Z(t), coq_Z(l)) for t, l in ps), parse_in_term(text)),
        out_term=out,
        nontrivial=len(ps) >= 2 and 0 < inside < len(notes),
        tags=["phrases=%d" % min(len(ps), 5), "notes_inside" if inside else "no_note_inside",
              "zero_length" if any(l == 0 for _, l in ps) else "no_zero_length", "sustained" if sus and any(sus) else "unsustained",
              "impl_error" if exc is not None else "impl_ok"],
        signature="C05:" + key_of([ps, notes, sus or []]),
    )


def cases(ctx, n):
    rng = ctx["rng"]
    out = []
    fixed = [
        ([(0, 1000), (100, 50)], [150, 500, 999, 1000]),
        ([(50, 0), (100, 100)], [100, 150, 199, 200]),
        ([(0, 10), (10, 10), (20, 0), (20, 5)], [0, 9, 10, 19, 20, 24, 25]),
        ([], [0, 10]),
        ([(100, 10)], [0, 50, 99]),
        ([(0, 5)], [5, 6, 7, 100]),
        ([(10, 100), (20, 10), (25, 0), (30, 200)], [9, 10, 29, 30, 109, 110, 229, 230]),
    ]
    for c in load_corpus("C05"):
        fixed.append(([tuple(p) for p in c["phrases"]], c["notes"], c.get("sus"), c.get("layout")))
    for f in fixed:
        out.append(make_case(*f))
    while len(out) < n:
        ps, notes = gen_case(rng)
        out.append(make_case(ps, notes, gen_sus(rng, notes), pick_layout(rng)))
    return out


def run(ctx, only=None):
    if only:
        cs = [make_case([tuple(p) for p in c["phrases"]], c["notes"], c.get("sus"), c.get("layout")) for c in only if c]
    else:
        cs = cases(ctx, 240 if ctx["tier"] == "quick" else 4000)
    return run_cases("C05", cs, IN_TYPE, PARSE_OUT, VERDICT, SPEC)


def search(ctx, result):
    cs = cases(ctx, 1500)
    r = run_cases("C05s", cs, IN_TYPE, PARSE_OUT, VERDICT, SPEC)
    return dict(viol=r["viol"], evaluations=r["evaluations"], note="re-sampled %d cases" % len(cs))
