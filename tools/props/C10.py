"""C10 — metadata fields decode independently, verbatim, with documented defaults."""
from __future__ import annotations

from .common import *   # noqa: F401,F403
from . import linegen as lg

LEAF = ['Leaf_chart', 'Leaf_fromfile', 'Leaf_meta']      # translated functions this property's model relies on (Tie/<name>.v)
RULE = ("[Song] bodies given to Metadata.from_chart_lines (and, for a good third of those that can stand in a file, also as the [Song] section of a whole chart through Chart.from_file, or written as a UTF-8 file and read by Chart.from_filepath): every singleton and all-but-one subset of the 23 optional fields (thorough) and random subsets, random permutations of the lines, "
        "string values containing quotes, '=', ' = ', other fields' names and whole other fields' lines, leading/trailing blanks inside the quotes, non-ASCII; integers of 1-19 digits "
        "(beyond 2^53), quoted and unquoted, non-ASCII decimal digits; Player2 bass/rhythm/other; unknown fields; duplicate fields; missing Resolution; judged against the documented "
        "configuration (reference recognisers, documented kinds and defaults) evaluated inside Coq. Non-trivial: >= 2 fields present or a value with a quote/'='/field name or a default taken; distinct by lines")
ASSUMPTIONS = ["the documented field table (names, kinds, defaults, required Resolution) is the one written in Spec/C10.v doc_table"]

IN_TYPE, OUT_TYPE = "C10_in", "C10_out"
VERDICT = "fun i o => C10_verdict cfg i o"
SPEC = "fun i o => C10_spec cfg i o"

INT_FIELDS = ["Offset", "Difficulty", "PreviewStart", "PreviewEnd"]
STR_FIELDS = ["Genre", "MediaType", "Name", "Artist", "Charter", "Album", "Year", "MusicStream", "GuitarStream", "RhythmStream", "BassStream", "DrumStream",
              "Drum2Stream", "Drum3Stream", "Drum4Stream", "VocalStream", "KeysStream", "CrowdStream"]
ALL_OPT = INT_FIELDS + ["Player2"] + STR_FIELDS
VCH = list("abc XYZ019=-_.,/'") + ['"', "\t", "é", "歌", "́", " "]


def str_value(rng):
    r = rng.random()
    if r < 0.2:
        f = rng.choice(ALL_OPT + ["Resolution"])
        v = "%s = %s" % (f, rng.choice(["Foo", '"Foo"', "480", "bass", '"x'])) 
        if rng.random() < 0.5:
            v = rng.choice(["", "a ", "x  "]) + v
        return v
    k = rng.choice([1, 1, 2, 5, 9, 20])
    s = "".join(rng.choice(VCH) for _ in range(k))
    if rng.random() < 0.15:
        s = rng.choice(['"', ' ', '" ', '  ']) + s
    if rng.random() < 0.15:
        s = s + rng.choice(['"', ' ', ' "', '  '])
    return s or "x"


def field_line(rng, f):
    p1, p2 = lg.pad(rng), lg.pad(rng, True)
    if f in INT_FIELDS or f == "Resolution":
        n = rng.choice([0, 1, 192, 480, 2 ** 53, 2 ** 53 + 1, 9007199254740993, 2 ** 63 - 1, rng.randint(0, 10 ** rng.randint(1, 19))])
        ds = lg.digits(rng, n, exotic=True)
        q = rng.choice(["", "", '"'])
        q2 = q if rng.random() < 0.8 else ("" if q else '"')
        return "%s%s = %s%s%s%s" % (p1, f, q, ds, q2, p2)
    if f == "Player2":
        v = rng.choice(["bass", "rhythm", "bass", "rhythm", "guitar", "Bass", "bass ", "rhythm guitar", "b"])
        q = rng.choice(["", '"'])
        return "%s%s = %s%s%s%s" % (p1, f, q, v, q, p2)
    v = str_value(rng).replace("\n", "")
    mode = rng.random()
    if mode < 0.75:
        return '%s%s = "%s"%s' % (p1, f, v, p2)
    if mode < 0.9:
        return "%s%s = %s%s" % (p1, f, v, p2)
    return '%s%s = "%s%s' % (p1, f, v, p2)


def gen_lines(rng, fields, with_res=True):
    lines = [field_line(rng, f) for f in fields]
    if with_res:
        lines.append(field_line(rng, "Resolution") if rng.random() < 0.5 else "  Resolution = 192")
    if rng.random() < 0.3:
        lines.append(rng.choice(["Unknown = 5", "  Foo = \"bar\"", "garbage", "", "Name", "Name =", "Name = ", "name = \"lower\"", "NameX = \"y\"", "0 = N 0 0"]))
    if rng.random() < 0.15 and fields:
        lines.append(field_line(rng, rng.choice(fields)))       # a duplicate: the first accepted line wins
    rng.shuffle(lines)
    return lines


BREAKS = set("\n\r\x0b\x0c\x1c\x1d\x1e\x85\u2028\u2029")


def via_chart_ok(lines):
    """May these [Song] lines be observed through Chart.from_file as well?  (They must survive being joined into a file, and the rest
    of the chart must parse: a positive resolution.)"""
    import chartparse.metadata as M
    if any(l in ("{", "}") or (set(l) & BREAKS) for l in lines):
        return False
    try:
        return M.Metadata.from_chart_lines(iter(list(lines))).resolution >= 1
    except Exception:  # noqa: BLE001
        return False


def make_case(lines, via_chart=False):
    import io
    import tempfile
    import chartparse.metadata as M
    import chartparse.chart as C
    if via_chart == "path":
        # ... and as a UTF-8 FILE read by Chart.from_filepath (non-ASCII values must come back verbatim)
        text = chart_text(res=None, song=lines, indent="")
        with tempfile.TemporaryDirectory() as td:
            p = os.path.join(td, "c.chart")
            with open(p, "wb") as f:
                f.write(text.encode("utf-8"))
            out = pyval.r_result(lambda: C.Chart.from_filepath(p).metadata, pyval.r_metadata)
    elif via_chart:
        # the same lines as the body of [Song] in a whole chart: the glue between the file and the [Song] parser must hand them on verbatim
        text = chart_text(res=None, song=lines, indent="")
        out = pyval.r_result(lambda: C.Chart.from_file(io.StringIO(text, newline="")).metadata, pyval.r_metadata)
    else:
        out = pyval.r_result(lambda: M.Metadata.from_chart_lines(iter(list(lines))), pyval.r_metadata)
    nfields = sum(1 for l in lines if " = " in l)
    return dict(case=dict(lines=lines, via_chart=via_chart), in_term=coq_list(coq_str(l) for l in lines), out_term=out,
                nontrivial=nfields >= 2 or any('"' in l[l.find("=") + 3:-1] for l in lines if "=" in l),
                tags=["fields=%d" % min(nfields, 8), "accepted" if out.startswith("(Ok") else "error", ("via_" + ("path" if via_chart == "path" else "chart")) if via_chart else "direct"],
                signature="C10:" + key_of([lines, via_chart]))


FIXED = [
    ['  Artist = "Name = Foo"', "  Resolution = 192"],
    ['  Name = "Resolution = 480"', "  Resolution = 192"],
    ['  Name = "Resolution = 480"'],
    ["  Offset = 9007199254740993", "  Resolution = 192", "  PreviewEnd = 9223372036854775807", "  PreviewStart = 0.5"],
    ["  Resolution = 192", '  Name = "a"b"', '  Artist = ""', '  Charter = """', '  Album = " x "', "  Year = \", 2019\"", "  Genre = rock music ", "  Player2 = rhythm"],
    [],
    ["Resolution = 192"],
    ["  Resolution = \"480\"", "  Difficulty = \"3", "  Offset = 7\""],
]


def cases(ctx, n):
    rng = ctx["rng"]
    out = [make_case(l) for l in FIXED]
    for c in load_corpus("C10"):
        out.append(make_case(c["lines"], c.get("via_chart", False)))
    for f in ALL_OPT:
        out.append(make_case(gen_lines(rng, [f])))
    if ctx["tier"] != "quick":
        for f in ALL_OPT:
            out.append(make_case(gen_lines(rng, [g for g in ALL_OPT if g != f])))
    while len(out) < n:
        k = rng.choice([0, 1, 2, 3, 5, 8, 23])
        fields = rng.sample(ALL_OPT, k)
        lines = gen_lines(rng, fields, with_res=rng.random() < 0.9)
        out.append(make_case(lines, via_chart=(rng.choice([True, True, "path"]) if rng.random() < 0.4 and via_chart_ok(lines) else False)))
    return out


def run(ctx, only=None):
    if only:
        cs = [make_case(c["lines"], c.get("via_chart", False)) for c in only if c]
    else:
        cs = cases(ctx, 700 if ctx["tier"] == "quick" else 20000)
    return run_cases("C10", cs, IN_TYPE, OUT_TYPE, VERDICT, SPEC, shard_size=50)


def search(ctx, result):
    cs = [make_case([w, "  Resolution = 192"]) for w in regex_witnesses()] + cases(ctx, 4000)
    r = run_cases("C10s", cs, IN_TYPE, OUT_TYPE, VERDICT, SPEC, shard_size=50)
    return dict(viol=r["viol"], evaluations=r["evaluations"], note="re-sampled %d cases" % len(cs))


DIAG = """From CP Require Import Base.Prelude Base.Cfg Spec.RefRegex Spec.C10 Gen.Src.
Eval vm_compute in failing (C10_items cfg).
"""
