"""Generator of instrument sections shared by C02, C03, C04 (and reused by others)."""
from __future__ import annotations

LANESETS = [[i for i in range(5) if (m >> i) & 1] for m in range(1, 32)]


def thr(R):
    return (2 * R + 3) // 6


def gen_groups(rng, R, n_groups, *, flag_len=False, allow_open=True, first_forced=False, gaps=None, dup=0.08):
    """Abstract note groups: list of dict(tick, lines=[(idx, len)...] in file order, tap, forced)."""
    groups = []
    t = rng.choice([0, 0, 1, R, 5 * R])
    th = thr(R)
    for gi in range(n_groups):
        if gi > 0:
            g = rng.choice(gaps or [1, 2, max(1, th - 1), max(1, th), th + 1, R, 2 * R, max(1, R // 2), 10 * th + 1])
            t += max(1, g)
        is_open = allow_open and rng.random() < 0.15
        lanes = [] if is_open else rng.choice(LANESETS)
        pat = rng.choice(["zero", "equal", "partzero", "different", "orange"])
        base = rng.choice([1, R // 4 + 1, R, 3 * R])
        lines = []
        for k, lane in enumerate(lanes):
            if pat == "zero":
                ln = 0
            elif pat == "equal":
                ln = base
            elif pat == "partzero":
                ln = base if k % 2 == 0 else 0
            elif pat == "different":
                ln = base + 7 * k
            else:
                ln = base if lane == 4 else 0
            lines.append((lane, ln))
        if is_open:
            lines.append((7, rng.choice([0, base])))
        rng.shuffle(lines) if rng.random() < 0.3 else None
        if lines and rng.random() < dup:
            # a lane line written twice in its tick (same length): the lanes named are still the same set
            for _ in range(rng.choice([1, 1, 2])):
                lines.insert(rng.randint(0, len(lines)), rng.choice([l for l in lines]))
        tap = rng.random() < 0.25
        forced = rng.random() < 0.3 and (gi > 0 or first_forced)
        flags = []
        if forced:
            flags.append((5, rng.choice([0, 3 * base + 11, R * 5]) if flag_len and rng.random() < 0.5 else 0))
        if tap:
            flags.append((6, rng.choice([0, 3 * base + 13]) if flag_len and rng.random() < 0.5 else 0))
        for f in flags:
            pos = rng.choice([0, len(lines), rng.randint(0, len(lines))])
            lines.insert(pos, f)
        groups.append(dict(tick=t, lines=lines, tap=tap, forced=forced))
    return groups


def section_lines(rng, groups, R, *, sp=True, tev=True, junk=False, interleave=True):
    """Render groups to N lines, with S / E (and junk) lines interleaved between and inside groups."""
    out = []
    last = groups[-1]["tick"] if groups else 0
    extras = []
    if sp:
        t = 0
        for _ in range(rng.randint(0, 3)):
            t += rng.randint(0, max(1, last // 2 + 1))
            extras.append((t, "%d = S 2 %d" % (t, rng.choice([0, R, 4 * R]))))
    if tev:
        ts = sorted(rng.randint(0, last + 1) for _ in range(rng.randint(0, 2)))
        extras += [(t, "%d = E solo%d" % (t, i)) for i, t in enumerate(ts)]
    if junk:
        for _ in range(rng.randint(1, 3)):
            extras.append((rng.randint(0, last + 1), rng.choice(["garbage", "0 = N 8 0", "10 = S 64 5", "", "5 = E two words", "7 = B 120000"])))
    nlines = []
    for g in groups:
        for idx, ln in g["lines"]:
            nlines.append((g["tick"], "%d = N %d %d" % (g["tick"], idx, ln)))
    if not interleave:
        return [l for _, l in nlines] + [l for _, l in extras]
    # S lines and E lines must stay sorted among themselves (they are, by construction per kind);
    # place each extra at a random position among the N lines with tick <= its tick (possibly inside a group)
    out = [l for _, l in nlines]
    ticks = [t for t, _ in nlines]
    ins = []
    for t, l in extras:
        pos = sum(1 for x in ticks if x < t)
        hi = sum(1 for x in ticks if x <= t)
        ins.append((rng.randint(pos, hi), l))
    ins.sort(key=lambda x: x[0])
    res = []
    j = 0
    for i in range(len(out) + 1):
        while j < len(ins) and ins[j][0] == i:
            res.append(ins[j][1])
            j += 1
        if i < len(out):
            res.append(out[i])
    return res


EXOTIC_WS = ["　", " ", "\t", " ", "\x1f"]
EXOTIC_ZERO = [0x660, 0xFF10, 0x966]


def exotic_line(rng, line):
    """Respell an instrument line '<tick> = N <i> <len>' / '<tick> = S 2 <len>' with non-ASCII white-space padding and
    non-ASCII decimal digits in the tick and length (the index stays ASCII: the recogniser's class is [0-7])."""
    parts = line.split(" ")
    if len(parts) < 5 or not parts[0].isdigit() or not parts[-1].isdigit():
        return line
    z = rng.choice(EXOTIC_ZERO)
    def resp(s):
        return "".join(chr(z + int(ch)) for ch in s)
    if rng.random() < 0.7:
        parts[0] = resp(parts[0])
    if rng.random() < 0.7:
        parts[-1] = resp(parts[-1])
    return rng.choice(EXOTIC_WS) * rng.randint(0, 2) + " ".join(parts) + rng.choice(["", rng.choice(EXOTIC_WS)])


def zero_pad(rng, line):
    """Respell '<tick> = N <i> <len>' / '<tick> = S 2 <len>' with leading zeros in the tick and / or the length
    (int('0096') = 96; the recognisers accept any run of decimal digits)."""
    parts = line.split(" ")
    if len(parts) < 5 or not parts[0].isdigit() or not parts[-1].isdigit():
        return line
    if rng.random() < 0.5:
        parts[0] = "0" * rng.randint(1, 3) + parts[0]
    if rng.random() < 0.8:
        parts[-1] = "0" * rng.randint(1, 3) + parts[-1]
    return " ".join(parts)


def gen_tempo(rng, R, span):
    tm = [(0, rng.choice([120000, 60000, 200000, 90500, 1118, 999999]))]
    t = 0
    for _ in range(rng.choice([0, 0, 1, 2, 4])):
        t += rng.randint(1, max(2, span // 2 + 1))
        tm.append((t, rng.choice([120000, 60000, 240000, 87500, 20548, 1000, 400000])))
    return tm
