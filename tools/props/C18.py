"""C18 — only documented errors escape; parsed charts always render."""
from __future__ import annotations

from .common import *   # noqa: F401,F403
from . import instr_gen as ig
from . import C19 as c19

LEAF = ['Leaf_chart', 'Leaf_fromfile', 'Leaf_meta', 'Leaf_dispatch', 'Leaf_tracks', 'Leaf_bpm', 'Leaf_sustain']      # translated functions this property's model relies on (Tie/<name>.v)
RULE = ("texts obtained from well-formed charts (all section kinds, several tracks, long charts whose events lie beyond 24 h) by 1-4 mutations: line deletion, duplication, swap of neighbouring "
        "lines, single-character edits, brace / bracket damage ('{ ' with trailing blank, deleted '{', duplicated header, blank or comment line after a header), digit-run edits within 8 digits; "
        "and texts assembled from arbitrary fragments of all section kinds; numeric tokens of at most 8 digits (a time-signature EXPONENT is kept below 1024: 2**n for an 8-digit n can neither be rendered nor evaluated in reasonable time). Observed: the exception class escaping Chart.from_file (compared exactly with the "
        "model's error kind, so a different documented error is also a disagreement) and, for every returned chart, str() and repr() of the chart, of every track and of every event. "
        "Judged: Ok with everything rendered, or ValueError / RegexNotMatchError / MissingRequiredField. Non-trivial: every mutated or assembled text; distinct by text")
ASSUMPTIONS = ["that str()/repr() succeed whenever the formatters' preconditions hold (timestamps within the timedelta range, finite floats: theorem C18_render) is CPython behaviour exercised, not proved, by rendering everything on every run",
               "numeric tokens have at most 8 digits and time-signature exponents are below 64 (the property's bound)"]

IN_TYPE = "(bool * %s)" % PARSE_IN
VERDICT = "fun i o => parse_verdict cfg (snd i) o"
SPEC = "fun i o => C18_spec cfg (fst i) (snd i) o"


def render_all(ch):
    try:
        str(ch), repr(ch)
        for e in c19.all_events(ch):
            str(e), repr(e)
        for t in c19.all_tracks(ch):
            str(t), repr(t)
        for inner in ch.instrument_tracks.values():
            for tr in inner.values():
                for e in tr.note_events:
                    if e.star_power_data is not None:
                        str(e.star_power_data), repr(e.star_power_data)
        return True, None
    except Exception as e:  # noqa: BLE001
        return False, "%s: %s" % (type(e).__name__, e)


def make_case(text0, tag):
    text = sanitize(text0)
    ch, exc, out = parse_case(text)
    ok, why = (True, None) if ch is None else render_all(ch)
    return dict(case=dict(text=text), in_term="(%s, %s)" % (coq_bool(ok), parse_in_term(text)), out_term=out, nontrivial=tag != "base",
                tags=["gen=" + tag, ("ok" if exc is None else "exc=" + type(exc).__name__), "rendered" if ok else "render_failed"],
                signature="C18:" + key_of(text), detail=why)


def base_chart(rng):
    R = rng.choice([192, 192, 480, 1, 96])
    groups = ig.gen_groups(rng, R, rng.choice([1, 3, 6]), flag_len=True, first_forced=rng.random() < 0.1)
    lines = ig.section_lines(rng, groups, R, junk=rng.random() < 0.3)
    tm = ig.gen_tempo(rng, R, groups[-1]["tick"] + R)
    if rng.random() < 0.2:
        tm = [(0, rng.choice([1000, 1, 120000]))]
    song = rng.sample(['Name = "n"', 'Artist = "a b"', "Offset = 0", "Player2 = bass", 'Genre = "rock"', "Difficulty = 2", 'Year = ", 2010"'], rng.randint(0, 4))
    ev = ['%d = E "section s%d"' % (i * 100, i) for i in range(rng.randint(0, 3))] + ['%d = E "lyric l"' % 50] * rng.randint(0, 1) + ['%d = E "t"' % 70] * rng.randint(0, 1)
    ev.sort(key=lambda l: int(l.split(" = ")[0]))
    tracks = [(rng.choice(["ExpertSingle", "HardDrums", "EasyGHLBass"]), lines)]
    if rng.random() < 0.4:
        tracks.append(("MediumKeyboard", ["0 = N 0 0", "%d = N 1 %d" % (R, R), "%d = S 2 %d" % (R, R)]))
    sync = ["0 = TS 4"] + tempo_lines(tm) + (["%d = TS 3 %d" % (R, rng.choice([0, 2, 3, 63]))] if rng.random() < 0.5 else []) + (["0 = A 0"] if rng.random() < 0.3 else [])
    return chart_text(res=R, song=song, sync=sync, events=ev, tracks=tracks)


LONG = [
    chart_text(res=192, sync=["0 = TS 4", "0 = B 120000"], events=['33177600 = E "section late"', '99999999 = E "lyric later"'], tracks=[("ExpertSingle", ["33177600 = N 0 96", "99999999 = N 1 0", "33177600 = S 2 5", "99999999 = E solo"])]),
    chart_text(res=1, sync=["0 = TS 4", "0 = B 1000", "1500 = B 1000", "1500 = TS 3"], events=['1441 = E "section day2"'], tracks=[("ExpertSingle", ["1440 = N 0 10", "2000 = N 1 0"])]),
    chart_text(res=1, sync=["0 = TS 4", "0 = B 1"], events=['99999999 = E "section far"'], tracks=[("ExpertSingle", ["99999999 = N 0 99999999"])]),
]


def mutate(rng, text):
    lines = text.split("\n")
    for _ in range(rng.randint(1, 4)):
        op = rng.choice(["del", "dup", "swap", "char", "brace", "digits", "insert", "header", "cut"])
        if not lines:
            break
        i = rng.randrange(len(lines))
        if op == "del":
            del lines[i]
        elif op == "dup":
            lines.insert(i, lines[i])
        elif op == "swap" and i + 1 < len(lines):
            lines[i], lines[i + 1] = lines[i + 1], lines[i]
        elif op == "char" and lines[i]:
            j = rng.randrange(len(lines[i]))
            ch = rng.choice(list(" ={}[]\"NSEBA0123456789x\t-"))
            mode = rng.choice(["sub", "ins", "del"])
            l = lines[i]
            lines[i] = l[:j] + ch + l[j + 1:] if mode == "sub" else l[:j] + ch + l[j:] if mode == "ins" else l[:j] + l[j + 1:]
        elif op == "brace":
            ks = [k for k, l in enumerate(lines) if l.strip() in ("{", "}")]
            if ks:
                k = rng.choice(ks)
                lines[k] = rng.choice([lines[k] + " ", " " + lines[k], "", "{{", "}{", lines[k]])
                if rng.random() < 0.3:
                    del lines[k]
        elif op == "digits":
            import re
            ms = list(re.finditer(r"\d+", lines[i]))
            if ms:
                m = rng.choice(ms)
                new = str(rng.choice([0, 1, 7, 64, 99999999, 12345678, rng.randint(0, 10 ** 8 - 1)]))
                lines[i] = lines[i][:m.start()] + new + lines[i][m.end():]
        elif op == "cut":
            ks = [k for k, l in enumerate(lines) if "=" in l]
            if ks:
                k = rng.choice(ks)
                j = lines[k].index("=")
                lines[k] = lines[k][:j + 1] + rng.choice(["", " ", "  ", " \t"])
        elif op == "insert":
            lines.insert(i, rng.choice(["", "// comment", "  ", "garbage", "[Song]", "{", "}", "[x]", "  0 = N 0 0", "  0 = B 0", "Resolution = 0", "  Player2 = drums"]))
        elif op == "header":
            ks = [k for k, l in enumerate(lines) if l.startswith("[")]
            if ks:
                k = rng.choice(ks)
                lines[k] = rng.choice([lines[k][:-1], lines[k][1:], "[]", lines[k] + "]", "[" + lines[k], lines[k], lines[k].lower()])
                if rng.random() < 0.3:
                    lines.insert(k + 1, rng.choice(["", "// c", lines[k]]))
    return "\n".join(lines)


FRAGS = ["  768 = ", "  768 =", "=", " = ", "[Song]", "{", "}", "[SyncTrack]", "[Events]", "[ExpertSingle]", "[HardDrums]", "[Foo]", "  Resolution = 192", "  Resolution = 0", "  0 = TS 4", "  0 = B 120000", "  0 = B 0",
         "  100 = B 60000", "  50 = B 1", '  0 = E "section a"', '  5 = E "lyric b"', "  0 = N 0 0", "  0 = N 5 0", "  0 = N 7 10", "  10 = N 1 5", "  10 = S 2 5", "  10 = E solo", "  0 = A 5",
         "  Player2 = drums", "  Offset = 12345678", "", "garbage"]


def assemble(rng):
    if rng.random() < 0.5:
        # structured: required sections with random bodies
        secs = []
        for tag in ["Song", "SyncTrack", "Events"] + rng.sample(["ExpertSingle", "HardDrums", "Foo"], rng.randint(0, 2)):
            body = [rng.choice(FRAGS[8:]) for _ in range(rng.randint(0, 5))]
            if tag == "Song" and rng.random() < 0.8:
                body.append("  Resolution = %d" % rng.choice([192, 1, 0, 99999999]))
            if tag == "SyncTrack" and rng.random() < 0.8:
                body = ["  0 = TS 4", "  0 = B %d" % rng.choice([120000, 1, 0, 99999999])] + body
            secs.append("[%s]\n{\n%s\n}" % (tag, "\n".join(body)))
        rng.shuffle(secs)
        return "\n".join(secs) + "\n"
    return "\n".join(rng.choice(FRAGS) for _ in range(rng.randint(1, 25))) + "\n"


def sanitize(text):
    """A time-signature exponent is kept below 1024: 2**99999999 is computed happily by the parser but can neither be
    rendered as a decimal term nor evaluated by the model in reasonable time (a limit of this harness, said in the RULE)."""
    import re
    return re.sub(r"(= TS \d+ )(\d{4,})", lambda m: m.group(1) + str(int(m.group(2)) % 1024), text)


def cases(ctx, n):
    rng = ctx["rng"]
    out = [make_case(c["text"], "corpus") for c in load_corpus("C18")]
    for t in LONG:
        out.append(make_case(t, "long"))
        out.append(make_case(mutate(rng, t), "long_mutated"))
    # every single structural fault around the first brace of a well-formed chart
    b = base_chart(rng)
    ls = b.split("\n")
    k = ls.index("{")
    for variant in ([ls[:k] + ls[k + 1:], ls[:k] + ["{ "] + ls[k + 1:], ls[:k] + [""] + ls[k:], ls[:k] + ["// c"] + ls[k:], ls[:k] + [ls[k - 1]] + ls[k:], ls[:k] + [ls[k + 1], ls[k]] + ls[k + 2:]]):
        out.append(make_case("\n".join(variant), "brace_fault"))
    while len(out) < n:
        r = rng.random()
        if r < 0.1:
            out.append(make_case(base_chart(rng), "base"))
        elif r < 0.75:
            out.append(make_case(mutate(rng, base_chart(rng)), "mutated"))
        else:
            out.append(make_case(assemble(rng), "assembled"))
    return out


def run(ctx, only=None):
    if only:
        cs = [make_case(c["text"], "replay") for c in only if c]
    else:
        cs = cases(ctx, 500 if ctx["tier"] == "quick" else 8000)
    return run_cases("C18", cs, IN_TYPE, PARSE_OUT, VERDICT, SPEC, shard_size=30)


def search(ctx, result):
    cs = cases(ctx, 3000)
    r = run_cases("C18s", cs, IN_TYPE, PARSE_OUT, VERDICT, SPEC, shard_size=30)
    return dict(viol=r["viol"], evaluations=r["evaluations"], note="re-sampled %d cases" % len(cs))
