"""C14 — unrecognised lines are skipped locally; each line is claimed at most once."""
from __future__ import annotations

from .common import *   # noqa: F401,F403
from . import linegen as lg
from . import instr_gen as ig

LEAF = ['Leaf_dispatch', 'Leaf_tracks', 'Leaf_chart', 'Leaf_fromfile', 'Leaf_meta']      # translated functions this property's model relies on (Tie/<name>.v)
RULE = ("(a) a clean chart (every body line parsable) and the same chart with 1-6 unparsable lines (garbage, lines of foreign sections, unsupported indices S 0/1/64, N 8, blank lines, "
        "non-ASCII; repeated texts included) inserted at random positions of [SyncTrack], [Events] and up to two instrument sections: the parse must equal the clean parse and the "
        "chartparse.track log must report exactly the inserted lines, once each, in routing order (equal-tick neighbours of one kind in every section; the clean chart itself must yield one event per body line, one note event per tick); in a third of these charts a quarter of the line ends are other str.splitlines() boundaries (VT, FF, FS, GS, RS, NEL, LS, PS, lone CR, CRLF); (b) parse_data_from_chart_lines called directly with every permutation of the three kinds "
        "of each section on sections containing unparsable lines: per-kind data and warnings must equal those of the reference configuration in canonical order (conservation, order "
        "independence). Non-trivial: >= 1 inserted line after a parsed line, or a non-canonical kind order; distinct by input")
ASSUMPTIONS = ["inserted lines are unparsable for the section they are inserted into (checked against the reference recognisers by the generator's construction and by the model)"]

C_IN = "((parse_out * list str * Z) * %s)" % PARSE_IN
C_VERDICT = "fun i o => parse_verdict cfg (snd i) o"
C_SPEC = "fun i o => C14_spec (fst i) o"

JUNK = {
    "sync": ["  {", "} ", "garbage", "0 = N 0 0", "0 = S 2 5", '0 = E "section x"', "0 = B", "0 = TS", "0 = A 5 ", "", "   ", "0 = B 12.5", "Name = \"x\"", "0 = TS 4 2 1", "歌", "0 = E solo"],
    "events": ["\t{", "  }", "garbage", "0 = N 0 0", "0 = B 120000", "0 = TS 4", '0 = E "a"b"', "0 = E solo", "0 = E \"", "", "  ", "歌 = E \"x\"", "0 = S 2 0"],
    "instr": ["  {", "{ ", "\t{", "  }", "} ", "garbage", "0 = N 8 0", "10 = S 64 5", "10 = S 0 5", "10 = S 1 5", "0 = B 120000", "0 = TS 4", '0 = E "section x"', "5 = E two words", "", "  ", "0 = N 0", "歌", "0 = A 5"],
}


OTHER_BREAKS = ["\x0b", "\x0c", "\x1c", "\x1d", "\x1e", "\x85", "\u2028", "\u2029", "\r", "\r\n"]


def insert(rng, lines, junk):
    """Insert each junk line at a random position; returns new lines."""
    out = list(lines)
    pos = sorted(rng.randint(0, len(out)) for _ in junk)
    for k, (p, j) in enumerate(zip(pos, junk)):
        out.insert(p + k, j)
    return out


def chart_case(rng):
    R = 192
    groups = ig.gen_groups(rng, R, rng.choice([1, 3, 6]))
    body1 = ig.section_lines(rng, groups, R, junk=False)
    groups2 = ig.gen_groups(rng, R, rng.choice([1, 2, 4]))
    body2 = ig.section_lines(rng, groups2, R, junk=False)
    sync = ["0 = TS 4", "0 = B 120000", "400 = B 90000", "400 = TS 3 3", "10 = A 1000"]
    events = ['0 = E "section a"', '10 = E "lyric b"', '20 = E "c"', '30 = E "lyric d"']
    if rng.random() < 0.5:
        # equal neighbours: several lines of ONE kind on one tick are several events
        sync += ["400 = TS 6 3", "10 = A 1001"]
        events += ['30 = E "lyric e"', '30 = E "lyric d"', '30 = E "c"', '30 = E "c2"', '30 = E "section s"', '30 = E "section s"']
        body1 = body1 + ["%d = E solo" % groups[-1]["tick"], "%d = E soloend" % groups[-1]["tick"], "%d = S 2 5" % groups[-1]["tick"], "%d = S 2 7" % groups[-1]["tick"]]
    tracks = [("ExpertSingle", body1)] + ([("HardDrums", body2)] if rng.random() < 0.6 else [])
    base = chart_text(res=R, sync=sync, events=events, tracks=tracks)
    ch0, exc0, out0 = parse_case(base)
    # junk per section, in routing order: sync, events, then tracks in file order
    def pick(kind):
        k = rng.choice([0, 1, 1, 2, 3, 6])
        js = [rng.choice(JUNK[kind]) for _ in range(k)]
        if k >= 2 and rng.random() < 0.4:
            js[1] = js[0]          # the same text twice
        return js
    js_sync, js_ev = pick("sync"), pick("events")
    sync2 = insert(rng, sync, js_sync)
    ev2 = insert(rng, events, js_ev)
    tr2 = []
    js_tr = []
    for h, b in tracks:
        js = pick("instr")
        nb = insert(rng, b, js)
        tr2.append((h, nb))
        js_tr.append((h, nb, js))
    text = chart_text(res=R, sync=sync2, events=ev2, tracks=tr2)
    if rng.random() < 0.3:
        # the other line boundaries of str.splitlines() (VT, FF, FS, GS, RS, NEL, LS, PS, a lone CR, CRLF) between lines: still one
        # line each, each unparsable line still reported once
        parts = text.split("\n")
        text = "".join(p + (rng.choice(OTHER_BREAKS) if i + 1 < len(parts) and rng.random() < 0.25 else "\n" if i + 1 < len(parts) else "") for i, p in enumerate(parts))
    ch, exc, out = parse_case(text)
    # expected warnings in routing order = junk lines in the file order of each section (with the indent the file has)
    def in_order(lines, js):
        pool = list(js)
        res = []
        # junk lines appear in `lines` in insertion order; recover by scanning
        cnt = {}
        for j in js:
            cnt[j] = cnt.get(j, 0) + 1
        for l in lines:
            if cnt.get(l, 0) > 0 and l in pool:
                res.append(l)
                cnt[l] -= 1
        return res
    exp = in_order(sync2, js_sync) + in_order(ev2, js_ev)
    for h, nb, js in js_tr:
        exp += in_order(nb, js)
    exp = ["  " + l for l in exp]
    n_junk = len(exp)
    def n_events(body):
        return len({l.split(" = ")[0] for l in body if " = N " in l}) + sum(1 for l in body if " = S " in l or " = E " in l)
    n_ev = len(sync) + len(events) + sum(n_events(b) for _, b in tracks)
    return dict(case=dict(kind="chart", base=base, text=text, expected=exp, n_events=n_ev),
                in_term="((%s, %s, %s), %s)" % (out0, coq_list(coq_str(l) for l in exp), coq_Z(n_ev), parse_in_term(text)), out_term=out,
                nontrivial=n_junk >= 1, tags=["chart", "junk=%d" % min(n_junk, 6), "impl_error" if exc is not None else "impl_ok"],
                signature="C14c:" + key_of(text))


def remake_chart(c):
    ch0, exc0, out0 = parse_case(c["base"])
    ch, exc, out = parse_case(c["text"])
    n_ev = c.get("n_events")
    if n_ev is None:
        # older corpus entries: as many events as the clean chart has now
        n_ev = 0 if ch0 is None else (len(ch0.sync_track.time_signature_events) + len(ch0.sync_track.bpm_events.events) + len(ch0.sync_track.anchor_events)
                                      + len(ch0.global_events_track.text_events) + len(ch0.global_events_track.section_events) + len(ch0.global_events_track.lyric_events)
                                      + sum(len(t.note_events) + len(t.star_power_events) + len(t.track_events) for d in ch0.instrument_tracks.values() for t in d.values()))
    return dict(case=c, in_term="((%s, %s, %s), %s)" % (out0, coq_list(coq_str(l) for l in c["expected"]), coq_Z(n_ev), parse_in_term(c["text"])), out_term=out,
                nontrivial=True, tags=["chart", "replay"], signature="C14c:" + key_of(c["text"]))


PERMS = [[0, 1, 2], [0, 2, 1], [1, 0, 2], [1, 2, 0], [2, 0, 1], [2, 1, 0]]


def disp_cases(ctx, n):
    rng = ctx["rng"]
    out = []
    while len(out) < n:
        sec = rng.choice(["instr", "sync", "instr"])
        ks = lg.SECTION_KINDS[sec]
        lines = []
        for _ in range(rng.randint(1, 10)):
            r = rng.random()
            if r < 0.65:
                lines.append(lg.canon_line(rng, rng.choice(ks)))
            elif r < 0.85:
                lines.append(rng.choice(JUNK[sec]))
            else:
                lines.append(lg.mutate(rng, lg.canon_line(rng, rng.choice(ks))))
        for p in (PERMS if rng.random() < 0.3 else [rng.choice(PERMS)]):
            order = [ks[i] for i in p]
            out.append(lg.disp_case(order, ks, lines, nontrivial=(p != [0, 1, 2]) or any(l in JUNK[sec] for l in lines)))
    return out


def run(ctx, only=None):
    if only:
        cs = [remake_chart(c) for c in only if c and c.get("kind") == "chart"]
        ds = [lg.disp_case(c["order"], c["report"], c["lines"]) for c in only if c and "order" in c]
    else:
        quick = ctx["tier"] == "quick"
        rng = ctx["rng"]
        cs = [remake_chart(c) for c in load_corpus("C14") if c.get("kind") == "chart"]
        while len(cs) < (120 if quick else 3000):
            cs.append(chart_case(rng))
        ds = disp_cases(ctx, 150 if quick else 4000)
    return merge([run_cases("C14c", cs, C_IN, PARSE_OUT, C_VERDICT, C_SPEC, shard_size=20),
                  run_cases("C14d", ds, lg.DISP_IN, lg.DISP_OUT, lg.DISP_VERDICT, lg.DISP_SPEC, shard_size=60)])


def search(ctx, result):
    rng = ctx["rng"]
    cs = [chart_case(rng) for _ in range(500)]
    r = merge([run_cases("C14cs", cs, C_IN, PARSE_OUT, C_VERDICT, C_SPEC, shard_size=20),
               run_cases("C14ds", disp_cases(ctx, 600), lg.DISP_IN, lg.DISP_OUT, lg.DISP_VERDICT, lg.DISP_SPEC, shard_size=60)])
    return dict(viol=r["viol"], evaluations=r["evaluations"], note="re-sampled %d cases" % r["evaluations"])


DIAG = """From CP Require Import Base.Prelude Base.Cfg Spec.RefRegex Gen.Src.
Eval vm_compute in (failing (instr_items cfg) ++ failing (sync_items cfg) ++ failing (events_items cfg))%list.
"""
