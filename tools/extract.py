#!/venv/bin/python
"""Translator: /repo  ->  coq/Gen/Src.v  (and coq/Gen/Imports.v, see extract_imports.py).

Regenerates, from the *current* working tree of /repo, everything that is data in the source:
the shipped regular expressions (as regex ASTs, through re._parser), enum values, the order in
which event kinds are tried, metadata field specs and defaults, header tags, the eighth-triplet
divisor, and the Unicode \\s / \\d / line-boundary tables of the running interpreter.

Fail-closed: anything the translator does not understand raises ExtractError with a named reason;
the caller treats that as a broken proof obligation.

Run with /venv/bin/python and PYTHONPATH=/repo.
"""
from __future__ import annotations

import ast
import hashlib
import io
import json
import os
import sys
import re

sys.path.insert(0, os.path.dirname(os.path.abspath(__file__)))
from coqfmt import coq_str, coq_Z, coq_N, coq_bool, coq_list, coq_ranges  # noqa: E402

REPO = os.environ.get("CHARTPARSE_REPO", "/repo")


class ExtractError(Exception):
    pass


# --------------------------------------------------------------------------------------------
# Unicode tables of the running interpreter
# --------------------------------------------------------------------------------------------

def _ranges(pred):
    out = []
    start = None
    for c in range(0x110000):
        if pred(c):
            if start is None:
                start = c
        elif start is not None:
            out.append((start, c - 1))
            start = None
    if start is not None:
        out.append((start, 0x10FFFF))
    return out


def unicode_tables():
    ws_re = re.compile(r"\s")
    d_re = re.compile(r"\d")
    ws = _ranges(lambda c: ws_re.match(chr(c)) is not None)
    digits = _ranges(lambda c: d_re.match(chr(c)) is not None)
    # split digit ranges into decades and check the digit value law against int()
    decades = []
    for lo, hi in digits:
        if (hi - lo + 1) % 10 != 0:
            raise ExtractError("digit range %x-%x is not a whole number of decades" % (lo, hi))
        for c in range(lo, hi + 1):
            if int(chr(c)) != (c - lo) % 10:
                raise ExtractError("digit value law fails at U+%04X" % c)
        decades.append((lo, hi))
    breaks = [c for c in range(0x110000) if ("a" + chr(c) + "b").splitlines() == ["a", "b"]]
    # \r\n must count once
    if "a\r\nb".splitlines() != ["a", "b"]:
        raise ExtractError("splitlines does not treat CRLF as one boundary")
    return ws, decades, breaks


# --------------------------------------------------------------------------------------------
# Regex translation
# --------------------------------------------------------------------------------------------

def translate_regex(pattern: "re.Pattern[str]") -> str:
    import re._parser as sp
    import re._constants as sc

    if pattern.flags != re.UNICODE:
        raise ExtractError("regex %r has flags %r (only re.UNICODE is supported)" % (pattern.pattern, pattern.flags))
    tree = sp.parse(pattern.pattern)

    def cls_of_in(items):
        neg = False
        rs = []
        items = list(items)
        if items and items[0][0] is sc.NEGATE:
            neg = True
            items = items[1:]
        if len(items) == 1 and items[0][0] is sc.CATEGORY and not neg:
            return cat(items[0][1])
        for op, av in items:
            if op is sc.LITERAL:
                rs.append((av, av))
            elif op is sc.RANGE:
                rs.append((av[0], av[1]))
            else:
                raise ExtractError("unsupported set item %r in %r" % (op, pattern.pattern))
        return "(Chr (KSet %s %s))" % (coq_bool(neg), coq_ranges(rs))

    def cat(c):
        if c is sc.CATEGORY_SPACE:
            return "(Chr KWs)"
        if c is sc.CATEGORY_DIGIT:
            return "(Chr KDigit)"
        raise ExtractError("unsupported category %r in %r" % (c, pattern.pattern))

    def seq_items(items, top):
        out = []
        items = list(items)
        n = len(items)
        anchored_end = False
        for idx, (op, av) in enumerate(items):
            if op is sc.AT:
                if av is sc.AT_BEGINNING and top and idx == 0:
                    continue
                if av is sc.AT_END and top and idx == n - 1:
                    out.append("eol")
                    anchored_end = True
                    continue
                raise ExtractError("unsupported anchor %r at position %d in %r" % (av, idx, pattern.pattern))
            out.extend(item(op, av))
        if top and not anchored_end:
            out.append("(Star (Chr (KSet true [])))")
        return out

    def one(items):
        xs = seq_items(items, False)
        return "(seq %s)" % coq_list(xs) if len(xs) != 1 else xs[0]

    def item(op, av):
        if op is sc.LITERAL:
            return ["(lit1 %s)" % coq_N(av)]
        if op is sc.NOT_LITERAL:
            return ["(Chr (KSet true [(%s, %s)]))" % (coq_N(av), coq_N(av))]
        if op is sc.ANY:
            return ["(Chr KDot)"]
        if op is sc.IN:
            return [cls_of_in(av)]
        if op is sc.CATEGORY:
            return [cat(av)]
        if op is sc.SUBPATTERN:
            group, add_flags, del_flags, p = av
            if add_flags or del_flags:
                raise ExtractError("inline flags in %r" % pattern.pattern)
            return seq_items(p, False)          # capture groups do not change the language
        if op in (sc.MAX_REPEAT, sc.MIN_REPEAT):
            lo, hi, p = av
            r = one(p)
            if (lo, hi) == (0, sc.MAXREPEAT):
                return ["(Star %s)" % r]
            if (lo, hi) == (1, sc.MAXREPEAT):
                return ["(plus %s)" % r]
            if (lo, hi) == (0, 1):
                return ["(opt %s)" % r]
            if hi is not sc.MAXREPEAT and 0 <= lo <= hi <= 8:
                # r{m,n} = r^m (r?)^(n-m); lazy/greedy does not change the language
                return [r] * lo + ["(opt %s)" % r] * (hi - lo)
            raise ExtractError("unsupported repeat {%s,%s} in %r" % (lo, hi, pattern.pattern))
        if op is sc.BRANCH:
            _, alts = av
            xs = [one(a) for a in alts]
            t = xs[-1]
            for x in reversed(xs[:-1]):
                t = "(Alt %s %s)" % (x, t)
            return [t]
        raise ExtractError("unsupported regex construct %r in %r" % (op, pattern.pattern))

    return "(seq %s)" % coq_list(seq_items(tree, True))


# --------------------------------------------------------------------------------------------
# Source introspection
# --------------------------------------------------------------------------------------------

def source_fingerprints():
    out = {}
    d = os.path.join(REPO, "chartparse")
    for fn in sorted(os.listdir(d)):
        if fn.endswith(".py"):
            with open(os.path.join(d, fn), "rb") as f:
                out[fn] = hashlib.sha256(f.read()).hexdigest()
    return out


def metadata_lookup_order():
    """(field, required) in the order Metadata.from_chart_lines looks fields up.
    First from the AST (the literal set_kwarg / maybe_set_kwarg calls); if the function has been restructured,
    dynamically: the order in which `_field_parsing_specs` is subscripted while parsing a [Song] body that
    defines every field, with `required` = the dataclass field has no default."""
    try:
        return _metadata_lookup_order_ast()
    except ExtractError:
        return _metadata_lookup_order_dynamic()


def _metadata_lookup_order_dynamic():
    import dataclasses
    import chartparse.metadata as meta

    class Recorder(dict):
        def __init__(self, d):
            super().__init__(d)
            self.order = []

        def __getitem__(self, k):
            if k not in self.order:
                self.order.append(k)
            return super().__getitem__(k)

    orig = meta._field_parsing_specs
    rec = Recorder(orig)
    meta._field_parsing_specs = rec
    try:
        try:
            meta.Metadata.from_chart_lines(["  Resolution = 192"])
        except Exception as e:  # noqa: BLE001
            raise ExtractError("cannot observe the metadata look-up order dynamically: %r" % (e,))
    finally:
        meta._field_parsing_specs = orig
    if set(rec.order) != set(orig):
        raise ExtractError("metadata look-up order: not every field spec was consulted (%r)" % (sorted(set(orig) ^ set(rec.order)),))
    dfields = {f.name: f for f in dataclasses.fields(meta.Metadata)}
    return [(n, dfields[n].default is dataclasses.MISSING) for n in rec.order]


def _metadata_lookup_order_ast():
    """(field, required) in the order Metadata.from_chart_lines looks fields up (from its AST)."""
    path = os.path.join(REPO, "chartparse", "metadata.py")
    tree = ast.parse(open(path).read())
    fn = None
    for node in ast.walk(tree):
        if isinstance(node, ast.ClassDef) and node.name == "Metadata":
            for b in node.body:
                if isinstance(b, ast.FunctionDef) and b.name == "from_chart_lines":
                    fn = b
    if fn is None:
        raise ExtractError("Metadata.from_chart_lines not found")
    order = []
    for st in fn.body:
        if isinstance(st, ast.Expr) and isinstance(st.value, ast.Call) and isinstance(st.value.func, ast.Name):
            name = st.value.func.id
            if name in ("set_kwarg", "maybe_set_kwarg"):
                args = st.value.args
                if len(args) != 1 or not isinstance(args[0], ast.Constant) or not isinstance(args[0].value, str) or st.value.keywords:
                    raise ExtractError("unsupported %s call shape in Metadata.from_chart_lines" % name)
                order.append((args[0].value, name == "set_kwarg"))
    if not order:
        raise ExtractError("no field look-ups found in Metadata.from_chart_lines")
    return order


def pascal_name_of(pattern: "re.Pattern[str]") -> str:
    """The literal run after the leading white-space repeat, minus the trailing ' = '."""
    import re._parser as sp
    import re._constants as sc
    items = list(sp.parse(pattern.pattern))
    i = 0
    if items and items[0][0] is sc.AT:
        i += 1
    if i < len(items) and items[i][0] in (sc.MIN_REPEAT, sc.MAX_REPEAT):
        i += 1
    chars = []
    while i < len(items) and items[i][0] is sc.LITERAL:
        chars.append(chr(items[i][1]))
        i += 1
    s = "".join(chars)
    if not s.endswith(" = ") or len(s) <= 3:
        raise ExtractError("cannot find the field name in %r" % pattern.pattern)
    return s[:-3]


def extract():
    import enum
    import dataclasses
    try:
        import chartparse.chart as chart_mod
        import chartparse.track as track_mod
        import chartparse.instrument as instr
        import chartparse.sync as sync
        import chartparse.globalevents as gev
        import chartparse.metadata as meta
        import chartparse.tick as tick
    except Exception as e:  # ImportError etc.
        raise ExtractError("package not importable (chartparse.chart first): %r" % (e,))

    ws, digits, breaks = unicode_tables()

    kinds = {
        instr.NoteEvent.ParsedData: "KNote",
        instr.StarPowerEvent.ParsedData: "KSP",
        instr.TrackEvent.ParsedData: "KTev",
        sync.BPMEvent.ParsedData: "KBpm",
        sync.TimeSignatureEvent.ParsedData: "KTs",
        sync.AnchorEvent.ParsedData: "KAnchor",
        gev.TextEvent.ParsedData: "KText",
        gev.SectionEvent.ParsedData: "KSection",
        gev.LyricEvent.ParsedData: "KLyric",
    }
    regexes = {}
    for cls, k in kinds.items():
        prog = getattr(cls, "_regex_prog", None)
        if not isinstance(prog, re.Pattern):
            raise ExtractError("%s has no compiled _regex_prog" % cls.__qualname__)
        regexes[k] = translate_regex(prog)
    header_re = translate_regex(chart_mod.Chart._header_tag_regex_prog)

    # kind orders: capture the `types` argument each track hands to the dispatcher
    captured = []
    orig = track_mod.parse_data_from_chart_lines

    def spy(types, lines):
        captured.append(tuple(types))
        return orig(types, lines)

    track_mod.parse_data_from_chart_lines = spy
    try:
        orders = {}
        for name, cls in (("instr", instr.InstrumentTrack), ("sync", sync.SyncTrack), ("events", gev.GlobalEventsTrack)):
            del captured[:]
            cls._parse_data_from_chart_lines([])
            if len(captured) != 1:
                raise ExtractError("%s._parse_data_from_chart_lines did not call the dispatcher exactly once" % cls.__name__)
            try:
                orders[name] = [kinds[t] for t in captured[0]]
            except KeyError as e:
                raise ExtractError("unknown ParsedData type in kind order: %r" % (e,))
    finally:
        track_mod.parse_data_from_chart_lines = orig

    def enum_values(E, typ, strict=True):
        vals = []
        for m in E:          # canonical members only, definition order
            if not isinstance(m.value, typ):
                # `Self = typ.TypeVar(...)` inside an Enum body becomes a member; it is never
                # constructed from parsed data, so it is skipped where that is harmless.
                if strict:
                    raise ExtractError("%s.%s has a value of type %s" % (E.__name__, m.name, type(m.value).__name__))
                continue
            vals.append(m.value)
        return vals

    instr_values = enum_values(instr.Instrument, str)
    diff_values = enum_values(instr.Difficulty, str)
    nti_values = enum_values(instr.NoteTrackIndex, int, strict=False)
    p2_values = enum_values(meta.Player2Instrument, str)
    note_values = enum_values(instr.Note, tuple, strict=False)
    hopo_values = {m.name: m.value for m in instr.HOPOState}

    et = tick.NoteDuration.EIGHTH_TRIPLET.value
    if not isinstance(et, int) or isinstance(et, bool):
        raise ExtractError("NoteDuration.EIGHTH_TRIPLET.value is %r, not an int" % (et,))

    # metadata
    order = metadata_lookup_order()
    specs = meta._field_parsing_specs
    dfields = {f.name: f for f in dataclasses.fields(meta.Metadata)}
    mfs = []
    for name, required in order:
        if name not in specs:
            raise ExtractError("no parsing spec for metadata field %r" % name)
        sp_ = specs[name]
        fn = sp_.processing_fn
        if fn is int:
            kind = "MInt"
        elif fn is str:
            kind = "MStr"
        else:
            try:
                ok = fn("bass") is meta.Player2Instrument.BASS and fn("rhythm") is meta.Player2Instrument.RHYTHM
            except Exception:
                ok = False
            bad = False
            try:
                fn("guitar")
            except ValueError:
                bad = True
            except Exception:
                bad = False
            if not (ok and bad):
                raise ExtractError("cannot classify processing_fn of metadata field %r" % name)
            kind = "MPlayer2"
        f = dfields.get(name)
        if f is None:
            raise ExtractError("Metadata has no dataclass field %r" % name)
        if f.default is dataclasses.MISSING:
            dflt = "MVNone"
            if not required:
                raise ExtractError("optional metadata field %r has no default" % name)
        else:
            v = f.default
            if v is None:
                dflt = "MVNone"
            elif isinstance(v, bool):
                raise ExtractError("bool default for %r" % name)
            elif isinstance(v, int):
                dflt = "(MVInt %s)" % coq_Z(v)
            elif isinstance(v, str):
                dflt = "(MVStr %s)" % coq_str(v)
            elif isinstance(v, meta.Player2Instrument):
                dflt = "(MVEnum %s)" % coq_str(v.value)
            else:
                raise ExtractError("unsupported default %r for %r" % (v, name))
        mfs.append(
            "{| mf_name := %s; mf_pascal := %s; mf_re := %s; mf_kind := %s; mf_required := %s; mf_default := %s |}"
            % (coq_str(name), coq_str(pascal_name_of(sp_.regex_prog)), translate_regex(sp_.regex_prog), kind, coq_bool(required), dflt)
        )
    if set(dfields) != set(n for n, _ in order):
        raise ExtractError("metadata dataclass fields and looked-up fields differ: %r" % (sorted(set(dfields) ^ set(n for n, _ in order)),))

    sp_lit = instr.StarPowerEvent.ParsedData._index_regex
    if not isinstance(sp_lit, str) or not sp_lit.isalnum():
        raise ExtractError("StarPowerEvent index regex %r is not a plain literal" % (sp_lit,))

    # kind of mapping from_file stores (C19): probe parse
    probe = "[Song]\n{\n  Resolution = 192\n}\n[SyncTrack]\n{\n  0 = TS 4\n  0 = B 120000\n}\n[Events]\n{\n}\n"
    try:
        ch = chart_mod.Chart.from_file(io.StringIO(probe))
        autoinsert = hasattr(type(ch.instrument_tracks), "__missing__")
    except Exception as e:
        raise ExtractError("probe chart does not parse: %r" % (e,))

    req = list(chart_mod.Chart._required_header_tags)
    dl = sync.TimeSignatureEvent._default_lower_numeral
    if not isinstance(dl, int):
        raise ExtractError("default lower numeral is not an int")

    lines = []
    lines.append("(* GENERATED by tools/extract.py from %s — do not edit *)" % REPO)
    lines.append("From CP Require Import Base.Prelude Base.Str Base.Regex Base.Cfg.")
    lines.append("Open Scope Z_scope.")
    lines.append("")
    lines.append("Definition tables_now : tables := {|")
    lines.append("  ws_ranges := %s;" % coq_ranges(ws))
    lines.append("  digit_ranges := %s;" % coq_ranges(digits))
    lines.append("  linebreaks := %s |}." % coq_list(coq_N(c) for c in breaks))
    lines.append("")
    for k, t in regexes.items():
        lines.append("Definition src_re_%s : re := %s." % (k, t))
    lines.append("Definition src_re_header : re := %s." % header_re)
    lines.append("")
    lines.append("Definition src_meta_fields : list meta_field := [")
    lines.append(";\n".join("  " + m for m in mfs))
    lines.append("].")
    lines.append("")
    lines.append("Definition cfg : Cfg.cfg := {|")
    lines.append("  tbl := tables_now;")
    lines.append("  re_note := src_re_KNote; re_sp := src_re_KSP; re_tev := src_re_KTev;")
    lines.append("  re_bpm := src_re_KBpm; re_ts := src_re_KTs; re_anchor := src_re_KAnchor;")
    lines.append("  re_text := src_re_KText; re_section := src_re_KSection; re_lyric := src_re_KLyric;")
    lines.append("  re_header := src_re_header;")
    lines.append("  meta_fields := src_meta_fields;")
    lines.append("  order_instr := %s;" % coq_list(orders["instr"]))
    lines.append("  order_sync := %s;" % coq_list(orders["sync"]))
    lines.append("  order_events := %s;" % coq_list(orders["events"]))
    lines.append("  instr_values := %s;" % coq_list(coq_str(v) for v in instr_values))
    lines.append("  diff_values := %s;" % coq_list(coq_str(v) for v in diff_values))
    lines.append("  nti_values := %s;" % coq_list(coq_Z(v) for v in nti_values))
    lines.append("  player2_values := %s;" % coq_list(coq_str(v) for v in p2_values))
    lines.append("  tag_song := %s; tag_sync := %s; tag_events := %s;" % (
        coq_str(meta.Metadata.header_tag), coq_str(sync.SyncTrack.header_tag), coq_str(gev.GlobalEventsTrack.header_tag)))
    lines.append("  required_tags := %s;" % coq_list(coq_str(v) for v in req))
    lines.append("  eighth_triplet := %s;" % coq_Z(et))
    lines.append("  default_lower := %s;" % coq_Z(dl))
    lines.append("  sp_literal := %s;" % coq_str(sp_lit))
    lines.append("  autoinsert_tracks := %s" % coq_bool(autoinsert))
    lines.append("|}.")
    lines.append("")
    # the 32 Note members as lane tuples, and the HOPOState values (checked by cfg_ok items)
    lines.append("Definition src_note_values : list (list Z) := %s." % coq_list(coq_list(coq_Z(x) for x in v) for v in note_values))
    lines.append("Definition src_hopo_values : list (str * Z) := %s." % coq_list("(%s, %s)" % (coq_str(k), coq_Z(v)) for k, v in hopo_values.items()))
    # C17: static purity scan (process-wide state and who writes it)
    import purity
    pit = purity.scan(REPO)
    def cstr(x):
        return '"%s"%%string' % "".join(ch if 32 <= ord(ch) < 127 and ch != '"' else "?" for ch in x)
    lines.append("Definition src_purity : list (String.string * bool) := %s." % coq_list("(%s, %s)" % (cstr(d), coq_bool(ok)) for d, ok in pit))
    text = "\n".join(lines) + "\n"
    info = {
        "fingerprints": source_fingerprints(),
        "python": sys.version.split()[0],
        "n_ws_ranges": len(ws), "n_digit_ranges": len(digits), "linebreaks": breaks,
        "orders": orders,
    }
    return text, info


def write_if_changed(path, text):
    try:
        with open(path) as f:
            if f.read() == text:
                return False
    except FileNotFoundError:
        pass
    tmp = path + ".tmp.%d" % os.getpid()
    with open(tmp, "w") as f:
        f.write(text)
    os.replace(tmp, path)
    return True


def main():
    out = sys.argv[1] if len(sys.argv) > 1 else os.path.join(os.path.dirname(os.path.abspath(__file__)), "..", "coq", "Gen", "Src.v")
    try:
        text, info = extract()
    except ExtractError as e:
        print(json.dumps({"ok": False, "reason": str(e)}))
        sys.exit(2)
    changed = write_if_changed(out, text)
    info.update(ok=True, changed=changed, out=os.path.abspath(out))
    print(json.dumps(info))


if __name__ == "__main__":
    main()
