#!/bin/sh
# usage: tools/mutant.sh <patch> <Cxx> [<Cyy> ...] : apply a seeded change to /repo, run the checks, undo it.
# Evidence of these runs goes to work/mutant_evidence, never to evidence/.
# With MUT_SCRATCH=1 the change is applied to a throw-away copy of /repo's HEAD under /tmp instead and the checks are
# pointed at it (CHARTPARSE_REPO), so that other jobs reading /repo at the same time are not disturbed.
patch="$1"; shift
mkdir -p /verif/work/mutant_evidence
if [ -n "$MUT_SCRATCH" ]; then
  S=/tmp/mutrepo.$$; rm -rf "$S"; mkdir -p "$S"
  git -C /repo archive HEAD | tar -x -C "$S" || exit 2
  (cd "$S" && git apply "$patch") || { rm -rf "$S"; exit 2; }
  for p in "$@"; do
    CHARTPARSE_REPO="$S" VERIF_EVIDENCE_DIR=/verif/work/mutant_evidence /verif/check "$p" 2>&1 | grep -E "^(VIOLATION|FAIL|ok) "
  done
  rm -rf "$S"
  exit 0
fi
git -C /repo apply "$patch" || exit 2
for p in "$@"; do
  VERIF_EVIDENCE_DIR=/verif/work/mutant_evidence /verif/check "$p" 2>&1 | grep -E "^(VIOLATION|FAIL|ok) "
done
git -C /repo checkout -- .
git -C /repo status --short
