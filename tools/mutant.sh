#!/bin/sh
# usage: tools/mutant.sh <patch> <Cxx> [<Cyy> ...] : apply a seeded change to /repo, run the checks, undo it.
# Evidence of these runs goes to work/mutant_evidence, never to evidence/.
patch="$1"; shift
git -C /repo apply "$patch" || exit 2
mkdir -p /verif/work/mutant_evidence
for p in "$@"; do
  VERIF_EVIDENCE_DIR=/verif/work/mutant_evidence /verif/check "$p" 2>&1 | grep -E "^(VIOLATION|FAIL|ok) "
done
git -C /repo checkout -- .
git -C /repo status --short
