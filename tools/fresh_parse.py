#!/venv/bin/python
"""Parse ONE chart text in this (fresh) interpreter and print the observation as a Coq term.
stdin: JSON {"text": ..., "want": [[instrument, difficulty], ...] | null}.  Used by props/C17.py."""
import json
import os
import sys

sys.path.insert(0, os.path.dirname(os.path.abspath(__file__)))
sys.path.insert(0, os.environ.get("CHARTPARSE_REPO", "/repo"))
import pyval  # noqa: E402

d = json.load(sys.stdin)
want = None if d.get("want") is None else [tuple(x) for x in d["want"]]
_, _, term = pyval.parse_text(d["text"], want)
sys.stdout.write(term)
