#!/bin/sh
# usage: tools/harmless_trial.sh <out file> : run the behaviour-preserving refactorings (seeded/harmless) against the checks they touch
out="$1"; : > "$out"
run() { p="$1"; shift; for c in "$@"; do r=$(MUT_SCRATCH=1 /verif/tools/mutant.sh /verif/seeded/harmless/patch_$p.diff $c 2>&1 | grep -E "^VIOLATION|^FAIL|^ok" | cut -c1-160 | tr '\n' '|'); echo "patch_$p $c :: $r" >> "$out"; done; }
run 1 C01 C11 C12
run 2 C02 C03 C05
run 3 C07 C02
run 4 C14 C18
run 5 C06 C13
run 6 C10
run 7 C20 C17
run 8 C01 C04
