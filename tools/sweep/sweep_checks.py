#!/venv/bin/python
"""Run the /verif checks (in 4 private clones of /verif) against suite-surviving, behaviour-changing mutants."""
import json, os, random, shutil, subprocess, threading, sys
from concurrent.futures import ThreadPoolExecutor
M = "/tmp/mut/m"
r = json.load(open("/tmp/mut/smoke_result.json"))
d = [x for x in r if x["ndiff"] != 0]
rng = random.Random(7)
const = [x for x in d if x["desc"].startswith("const")]
other = [x for x in d if not x["desc"].startswith("const")]
rng.shuffle(const)
todo = other + const[:int(sys.argv[1]) if len(sys.argv) > 1 else 40]
MAP = {"tick.py": ["C04", "C01", "C12"], "sync.py": ["C15", "C08", "C11", "C01", "C12"], "instrument.py": ["C02", "C03", "C04", "C05", "C07"],
       "track.py": ["C14", "C09", "C07", "C08"], "chart.py": ["C06", "C13", "C16"], "globalevents.py": ["C09"], "metadata.py": ["C10"],
       "event.py": ["C18", "C19"], "util.py": ["C19", "C18"], "exceptions.py": ["C18", "C14"], "time.py": ["C01", "C18"]}
NW = 4
for k in range(NW):
    v = "/tmp/vc%d" % k
    shutil.rmtree(v, ignore_errors=True)
    subprocess.run("mkdir -p %s && cd /verif && tar -c --exclude=.git --exclude=work --exclude=seeded --exclude=evidence . | tar -x -C %s && mkdir -p %s/work %s/evidence" % (v, v, v, v), shell=True, check=True)
    rp = "/tmp/mut/r%d" % k
    shutil.rmtree(rp, ignore_errors=True); os.makedirs(rp)
    subprocess.run("git -C /repo archive HEAD | tar -x -C %s" % rp, shell=True, check=True)
lock = threading.Lock()
free = list(range(NW))
out = []
def one(s):
    with lock:
        k = free.pop()
    try:
        m = json.load(open(os.path.join(M, s["id"] + ".json")))
        rp, v = "/tmp/mut/r%d" % k, "/tmp/vc%d" % k
        path = os.path.join(rp, "chartparse", m["file"])
        orig = open(path).read()
        open(path, "w").write(m["source"])
        verdicts = []
        for c in MAP.get(m["file"], ["C18"]):
            try:
                p = subprocess.run([v + "/check", c], capture_output=True, text=True, timeout=2400, cwd=v,
                                   env=dict(os.environ, CHARTPARSE_REPO=rp, VERIF_EVIDENCE_DIR=v + "/work/ev"))
                line = [l for l in p.stdout.splitlines() if l.startswith(("ok ", "FAIL ", "VIOLATION "))]
                verdicts.append((c, "ok" if any(l.startswith("ok ") for l in line) else ("noinput" if any("no-failing-input-found" in l for l in line) else "caught")))
            except subprocess.TimeoutExpired:
                verdicts.append((c, "timeout"))
            if verdicts[-1][1] == "caught":
                break
        open(path, "w").write(orig)
        with lock:
            out.append(dict(s, verdicts=verdicts))
            json.dump(out, open("/tmp/mut/sweep_result.json", "w"), indent=0)
    finally:
        with lock:
            free.append(k)
with ThreadPoolExecutor(max_workers=NW) as ex:
    list(ex.map(one, todo))
und = [x for x in out if all(v == "ok" for _, v in x["verdicts"])]
print(len(out), "mutants;", len(und), "undetected by every mapped check;", sum(1 for x in out if any(v == "caught" for _, v in x["verdicts"])), "caught with an input")
