#!/venv/bin/python
"""Single-edit mutants of chartparse/*.py (ast based): comparison swaps, +-1 on small int constants, and<->or, not-insertion on
if tests, statement deletion (assign / expr / augassign inside functions), break<->continue, True<->False, 0<->1 indices.
Writes /tmp/mut/m/<n>.json = {file, lineno, desc, source}."""
import ast, copy, json, os, sys
SRC = sys.argv[1]
OUT = "/tmp/mut/m"
os.makedirs(OUT, exist_ok=True)
n = 0
CMP = {ast.Lt: [ast.LtE, ast.GtE], ast.LtE: [ast.Lt, ast.Gt], ast.Gt: [ast.GtE, ast.LtE], ast.GtE: [ast.Gt, ast.Lt], ast.Eq: [ast.NotEq], ast.NotEq: [ast.Eq],
       ast.Is: [ast.IsNot], ast.IsNot: [ast.Is], ast.In: [ast.NotIn], ast.NotIn: [ast.In]}
def emit(fn, tree, lineno, desc):
    global n
    try:
        src = ast.unparse(tree)
        compile(src, fn, "exec")
    except Exception:
        return
    json.dump(dict(file=fn, lineno=lineno, desc=desc, source=src), open(os.path.join(OUT, "%05d.json" % n, ), "w"))
    n += 1
for fn in sorted(os.listdir(os.path.join(SRC, "chartparse"))):
    if not fn.endswith(".py") or fn in ("hints.py",):
        continue
    path = os.path.join(SRC, "chartparse", fn)
    text = open(path).read()
    base = ast.parse(text)
    nodes = list(ast.walk(base))
    for idx, node in enumerate(nodes):
        ln = getattr(node, "lineno", 0)
        def mutate(f):
            t = copy.deepcopy(base)
            m = list(ast.walk(t))[idx]
            return t, m
        if isinstance(node, ast.Compare):
            for k, op in enumerate(node.ops):
                for new in CMP.get(type(op), []):
                    t, m = mutate(None); m.ops[k] = new(); emit(fn, t, ln, "cmp %s->%s" % (type(op).__name__, new.__name__))
        elif isinstance(node, ast.BoolOp):
            t, m = mutate(None); m.op = ast.Or() if isinstance(node.op, ast.And) else ast.And(); emit(fn, t, ln, "and<->or")
        elif isinstance(node, ast.Constant) and isinstance(node.value, bool):
            t, m = mutate(None); m.value = not node.value; emit(fn, t, ln, "bool flip")
        elif isinstance(node, ast.Constant) and isinstance(node.value, int) and not isinstance(node.value, bool) and abs(node.value) <= 1000:
            for d in (1, -1):
                t, m = mutate(None); m.value = node.value + d; emit(fn, t, ln, "const %d->%d" % (node.value, node.value + d))
        elif isinstance(node, ast.BinOp) and isinstance(node.op, (ast.Add, ast.Sub, ast.Mult, ast.Div, ast.FloorDiv)):
            alt = {ast.Add: ast.Sub, ast.Sub: ast.Add, ast.Mult: ast.Div, ast.Div: ast.Mult, ast.FloorDiv: ast.Div}[type(node.op)]
            t, m = mutate(None); m.op = alt(); emit(fn, t, ln, "binop %s->%s" % (type(node.op).__name__, alt.__name__))
        elif isinstance(node, ast.If):
            t, m = mutate(None); m.test = ast.UnaryOp(op=ast.Not(), operand=m.test); emit(fn, t, ln, "negate if")
        elif isinstance(node, ast.Break):
            t, m = mutate(None)
            for p in ast.walk(t):
                for f_, v in ast.iter_fields(p):
                    if isinstance(v, list) and m in v:
                        v[v.index(m)] = ast.Continue()
            emit(fn, t, ln, "break->continue")
        elif isinstance(node, ast.Continue):
            t, m = mutate(None)
            for p in ast.walk(t):
                for f_, v in ast.iter_fields(p):
                    if isinstance(v, list) and m in v:
                        v[v.index(m)] = ast.Break()
            emit(fn, t, ln, "continue->break")
        elif isinstance(node, ast.FunctionDef):
            for k, st in enumerate(node.body):
                if isinstance(st, (ast.Assign, ast.AugAssign, ast.Expr)) and not (isinstance(st, ast.Expr) and isinstance(st.value, ast.Constant)) and len(node.body) > 1:
                    t, m = mutate(None); del m.body[k]; emit(fn, t, getattr(st, "lineno", ln), "delete stmt")
        elif isinstance(node, ast.Subscript) and isinstance(node.slice, ast.UnaryOp) and isinstance(node.slice.op, ast.USub) and ast.unparse(node.slice) == "-1":
            t, m = mutate(None); m.slice = ast.Constant(value=0); emit(fn, t, ln, "[-1]->[0]")
        elif isinstance(node, ast.Call) and len(node.args) >= 2 and not node.keywords and all(isinstance(a, ast.Name) for a in node.args[:2]):
            t, m = mutate(None); m.args[0], m.args[1] = m.args[1], m.args[0]; emit(fn, t, ln, "swap args")
print(n)
