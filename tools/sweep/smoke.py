#!/venv/bin/python
"""usage: smoke.py <repo dir> <out json>: observable behaviour of the package in <repo dir> on the smoke corpus."""
import sys, os, json, io, hashlib
repo, out = sys.argv[1], sys.argv[2]
sys.path.insert(0, "/verif/tools")
sys.path.insert(0, repo)
import pyval
texts = json.load(open("/tmp/mut/smoke_texts.json"))
res = []
def h(s):
    return hashlib.sha1(s.encode("utf-8", "backslashreplace")).hexdigest()[:12]
import chartparse.chart as C, chartparse.instrument as I
for t in texts:
    obs = []
    try:
        ch, exc, term = pyval.parse_text(t, None)
        obs.append(h(term))
        if ch is not None:
            try:
                obs.append(h(str(ch) + repr(ch)))
                evs = []
                for inner in ch.instrument_tracks.values():
                    for tr in inner.values():
                        evs += list(tr.note_events)[:50] + list(tr.star_power_events)[:10] + list(tr.track_events)[:10]
                obs.append(h("".join(str(e) + repr(e) for e in evs)))
            except Exception as e:
                obs.append("render:" + type(e).__name__)
            for i in list(ch.instrument_tracks.keys())[:3]:
                for d in list(ch.instrument_tracks[i].keys())[:2]:
                    for args in ((), (0,), (0, 768), (100, 50)):
                        try:
                            obs.append(repr(ch.notes_per_second(i, d, *args)))
                        except Exception as e:
                            obs.append(type(e).__name__)
            be = ch.sync_track.bpm_events
            for tk in (0, 1, 191, 192, 1000, 100000):
                for hint in (None, 0, 1, len(be.events)):
                    try:
                        r = be.timestamp_at_tick(tk) if hint is None else be.timestamp_at_tick(tk, start_iteration_index=hint)
                        obs.append("%s,%s" % (r[0], r[1]))
                    except Exception as e:
                        obs.append(type(e).__name__)
            try:
                obs.append(repr(ch[I.Instrument.GUITAR].keys()))
            except Exception as e:
                obs.append(type(e).__name__)
            try:
                ch2 = C.Chart.from_file(io.StringIO(t, newline=""))
                obs.append(str(ch == ch2))
            except Exception as e:
                obs.append("re:" + type(e).__name__)
            # selection
            try:
                ch3 = C.Chart.from_file(io.StringIO(t, newline=""), want_tracks=[(I.Instrument.GUITAR, I.Difficulty.EXPERT)])
                obs.append(h(pyval.r_chart(ch3)))
            except Exception as e:
                obs.append("sel:" + type(e).__name__)
    except Exception as e:
        obs.append("harness:" + type(e).__name__)
    res.append(h("|".join(obs)))
json.dump(res, open(out, "w"))
