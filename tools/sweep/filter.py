#!/venv/bin/python
"""Run the suite on every mutant (8 workers, each with its own copy of the repo); survivors -> /tmp/mut/survivors.json"""
import json, os, shutil, subprocess, sys
from concurrent.futures import ThreadPoolExecutor
import threading
M = "/tmp/mut/m"
files = sorted(os.listdir(M))
NW = 8
pool = []
for k in range(NW):
    d = "/tmp/mut/w%d" % k
    shutil.rmtree(d, ignore_errors=True)
    os.makedirs(d)
    subprocess.run("git -C /repo archive HEAD | tar -x -C %s" % d, shell=True, check=True)
    pool.append(d)
lock = threading.Lock()
free = list(pool)
surv = []
def one(f):
    with lock:
        d = free.pop()
    try:
        m = json.load(open(os.path.join(M, f)))
        path = os.path.join(d, "chartparse", m["file"])
        orig = open(path).read()
        open(path, "w").write(m["source"])
        try:
            p = subprocess.run(["/venv/bin/python", "-m", "pytest", "-q", "-x", "-p", "no:cacheprovider", "--timeout=60",
                                "--deselect", "tests/test_instrument.py::TestNoteEvent::TestEndTick::test_wrapper"],
                               cwd=d, capture_output=True, text=True, timeout=300, env=dict(os.environ, PYTHONDONTWRITEBYTECODE="1"))
            ok = p.returncode == 0
        except subprocess.TimeoutExpired:
            ok = False
        open(path, "w").write(orig)
        if ok:
            with lock:
                surv.append(dict(id=f[:-5], file=m["file"], lineno=m["lineno"], desc=m["desc"]))
    finally:
        with lock:
            free.append(d)
with ThreadPoolExecutor(max_workers=NW) as ex:
    list(ex.map(one, files))
json.dump(sorted(surv, key=lambda x: x["id"]), open("/tmp/mut/survivors.json", "w"), indent=0)
print(len(files), "mutants,", len(surv), "survive the suite")
