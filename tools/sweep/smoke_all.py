#!/venv/bin/python
import json, os, shutil, subprocess, threading
from concurrent.futures import ThreadPoolExecutor
M = "/tmp/mut/m"
surv = json.load(open("/tmp/mut/survivors.json"))
base = json.load(open("/tmp/mut/base.json"))
NW = 10
pool = []
for k in range(NW):
    d = "/tmp/mut/w%d" % k
    shutil.rmtree(d, ignore_errors=True)
    os.makedirs(d)
    subprocess.run("git -C /repo archive HEAD | tar -x -C %s" % d, shell=True, check=True)
    pool.append(d)
lock = threading.Lock()
free = list(pool)
out = []
def one(s):
    with lock:
        d = free.pop()
    try:
        m = json.load(open(os.path.join(M, s["id"] + ".json")))
        path = os.path.join(d, "chartparse", m["file"])
        orig = open(path).read()
        open(path, "w").write(m["source"])
        res = os.path.join(d, "smoke.json")
        try:
            p = subprocess.run(["/venv/bin/python", "/tmp/mut/smoke.py", d, res], capture_output=True, text=True, timeout=900,
                               env=dict(os.environ, PYTHONHASHSEED="0", PYTHONDONTWRITEBYTECODE="1"))
            if p.returncode != 0:
                ndiff = -1
            else:
                r = json.load(open(res))
                ndiff = sum(1 for a, b in zip(r, base) if a != b)
        except subprocess.TimeoutExpired:
            ndiff = -2
        open(path, "w").write(orig)
        with lock:
            out.append(dict(s, ndiff=ndiff))
    finally:
        with lock:
            free.append(d)
with ThreadPoolExecutor(max_workers=NW) as ex:
    list(ex.map(one, surv))
json.dump(sorted(out, key=lambda x: x["id"]), open("/tmp/mut/smoke_result.json", "w"), indent=0)
print(len(out), "survivors;", sum(1 for x in out if x["ndiff"] != 0), "change observable behaviour on the smoke corpus")
