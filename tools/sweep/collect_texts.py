import sys, json, random, glob, os
sys.path.insert(0, "/verif/tools")
import importlib
texts = []
def add(t):
    if isinstance(t, str) and t not in seen and len(t) < 20000:
        seen.add(t); texts.append(t)
seen = set()
for f in glob.glob("/verif/corpus/*/*.json"):
    d = json.load(open(f))
    if isinstance(d, dict):
        add(d.get("text"))
rng = random.Random(12345)
ctx = dict(rng=rng, tier="quick")
for pid, fn, n in (("C02", "cases", 120), ("C03", "cases", 100), ("C04", "cases", 100), ("C05", "cases", 100), ("C18", "cases", 250)):
    m = importlib.import_module("props." + pid)
    try:
        for c in getattr(m, fn)(ctx, n):
            add(c["case"].get("text"))
    except Exception as e:
        print(pid, "failed", e)
for pid, gen in (("C12", "make_c"), ("C13", None), ("C14", "chart_case"), ("C16", "gen"), ("C19", "gen"), ("C01", None), ("C15", "make_c"), ("C11", None)):
    m = importlib.import_module("props." + pid)
    for _ in range(60):
        try:
            if pid == "C13":
                secs, secs2, sel, changed, mode = m.gen(rng)
                from props import C06 as c06
                add(c06.render(secs2, "\n"))
            elif pid == "C16":
                add(m.gen(rng)[0])
            elif pid == "C19":
                add(m.gen(rng)[0])
            elif pid == "C01":
                R, tm = m.gen_tm(rng, 6)
                add(m.make_c(R, tm, rng)["case"]["text"])
            elif pid == "C11":
                pass
            else:
                add(getattr(m, gen)(rng)["case"]["text"])
        except Exception as e:
            pass
import tempfile
from props import C06 as c06
with tempfile.TemporaryDirectory() as td:
    try:
        for c in c06.cases(ctx, 80, td):
            add(c["case"].get("text"))
    except Exception as e:
        print("C06 failed", e)
json.dump(texts, open("/tmp/mut/smoke_texts.json", "w"))
print(len(texts))
