#!/bin/sh
# run every claimed check on the unchanged tree with other seeds; evidence goes to work/seed_evidence (never evidence/)
cd /verif
mkdir -p work/seed_evidence
ids=$(python3 -c "import json;print(' '.join(c['property_id'] for c in json.load(open('MANIFEST.json'))['checks']))")
for s in "$@"; do
  for p in $ids; do
    r=$(VERIF_SEED=$s VERIF_EVIDENCE_DIR=/verif/work/seed_evidence ./check $p 2>&1 | grep -E "^(ok|FAIL|VIOLATION) " | tr '\n' '|')
    echo "seed=$s $r"
  done
done
