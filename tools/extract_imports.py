#!/venv/bin/python
"""C20 translator: module-level import behaviour of every chartparse module -> coq/Gen/Imports.v.

Reads <repo>/chartparse/**/*.py with `ast` (the package is never imported) and writes
`Definition import_progs : list (modname * list stmt)` in the statement language of
coq/Model/Imports.v.  FAIL-CLOSED: anything whose import-time effect the statement language cannot
express makes the run fail with a named reason (one JSON line on stdout, exit code 2).

    /venv/bin/python /verif/tools/extract_imports.py [output.v]
    env CHARTPARSE_REPO (default /repo): directory that contains the package directory `chartparse`

What is translated (module-level statements, in source order):
  import chartparse.a.b [as x]      -> SImport / SImportAs
  from chartparse.a import X as Y   -> SFrom (relative imports are made absolute)
  other imports                     -> SExternal [names they bind]
  def / class / X = typing.TypeVar|NewType|ParamSpec|TypeVarTuple(...)   -> SBind BDef
  other assignments                 -> SBind BVal;  X = <pure chain rooted at an imported name> -> SAlias
  every Name/Attribute chain rooted at a name bound by a chartparse import that is EVALUATED at
  import time (decorators, bases, class keywords, default values, class bodies, top-level
  expressions, right-hand sides, and annotations unless the module has
  `from __future__ import annotations`)                                   -> SUse
  `if typing.TYPE_CHECKING:` bodies are dropped (an `else:` branch is unconditional).

What fails closed: star imports; package imports or uses of imported package names inside any other
module-level compound statement or inside a class body; `del` / `raise` / walrus at module level;
`__all__`; importlib / __import__ / globals() / exec / eval / setattr / sys.modules & co evaluated at
import time; assignment to an attribute of an imported package module; a class body, comprehension
or lambda that rebinds an imported package name; a package __init__ that binds the name of one of
its own submodules to something else; namespace packages and extension modules; and CALLS THAT
COULD RUN IMPORT-SENSITIVE FUNCTION BODIES AT IMPORT TIME: a function is import-sensitive if its body
imports from the package, reads a package MODULE object bound at module level (chartparse.x.Y style
late binding), uses `global` or one of the dynamic features above, or mentions the name of another
import-sensitive function (closure over bare names, across the whole package).  An import-sensitive
function must not have a dunder/sunder name (implicitly invoked hooks), must only carry well-known
non-calling decorators, and its name must not be mentioned by any expression evaluated at import time.
Residual assumption (not checkable statically): import-time calls do not reach import-sensitive code
through objects passed around under other names, and third-party code does not import chartparse.
"""
from __future__ import annotations

import ast
import hashlib
import json
import os
import sys

PKG = "chartparse"
DEFAULT_OUT = os.path.join(os.path.dirname(os.path.dirname(os.path.abspath(__file__))), "coq", "Gen", "Imports.v")

# builtins (bare names) and attribute names whose evaluation can change or inspect import state
DYNAMIC_NAMES = {
    "__import__", "import_module", "reload", "globals", "locals", "vars", "exec", "eval", "compile",
    "setattr", "delattr", "__builtins__", "get_type_hints", "singledispatch", "singledispatchmethod",
}
DYNAMIC_ATTRS = {
    "__import__", "import_module", "reload", "get_type_hints", "singledispatch", "singledispatchmethod",
    "meta_path", "path_hooks", "path_importer_cache",
}
TYPING_FACTORIES = {"TypeVar", "NewType", "ParamSpec", "TypeVarTuple"}
SAFE_DECORATORS = {
    "staticmethod", "classmethod", "property", "abstractmethod", "abc.abstractmethod", "overload", "final", "override",
    "functools.lru_cache", "functools.cache", "functools.cached_property", "lru_cache", "cache", "cached_property",
}
COMPOUND = (ast.If, ast.Try, ast.With, ast.AsyncWith, ast.For, ast.AsyncFor, ast.While) + tuple(
    getattr(ast, n) for n in ("TryStar", "Match") if hasattr(ast, n))
FUNCS = (ast.FunctionDef, ast.AsyncFunctionDef)


class Fail(Exception):
    pass


def fail(mod, node, why):
    line = getattr(node, "lineno", 0)
    raise Fail("%s:%s: %s" % (mod, line, why))


# ------------------------------------------------------------------------------------------------
# discovery
# ------------------------------------------------------------------------------------------------

def discover(repo):
    root = os.path.join(repo, PKG)
    if not os.path.isfile(os.path.join(root, "__init__.py")):
        raise Fail("no package %s/__init__.py under %s" % (PKG, repo))
    found = {}
    for dirpath, dirnames, filenames in os.walk(root):
        dirnames[:] = sorted(d for d in dirnames if d != "__pycache__")
        rel = os.path.relpath(dirpath, repo)
        parts = rel.split(os.sep)
        pyfiles = sorted(f for f in filenames if f.endswith(".py"))
        for f in filenames:
            if f.endswith((".so", ".pyd", ".pyx", ".pth")):
                raise Fail("extension or path file %s in %s" % (f, rel))
        has_py_below = bool(pyfiles)
        if has_py_below and "__init__.py" not in pyfiles:
            raise Fail("namespace package (python files without __init__.py) in %s" % rel)
        if "__init__.py" not in pyfiles:
            dirnames[:] = [] if not pyfiles else dirnames
            continue
        for part in parts:
            if not part.isidentifier():
                raise Fail("directory name %r is not an identifier" % part)
        for f in pyfiles:
            stem = f[:-3]
            if stem == "__init__":
                name, is_pkg = ".".join(parts), True
            else:
                if not stem.isidentifier():
                    raise Fail("module file name %r is not an identifier" % f)
                name, is_pkg = ".".join(parts + [stem]), False
            if name in found:
                raise Fail("module %s found twice" % name)
            found[name] = (os.path.join(dirpath, f), is_pkg)
    for name, (_, is_pkg) in found.items():
        if not is_pkg and any(o.startswith(name + ".") for o in found):
            raise Fail("module %s is both a file and a package" % name)
    return found


# ------------------------------------------------------------------------------------------------
# per-module translation
# ------------------------------------------------------------------------------------------------

def in_pkg(name):
    return name == PKG or name.startswith(PKG + ".")


def chain_of(node):
    """(root Name id, [attrs]) for a pure Name/Attribute load chain, else None."""
    attrs = []
    while isinstance(node, ast.Attribute):
        attrs.append(node.attr)
        node = node.value
    if isinstance(node, ast.Name):
        return node.id, list(reversed(attrs))
    return None


def stored_names(target):
    out = []
    if isinstance(target, ast.Name):
        out.append(target.id)
    elif isinstance(target, (ast.Tuple, ast.List)):
        for e in target.elts:
            out.extend(stored_names(e))
    elif isinstance(target, ast.Starred):
        out.extend(stored_names(target.value))
    return out


class Module:
    def __init__(self, name, path, is_pkg, all_modules):
        self.name = name
        self.path = path
        self.is_pkg = is_pkg
        self.all_modules = all_modules
        with open(path, "rb") as fh:
            self.src = fh.read()
        try:
            self.tree = ast.parse(self.src, filename=path)
        except SyntaxError as e:
            raise Fail("%s: syntax error: %s" % (name, e))
        self.future_annotations = False
        self.typing_aliases = set()      # names bound to the typing module
        self.type_checking_names = set() # names bound to typing.TYPE_CHECKING
        self.importlib_names = set()
        self.tracked = set()             # module-level names bound by package imports
        self.module_roots = set()        # ... those that are bound to MODULE objects
        self.stmts = []                  # output
        self.import_time_names = set()   # every Name id / attribute name evaluated at import time
        self.import_time_lambdas = []
        self.bound_so_far = {}           # name -> kind of last module-level binding
        self.stats = {"type_checking_dropped": 0, "conditional_binds": 0}
        self.prescan()

    # -- helpers ---------------------------------------------------------------------------------
    def resolve_from(self, node):
        if node.level == 0:
            return node.module
        base = self.name.split(".") if self.is_pkg else self.name.split(".")[:-1]
        up = node.level - 1
        if up >= len(base):
            fail(self.name, node, "relative import beyond the top-level package")
        if up:
            base = base[:-up]
        return ".".join(base + ([node.module] if node.module else []))

    def is_type_checking_test(self, test):
        if isinstance(test, ast.Name):
            return test.id in self.type_checking_names
        if isinstance(test, ast.Attribute) and test.attr == "TYPE_CHECKING" and isinstance(test.value, ast.Name):
            return test.value.id in self.typing_aliases
        return False

    def prescan(self):
        """typing aliases, __future__ flag and the set of tracked names (module-level statements only,
        including the unconditional else-branch of TYPE_CHECKING blocks)."""
        for s in self.flat_toplevel(self.tree.body, count=False):
            if isinstance(s, ast.Import):
                for a in s.names:
                    if a.name == "typing":
                        self.typing_aliases.add(a.asname or "typing")
                    if a.name.split(".")[0] == "importlib":
                        self.importlib_names.add(a.asname or "importlib")
                    if in_pkg(a.name):
                        if a.asname:
                            self.tracked.add(a.asname)
                            self.module_roots.add(a.asname)
                        else:
                            self.tracked.add(PKG)
                            self.module_roots.add(PKG)
            elif isinstance(s, ast.ImportFrom):
                full = self.resolve_from(s)
                if full == "__future__":
                    if any(a.name == "annotations" for a in s.names):
                        self.future_annotations = True
                elif full == "typing":
                    for a in s.names:
                        if a.name == "TYPE_CHECKING":
                            self.type_checking_names.add(a.asname or a.name)
                elif full.split(".")[0] == "importlib":
                    for a in s.names:
                        self.importlib_names.add(a.asname or a.name)
                if in_pkg(full):
                    for a in s.names:
                        if a.name == "*":
                            fail(self.name, s, "star import from the package")
                        bound = a.asname or a.name
                        self.tracked.add(bound)
                        if full + "." + a.name in self.all_modules:
                            self.module_roots.add(bound)

    def flat_toplevel(self, body, count=True):
        """Module-level statements with TYPE_CHECKING blocks removed (else-branches inlined)."""
        for s in body:
            if isinstance(s, ast.If) and self.is_type_checking_test(s.test):
                if count:
                    self.stats["type_checking_dropped"] += 1
                yield from self.flat_toplevel(s.orelse, count)
            else:
                yield s

    # -- expression walker -----------------------------------------------------------------------
    def uses(self, node, out):
        """Append the tracked chains evaluated when `node` is evaluated (in evaluation-ish order)."""
        if node is None:
            return
        if isinstance(node, list):
            for n in node:
                self.uses(n, out)
            return
        if isinstance(node, (ast.Attribute, ast.Name)):
            ch = chain_of(node)
            if ch is not None:
                root, path = ch
                self.note_names([root] + path, node)
                if root in self.importlib_names:
                    fail(self.name, node, "importlib used at import time")
                if root in self.tracked:
                    if not isinstance(getattr(node, "ctx", None), ast.Load):
                        fail(self.name, node, "store/delete through imported package name %s" % root)
                    out.append((root, path))
                return
            self.note_names([node.attr], node, attrs_only=True)
            self.uses(node.value, out)
            return
        if isinstance(node, ast.Lambda):
            self.uses(node.args.defaults, out)
            self.uses([d for d in node.args.kw_defaults if d is not None], out)
            self.import_time_lambdas.append(node)
            return
        if isinstance(node, ast.NamedExpr):
            fail(self.name, node, "walrus assignment evaluated at import time")
        if isinstance(node, (ast.ListComp, ast.SetComp, ast.DictComp, ast.GeneratorExp)):
            for g in node.generators:
                for n in stored_names(g.target):
                    if n in self.tracked:
                        fail(self.name, node, "comprehension rebinds imported package name %s" % n)
        if isinstance(node, (ast.Await, ast.Yield, ast.YieldFrom)):
            fail(self.name, node, "await/yield at import time")
        for child in ast.iter_child_nodes(node):
            if isinstance(child, (ast.expr_context, ast.operator, ast.unaryop, ast.boolop, ast.cmpop)):
                continue
            self.uses(child, out)

    def note_names(self, names, node, attrs_only=False):
        for i, n in enumerate(names):
            if n == "__all__":
                fail(self.name, node, "__all__ is used")
            if n in (DYNAMIC_ATTRS if (attrs_only or i > 0) else DYNAMIC_NAMES):
                fail(self.name, node, "dynamic feature %s evaluated at import time" % n)
            if i > 0 and n == "modules" and names[0] == "sys":
                fail(self.name, node, "sys.modules evaluated at import time")
            self.import_time_names.add(n)

    def fn_header_uses(self, fn, out):
        self.uses(fn.decorator_list, out)
        a = fn.args
        self.uses(a.defaults, out)
        self.uses([d for d in a.kw_defaults if d is not None], out)
        if not self.future_annotations:
            for arg in a.posonlyargs + a.args + ([a.vararg] if a.vararg else []) + a.kwonlyargs + ([a.kwarg] if a.kwarg else []):
                self.uses(arg.annotation, out)
            self.uses(fn.returns, out)

    def class_uses(self, cls, out):
        self.uses(cls.decorator_list, out)
        self.uses(cls.bases, out)
        self.uses([k.value for k in cls.keywords], out)
        self.class_body(cls.body, out, cls)

    def class_body(self, body, out, cls):
        for s in body:
            if isinstance(s, ast.If) and self.is_type_checking_test(s.test):
                self.class_body(s.orelse, out, cls)
                continue
            for n in ast.walk(s) if isinstance(s, COMPOUND) else [s]:
                if isinstance(n, (ast.Import, ast.ImportFrom)):
                    full = self.resolve_from(n) if isinstance(n, ast.ImportFrom) else None
                    names = [full] if full is not None else [a.name for a in n.names]
                    if any(in_pkg(x) for x in names):
                        fail(self.name, n, "package import inside a class body")
            # names rebound in the class namespace
            for n in self.class_level_bound(s):
                if n in self.tracked:
                    fail(self.name, s, "class body of %s rebinds imported package name %s" % (cls.name, n))
            if isinstance(s, FUNCS):
                self.fn_header_uses(s, out)
            elif isinstance(s, ast.ClassDef):
                self.class_uses(s, out)
            elif isinstance(s, ast.Assign):
                self.uses(s.value, out)
                for t in s.targets:
                    self.target_uses(t, out)
            elif isinstance(s, ast.AnnAssign):
                if not self.future_annotations:
                    self.uses(s.annotation, out)
                self.uses(s.value, out)
                self.target_uses(s.target, out)
            elif isinstance(s, ast.AugAssign):
                self.uses(s.value, out)
                self.target_uses(s.target, out)
            elif isinstance(s, (ast.Expr, ast.Assert)):
                self.uses(getattr(s, "value", None) or getattr(s, "test", None), out)
            elif isinstance(s, (ast.Pass, ast.Import, ast.ImportFrom, ast.Global, ast.Nonlocal)):
                pass
            elif isinstance(s, ast.Delete):
                for t in s.targets:
                    self.target_uses(t, out)
            elif isinstance(s, COMPOUND):
                self.compound_in_class(s, out, cls)
            else:
                fail(self.name, s, "unsupported statement %s in a class body" % type(s).__name__)

    def compound_in_class(self, s, out, cls):
        # every expression anywhere in the statement (over-approximation: extra uses can only make the
        # model fail where Python does not), nested statements handled like class-body statements
        for field, value in ast.iter_fields(s):
            if isinstance(value, list) and value and isinstance(value[0], ast.stmt):
                self.class_body(value, out, cls)
            elif isinstance(value, list):
                for v in value:
                    if isinstance(v, ast.ExceptHandler):
                        self.uses(v.type, out)
                        self.class_body(v.body, out, cls)
                    elif isinstance(v, ast.withitem):
                        self.uses(v.context_expr, out)
                        if v.optional_vars is not None:
                            self.target_uses(v.optional_vars, out)
                    elif hasattr(ast, "match_case") and isinstance(v, ast.match_case):
                        fail(self.name, s, "match statement in a class body")
                    elif isinstance(v, ast.AST):
                        self.uses(v, out)
            elif isinstance(value, ast.expr):
                if field == "target":
                    self.target_uses(value, out)
                else:
                    self.uses(value, out)

    def class_level_bound(self, s):
        out = []
        if isinstance(s, FUNCS + (ast.ClassDef,)):
            out.append(s.name)
        elif isinstance(s, ast.Assign):
            for t in s.targets:
                out.extend(stored_names(t))
        elif isinstance(s, (ast.AnnAssign, ast.AugAssign)):
            out.extend(stored_names(s.target))
        elif isinstance(s, ast.Import):
            out.extend((a.asname or a.name.split(".")[0]) for a in s.names)
        elif isinstance(s, ast.ImportFrom):
            out.extend((a.asname or a.name) for a in s.names)
        elif isinstance(s, COMPOUND):
            for n in ast.walk(s):
                if n is not s and isinstance(n, ast.stmt) and not isinstance(n, COMPOUND):
                    out.extend(self.class_level_bound(n))
                if isinstance(n, (ast.For, ast.AsyncFor)):
                    out.extend(stored_names(n.target))
                if isinstance(n, ast.withitem) and n.optional_vars is not None:
                    out.extend(stored_names(n.optional_vars))
                if isinstance(n, ast.ExceptHandler) and n.name:
                    out.append(n.name)
        return out

    def target_uses(self, t, out):
        """Evaluation caused by an assignment target that is not a plain name."""
        if isinstance(t, (ast.Tuple, ast.List)):
            for e in t.elts:
                self.target_uses(e, out)
        elif isinstance(t, ast.Starred):
            self.target_uses(t.value, out)
        elif isinstance(t, ast.Attribute):
            ch = chain_of(t)
            if ch is not None and ch[0] in self.tracked:
                fail(self.name, t, "assignment to an attribute reached through imported package name %s" % ch[0])
            self.uses(t.value, out)
        elif isinstance(t, ast.Subscript):
            self.uses(t.value, out)
            self.uses(t.slice, out)

    # -- statements ------------------------------------------------------------------------------
    def emit(self, *stmt):
        self.stmts.append(stmt)

    def emit_uses(self, out):
        for root, path in out:
            self.emit("use", root, tuple(path))

    def bind(self, kind, names):
        if names:
            self.emit("bind", kind, tuple(names))
            for n in names:
                self.bound_so_far[n] = kind

    def is_typing_factory(self, value):
        if not isinstance(value, ast.Call):
            return False
        f = value.func
        if isinstance(f, ast.Attribute) and isinstance(f.value, ast.Name):
            return f.value.id in self.typing_aliases and f.attr in TYPING_FACTORIES
        return False

    def translate(self):
        for s in self.flat_toplevel(self.tree.body):
            self.stmt(s)
        return self.stmts

    def stmt(self, s):
        name = self.name
        if isinstance(s, ast.Import):
            for a in s.names:
                if in_pkg(a.name):
                    if a.asname:
                        self.emit("importas", a.name, a.asname)
                        self.bound_so_far[a.asname] = "import"
                    else:
                        self.emit("import", a.name)
                        self.bound_so_far[PKG] = "import"
                else:
                    b = a.asname or a.name.split(".")[0]
                    self.emit("external", (b,))
                    self.bound_so_far[b] = "external"
        elif isinstance(s, ast.ImportFrom):
            full = self.resolve_from(s)
            if any(a.name == "*" for a in s.names):
                fail(name, s, "star import")
            pairs = tuple((a.name, a.asname or a.name) for a in s.names)
            if in_pkg(full):
                self.emit("from", full, pairs)
                for _, b in pairs:
                    self.bound_so_far[b] = "import"
            else:
                self.emit("external", tuple(b for _, b in pairs))
                for _, b in pairs:
                    self.bound_so_far[b] = "external"
        elif isinstance(s, FUNCS):
            out = []
            self.fn_header_uses(s, out)
            self.emit_uses(out)
            self.bind("def", [s.name])
        elif isinstance(s, ast.ClassDef):
            out = []
            self.class_uses(s, out)
            self.emit_uses(out)
            self.bind("def", [s.name])
        elif isinstance(s, ast.Assign):
            out = []
            self.uses(s.value, out)
            for t in s.targets:
                self.target_uses(t, out)
            names = []
            for t in s.targets:
                names.extend(stored_names(t))
            for n in names:
                if n == "__all__":
                    fail(name, s, "__all__ is assigned")
            ch = chain_of(s.value)
            if len(s.targets) == 1 and isinstance(s.targets[0], ast.Name) and ch is not None and ch[0] in self.tracked:
                self.emit("alias", s.targets[0].id, ch[0], tuple(ch[1]))
                self.bound_so_far[s.targets[0].id] = "alias"
            else:
                self.emit_uses(out)
                self.bind("def" if self.is_typing_factory(s.value) else "val", names)
        elif isinstance(s, ast.AnnAssign):
            out_ann, out = [], []
            if not self.future_annotations:
                self.uses(s.annotation, out_ann)
            self.uses(s.value, out)
            self.target_uses(s.target, out)
            names = stored_names(s.target) if s.value is not None else []
            if "__all__" in stored_names(s.target):
                fail(name, s, "__all__ is assigned")
            ch = chain_of(s.value) if s.value is not None else None
            self.emit_uses(out_ann)
            if names and ch is not None and ch[0] in self.tracked and isinstance(s.target, ast.Name):
                self.emit("alias", s.target.id, ch[0], tuple(ch[1]))
                self.bound_so_far[s.target.id] = "alias"
            else:
                self.emit_uses(out)
                self.bind("def" if (s.value is not None and self.is_typing_factory(s.value)) else "val", names)
        elif isinstance(s, ast.AugAssign):
            out = []
            self.uses(s.value, out)
            self.target_uses(s.target, out)
            self.emit_uses(out)
            if isinstance(s.target, ast.Name):
                if s.target.id == "__all__":
                    fail(name, s, "__all__ is modified")
                if self.bound_so_far.get(s.target.id) != "val":
                    fail(name, s, "augmented assignment to %s, which is not a plain module-level value" % s.target.id)
        elif isinstance(s, (ast.Expr, ast.Assert)):
            out = []
            self.uses(s.value if isinstance(s, ast.Expr) else s.test, out)
            if isinstance(s, ast.Assert):
                self.uses(s.msg, out)
            self.emit_uses(out)
        elif isinstance(s, (ast.Pass, ast.Global, ast.Nonlocal)):
            pass
        elif isinstance(s, ast.Delete):
            fail(name, s, "del at module level")
        elif isinstance(s, ast.Raise):
            fail(name, s, "raise at module level")
        elif hasattr(ast, "TypeAlias") and isinstance(s, ast.TypeAlias):
            self.bind("val", stored_names(s.name))
        elif isinstance(s, COMPOUND):
            self.compound_toplevel(s)
        else:
            fail(name, s, "unsupported module-level statement %s" % type(s).__name__)

    def compound_toplevel(self, s):
        """A module-level if/try/with/for/while/match that is not a TYPE_CHECKING block: allowed only
        when nothing in it touches the package; the names it may bind are bound unconditionally."""
        kind = type(s).__name__.lower()
        ext, vals, defs = [], [], []
        for n in ast.walk(s):
            if isinstance(n, ast.Import):
                if any(in_pkg(a.name) for a in n.names):
                    fail(self.name, n, "package import inside a module-level %s statement" % kind)
                ext.extend((a.asname or a.name.split(".")[0]) for a in n.names)
            elif isinstance(n, ast.ImportFrom):
                full = self.resolve_from(n)
                if in_pkg(full):
                    fail(self.name, n, "package import inside a module-level %s statement" % kind)
                if any(a.name == "*" for a in n.names):
                    fail(self.name, n, "star import")
                ext.extend((a.asname or a.name) for a in n.names)
            elif isinstance(n, ast.Delete):
                fail(self.name, n, "del inside a module-level %s statement" % kind)
            elif isinstance(n, (ast.Global, ast.Nonlocal)):
                pass
        # every expression evaluated at import time inside the statement: no tracked name may occur
        out = []
        self.scan_block([s], out, defs, vals)
        if out:
            fail(self.name, s, "imported package name %s used inside a module-level %s statement" % (out[0][0], kind))
        for n in ext + vals + defs:
            if n in self.tracked:
                fail(self.name, s, "module-level %s statement rebinds imported package name %s" % (kind, n))
            if n == "__all__":
                fail(self.name, s, "__all__ is assigned")
        if ext:
            self.emit("external", tuple(dict.fromkeys(ext)))
        self.bind("val", list(dict.fromkeys(vals)))
        self.bind("def", list(dict.fromkeys(defs)))
        self.stats["conditional_binds"] += len(set(ext + vals + defs))

    def scan_block(self, body, out, defs, vals):
        for s in body:
            if isinstance(s, FUNCS):
                self.fn_header_uses(s, out)
                defs.append(s.name)
            elif isinstance(s, ast.ClassDef):
                self.class_uses(s, out)
                defs.append(s.name)
            elif isinstance(s, (ast.Import, ast.ImportFrom, ast.Pass, ast.Global, ast.Nonlocal, ast.Break, ast.Continue)):
                pass
            elif isinstance(s, ast.Raise):
                self.uses(s.exc, out)
                self.uses(s.cause, out)
            else:
                for field, value in ast.iter_fields(s):
                    if isinstance(value, list) and value and isinstance(value[0], ast.stmt):
                        self.scan_block(value, out, defs, vals)
                    elif isinstance(value, list):
                        for v in value:
                            if isinstance(v, ast.ExceptHandler):
                                self.uses(v.type, out)
                                self.scan_block(v.body, out, defs, vals)
                            elif isinstance(v, ast.withitem):
                                self.uses(v.context_expr, out)
                                if v.optional_vars is not None:
                                    self.target_uses(v.optional_vars, out)
                                    vals.extend(stored_names(v.optional_vars))
                            elif hasattr(ast, "match_case") and isinstance(v, ast.match_case):
                                fail(self.name, s, "match statement at module level")
                            elif isinstance(v, ast.expr):
                                if field == "targets":
                                    self.target_uses(v, out)
                                    vals.extend(stored_names(v))
                                else:
                                    self.uses(v, out)
                    elif isinstance(value, ast.expr):
                        if field == "target":
                            self.target_uses(value, out)
                            vals.extend(stored_names(value))
                        elif field == "annotation":
                            if not self.future_annotations:
                                self.uses(value, out)
                        else:
                            self.uses(value, out)


# ------------------------------------------------------------------------------------------------
# import-sensitive functions (package-wide, by bare name)
# ------------------------------------------------------------------------------------------------

def decorator_text(d):
    try:
        return ast.unparse(d)
    except Exception:  # noqa: BLE001
        return "?"


def sensitivity(mods):
    """Returns (sensitive function names, list of (module, node, reason) for directly sensitive ones)."""
    funcs = []   # (module, node, mentioned names, direct reason or None)
    for m in mods.values():
        for fn in ast.walk(m.tree):
            if not isinstance(fn, FUNCS + (ast.Lambda,)):
                continue
            body = fn.body if isinstance(fn.body, list) else [fn.body]
            mentioned, reason = set(), None
            for b in body:
                for n in ast.walk(b):
                    if isinstance(n, ast.Import) and any(in_pkg(a.name) for a in n.names):
                        reason = reason or "imports the package"
                    elif isinstance(n, ast.ImportFrom) and in_pkg(m.resolve_from(n)):
                        reason = reason or "imports from the package"
                    elif isinstance(n, ast.Import) and any(a.name.split(".")[0] == "importlib" for a in n.names):
                        reason = reason or "imports importlib"
                    elif isinstance(n, ast.ImportFrom) and (n.module or "").split(".")[0] == "importlib":
                        reason = reason or "imports importlib"
                    elif isinstance(n, ast.Global):
                        reason = reason or "uses global"
                    elif isinstance(n, ast.Name):
                        mentioned.add(n.id)
                        if n.id in m.module_roots:
                            reason = reason or "reads package module object %s" % n.id
                        if n.id in DYNAMIC_NAMES or n.id in m.importlib_names or n.id == "__all__":
                            reason = reason or "uses dynamic feature %s" % n.id
                    elif isinstance(n, ast.Attribute):
                        mentioned.add(n.attr)
                        if n.attr in DYNAMIC_ATTRS or (n.attr == "modules" and isinstance(n.value, ast.Name) and n.value.id == "sys"):
                            reason = reason or "uses dynamic feature %s" % n.attr
            funcs.append((m, fn, mentioned, reason))
    sens = set()
    flagged = [False] * len(funcs)
    for i, (m, fn, mentioned, reason) in enumerate(funcs):
        if reason:
            flagged[i] = True
            if not isinstance(fn, ast.Lambda):
                sens.add(fn.name)
    changed = True
    while changed:
        changed = False
        for i, (m, fn, mentioned, reason) in enumerate(funcs):
            if not flagged[i] and mentioned & sens:
                flagged[i] = True
                changed = True
                if not isinstance(fn, ast.Lambda):
                    sens.add(fn.name)
    return sens, [(funcs[i][0], funcs[i][1]) for i in range(len(funcs)) if flagged[i]]


def check_sensitivity(mods):
    sens, flagged = sensitivity(mods)
    flagged_lambdas = {id(fn) for _, fn in flagged if isinstance(fn, ast.Lambda)}
    for m, fn in flagged:
        if isinstance(fn, ast.Lambda):
            continue
        n = fn.name
        if (n.startswith("__") and n.endswith("__")) or (n.startswith("_") and n.endswith("_") and len(n) > 2 and not n.startswith("__")):
            fail(m.name, fn, "implicitly invoked hook %s is import-sensitive (imports or late-binds package modules)" % n)
        for d in fn.decorator_list:
            t = decorator_text(d)
            base = t.split("(")[0]
            ok = base in SAFE_DECORATORS or base.split(".")[-1] in ("overload", "final", "override", "abstractmethod", "setter", "getter", "deleter")
            if not ok:
                fail(m.name, fn, "import-sensitive function %s has decorator %s that might call it" % (n, t))
    for m in mods.values():
        hit = sorted(m.import_time_names & sens)
        if hit:
            raise Fail("%s: import-sensitive function name %s is mentioned by an expression evaluated at import time" % (m.name, hit[0]))
        for lam in m.import_time_lambdas:
            if id(lam) in flagged_lambdas:
                fail(m.name, lam, "import-sensitive lambda created at import time")
    return sens


# ------------------------------------------------------------------------------------------------
# output
# ------------------------------------------------------------------------------------------------

def cs(s):
    if '"' in s or "\\" in s or "\n" in s:
        raise Fail("name %r cannot be written as a Coq string" % s)
    return '"%s"' % s


def clist(items):
    return "[" + "; ".join(items) + "]"


def render_stmt(st):
    k = st[0]
    if k == "import":
        return "SImport %s" % cs(st[1])
    if k == "importas":
        return "SImportAs %s %s" % (cs(st[1]), cs(st[2]))
    if k == "from":
        return "SFrom %s %s" % (cs(st[1]), clist("(%s, %s)" % (cs(a), cs(b)) for a, b in st[2]))
    if k == "bind":
        return "SBind %s %s" % ("BDef" if st[1] == "def" else "BVal", clist(cs(n) for n in st[2]))
    if k == "alias":
        return "SAlias %s %s %s" % (cs(st[1]), cs(st[2]), clist(cs(n) for n in st[3]))
    if k == "use":
        return "SUse %s %s" % (cs(st[1]), clist(cs(n) for n in st[2]))
    if k == "external":
        return "SExternal %s" % clist(cs(n) for n in st[1])
    raise AssertionError(k)


def render(progs, repo):
    lines = [
        "(* GENERATED by tools/extract_imports.py from %s/%s -- do not edit. *)" % ("<repo>", PKG),
        "From CP Require Import Base.Prelude Model.Imports.",
        "From Coq Require String.",
        "Import String.StringSyntax.",
        "Open Scope string_scope.",
        "",
        "Definition import_progs : list (modname * list stmt) := [",
    ]
    for i, (name, stmts) in enumerate(progs):
        lines.append("  (%s, [" % cs(name))
        for j, st in enumerate(stmts):
            lines.append("     %s%s" % (render_stmt(st), ";" if j + 1 < len(stmts) else ""))
        lines.append("  ])%s" % (";" if i + 1 < len(progs) else ""))
    lines.append("].")
    lines.append("")
    return "\n".join(lines)


def write_if_changed(path, text):
    try:
        with open(path, "r", encoding="utf-8") as fh:
            if fh.read() == text:
                return False
    except OSError:
        pass
    os.makedirs(os.path.dirname(path), exist_ok=True)
    tmp = "%s.tmp.%d" % (path, os.getpid())
    with open(tmp, "w", encoding="utf-8") as fh:
        fh.write(text)
    os.replace(tmp, path)
    return True


def run(repo, out_path):
    found = discover(repo)
    names = sorted(found, key=lambda n: (n != PKG, n))
    mods = {}
    for n in names:
        path, is_pkg = found[n]
        mods[n] = Module(n, path, is_pkg, found)
    progs = []
    counts = {}
    for n in names:
        stmts = mods[n].translate()
        progs.append((n, stmts))
        for st in stmts:
            counts[st[0]] = counts.get(st[0], 0) + 1
    # a package must not bind the name of one of its submodules to anything but that submodule
    for n in names:
        if not found[n][1]:
            continue
        subs = {o[len(n) + 1:] for o in found if o.startswith(n + ".") and "." not in o[len(n) + 1:]}
        for st in progs[names.index(n)][1]:
            bound = []
            if st[0] == "bind":
                bound = list(st[2])
            elif st[0] == "external":
                bound = list(st[1])
            elif st[0] == "alias":
                bound = [st[1]]
            elif st[0] == "importas":
                bound = [] if st[1] == n + "." + st[2] else [st[2]]
            elif st[0] == "from":
                bound = [b for a, b in st[2] if not (st[1] == n and a == b)]
            for b in bound:
                if b in subs:
                    raise Fail("%s: package binds the name of its own submodule %s" % (n, b))
    sens = check_sensitivity(mods)
    text = render(progs, repo)
    changed = write_if_changed(out_path, text)
    return {
        "ok": True,
        "modules": names,
        "n_modules": len(names),
        "n_stmts": sum(len(s) for _, s in progs),
        "stmt_counts": counts,
        "future_annotations_missing": [n for n in names if not mods[n].future_annotations],
        "type_checking_blocks_dropped": sum(m.stats["type_checking_dropped"] for m in mods.values()),
        "conditional_binds": sum(m.stats["conditional_binds"] for m in mods.values()),
        "import_sensitive_functions": sorted(sens),
        "out": out_path,
        "changed": changed,
        "sha256": hashlib.sha256(text.encode("utf-8")).hexdigest(),
    }


def main(argv):
    repo = os.environ.get("CHARTPARSE_REPO", "/repo")
    out_path = argv[1] if len(argv) > 1 else DEFAULT_OUT
    try:
        info = run(repo, out_path)
    except Fail as e:
        print(json.dumps({"ok": False, "reason": str(e)}))
        return 2
    except Exception as e:  # noqa: BLE001  (fail closed on anything unexpected)
        print(json.dumps({"ok": False, "reason": "translator crashed: %s: %s" % (type(e).__name__, e)}))
        return 2
    print(json.dumps(info, sort_keys=True))
    return 0


if __name__ == "__main__":
    sys.exit(main(sys.argv))
