#!/venv/bin/python
"""Placeholder replaced below by the real import-program translator (C20)."""
import json
print(json.dumps({"ok": True, "stub": True}))
