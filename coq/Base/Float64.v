(** Base/Float64.v — IEEE-754 binary64 arithmetic as Python exposes it, on top of Flocq's
    axiom-free executable [binary_float] (BinarySingleNaN flavour: a single NaN, which is all
    Python-level code can observe).  Only computational definitions live here; the real-number
    facts about them are in Proofs/Float*.v. *)
From CP Require Import Base.Prelude.
From Flocq Require Import IEEE754.BinarySingleNaN.
Open Scope Z_scope.

Definition prec : Z := 53.
Definition emax : Z := 1024.
#[global] Instance Hprec : FLX.Prec_gt_0 prec := eq_refl.
#[global] Instance Hemax : Prec_lt_emax prec emax := eq_refl.

Definition f64 := binary_float prec emax.

Definition fmul : f64 -> f64 -> f64 := Bmult mode_NE.
Definition fdiv : f64 -> f64 -> f64 := Bdiv mode_NE.
Definition fadd : f64 -> f64 -> f64 := Bplus mode_NE.

(** [F m e] is the double nearest to m·2^e (exactly m·2^e whenever that is representable);
    the harness writes every observed Python float as such a literal with m, e obtained from
    [math.frexp], so the literal denotes the float exactly. *)
Definition F (m e : Z) : f64 := binary_normalize prec emax Hprec Hemax mode_NE m e false.
Definition Fnegzero : f64 := B754_zero true.
Definition Finf (s : bool) : f64 := B754_infinity s.
Definition Fnan : f64 := B754_nan.

(** Correctly rounded int -> float (Python's [float(int)]; half-to-even). *)
Definition of_Z (z : Z) : f64 := F z 0.

Definition fzero : f64 := B754_zero false.

Definition is_fin (x : f64) : bool := is_finite x.

(** Canonical triple identifying a float (valid floats have a unique (s, m, e)). *)
Definition fkey (x : f64) : Z * Z * Z :=
  match x with
  | B754_zero s => (0, if s then 1 else 0, 0)
  | B754_infinity s => (1, if s then 1 else 0, 0)
  | B754_nan => (2, 0, 0)
  | B754_finite s m e _ => (if s then 4 else 3, Zpos m, e)
  end.

Definition Z3_eqb (a b : Z * Z * Z) : bool :=
  let '(a1, a2, a3) := a in let '(b1, b2, b3) := b in
  Z.eqb a1 b1 && Z.eqb a2 b2 && Z.eqb a3 b3.

(** Bit-identity of floats (distinguishes -0.0 from 0.0, equates NaN with NaN). *)
Definition f_same (x y : f64) : bool := Z3_eqb (fkey x) (fkey y).

(** Python comparison operators on floats (NaN compares false). *)
Definition f_le (x y : f64) : bool := Bleb x y.
Definition f_lt (x y : f64) : bool := Bltb x y.
Definition f_eq (x y : f64) : bool := Beqb x y.

(** *** Python-level operations that can raise *)

Definition two53 : Z := 9007199254740992.

Definition py_float_of_int (z : Z) : result f64 :=
  let x := of_Z z in if is_fin x then Ok x else Err EOverflow.

(** [a / b] for Python ints.  CPython rounds the exact quotient correctly whatever the size of
    the operands; the model computes it as one IEEE division of the two converted operands,
    which is the same thing when both convert exactly, and declines otherwise. *)
Definition py_truediv_int (a b : Z) : result f64 :=
  if b =? 0 then Err EZeroDiv
  else if (Z.abs a <=? two53) && (Z.abs b <=? two53) then Ok (fdiv (of_Z a) (of_Z b))
  else Err EUnmodelled.

(** [x / b] for a float and an int, [a / y] for an int and a float, [a * y]. *)
Definition is_zero (x : f64) : bool := match x with B754_zero _ => true | _ => false end.

Definition py_div_float_int (x : f64) (b : Z) : result f64 :=
  let* y := py_float_of_int b in
  if is_zero y then Err EZeroDiv else Ok (fdiv x y).

Definition py_div_int_float (a : Z) (y : f64) : result f64 :=
  let* x := py_float_of_int a in
  if is_zero y then Err EZeroDiv else Ok (fdiv x y).

Definition py_mul_float_int (x : f64) (b : Z) : result f64 :=
  let* y := py_float_of_int b in Ok (fmul x y).

Definition py_mul_int_float (a : Z) (y : f64) : result f64 :=
  let* x := py_float_of_int a in Ok (fmul x y).

(** Round-half-even of the rational a/b, for b > 0. *)
Definition rhe_div (a b : Z) : Z :=
  let q := a / b in
  let r := a mod b in
  match Z.compare (2 * r) b with
  | Lt => q
  | Gt => q + 1
  | Eq => if Z.even q then q else q + 1
  end.

(** Signed mantissa and exponent of a finite float: x = m·2^e. *)
Definition f_me (x : f64) : option (Z * Z) :=
  match x with
  | B754_zero _ => Some (0, 0)
  | B754_finite s m e _ => Some (if s then Zneg m else Zpos m, e)
  | _ => None
  end.

(** [round(x)] for a float (half-to-even on the exact value). *)
Definition py_round_int (x : f64) : result Z :=
  match x with
  | B754_nan => Err EValue
  | B754_infinity _ => Err EOverflow
  | B754_zero _ => Ok 0
  | B754_finite s m e _ =>
      let v := if 0 <=? e then Zpos m * 2 ^ e else rhe_div (Zpos m) (2 ^ (- e)) in
      Ok (if s then - v else v)
  end.

(** [round(x, 3)]: round-half-even of the exact value to three decimals, then the nearest
    double to that decimal (CPython: dtoa mode 3 then strtod).  Declines above 2^53/1000. *)
Definition py_round3 (x : f64) : result f64 :=
  match x with
  | B754_finite s m e _ =>
      if 0 <=? e then Ok x
      else
        let k := rhe_div (Zpos m * 1000) (2 ^ (- e)) in
        if k =? 0 then Ok (B754_zero s)
        else if k <=? two53 then Ok (fdiv (of_Z (if s then - k else k)) (of_Z 1000))
        else Err EUnmodelled
  | _ => Ok x
  end.
