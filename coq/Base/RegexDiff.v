(** Base/RegexDiff.v — an UNTRUSTED search for a string accepted by exactly one of two regular
    expressions (used only to look for a concrete failing input when a regenerated regex is no longer
    the reference one; nothing is proved about it and no theorem depends on it).
    Breadth-first exploration of pairs of derivatives over one representative code point per
    membership signature of the character classes occurring in the two expressions. *)
From CP Require Import Base.Prelude Base.Str Base.Regex.
Open Scope N_scope.

Fixpoint re_classes (r : re) : list cls :=
  match r with
  | Emp | Eps => []
  | Chr k => [k]
  | Cat a b | Alt a b => re_classes a ++ re_classes b
  | Star a => re_classes a
  end.

Definition cls_points (k : cls) : list N :=
  match k with
  | KSet _ rs => flat_map (fun r => [fst r; snd r; snd r + 1; (if fst r =? 0 then 0 else fst r - 1)]) rs
  | _ => []
  end.

Definition table_points (T : tables) : list N :=
  flat_map (fun r => [fst r; snd r + 1]) (ws_ranges T)
  ++ flat_map (fun r => [fst r; fst r + 3; snd r + 1]) (firstn 6 (digit_ranges T))
  ++ [10; 32; 9; 160; 12288; 48; 57; 65; 97; 1632; 65296; 34; 61; 91; 93; 233; 27468].

Definition signature (T : tables) (ks : list cls) (c : N) : list bool := map (fun k => cls_mem T k c) ks.

Fixpoint dedup_by_sig (T : tables) (ks : list cls) (cands : list N) (seen : list (list bool)) : list N :=
  match cands with
  | [] => []
  | c :: cs =>
      let s := signature T ks c in
      if existsb (list_eqb Bool.eqb s) seen then dedup_by_sig T ks cs seen
      else c :: dedup_by_sig T ks cs (s :: seen)
  end.

Definition representatives (T : tables) (r1 r2 : re) : list N :=
  let ks := re_classes r1 ++ re_classes r2 in
  dedup_by_sig T ks (flat_map cls_points ks ++ table_points T) [].

Definition state := (re * re * list N)%type.        (* derivatives and the (reversed) string that led there *)

Definition seen_pair (v : list (re * re)) (a b : re) : bool :=
  existsb (fun p => re_eqb (fst p) a && re_eqb (snd p) b) v.

Fixpoint bfs (T : tables) (reps : list N) (fuel : nat) (frontier : list state) (visited : list (re * re))
  : option (list N) :=
  match fuel with
  | O => None
  | S fuel' =>
      match frontier with
      | [] => None
      | (a, b, w) :: rest =>
          if negb (Bool.eqb (nullable a) (nullable b)) then Some (rev w)
          else
            let succ := map (fun c => (deriv T c a, deriv T c b, c :: w)) reps in
            let fresh := fold_left (fun acc s => let '(a', b', _) := s in
                                      if seen_pair (visited ++ map (fun s' => (fst (fst s'), snd (fst s'))) acc) a' b'
                                      then acc else acc ++ [s]) succ [] in
            bfs T reps fuel' (rest ++ fresh) (visited ++ map (fun s => (fst (fst s), snd (fst s))) fresh)
      end
  end.

(** [Some w]: w is accepted by exactly one of r1, r2 (w may be checked with [matchb]); [None]: no
    difference found within the fuel. *)
Definition diff_witness (T : tables) (r1 r2 : re) : option (list N) :=
  if re_eqb r1 r2 then None
  else match bfs T (representatives T r1 r2) 400 [(r1, r2, [])] [(r1, r2)] with
       | Some w => if negb (Bool.eqb (matchb T r1 w) (matchb T r2 w)) then Some w else None
       | None => None
       end.
