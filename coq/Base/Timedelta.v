(** Base/Timedelta.v — [datetime.timedelta] as an integer number of microseconds.
    [td_of_seconds] follows CPython's [delta_new]/[accum] for a float [seconds=] argument:
    modf, integer part times 10^6, fl(frac·10^6), modf again, and round-half-even of the
    left-over with the parity of the integer total. *)
From CP Require Import Base.Prelude Base.Float64.
From Flocq Require Import IEEE754.BinarySingleNaN.
Open Scope Z_scope.

Definition us_per_second : Z := 1000000.
Definition us_per_day : Z := 86400 * us_per_second.
Definition max_days : Z := 999999999.

(** timedelta normalises to (days, seconds, microseconds) and raises OverflowError when
    |days| > 999999999. *)
Definition td_in_range (us : Z) : bool :=
  let days := us / us_per_day in (- max_days <=? days) && (days <=? max_days).

Definition td_check (us : Z) : result Z := if td_in_range us then Ok us else Err EOverflow.

Definition td_add (a b : Z) : result Z := td_check (a + b).
Definition td_sub (a b : Z) : result Z := td_check (a - b).

(** [timedelta(microseconds=n)] for an int. *)
Definition td_of_us (n : Z) : result Z := td_check n.

(** [timedelta(seconds=x)] for a float x.  Only non-negative x occur in chartparse
    (ticks >= 0, seconds-per-tick >= 0); the model declines on negative finite input. *)
Definition td_of_seconds (x : f64) : result Z :=
  match x with
  | B754_nan => Err EValue
  | B754_infinity _ => Err EOverflow
  | B754_zero _ => Ok 0
  | B754_finite true _ _ _ => Err EUnmodelled
  | B754_finite false m e _ =>
      if 0 <=? e then td_check (Zpos m * 2 ^ e * us_per_second)
      else
        let d := 2 ^ (- e) in
        let ip := Zpos m / d in
        let fm := Zpos m mod d in
        if fm =? 0 then td_check (ip * us_per_second)
        else
          (* fl(10^6 * frac): the exact product fm·10^6·2^e rounded to nearest even *)
          match F (fm * us_per_second) e with
          | B754_finite _ m2 e2 _ =>
              let '(ip2, num2, d2) :=
                if 0 <=? e2 then (Zpos m2 * 2 ^ e2, 0, 1)
                else let d2 := 2 ^ (- e2) in (Zpos m2 / d2, Zpos m2 mod d2, d2) in
              let total := ip * us_per_second + ip2 in
              (* leftover = num2/d2 in [0,1): round half to even w.r.t. parity of total *)
              let whole :=
                match Z.compare (2 * num2) d2 with
                | Lt => 0
                | Gt => 1
                | Eq => if Z.odd total then 1 else 0
                end in
              td_check (total + whole)
          | _ => td_check (ip * us_per_second)   (* fm·10^6·2^e underflowed to zero: impossible here *)
          end
  end.

(** [td.total_seconds()] = microseconds / 10^6 as a correctly rounded int/int division. *)
Definition total_seconds (us : Z) : result f64 := py_truediv_int us us_per_second.
