(** Base/Utf8.v — Python's strict UTF-8 codec on byte lists (bytes as [N] below 256), as used by
    [open(path, "r", encoding="utf-8-sig")].  A UnicodeDecodeError is a ValueError: [Err EValue]. *)
From CP Require Import Base.Prelude Base.Str.
Open Scope N_scope.

Definition scalar (c : N) : bool := (c <? 55296) || ((57344 <=? c) && (c <=? 1114111)).

Definition utf8_encode_char (c : N) : list N :=
  if c <? 128 then [c]
  else if c <? 2048 then [192 + c / 64; 128 + c mod 64]
  else if c <? 65536 then [224 + c / 4096; 128 + (c / 64) mod 64; 128 + c mod 64]
  else [240 + c / 262144; 128 + (c / 4096) mod 64; 128 + (c / 64) mod 64; 128 + c mod 64].

Definition utf8_encode (s : str) : list N := flat_map utf8_encode_char s.

Definition is_cont (b : N) : bool := (128 <=? b) && (b <? 192).

(** Strict decoding: malformed input of any kind (stray continuation byte, C0/C1/F5.., truncated or
    wrong continuation, overlong forms, surrogates, beyond U+10FFFF, a "byte" >= 256) is an error. *)
Fixpoint utf8_decode_fuel (fuel : nat) (b : list N) : result str :=
  match fuel with
  | O => match b with [] => Ok [] | _ => Err EOther end
  | S fuel' =>
      match b with
      | [] => Ok []
      | b0 :: r0 =>
          if b0 <? 128 then
            let* s := utf8_decode_fuel fuel' r0 in Ok (b0 :: s)
          else if (194 <=? b0) && (b0 <? 224) then
            match r0 with
            | b1 :: r1 =>
                if is_cont b1 then
                  let* s := utf8_decode_fuel fuel' r1 in Ok (((b0 - 192) * 64 + (b1 - 128)) :: s)
                else Err EValue
            | _ => Err EValue
            end
          else if (224 <=? b0) && (b0 <? 240) then
            match r0 with
            | b1 :: b2 :: r2 =>
                if is_cont b1 && is_cont b2
                   && negb ((b0 =? 224) && (b1 <? 160))          (* overlong *)
                   && negb ((b0 =? 237) && (160 <=? b1))         (* surrogates *)
                then let* s := utf8_decode_fuel fuel' r2 in
                     Ok (((b0 - 224) * 4096 + (b1 - 128) * 64 + (b2 - 128)) :: s)
                else Err EValue
            | _ => Err EValue
            end
          else if (240 <=? b0) && (b0 <? 245) then
            match r0 with
            | b1 :: b2 :: b3 :: r3 =>
                if is_cont b1 && is_cont b2 && is_cont b3
                   && negb ((b0 =? 240) && (b1 <? 144))          (* overlong *)
                   && negb ((b0 =? 244) && (144 <=? b1))         (* beyond U+10FFFF *)
                then let* s := utf8_decode_fuel fuel' r3 in
                     Ok (((b0 - 240) * 262144 + (b1 - 128) * 4096 + (b2 - 128) * 64 + (b3 - 128)) :: s)
                else Err EValue
            | _ => Err EValue
            end
          else Err EValue
      end
  end.

Definition utf8_decode (b : list N) : result str := utf8_decode_fuel (length b) b.

Definition UTF8_BOM : list N := [239; 187; 191].

(** The utf-8-sig codec: one leading encoded BOM is dropped. *)
Definition utf8_sig_decode (b : list N) : result str :=
  match b with
  | 239 :: 187 :: 191 :: r => utf8_decode r
  | _ => utf8_decode b
  end.
