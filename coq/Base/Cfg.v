(** Base/Cfg.v — everything that is *data in the source* of chartparse, gathered in one
    record.  tools/extract.py regenerates a value of this record (Gen/Src.v) from /repo on
    every run; every model function takes it as first argument and every theorem is proved
    for all configurations satisfying a decidable side condition [cfg_ok_Cxx]. *)
From CP Require Import Base.Prelude Base.Str Base.Regex.
Open Scope Z_scope.

(** The nine kinds of body line. *)
Inductive kind :=
| KNote | KSP | KTev            (* instrument sections *)
| KBpm | KTs | KAnchor          (* [SyncTrack] *)
| KText | KSection | KLyric.    (* [Events] *)

Definition kind_eqb (a b : kind) : bool :=
  match a, b with
  | KNote, KNote | KSP, KSP | KTev, KTev | KBpm, KBpm | KTs, KTs | KAnchor, KAnchor
  | KText, KText | KSection, KSection | KLyric, KLyric => true
  | _, _ => false
  end.
Lemma kind_eqb_eq a b : kind_eqb a b = true <-> a = b.
Proof. destruct a, b; simpl; split; intro H; try reflexivity; try discriminate. Qed.

(** Metadata field kinds, by what [processing_fn] does with the captured text. *)
Inductive meta_kind := MInt | MStr | MPlayer2.

Inductive meta_val :=
| MVInt (z : Z)
| MVStr (s : str)
| MVNone
| MVEnum (s : str).     (* a Player2Instrument member, identified by its value *)

Record meta_field := {
  mf_name : str;              (* snake_case attribute name *)
  mf_pascal : str;            (* PascalCase name as written in the file *)
  mf_re : re;                 (* translated shipped regex *)
  mf_kind : meta_kind;
  mf_required : bool;         (* set_kwarg (raises MissingRequiredField) vs maybe_set_kwarg *)
  mf_default : meta_val       (* dataclass default; unused when required *)
}.

Record cfg := {
  tbl : tables;
  re_note : re; re_sp : re; re_tev : re;
  re_bpm : re; re_ts : re; re_anchor : re;
  re_text : re; re_section : re; re_lyric : re;
  re_header : re;
  meta_fields : list meta_field;         (* in the order from_chart_lines looks them up *)
  order_instr : list kind;               (* kinds tried per line, in order *)
  order_sync : list kind;
  order_events : list kind;
  instr_values : list str;               (* Instrument member values, definition order *)
  diff_values : list str;                (* Difficulty member values, definition order *)
  nti_values : list Z;                   (* NoteTrackIndex canonical values *)
  player2_values : list str;
  tag_song : str; tag_sync : str; tag_events : str;
  required_tags : list str;
  eighth_triplet : Z;                    (* NoteDuration.EIGHTH_TRIPLET.value *)
  default_lower : Z;                     (* TimeSignatureEvent._default_lower_numeral *)
  sp_literal : str;                      (* the index literal of StarPowerEvent lines ("2") *)
  autoinsert_tracks : bool               (* does from_file store an auto-inserting mapping? *)
}.

Definition re_of_kind (c : cfg) (k : kind) : re :=
  match k with
  | KNote => re_note c | KSP => re_sp c | KTev => re_tev c
  | KBpm => re_bpm c | KTs => re_ts c | KAnchor => re_anchor c
  | KText => re_text c | KSection => re_section c | KLyric => re_lyric c
  end.
