(** Base/While.v — the general loop of the leaf translator:
      while cond(state): state = body(state)
    on explicit fuel (the translator supplies a bound that the Tie proof shows sufficient; exhaustion is an error
    value, never a normal-looking result), and the list operations imperative loops use. *)
From CP Require Import Base.Prelude.
Open Scope Z_scope.

Fixpoint while_fuel {S} (fuel : nat) (cond : S -> result bool) (body : S -> result S) (s : S) : result S :=
  match fuel with
  | O => Err EOther
  | S f => let* c := cond s in
           if c then let* s' := body s in while_fuel f cond body s' else Ok s
  end.

(** [xs[-1] if xs else None] *)
Definition last_opt {A} (l : list A) : option A :=
  match rev l with x :: _ => Some x | [] => None end.

(** [xs[a:b]] for non-negative a, b (Python clamps to the length). *)
Definition slice_Z {A} (l : list A) (a b : Z) : list A :=
  firstn (Z.to_nat (b - a)) (skipn (Z.to_nat a) l).

(** The values of a sequence of optionals that are not None: [x for x in seq if x is not None]. *)
Definition somes {A} (l : list (option A)) : list A :=
  flat_map (fun o => match o with Some v => [v] | None => [] end) l.

(** [next(generator)] on an exhausted generator raises StopIteration; [max()] of an empty sequence raises ValueError. *)
Definition py_next {A} (l : list A) : result A := match l with x :: _ => Ok x | [] => Err EOther end.
Definition py_max (l : list Z) : result Z := match l with v :: vs => Ok (fold_left Z.max vs v) | [] => Err EValue end.

(** [l[i] = x] for a list: IndexError outside [-len, len); negative indices (which Python wraps) are declined. *)
Definition set_nth_ {A} (n : nat) (x : A) (l : list A) : list A := firstn n l ++ match skipn n l with [] => [] | _ :: t => x :: t end.
Definition list_set {A} (l : list A) (i : Z) (x : A) : result (list A) :=
  if i <? 0 then (if i <? - Zlength_ l then Err EIndex else Err EUnmodelled)
  else if i <? Zlength_ l then Ok (set_nth_ (Z.to_nat i) x l) else Err EIndex.

(** [try: ... except IndexError: pass] around a list assignment. *)
Definition catch_index {A} (r : result A) (d : A) : result A := match r with Err EIndex => Ok d | _ => r end.

(** [enumerate(seq)] and [itertools.islice(seq, start, stop)] (start None = 0) over lists. *)
Fixpoint enumerate_from {A} (i : Z) (l : list A) : list (Z * A) :=
  match l with [] => [] | x :: t => (i, x) :: enumerate_from (i + 1) t end.
Definition enumerate_Z {A} (l : list A) : list (Z * A) := enumerate_from 0 l.
Definition py_islice {A} (l : list A) (start : option Z) (stop : Z) : list A :=
  let a := match start with Some s => s | None => 0 end in
  firstn (Z.to_nat (stop - a)) (skipn (Z.to_nat a) l).
