(** Base/Prelude.v — error kinds, the result monad and small list utilities shared by
    every model file.  Nothing here is specific to chartparse. *)
From Coq Require Export ZArith NArith List Bool Lia.
Export ListNotations.
Open Scope Z_scope.

(** Every Python operation that can raise is a partial operation of the model; the class of
    the escaping exception is an [errkind].  [EUnmodelled] is not an exception class: it marks
    inputs on which the model declines to predict (documented bounds); the correspondence
    harness counts such cases as skipped and the theorems exclude them by hypothesis. *)
Inductive errkind :=
| EValue | ERegexNotMatch | EMissingRequiredField
| EIndex | EKey | EType | EAttribute | EAssertion | EUnreachable
| EOverflow | EZeroDiv | EFrozen | EImport | EOther | EUnmodelled.

Definition errkind_eqb (a b : errkind) : bool :=
  match a, b with
  | EValue, EValue | ERegexNotMatch, ERegexNotMatch
  | EMissingRequiredField, EMissingRequiredField
  | EIndex, EIndex | EKey, EKey | EType, EType | EAttribute, EAttribute
  | EAssertion, EAssertion | EUnreachable, EUnreachable | EOverflow, EOverflow
  | EZeroDiv, EZeroDiv | EFrozen, EFrozen | EImport, EImport | EOther, EOther
  | EUnmodelled, EUnmodelled => true
  | _, _ => false
  end.

Lemma errkind_eqb_eq a b : errkind_eqb a b = true <-> a = b.
Proof. destruct a, b; simpl; split; intro H; try reflexivity; try discriminate. Qed.

Inductive result (A : Type) : Type :=
| Ok (a : A)
| Err (e : errkind).
Arguments Ok {A} a.
Arguments Err {A} e.

Definition bind {A B} (r : result A) (f : A -> result B) : result B :=
  match r with Ok a => f a | Err e => Err e end.

Notation "'let*' x ':=' r 'in' k" := (bind r (fun x => k))
  (at level 200, x pattern, r at level 100, k at level 200, right associativity).

Definition is_ok {A} (r : result A) : bool := match r with Ok _ => true | Err _ => false end.

Definition result_map {A B} (f : A -> B) (r : result A) : result B :=
  match r with Ok a => Ok (f a) | Err e => Err e end.

Lemma bind_ok {A B} (r : result A) (f : A -> result B) b :
  bind r f = Ok b -> exists a, r = Ok a /\ f a = Ok b.
Proof. destruct r as [a|e]; simpl; intro H; [exists a; auto | discriminate]. Qed.

Lemma bind_err {A B} (r : result A) (f : A -> result B) e :
  bind r f = Err e -> r = Err e \/ exists a, r = Ok a /\ f a = Err e.
Proof. destruct r as [a|e']; simpl; intro H; [right; exists a; auto | left; congruence]. Qed.

(** Monadic map over a list, left to right, stopping at the first error. *)
Fixpoint mapM {A B} (f : A -> result B) (l : list A) : result (list B) :=
  match l with
  | [] => Ok []
  | x :: xs => let* y := f x in let* ys := mapM f xs in Ok (y :: ys)
  end.

(** Left fold with errors. *)
Fixpoint foldM {A S} (f : S -> A -> result S) (l : list A) (s : S) : result S :=
  match l with
  | [] => Ok s
  | x :: xs => let* s' := f s x in foldM f xs s'
  end.

Definition option_eqb {A} (eqb : A -> A -> bool) (a b : option A) : bool :=
  match a, b with
  | Some x, Some y => eqb x y
  | None, None => true
  | _, _ => false
  end.

Fixpoint list_eqb {A} (eqb : A -> A -> bool) (a b : list A) : bool :=
  match a, b with
  | [], [] => true
  | x :: xs, y :: ys => eqb x y && list_eqb eqb xs ys
  | _, _ => false
  end.

Lemma list_eqb_eq {A} (eqb : A -> A -> bool) :
  (forall x y, eqb x y = true <-> x = y) ->
  forall a b, list_eqb eqb a b = true <-> a = b.
Proof.
  intros Heq a; induction a as [|x xs IH]; intros [|y ys]; simpl; split; intro H;
    try reflexivity; try discriminate.
  - apply andb_true_iff in H as [H1 H2]. apply Heq in H1. apply IH in H2. congruence.
  - inversion H; subst. apply andb_true_iff; split; [apply Heq | apply IH]; reflexivity.
Qed.

(** Indices (0-based) of the elements of [l] satisfying [p]. *)
Fixpoint filter_idx_from {A} (p : A -> bool) (l : list A) (i : N) : list N :=
  match l with
  | [] => []
  | x :: xs => if p x then i :: filter_idx_from p xs (N.succ i) else filter_idx_from p xs (N.succ i)
  end.
Definition filter_idx {A} (p : A -> bool) (l : list A) : list N := filter_idx_from p l 0%N.

(** Python-style [l[i]] for a non-negative index. *)
Definition nth_Z {A} (l : list A) (i : Z) : option A :=
  if i <? 0 then None else nth_error l (Z.to_nat i).

Definition Zlength_ {A} (l : list A) : Z := Z.of_nat (length l).
