(** Base/Regex.v — regular expressions over code points with character classes, their
    denotational semantics [Lang], and a verified Brzozowski-derivative matcher [matchb].
    The shipped Python patterns are translated into [re] terms by tools/extract.py
    (laziness does not change the language of a pattern; [re.match] anchors at 0). *)
From CP Require Import Base.Prelude Base.Str.
Open Scope Z_scope.

Inductive cls :=
| KWs                                   (* \s  : table look-up *)
| KDigit                                (* \d  : table look-up *)
| KDot                                  (* .   : anything but \n *)
| KSet (neg : bool) (rs : list (N * N)) (* literal, [a-b…], [^…] *).

Definition cls_mem (T : tables) (k : cls) (c : N) : bool :=
  match k with
  | KWs => is_ws T c
  | KDigit => is_digit T c
  | KDot => negb (N.eqb c LF)
  | KSet neg rs => xorb neg (in_ranges rs c)
  end.

Inductive re :=
| Emp | Eps
| Chr (k : cls)
| Cat (a b : re)
| Alt (a b : re)
| Star (a : re).

Inductive Lang (T : tables) : re -> str -> Prop :=
| LEps : Lang T Eps []
| LChr k c : cls_mem T k c = true -> Lang T (Chr k) [c]
| LCat a b s1 s2 : Lang T a s1 -> Lang T b s2 -> Lang T (Cat a b) (s1 ++ s2)
| LAltL a b s : Lang T a s -> Lang T (Alt a b) s
| LAltR a b s : Lang T b s -> Lang T (Alt a b) s
| LStar0 a : Lang T (Star a) []
| LStarS a s1 s2 : Lang T a s1 -> Lang T (Star a) s2 -> Lang T (Star a) (s1 ++ s2).

(** *** Syntactic equality *)
Definition pairN_eqb (a b : N * N) : bool := N.eqb (fst a) (fst b) && N.eqb (snd a) (snd b).
Lemma pairN_eqb_eq a b : pairN_eqb a b = true <-> a = b.
Proof.
  destruct a as [a1 a2], b as [b1 b2]; unfold pairN_eqb; simpl.
  rewrite andb_true_iff, !N.eqb_eq. split; [intros [-> ->]; reflexivity | intro H; inversion H; auto].
Qed.

Definition cls_eqb (a b : cls) : bool :=
  match a, b with
  | KWs, KWs | KDigit, KDigit | KDot, KDot => true
  | KSet n1 r1, KSet n2 r2 => Bool.eqb n1 n2 && list_eqb pairN_eqb r1 r2
  | _, _ => false
  end.
Lemma cls_eqb_eq a b : cls_eqb a b = true <-> a = b.
Proof.
  destruct a, b; simpl; split; intro H; try reflexivity; try discriminate.
  - apply andb_true_iff in H as [H1 H2]. apply Bool.eqb_prop in H1.
    apply (list_eqb_eq pairN_eqb pairN_eqb_eq) in H2. congruence.
  - inversion H; subst. apply andb_true_iff; split; [apply Bool.eqb_reflx|].
    apply (list_eqb_eq pairN_eqb pairN_eqb_eq). reflexivity.
Qed.

Fixpoint re_eqb (a b : re) : bool :=
  match a, b with
  | Emp, Emp | Eps, Eps => true
  | Chr k1, Chr k2 => cls_eqb k1 k2
  | Cat a1 b1, Cat a2 b2 => re_eqb a1 a2 && re_eqb b1 b2
  | Alt a1 b1, Alt a2 b2 => re_eqb a1 a2 && re_eqb b1 b2
  | Star a1, Star a2 => re_eqb a1 a2
  | _, _ => false
  end.
Lemma re_eqb_eq a b : re_eqb a b = true <-> a = b.
Proof.
  revert b; induction a as [| |k|a1 IH1 a2 IH2|a1 IH1 a2 IH2|a1 IH1]; intros [| |k'|b1 b2|b1 b2|b1];
    simpl; split; intro H; try reflexivity; try discriminate.
  - apply cls_eqb_eq in H; congruence.
  - inversion H; apply cls_eqb_eq; reflexivity.
  - apply andb_true_iff in H as [H1 H2]. apply IH1 in H1. apply IH2 in H2. congruence.
  - inversion H; subst. apply andb_true_iff; split; [apply IH1 | apply IH2]; reflexivity.
  - apply andb_true_iff in H as [H1 H2]. apply IH1 in H1. apply IH2 in H2. congruence.
  - inversion H; subst. apply andb_true_iff; split; [apply IH1 | apply IH2]; reflexivity.
  - apply IH1 in H; congruence.
  - inversion H; subst. apply IH1; reflexivity.
Qed.

(** *** Derivatives *)
Fixpoint nullable (r : re) : bool :=
  match r with
  | Emp => false | Eps => true | Chr _ => false
  | Cat a b => nullable a && nullable b
  | Alt a b => nullable a || nullable b
  | Star _ => true
  end.

Definition mkCat (a b : re) : re :=
  match a, b with
  | Emp, _ => Emp
  | _, Emp => Emp
  | Eps, _ => b
  | _, Eps => a
  | _, _ => Cat a b
  end.

Definition mkAlt (a b : re) : re :=
  match a, b with
  | Emp, _ => b
  | _, Emp => a
  | _, _ => if re_eqb a b then a else Alt a b
  end.

Fixpoint deriv (T : tables) (c : N) (r : re) : re :=
  match r with
  | Emp | Eps => Emp
  | Chr k => if cls_mem T k c then Eps else Emp
  | Cat a b =>
      if nullable a then mkAlt (mkCat (deriv T c a) b) (deriv T c b)
      else mkCat (deriv T c a) b
  | Alt a b => mkAlt (deriv T c a) (deriv T c b)
  | Star a => mkCat (deriv T c a) (Star a)
  end.

Fixpoint derivs (T : tables) (s : str) (r : re) : re :=
  match s with
  | [] => r
  | c :: s' => derivs T s' (deriv T c r)
  end.

Definition matchb (T : tables) (r : re) (s : str) : bool := nullable (derivs T s r).

(** *** Correctness *)
Section Correct.
Variable T : tables.
Notation L := (Lang T).

Lemma Lang_Emp s : ~ L Emp s.
Proof. intro H; inversion H. Qed.

Lemma Lang_Eps s : L Eps s <-> s = [].
Proof. split; intro H; [inversion H; reflexivity | subst; constructor]. Qed.

Lemma Lang_Cat a b s : L (Cat a b) s <-> exists s1 s2, s = s1 ++ s2 /\ L a s1 /\ L b s2.
Proof.
  split.
  - intro H; inversion H; subst. eauto.
  - intros (s1 & s2 & -> & H1 & H2). constructor; assumption.
Qed.

Lemma Lang_Alt a b s : L (Alt a b) s <-> L a s \/ L b s.
Proof.
  split.
  - intro H; inversion H; subst; auto.
  - intros [H|H]; [apply LAltL | apply LAltR]; assumption.
Qed.

Lemma Lang_Chr k s : L (Chr k) s <-> exists c, s = [c] /\ cls_mem T k c = true.
Proof.
  split.
  - intro H; inversion H; subst; eauto.
  - intros (c & -> & H). constructor; assumption.
Qed.

Lemma mkCat_correct a b s : L (mkCat a b) s <-> L (Cat a b) s.
Proof.
  rewrite Lang_Cat.
  destruct a, b; simpl; try (rewrite Lang_Cat; reflexivity);
    try (split; [intro H; inversion H | intros (s1 & s2 & _ & H1 & H2); solve [inversion H1 | inversion H2]]).
  all: try (split;
    [ intro H; exists [], s; repeat split; [constructor | assumption]
    | intros (s1 & s2 & -> & H1 & H2); inversion H1; subst; simpl; assumption ]).
  all: try (split;
    [ intro H; exists s, []; rewrite app_nil_r; repeat split; [assumption | constructor]
    | intros (s1 & s2 & -> & H1 & H2); inversion H2; subst; rewrite app_nil_r; assumption ]).
Qed.

Lemma mkAlt_correct a b s : L (mkAlt a b) s <-> L (Alt a b) s.
Proof.
  rewrite Lang_Alt.
  assert (Hgen : L (if re_eqb a b then a else Alt a b) s <-> L a s \/ L b s).
  { destruct (re_eqb a b) eqn:E.
    - apply re_eqb_eq in E; subst. tauto.
    - apply Lang_Alt. }
  destruct a, b; simpl; try exact Hgen;
    try (split; [intro H; auto | intros [H|H]; [solve [inversion H | assumption] | solve [inversion H | assumption]]]).
Qed.

Lemma nullable_correct r : nullable r = true <-> L r [].
Proof.
  induction r as [| |k|a IHa b IHb|a IHa b IHb|a IHa]; simpl.
  - split; [discriminate | intro H; inversion H].
  - split; [constructor | reflexivity].
  - split; [discriminate | intro H; inversion H].
  - rewrite andb_true_iff, IHa, IHb, Lang_Cat. split.
    + intros [H1 H2]. exists [], []. auto.
    + intros (s1 & s2 & E & H1 & H2). symmetry in E. apply app_eq_nil in E as [-> ->]. auto.
  - rewrite orb_true_iff, IHa, IHb, Lang_Alt. reflexivity.
  - split; [constructor | reflexivity].
Qed.

Lemma Lang_Star_cons a c s :
  L (Star a) (c :: s) -> exists s1 s2, s = s1 ++ s2 /\ L a (c :: s1) /\ L (Star a) s2.
Proof.
  intro H. remember (Star a) as r eqn:Er. remember (c :: s) as w eqn:Ew.
  revert s Ew.
  induction H as [ | k0 c0 Hk | a0 b0 u1 u2 _ _ _ _ | a0 b0 u _ _ | a0 b0 u _ _ | a0
                 | a0 u1 u2 H1 _ H2 IH2]; intros s Ew; try discriminate.
  inversion Er; subst a0.
  destruct u1 as [|c1 u1'].
  - simpl in Ew. apply (IH2 eq_refl s Ew).
  - simpl in Ew. inversion Ew; subst. exists u1', u2. auto.
Qed.

Lemma deriv_correct c r : forall s, L (deriv T c r) s <-> L r (c :: s).
Proof.
  induction r as [| |k|a IHa b IHb|a IHa b IHb|a IHa]; intro s; simpl.
  - split; intro H; inversion H.
  - split; intro H; inversion H.
  - destruct (cls_mem T k c) eqn:E.
    + rewrite Lang_Eps, Lang_Chr. split.
      * intros ->. eauto.
      * intros (c' & E' & _). inversion E'; reflexivity.
    + rewrite Lang_Chr. split; [intro H; inversion H|].
      intros (c' & E' & H). inversion E'; subst. congruence.
  - assert (Hleft : L (mkCat (deriv T c a) b) s <->
                    exists s1 s2, s = s1 ++ s2 /\ L a (c :: s1) /\ L b s2).
    { rewrite mkCat_correct, Lang_Cat. split; intros (s1 & s2 & E & H1 & H2); exists s1, s2;
        (split; [exact E|split; [apply IHa; exact H1 | exact H2]]). }
    destruct (nullable a) eqn:En.
    + rewrite mkAlt_correct, Lang_Alt, Hleft, IHb, Lang_Cat. split.
      * intros [(s1 & s2 & -> & H1 & H2) | H].
        -- exists (c :: s1), s2. auto.
        -- exists [], (c :: s). repeat split; [apply nullable_correct; exact En | exact H].
      * intros (s1 & s2 & E & H1 & H2). destruct s1 as [|c1 s1'].
        -- simpl in E; subst s2. right; exact H2.
        -- simpl in E; inversion E; subst. left; eauto.
    + rewrite Hleft, Lang_Cat. split.
      * intros (s1 & s2 & -> & H1 & H2). exists (c :: s1), s2. auto.
      * intros (s1 & s2 & E & H1 & H2). destruct s1 as [|c1 s1'].
        -- apply nullable_correct in H1. congruence.
        -- simpl in E; inversion E; subst. eauto.
  - rewrite mkAlt_correct, !Lang_Alt, IHa, IHb. reflexivity.
  - rewrite mkCat_correct, Lang_Cat. split.
    + intros (s1 & s2 & -> & H1 & H2). apply IHa in H1.
      change (c :: s1 ++ s2) with ((c :: s1) ++ s2). constructor; assumption.
    + intro H. apply Lang_Star_cons in H as (s1 & s2 & -> & H1 & H2).
      exists s1, s2. repeat split; [apply IHa; exact H1 | exact H2].
Qed.

Theorem matchb_correct r s : matchb T r s = true <-> L r s.
Proof.
  unfold matchb. revert r; induction s as [|c s IH]; intro r; simpl.
  - apply nullable_correct.
  - rewrite IH. apply deriv_correct.
Qed.

(** *** Shapes of common languages *)
Lemma Lang_Star_cls k s : L (Star (Chr k)) s <-> Forall (fun c => cls_mem T k c = true) s.
Proof.
  split.
  - intro H. remember (Star (Chr k)) as r eqn:Er.
    induction H as [ | k0 c0 Hk | a0 b0 u1 u2 _ _ _ _ | a0 b0 u _ _ | a0 b0 u _ _ | a0
                   | a0 u1 u2 H1 _ H2 IH2]; try discriminate.
    + constructor.
    + inversion Er; subst a0. apply Lang_Chr in H1 as (c & -> & Hc). simpl.
      constructor; [exact Hc | apply IH2; reflexivity].
  - induction s as [|c s IH]; intro H.
    + constructor.
    + inversion H; subst. change (c :: s) with ([c] ++ s). constructor.
      * constructor; assumption.
      * apply IH; assumption.
Qed.

End Correct.

(** Right-nested concatenation of a list of regexes; the translator emits the same shape. *)
Fixpoint seq (l : list re) : re :=
  match l with
  | [] => Eps
  | [x] => x
  | x :: xs => Cat x (seq xs)
  end.

Definition lit1 (c : N) : re := Chr (KSet false [(c, c)]).
Definition lits (s : str) : list re := map lit1 s.
Definition plus (r : re) : re := Cat r (Star r).
Definition opt (r : re) : re := Alt Eps r.
(** Python's [$] without MULTILINE: end of input, or just before one final "\n". *)
Definition eol : re := Alt Eps (lit1 LF).
