(** Base/Loops.v — the one loop shape the leaf translator understands:
      for index in range(a, b):
          if P(index): return index
      return d
    with a test that may raise. *)
From CP Require Import Base.Prelude.
Open Scope Z_scope.

Fixpoint for_first_fuel (fuel : nat) (a b : Z) (P : Z -> result bool) (d : result Z) : result Z :=
  match fuel with
  | O => d
  | S f => if b <=? a then d
           else let* p := P a in if p then Ok a else for_first_fuel f (a + 1) b P d
  end.

Definition for_first (a b : Z) (P : Z -> result bool) (d : result Z) : result Z :=
  for_first_fuel (Z.to_nat (b - a)) a b P d.

(** Python's [seq[i]] for a non-negative index. *)
Definition seq_get {A} (l : list A) (i : Z) : result A :=
  match nth_Z l i with Some x => Ok x | None => Err EIndex end.

(** The second loop shape:
      for index in range(a, b):
          if P(index): break
      ... index ...
    whose loop variable outlives the loop: the first index at which the test holds, else the last one (b - 1).
    With an empty range the variable is unbound in Python (UnboundLocalError): [Err EOther]. *)
Fixpoint for_break_fuel (fuel : nat) (a b : Z) (P : Z -> result bool) : result Z :=
  match fuel with
  | O => Err EOther
  | S f => let* p := P a in
           if p then Ok a else if b <=? a + 1 then Ok a else for_break_fuel f (a + 1) b P
  end.

Definition for_break (a b : Z) (P : Z -> result bool) : result Z :=
  if b <=? a then Err EOther else for_break_fuel (Z.to_nat (b - a)) a b P.

(** The third loop shape, an accumulation that hands each step the previous result:
      events = []
      for data in datas:
          prev = events[-1] if events else None
          events.append(f(data, prev))
*)
Fixpoint fold_prev_aux {A B} (f : A -> option B -> result B) (l : list A) (prev : option B) : result (list B) :=
  match l with
  | [] => Ok []
  | x :: xs => let* e := f x prev in let* es := fold_prev_aux f xs (Some e) in Ok (e :: es)
  end.

Definition fold_prev {A B} (f : A -> option B -> result B) (l : list A) : result (list B) := fold_prev_aux f l None.
