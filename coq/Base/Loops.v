(** Base/Loops.v — the one loop shape the leaf translator understands:
      for index in range(a, b):
          if P(index): return index
      return d
    with a test that may raise. *)
From CP Require Import Base.Prelude.
Open Scope Z_scope.

Fixpoint for_first_fuel (fuel : nat) (a b : Z) (P : Z -> result bool) (d : result Z) : result Z :=
  match fuel with
  | O => d
  | S f => if b <=? a then d
           else let* p := P a in if p then Ok a else for_first_fuel f (a + 1) b P d
  end.

Definition for_first (a b : Z) (P : Z -> result bool) (d : result Z) : result Z :=
  for_first_fuel (Z.to_nat (b - a)) a b P d.

(** Python's [seq[i]] for a non-negative index. *)
Definition seq_get {A} (l : list A) (i : Z) : result A :=
  match nth_Z l i with Some x => Ok x | None => Err EIndex end.
