(** Model/Obs.v — short constructors used by the harness to write the implementation's
    observed results as Coq terms, and boolean equalities on every observable type, so that
    "model = implementation" is computed inside Coq. *)
From CP Require Import Base.Prelude Base.Str Base.Regex Base.Cfg Base.Float64 Base.Timedelta
  Model.Lines Model.Sync Model.Instrument Model.Chart.
Open Scope Z_scope.

Definition mkT (tick ts idx : Z) : timed := {| t_tick := tick; t_ts := ts; t_idx := idx |}.
Definition mkB (tick ts : Z) (bpm : f64) (idx : Z) : bpm_event :=
  {| b_tick := tick; b_ts := ts; b_bpm := bpm; b_idx := idx |}.
Definition mkTS (tick ts idx up lo : Z) : ts_event :=
  {| ts_at := mkT tick ts idx; ts_upper := up; ts_lower := lo |}.
Definition mkA (tick ts : Z) : anchor_event := {| a_tick := tick; a_ts := ts |}.
Definition mkG (tick ts idx : Z) (v : str) : global_event := {| ge_at := mkT tick ts idx; ge_value := v |}.
Definition mkSP (tick ts idx sus : Z) : special_event := {| sp_at := mkT tick ts idx; sp_sus := sus |}.
Definition mkTE (tick ts idx : Z) (v : str) : track_event := {| te_at := mkT tick ts idx; te_value := v |}.
Definition mkN (tick ts idx end_ts : Z) (note : list bool) (s : sustain) (h : hopo) (sp : option Z)
  : note_event :=
  {| n_at := mkT tick ts idx; n_end_ts := end_ts; n_note := note; n_sustain := s; n_hopo := h; n_sp := sp |}.
Definition mkTrack (i d : str) (ns : list note_event) (sps : list special_event) (tes : list track_event)
  : itrack := {| it_instr := i; it_diff := d; it_notes := ns; it_sps := sps; it_tevs := tes |}.
Definition mkSync (tss : list ts_event) (bs : list bpm_event) (R : Z) (ans : list anchor_event)
  : sync_track := {| st_ts := tss; st_bpm := {| evs := bs; resolution := R |}; st_anchor := ans |}.
Definition mkGev (tx se ly : list global_event) : global_events_track :=
  {| g_text := tx; g_section := se; g_lyric := ly |}.
Definition mkChart (m : metadata) (g : global_events_track) (s : sync_track)
           (tr : list (str * list (str * itrack))) : chart :=
  {| c_meta := m; c_gev := g; c_sync := s; c_tracks := tr |}.

(** *** Equalities *)
Definition timed_eqb (a b : timed) : bool :=
  (t_tick a =? t_tick b) && (t_ts a =? t_ts b) && (t_idx a =? t_idx b).
Definition bpm_event_eqb (a b : bpm_event) : bool :=
  (b_tick a =? b_tick b) && (b_ts a =? b_ts b) && f_same (b_bpm a) (b_bpm b) && (b_idx a =? b_idx b).
Definition ts_event_eqb (a b : ts_event) : bool :=
  timed_eqb (ts_at a) (ts_at b) && (ts_upper a =? ts_upper b) && (ts_lower a =? ts_lower b).
Definition anchor_eqb (a b : anchor_event) : bool := (a_tick a =? a_tick b) && (a_ts a =? a_ts b).
Definition global_event_eqb (a b : global_event) : bool :=
  timed_eqb (ge_at a) (ge_at b) && str_eqb (ge_value a) (ge_value b).
Definition special_eqb (a b : special_event) : bool :=
  timed_eqb (sp_at a) (sp_at b) && (sp_sus a =? sp_sus b).
Definition track_event_eqb (a b : track_event) : bool :=
  timed_eqb (te_at a) (te_at b) && str_eqb (te_value a) (te_value b).
Definition sustain_eqb (a b : sustain) : bool :=
  match a, b with
  | SInt x, SInt y => x =? y
  | STuple x, STuple y => list_eqb opt_Z_eqb x y
  | _, _ => false
  end.
Definition note_event_eqb (a b : note_event) : bool :=
  timed_eqb (n_at a) (n_at b) && (n_end_ts a =? n_end_ts b) && lanes_eqb (n_note a) (n_note b)
  && sustain_eqb (n_sustain a) (n_sustain b) && hopo_eqb (n_hopo a) (n_hopo b)
  && opt_Z_eqb (n_sp a) (n_sp b).
Definition itrack_eqb (a b : itrack) : bool :=
  str_eqb (it_instr a) (it_instr b) && str_eqb (it_diff a) (it_diff b)
  && list_eqb note_event_eqb (it_notes a) (it_notes b)
  && list_eqb special_eqb (it_sps a) (it_sps b)
  && list_eqb track_event_eqb (it_tevs a) (it_tevs b).
Definition bpm_events_eqb (a b : bpm_events) : bool :=
  list_eqb bpm_event_eqb (evs a) (evs b) && (resolution a =? resolution b).
Definition sync_eqb (a b : sync_track) : bool :=
  list_eqb ts_event_eqb (st_ts a) (st_ts b) && bpm_events_eqb (st_bpm a) (st_bpm b)
  && list_eqb anchor_eqb (st_anchor a) (st_anchor b).
Definition gev_eqb (a b : global_events_track) : bool :=
  list_eqb global_event_eqb (g_text a) (g_text b)
  && list_eqb global_event_eqb (g_section a) (g_section b)
  && list_eqb global_event_eqb (g_lyric a) (g_lyric b).
Definition meta_val_eqb (a b : meta_val) : bool :=
  match a, b with
  | MVInt x, MVInt y => x =? y
  | MVStr x, MVStr y => str_eqb x y
  | MVNone, MVNone => true
  | MVEnum x, MVEnum y => str_eqb x y
  | _, _ => false
  end.
Definition metadata_eqb (a b : metadata) : bool :=
  list_eqb (fun x y => str_eqb (fst x) (fst y) && meta_val_eqb (snd x) (snd y)) a b.
Definition tracks_eqb (a b : list (str * list (str * itrack))) : bool :=
  list_eqb (fun x y => str_eqb (fst x) (fst y)
                       && list_eqb (fun u v => str_eqb (fst u) (fst v) && itrack_eqb (snd u) (snd v))
                                   (snd x) (snd y)) a b.
Definition chart_eqb (a b : chart) : bool :=
  metadata_eqb (c_meta a) (c_meta b) && gev_eqb (c_gev a) (c_gev b)
  && sync_eqb (c_sync a) (c_sync b) && tracks_eqb (c_tracks a) (c_tracks b).
Definition log_eqb (a b : log) : bool :=
  match a, b with
  | LUnparsable x, LUnparsable y => str_eqb x y
  | LUnhandled x, LUnhandled y => str_eqb x y
  | LOther x, LOther y => str_eqb x y
  | _, _ => false
  end.

Definition result_eqb {A} (eqb : A -> A -> bool) (a b : result A) : bool :=
  match a, b with
  | Ok x, Ok y => eqb x y
  | Err e, Err f => errkind_eqb e f
  | _, _ => false
  end.

Definition is_unmodelled {A} (r : result A) : bool :=
  match r with Err EUnmodelled => true | _ => false end.

Definition parse_eqb : result (chart * list log) -> result (chart * list log) -> bool :=
  result_eqb (fun x y => chart_eqb (fst x) (fst y) && list_eqb log_eqb (snd x) (snd y)).

Definition pdata_eqb (a b : pdata) : bool :=
  match a, b with
  | PNote t i s, PNote t' i' s' => (t =? t') && (i =? i') && (s =? s')
  | PSP t s, PSP t' s' => (t =? t') && (s =? s')
  | PTev t v, PTev t' v' => (t =? t') && str_eqb v v'
  | PBpm t r, PBpm t' r' => (t =? t') && str_eqb r r'
  | PTs t u l, PTs t' u' l' => (t =? t') && (u =? u') && opt_Z_eqb l l'
  | PAnchor t u, PAnchor t' u' => (t =? t') && (u =? u')
  | PGlobal k t v, PGlobal k' t' v' => kind_eqb k k' && (t =? t') && str_eqb v v'
  | _, _ => false
  end.

Definition float_result_eqb : result f64 -> result f64 -> bool := result_eqb f_same.
Definition Z_result_eqb : result Z -> result Z -> bool := result_eqb Z.eqb.

(** Verdict of one correspondence case: 0 = agree, 1 = disagree, 2 = model declines. *)
Definition verdict {A} (eqb : result A -> result A -> bool) (model impl : result A) : N :=
  if is_unmodelled model then 2%N else if eqb model impl then 0%N else 1%N.
