(** Model/InstrumentMemo.v — the four [functools.lru_cache] tables of chartparse as an instance of
    the abstract memoisation model of Spec/C17.v, and the note-event builder of Model/Instrument.v
    written once more as programs in the free monad [prog] whose memoised calls are exactly the calls
    the Python makes to the four cached functions:

    - [complex_sustain_from_parsed_datas] calls [NoteTrackIndex.is_5_note] once per line of the tick
      (the [filter]) and then [_refined_sustain_tuple] on the five-slot tuple (unless an OPEN line
      returned first);
    - [NoteEvent._compute_hopo_state] calls [note_duration_to_ticks(resolution, EIGHTH_TRIPLET)] and,
      when the two preceding conjuncts of the [and] chain are true (Python short-circuits),
      [Note.is_chord].

    Everything else ([timestamp_at_tick], the star-power cursor, ...) touches no cross-call state
    and is used as the pure model function. *)
From CP Require Import Base.Prelude Base.Str Base.Regex Base.Cfg Base.Float64 Base.Timedelta
  Model.Lines Model.Sync Model.Instrument Spec.C17.
Open Scope Z_scope.

(** *** The instance *)
Inductive mtable := TIsChord | TIs5Note | TRefined | TDuration.

Inductive mkey :=
| KLanes (n : list bool)             (* Note member: its five-bit value *)
| KIdx (i : Z)                       (* NoteTrackIndex member: its value *)
| KSus (l : list (option Z))         (* the sustain tuple *)
| KDur (rd : Z * Z).                 (* (resolution, NoteDuration value) *)

Inductive mvalue :=
| VBool (b : bool)
| VSustain (s : sustain)
| VTicks (r : result Z).             (* [note_duration_to_ticks] may raise; lru_cache does not
                                        store exceptions, but re-raising is the same value *)

Definition mtable_eqb (a b : mtable) : bool :=
  match a, b with
  | TIsChord, TIsChord | TIs5Note, TIs5Note | TRefined, TRefined | TDuration, TDuration => true
  | _, _ => false
  end.

Definition mkey_eqb (a b : mkey) : bool :=
  match a, b with
  | KLanes x, KLanes y => list_eqb Bool.eqb x y
  | KIdx x, KIdx y => x =? y
  | KSus x, KSus y => list_eqb (option_eqb Z.eqb) x y
  | KDur (r1, d1), KDur (r2, d2) => (r1 =? r2) && (d1 =? d2)
  | _, _ => false
  end.

(** The memoised functions.  A table is only ever called with keys of its own shape; the default
    for a mismatched shape is never reached by the programs below. *)
Definition mf (t : mtable) (k : mkey) : mvalue :=
  match t, k with
  | TIsChord, KLanes n => VBool (is_chord n)
  | TIs5Note, KIdx i => VBool (is_5_note i)
  | TRefined, KSus l => VSustain (refined_sustain l)
  | TDuration, KDur (R, dv) => VTicks (note_duration_to_ticks R dv)
  | _, _ => VBool false
  end.

Definition as_bool (v : mvalue) : bool := match v with VBool b => b | _ => false end.
Definition as_sustain (v : mvalue) : sustain := match v with VSustain s => s | _ => SInt 0 end.
Definition as_ticks (v : mvalue) : result Z := match v with VTicks r => r | _ => Err EUnreachable end.

Definition mprog := prog mtable mkey mvalue.
Definition mcache := cache mtable mkey mvalue.
Definition mRet {A} (a : A) : mprog A := Ret mtable mkey mvalue A a.
Definition mMemo {A} (t : mtable) (k : mkey) (cont : mvalue -> mprog A) : mprog A :=
  Memo mtable mkey mvalue A t k cont.

Definition mrun_pure {A} (p : mprog A) : A := run_pure mtable mkey mvalue mf p.
Definition mrun_cached {A} := @run_cached mtable mkey mvalue mtable_eqb mkey_eqb mf A.
Definition mrun_history {A} := @run_history mtable mkey mvalue mtable_eqb mkey_eqb mf A.
Definition mrun_sched {A} := @run_sched mtable mkey mvalue mtable_eqb mkey_eqb mf A.

(** *** Sequencing of programs *)
Fixpoint pbind {A B} (p : mprog A) (k : A -> mprog B) : mprog B :=
  match p with
  | Ret _ _ _ _ a => k a
  | Memo _ _ _ _ t key cont => mMemo t key (fun v => pbind (cont v) k)
  end.

(** Sequencing of programs that return a [result]: an error ends the program with that error
    (a Python exception propagating out of the parse). *)
Definition pbind_r {A B} (p : mprog (result A)) (k : A -> mprog (result B)) : mprog (result B) :=
  pbind p (fun r => match r with Ok a => k a | Err e => mRet (Err e) end).
Definition rbind_p {A B} (r : result A) (k : A -> mprog (result B)) : mprog (result B) :=
  match r with Ok a => k a | Err e => mRet (Err e) end.

(** *** The builder as programs *)

(** The [filter(lambda d: d.note_track_index.is_5_note(), datas)] loop: one memoised call per line. *)
Fixpoint lane_sustains_prog_from (g : list ndata) (l : list (option Z)) : mprog (list (option Z)) :=
  match g with
  | [] => mRet l
  | d :: g' =>
      mMemo TIs5Note (KIdx (nd_idx d)) (fun v =>
        lane_sustains_prog_from g'
          (if as_bool v then set_nth (Z.to_nat (nd_idx d)) (Some (nd_sus d)) l else l))
  end.
Definition lane_sustains_prog (g : list ndata) : mprog (list (option Z)) :=
  lane_sustains_prog_from g no_sustains.

Definition complex_sustain_prog (g : list ndata) : mprog (result sustain) :=
  match find (fun d => nd_idx d =? IDX_OPEN) g with
  | Some d => mRet (Ok (SInt (nd_sus d)))
  | None =>
      pbind (lane_sustains_prog g) (fun l =>
        mMemo TRefined (KSus l) (fun v => mRet (Ok (as_sustain v))))
  end.

Definition compute_hopo_prog (c : cfg) (R tick : Z) (note : list bool) (is_tap is_forced : bool)
           (prev : option (Z * list bool)) : mprog (result hopo) :=
  match prev with
  | None =>
      mRet (if is_forced then Err EValue
            else if is_tap then Ok TAP else Ok STRUM)
  | Some (ptick, pnote) =>
      if is_tap then mRet (Ok TAP)
      else
        mMemo TDuration (KDur (R, eighth_triplet c)) (fun v =>
          rbind_p (as_ticks v) (fun boundary =>
            let within := tick - ptick <=? boundary in
            let different := negb (lanes_eqb note pnote) in
            if within && different
            then mMemo TIsChord (KLanes note) (fun v2 =>
                   let should := within && different && negb (as_bool v2) in
                   mRet (Ok (if Bool.eqb should is_forced then STRUM else HOPO)))
            else mRet (Ok (if Bool.eqb false is_forced then STRUM else HOPO))))
  end.

Definition note_from_group_prog (c : cfg) (B : bpm_events) (sps : list special_event)
           (g : list ndata) (prev : option note_event) (hint cursor : Z)
  : mprog (result (note_event * Z * Z)) :=
  match g with
  | [] => mRet (Err EIndex)
  | d0 :: _ =>
      let tick := nd_tick d0 in
      let note := lanes_of g in
      pbind_r (complex_sustain_prog g) (fun sus =>
      let is_tap := existsb (fun d => nd_idx d =? IDX_TAP) g in
      let is_forced := existsb (fun d => nd_idx d =? IDX_FORCED) g in
      rbind_p (timestamp_at_tick B tick hint) (fun '(ts, idx) =>
      pbind_r (compute_hopo_prog c (resolution B) tick note is_tap is_forced
                 (match prev with Some p => Some (n_tick p, n_note p) | None => None end)) (fun h =>
      mRet (
        let* (spd, cursor') := compute_sp sps tick cursor in
        let* longest := longest_sustain sus in
        let end_tick := tick_add tick longest in
        let* (end_ts, _) := timestamp_at_tick B end_tick idx in
        Ok ({| n_at := {| t_tick := tick; t_ts := ts; t_idx := idx |};
               n_end_ts := end_ts; n_note := note; n_sustain := sus; n_hopo := h; n_sp := spd |},
            idx, cursor')))))
  end.

Fixpoint build_notes_prog (c : cfg) (B : bpm_events) (sps : list special_event)
         (groups : list (list ndata)) (prev : option note_event) (hint cursor : Z)
  : mprog (result (list note_event)) :=
  match groups with
  | [] => mRet (Ok [])
  | g :: gs =>
      pbind_r (note_from_group_prog c B sps g prev hint cursor) (fun '(e, hint', cursor') =>
      pbind_r (build_notes_prog c B sps gs (Some e) hint' cursor') (fun es =>
      mRet (Ok (e :: es))))
  end.

(** One note section of one chart, as [itrack_from_lines] hands it to [build_notes]. *)
Record note_section := {
  ns_cfg : cfg;
  ns_bpm : bpm_events;
  ns_sps : list special_event;
  ns_data : list ndata
}.

Definition section_notes (s : note_section) : result (list note_event) :=
  build_notes (ns_cfg s) (ns_bpm s) (ns_sps s) (group_by_tick (ns_data s)) None 0 0.

Definition section_prog (s : note_section) : mprog (result (list note_event)) :=
  build_notes_prog (ns_cfg s) (ns_bpm s) (ns_sps s) (group_by_tick (ns_data s)) None 0 0.
