(** Model/ChartState.v — a parsed chart under read-only use (C19).

    The chart value itself is immutable (frozen dataclasses); the only place where a read-only
    operation could write is the outer instrument mapping [Chart.instrument_tracks]: if
    [from_file] stored an auto-inserting mapping (a [defaultdict]), subscripting it with an absent
    instrument — which [Chart.__getitem__] and [notes_per_second] do — inserts an empty entry.
    Which kind of mapping is stored is regenerated from the source on every run
    ([autoinsert_tracks] of the configuration, from a probe parse). *)
From CP Require Import Base.Prelude Base.Str Base.Regex Base.Cfg Base.Float64 Base.Timedelta
  Model.Lines Model.Sync Model.Instrument Model.Chart.
Open Scope Z_scope.

Inductive op :=
| OGetItem (i : str)                          (* chart[instrument] *)
| ONps (i d : str) (s e : bound)              (* chart.notes_per_second(...) — may fail *)
| OQuery (t h : Z)                            (* bpm_events.timestamp_at_tick(t, start_iteration_index=h) *)
| OQueryNoOpt (t : Z)
| ORender                                     (* str(chart), repr(chart), str/repr of every event *)
| OEqTwin                                     (* chart == identically parsed twin *)
| OHash                                       (* hash() of every event *)
| ODerived                                    (* longest_sustain, end_tick, last_note_end_timestamp, header_tag, ... *)
| OSetAttr.                                   (* attribute assignment / deletion on an event or track *)

Inductive opres :=
| RKeys (ds : list str)                       (* difficulties present under chart[i] *)
| RFloat (x : result f64)
| RQuery (q : result (Z * Z))
| RTime (q : result Z)
| RDone
| RBool (b : bool)
| RErr (e : errkind).

Record cstate := { cs_chart : chart; cs_extra : list str }.   (* extra = auto-inserted instrument keys *)

Definition init_state (ch : chart) : cstate := {| cs_chart := ch; cs_extra := [] |}.

Definition has_key (st : cstate) (i : str) : bool :=
  match assoc i (c_tracks (cs_chart st)) with Some _ => true | None => mem_str i (cs_extra st) end.

(** Subscripting the outer mapping with [i]: may insert when the mapping auto-inserts. *)
Definition touch (auto : bool) (st : cstate) (i : str) : cstate :=
  if has_key st i then st
  else if auto then {| cs_chart := cs_chart st; cs_extra := cs_extra st ++ [i] |} else st.

Definition step (auto : bool) (st : cstate) (o : op) : cstate * opres :=
  match o with
  | OGetItem i =>
      match assoc i (c_tracks (cs_chart st)) with
      | Some inner => (st, RKeys (map fst inner))
      | None => if mem_str i (cs_extra st) || auto then (touch auto st i, RKeys []) else (st, RErr EKey)
      end
  | ONps i d s e => (touch auto st i, RFloat (notes_per_second (cs_chart st) i d s e))
  | OQuery t h => (st, RQuery (timestamp_at_tick (st_bpm (c_sync (cs_chart st))) t h))
  | OQueryNoOpt t => (st, RTime (timestamp_at_tick_no_optimize_return (st_bpm (c_sync (cs_chart st))) t))
  | ORender => (st, RDone)
  | OEqTwin => (st, RBool (match cs_extra st with [] => true | _ => false end))
  | OHash => (st, RDone)
  | ODerived => (st, RDone)
  | OSetAttr => (st, RErr EFrozen)
  end.

Fixpoint run (auto : bool) (st : cstate) (ops : list op) : cstate * list opres :=
  match ops with
  | [] => (st, [])
  | o :: ops' => let '(st', r) := step auto st o in
                 let '(st'', rs) := run auto st' ops' in (st'', r :: rs)
  end.

(** The public observation: the chart value and the key set of the instrument mapping. *)
Definition obs (st : cstate) : chart * list str :=
  (cs_chart st, map fst (c_tracks (cs_chart st)) ++ cs_extra st).
