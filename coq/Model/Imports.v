(** Model/Imports.v — an executable model of what CPython's import system does with the
    MODULE-LEVEL statements of a package (property C20).

    A program is a list [(module name, module-level statements)]; the statements are the
    abstraction produced by tools/extract_imports.py (Gen/Imports.v).  The interpreter state is
    sys.modules (per module: absent / being initialised / loaded), every module's namespace SO
    FAR, and for every submodule whether its name has been set as an attribute of its parent
    package object (CPython does that only when the submodule's import COMPLETES).

    Facts of CPython 3.12 (importlib._bootstrap, ceval IMPORT_NAME / IMPORT_FROM) that are modelled:
    - [import a.b.c]: _find_and_load of the full name; the parent is imported first; a name
      already in sys.modules — even half-initialised — is returned and NOT re-executed;
      the statement binds the TOP package name in the importer;
    - [import a.b.c as d]: as above, then IMPORT_FROM b, IMPORT_FROM c from the top package
      (getattr, falling back to sys.modules["a.b"]);
    - [from m import x as y]: import m; if m is a package, _handle_fromlist imports the
      submodule m.x for every x that is not yet an attribute of m (a missing submodule is
      ignored); then IMPORT_FROM x: getattr(m, x), else sys.modules["m.x"], else ImportError;
    - plain attribute access [pkg.x.Y] evaluated at import time has NO sys.modules fallback:
      it needs attribute x on the package object (AttributeError otherwise);
    - a module whose body raises is removed from sys.modules (modules that completed during the
      failed import stay); the exception propagates to the importer, which is removed in turn. *)
From CP Require Import Base.Prelude.
From Coq Require String Ascii.
Import String.StringSyntax Ascii.AsciiSyntax.
Delimit Scope string_scope with string.
Delimit Scope char_scope with char.
Open Scope Z_scope.

Notation string := String.string.
Definition modname := string.
Definition name := string.

(** Abstract object identities.  [OObj m n]: the function / class / TypeVar / NewType created by
    the statement that binds [n] in module [m]; [OVal m n]: the value of another assignment to
    [n] in [m] (identity tracked, kind opaque); [OMod m]: the module object of [m];
    [OExt n]: something imported from outside the package under the name [n]. *)
Inductive obj :=
| OObj (m : modname) (n : name)
| OVal (m : modname) (n : name)
| OMod (m : modname)
| OExt (n : name).

Inductive bkind := BDef | BVal.

Inductive stmt :=
| SImport (m : modname)                              (* import a.b.c *)
| SImportAs (m : modname) (a : name)                 (* import a.b.c as a *)
| SFrom (m : modname) (names : list (name * name))   (* from m import x as y, ... *)
| SBind (k : bkind) (names : list name)              (* def / class / assignment *)
| SAlias (n : name) (root : name) (path : list name) (* n = root.p1.p2 (pure attribute chain) *)
| SUse (root : name) (path : list name)              (* root.p1.p2 evaluated at import time *)
| SExternal (names : list name).                     (* import of something outside the package *)

Definition namespace := list (name * obj).
Inductive mstatus := Absent | Loading | Loaded.
Record mrec := { status : mstatus; ns : namespace; attr : bool }.
Definition absent_rec : mrec := {| status := Absent; ns := []; attr := false |}.
Definition state := list (modname * mrec).
Definition progs := list (modname * list stmt).

(** *** Dotted names *)
Definition is_dot (c : Ascii.ascii) : bool := Ascii.eqb c "."%char.

(** ["a.b.c"] -> [Some ("a.b", "c")]; no dot -> [None]. *)
Fixpoint rsplit (s : string) : option (string * string) :=
  match s with
  | String.EmptyString => None
  | String.String c r =>
      match rsplit r with
      | Some (a, b) => Some (String.String c a, b)
      | None => if is_dot c then Some (String.EmptyString, r) else None
      end
  end.

Definition parent (m : modname) : option modname := option_map fst (rsplit m).
Definition last_comp (m : modname) : name := match rsplit m with Some (_, b) => b | None => m end.

Fixpoint top (s : string) : string :=
  match s with
  | String.EmptyString => String.EmptyString
  | String.String c r => if is_dot c then String.EmptyString else String.String c (top r)
  end.

Fixpoint split_dots (s : string) : list string :=
  match s with
  | String.EmptyString => [String.EmptyString]
  | String.String c r =>
      if is_dot c then String.EmptyString :: split_dots r
      else match split_dots r with
           | h :: t => String.String c h :: t
           | [] => [String.String c String.EmptyString]
           end
  end.

Definition child (p : modname) (x : name) : modname :=
  String.append p (String.String "."%char x).

(** *** State access *)
Fixpoint get (st : state) (m : modname) : mrec :=
  match st with
  | [] => absent_rec
  | (k, r) :: t => if String.eqb k m then r else get t m
  end.

Definition set (st : state) (m : modname) (r : mrec) : state :=
  map (fun kr => if String.eqb (fst kr) m then (fst kr, r) else kr) st.

Fixpoint find_prog (P : progs) (m : modname) : option (list stmt) :=
  match P with
  | [] => None
  | (k, b) :: t => if String.eqb k m then Some b else find_prog t m
  end.

Fixpoint ns_get (n : namespace) (x : name) : option obj :=
  match n with
  | [] => None
  | (k, o) :: t => if String.eqb k x then Some o else ns_get t x
  end.

(** dict assignment: an existing key keeps its position, a new key goes last. *)
Fixpoint ns_set (n : namespace) (x : name) (o : obj) : namespace :=
  match n with
  | [] => [(x, o)]
  | (k, v) :: t => if String.eqb k x then (k, o) :: t else (k, v) :: ns_set t x o
  end.

Definition in_sys (st : state) (m : modname) : bool :=
  match status (get st m) with Absent => false | _ => true end.

Definition is_loaded (st : state) (m : modname) : bool :=
  match status (get st m) with Loaded => true | _ => false end.

Definition is_pkg (P : progs) (m : modname) : bool :=
  existsb (fun kb => match parent (fst kb) with Some p => String.eqb p m | None => false end) P.

Definition bind_name (st : state) (cur : modname) (x : name) (o : obj) : state :=
  let r := get st cur in
  set st cur {| status := status r; ns := ns_set (ns r) x o; attr := attr r |}.

(** [getattr(module p, x)]: the module's globals, or a submodule whose import completed. *)
Definition getattr_mod (st : state) (p : modname) (x : name) : option obj :=
  match ns_get (ns (get st p)) x with
  | Some o => Some o
  | None => if attr (get st (child p x)) then Some (OMod (child p x)) else None
  end.

(** The IMPORT_FROM opcode. *)
Definition import_from (st : state) (p : modname) (x : name) : result obj :=
  match getattr_mod st p x with
  | Some o => Ok o
  | None => if in_sys st (child p x) then Ok (OMod (child p x)) else Err EImport
  end.

Fixpoint import_from_path (st : state) (o : obj) (path : list name) : result obj :=
  match path with
  | [] => Ok o
  | x :: r =>
      match o with
      | OMod p => let* o' := import_from st p x in import_from_path st o' r
      | _ => Err EUnmodelled
      end
  end.

(** Evaluation of [root.p1.p2...]: attributes of MODULE objects are looked up; the walk stops
    (successfully) at the first non-module object, whose attributes are outside the model. *)
Fixpoint walk (st : state) (o : obj) (path : list name) : result (obj * list name) :=
  match path with
  | [] => Ok (o, [])
  | x :: r =>
      match o with
      | OMod p =>
          match getattr_mod st p x with
          | Some o' => walk st o' r
          | None => Err EAttribute
          end
      | _ => Ok (o, path)
      end
  end.

Definition eval_chain (st : state) (cur : modname) (root : name) (path : list name)
  : result (obj * list name) :=
  match ns_get (ns (get st cur)) root with
  | None => Err EOther                 (* NameError *)
  | Some o => walk st o path
  end.

(** *** Execution.  An [outcome] keeps the state also on failure (sys.modules after unwinding). *)
Definition outcome := (state * option errkind)%type.

Fixpoint bind_all (st : state) (cur : modname) (mk : name -> obj) (names : list name) : state :=
  match names with
  | [] => st
  | x :: r => bind_all (bind_name st cur x (mk x)) cur mk r
  end.

(** importlib._bootstrap._handle_fromlist for a package [m]. *)
Fixpoint handle_fromlist (P : progs) (imp : state -> modname -> outcome) (m : modname)
    (xs : list name) (st : state) : outcome :=
  match xs with
  | [] => (st, None)
  | x :: r =>
      match getattr_mod st m x with
      | Some _ => handle_fromlist P imp m r st
      | None =>
          match find_prog P (child m x) with
          | None => handle_fromlist P imp m r st      (* ModuleNotFoundError is swallowed *)
          | Some _ =>
              match imp st (child m x) with
              | (st1, None) => handle_fromlist P imp m r st1
              | bad => bad
              end
          end
      end
  end.

Fixpoint bind_from (st : state) (cur m : modname) (names : list (name * name)) : outcome :=
  match names with
  | [] => (st, None)
  | (x, y) :: r =>
      match import_from st m x with
      | Ok o => bind_from (bind_name st cur y o) cur m r
      | Err e => (st, Some e)
      end
  end.

Definition exec_stmt (P : progs) (imp : state -> modname -> outcome) (cur : modname)
    (s : stmt) (st : state) : outcome :=
  match s with
  | SImport m =>
      match imp st m with
      | (st1, None) => (bind_name st1 cur (top m) (OMod (top m)), None)
      | bad => bad
      end
  | SImportAs m a =>
      match imp st m with
      | (st1, None) =>
          match import_from_path st1 (OMod (top m)) (tl (split_dots m)) with
          | Ok o => (bind_name st1 cur a o, None)
          | Err e => (st1, Some e)
          end
      | bad => bad
      end
  | SFrom m names =>
      match imp st m with
      | (st1, None) =>
          match (if is_pkg P m then handle_fromlist P imp m (map fst names) st1 else (st1, None)) with
          | (st2, None) => bind_from st2 cur m names
          | bad => bad
          end
      | bad => bad
      end
  | SBind k names =>
      (bind_all st cur (fun x => match k with BDef => OObj cur x | BVal => OVal cur x end) names, None)
  | SAlias n root path =>
      match eval_chain st cur root path with
      | Ok (o, []) => (bind_name st cur n o, None)
      | Ok (_, _ :: _) => (bind_name st cur n (OVal cur n), None)
      | Err e => (st, Some e)
      end
  | SUse root path =>
      match eval_chain st cur root path with
      | Ok _ => (st, None)
      | Err e => (st, Some e)
      end
  | SExternal names => (bind_all st cur OExt names, None)
  end.

Fixpoint exec_stmts (P : progs) (imp : state -> modname -> outcome) (cur : modname)
    (body : list stmt) (st : state) : outcome :=
  match body with
  | [] => (st, None)
  | s :: r =>
      match exec_stmt P imp cur s st with
      | (st1, None) => exec_stmts P imp cur r st1
      | bad => bad
      end
  end.

(** Running a module body ([exec_module]): [cur] has just been put into sys.modules. *)
Definition exec_module (P : progs) (imp : state -> modname -> outcome) (cur : modname)
    (body : list stmt) (st : state) : outcome :=
  exec_stmts P imp cur body
    (set st cur {| status := Loading; ns := []; attr := false |}).

(** Removing a module whose body raised.  A later re-import creates a NEW module object, so the
    submodule attributes that were set on the old package object are gone. *)
Definition unload (st : state) (m : modname) : state :=
  map (fun kr =>
         if String.eqb (fst kr) m then (fst kr, absent_rec)
         else match parent (fst kr) with
              | Some p => if String.eqb p m
                          then (fst kr, {| status := status (snd kr); ns := ns (snd kr); attr := false |})
                          else kr
              | None => kr
              end) st.

(** importlib._bootstrap._find_and_load.  Fuel bounds the nesting depth of imports only. *)
Fixpoint import_mod (P : progs) (fuel : nat) (st : state) (m : modname) : outcome :=
  match fuel with
  | O => (st, Some EOther)
  | S f =>
      if in_sys st m then (st, None) else
      match (match parent m with Some p => import_mod P f st p | None => (st, None) end) with
      | (st1, None) =>
          if in_sys st1 m then (st1, None) else
          match find_prog P m with
          | None => (st1, Some EImport)              (* ModuleNotFoundError *)
          | Some body =>
              match exec_module P (import_mod P f) m body st1 with
              | (st3, None) =>
                  let r := get st3 m in
                  let has_parent := match parent m with Some p => in_sys st3 p | None => false end in
                  (set st3 m {| status := Loaded; ns := ns r; attr := has_parent |}, None)
              | (st3, Some e) => (unload st3 m, Some e)
              end
          end
      | bad => bad
      end
  end.

Definition import_module (P : progs) (fuel : nat) (st : state) (m : modname) : result state :=
  match import_mod P fuel st m with
  | (st', None) => Ok st'
  | (_, Some e) => Err e
  end.

Definition mods (P : progs) : list modname := map fst P.
Definition st0 (P : progs) : state := map (fun m => (m, absent_rec)) (mods P).
Definition fuel_of (P : progs) : nat := S (S (2 * length P)).

Definition step (P : progs) (st : state) (m : modname) : result state :=
  import_module P (fuel_of P) st m.

(** A client program [import m1; import m2; ...] in a fresh interpreter. *)
Definition run_imports_from (P : progs) (st : state) (seq : list modname) : result state :=
  foldM (step P) seq st.
Definition run_imports (P : progs) (seq : list modname) : result state :=
  run_imports_from P (st0 P) seq.

(** The same, keeping sys.modules after a failure: the imports that succeeded, the state when
    the client stopped, and the error that stopped it. *)
Fixpoint run_trace_from (P : progs) (st : state) (seq : list modname) : outcome :=
  match seq with
  | [] => (st, None)
  | m :: r =>
      match import_mod P (fuel_of P) st m with
      | (st1, None) => run_trace_from P st1 r
      | bad => bad
      end
  end.
Definition run_trace (P : progs) (seq : list modname) : outcome := run_trace_from P (st0 P) seq.

(** *** What an observer sees: [vars(module)] of every loaded module. *)
Definition namespace_of (st : state) (m : modname) : namespace := ns (get st m).

(** Submodule attributes of package [m], in the (canonical) order of the state. *)
Definition sub_attrs (st : state) (m : modname) : namespace :=
  flat_map (fun kr =>
              match parent (fst kr) with
              | Some p => if String.eqb p m && attr (snd kr)
                          then [(last_comp (fst kr), OMod (fst kr))] else []
              | None => []
              end) st.

Definition full_ns (st : state) (m : modname) : namespace :=
  let own := ns (get st m) in
  own ++ filter (fun xo => match ns_get own (fst xo) with Some _ => false | None => true end)
                (sub_attrs st m).

Definition is_public (x : name) : bool :=
  match x with
  | String.String c _ => negb (Ascii.eqb c "_"%char)
  | String.EmptyString => false
  end.

Definition obj_eqb (a b : obj) : bool :=
  match a, b with
  | OObj m n, OObj m' n' => String.eqb m m' && String.eqb n n'
  | OVal m n, OVal m' n' => String.eqb m m' && String.eqb n n'
  | OMod m, OMod m' => String.eqb m m'
  | OExt n, OExt n' => String.eqb n n'
  | _, _ => false
  end.

Definition loaded_mods (st : state) : list modname :=
  map fst (filter (fun kr => match status (snd kr) with Loaded => true | _ => false end) st).

(** Every public binding [(module, name, object)] of the loaded modules. *)
Definition public_bindings (st : state) : list (modname * name * obj) :=
  flat_map (fun m => map (fun xo => (m, fst xo, snd xo))
                         (filter (fun xo => is_public (fst xo)) (full_ns st m)))
           (loaded_mods st).

Definition label_of (m : modname) (x : name) : string := child m x.

(** The identity label of an object: the smallest "module.name" that is bound to it. *)
Definition min_label (bs : list (modname * name * obj)) (o : obj) (dflt : string) : string :=
  fold_left (fun acc b =>
               let '(m, x, o') := b in
               if obj_eqb o o' then (if String.leb (label_of m x) acc then label_of m x else acc) else acc)
            bs dflt.

Definition observable (o : obj) : bool :=
  match o with OObj _ _ | OMod _ => true | _ => false end.

(** Per loaded module: the public names bound to package objects (functions, classes, TypeVars,
    NewTypes, modules) with their identity labels.  This is what tools/c20_impl.py observes. *)
Definition predicted (st : state) : list (modname * list (name * string)) :=
  let bs := public_bindings st in
  map (fun m => (m, map (fun xo => (fst xo, min_label bs (snd xo) (label_of m (fst xo))))
                        (filter (fun xo => is_public (fst xo) && observable (snd xo)) (full_ns st m))))
      (loaded_mods st).

(** Per loaded module: ALL public names (including externals and opaque values). *)
Definition predicted_all_names (st : state) : list (modname * list name) :=
  map (fun m => (m, filter is_public (map fst (full_ns st m)))) (loaded_mods st).

Definition predict (P : progs) (seq : list modname) : result (list (modname * list (name * string))) :=
  result_map predicted (run_imports P seq).
Definition predict_all_names (P : progs) (seq : list modname) : result (list (modname * list name)) :=
  result_map predicted_all_names (run_imports P seq).

(** *** Boolean equalities (for the decidable checker of Proofs/C20.v). *)
Definition mstatus_eqb (a b : mstatus) : bool :=
  match a, b with
  | Absent, Absent | Loading, Loading | Loaded, Loaded => true
  | _, _ => false
  end.

Definition ns_eqb : namespace -> namespace -> bool :=
  list_eqb (fun a b => String.eqb (fst a) (fst b) && obj_eqb (snd a) (snd b)).

Definition mrec_eqb (a b : mrec) : bool :=
  mstatus_eqb (status a) (status b) && ns_eqb (ns a) (ns b) && Bool.eqb (attr a) (attr b).

Definition state_eqb : state -> state -> bool :=
  list_eqb (fun a b => String.eqb (fst a) (fst b) && mrec_eqb (snd a) (snd b)).

Lemma obj_eqb_eq a b : obj_eqb a b = true <-> a = b.
Proof.
  destruct a, b; simpl; split; intro H; try discriminate;
    try (apply andb_true_iff in H as [H1 H2]; apply String.eqb_eq in H1, H2; congruence);
    try (apply String.eqb_eq in H; congruence);
    try (inversion H; subst; rewrite ?String.eqb_refl; reflexivity).
Qed.

Lemma mstatus_eqb_eq a b : mstatus_eqb a b = true <-> a = b.
Proof. destruct a, b; simpl; split; intro H; try reflexivity; discriminate. Qed.

Lemma ns_eqb_eq a b : ns_eqb a b = true <-> a = b.
Proof.
  apply list_eqb_eq. intros [x o] [y o']; simpl. rewrite andb_true_iff, String.eqb_eq, obj_eqb_eq.
  split; [intros [-> ->]; reflexivity | intro H; inversion H; auto].
Qed.

Lemma mrec_eqb_eq a b : mrec_eqb a b = true <-> a = b.
Proof.
  destruct a as [s n t], b as [s' n' t']; unfold mrec_eqb; simpl.
  rewrite !andb_true_iff, mstatus_eqb_eq, ns_eqb_eq, Bool.eqb_true_iff.
  split; [intros [[-> ->] ->]; reflexivity | intro H; inversion H; auto].
Qed.

Lemma state_eqb_eq a b : state_eqb a b = true <-> a = b.
Proof.
  apply list_eqb_eq. intros [x r] [y r']; simpl. rewrite andb_true_iff, String.eqb_eq, mrec_eqb_eq.
  split; [intros [-> ->]; reflexivity | intro H; inversion H; auto].
Qed.

(** *** Comparison with an observed run (tools/c20_impl.py), insensitive to dict order. *)
Definition incl_b {A} (eqb : A -> A -> bool) (l1 l2 : list A) : bool :=
  forallb (fun x => existsb (eqb x) l2) l1.
Definition same_set {A} (eqb : A -> A -> bool) (l1 l2 : list A) : bool :=
  incl_b eqb l1 l2 && incl_b eqb l2 l1.

Definition obs_agree (pred obs : list (modname * list (name * string))) : bool :=
  same_set (fun a b => String.eqb (fst a) (fst b)
                       && same_set (fun x y => String.eqb (fst x) (fst y) && String.eqb (snd x) (snd y))
                                   (snd a) (snd b)) pred obs.

Definition names_agree (pred obs : list (modname * list name)) : bool :=
  same_set (fun a b => String.eqb (fst a) (fst b) && same_set String.eqb (snd a) (snd b)) pred obs.

(** [obs_ok]: the client program finished without exception; [obs]: per loaded package module the
    public names bound to package objects with their identity labels; [obs_names]: per loaded
    package module all public names. *)
Definition C20_verdict (P : progs) (seq : list modname) (obs_ok : bool)
    (obs : list (modname * list (name * string))) (obs_names : list (modname * list name)) : bool :=
  match run_imports P seq with
  | Ok st => obs_ok && obs_agree (predicted st) obs && names_agree (predicted_all_names st) obs_names
  | Err _ => negb obs_ok
  end.
