(** Model/Lines.v — the ten line recognisers ([X.ParsedData.from_chart_line]) and the
    dispatcher [chartparse.track.parse_data_from_chart_lines].

    Acceptance of a line is *the translated shipped regex* run by the verified matcher of
    Base/Regex.v.  The captured groups are computed by small extractors which replay what
    Python's backtracking engine does on these patterns: every group before a lazy value is
    forced (white space, digits and the literals are pairwise disjoint), and a lazy value group
    is the shortest prefix after which the rest of the pattern matches ([lazy_prefix]). *)
From CP Require Import Base.Prelude Base.Str Base.Regex Base.Cfg.
Open Scope Z_scope.

Inductive pdata :=
| PNote (tick idx sus : Z)
| PSP (tick sus : Z)
| PTev (tick : Z) (v : str)
| PBpm (tick : Z) (raw : str)
| PTs (tick up : Z) (lo : option Z)
| PAnchor (tick us : Z)
| PGlobal (k : kind) (tick : Z) (v : str).

Definition pd_tick (d : pdata) : Z :=
  match d with
  | PNote t _ _ | PSP t _ | PTev t _ | PBpm t _ | PTs t _ _ | PAnchor t _ | PGlobal _ t _ => t
  end.

Section WithCfg.
Variable c : cfg.
Notation T := (tbl c).

Definition all_ws (s : str) : bool := forallb (is_ws T) s.

(** Shortest prefix [v] of [u] (|v| >= min, every char allowed) whose remainder satisfies
    [rem_ok]: the value a lazy group captures. *)
Fixpoint lazy_prefix (okc : N -> bool) (min : nat) (rem_ok : str -> bool) (u : str)
  : option (str * str) :=
  match min with
  | O =>
      if rem_ok u then Some ([], u)
      else match u with
           | [] => None
           | x :: u' =>
               if okc x then
                 match lazy_prefix okc O rem_ok u' with
                 | Some (v, r) => Some (x :: v, r)
                 | None => None
                 end
               else None
           end
  | S min' =>
      match u with
      | [] => None
      | x :: u' =>
          if okc x then
            match lazy_prefix okc min' rem_ok u' with
            | Some (v, r) => Some (x :: v, r)
            | None => None
            end
          else None
      end
  end.

(** Common head of every body line: white space, the tick digits, then the rest. *)
Definition head_tick (line : str) : str * str :=
  span (is_digit T) (dropwhile (is_ws T) line).

Definition QUOTE : N := 34%N.
Definition SPACE : N := 32%N.

(** Remainder predicates. *)
Definition rem_ws (r : str) : bool := all_ws r.                       (* ws* end *)
Definition rem_quote_ws (r : str) : bool :=                           (* quote ws* end *)
  match r with q :: r' => N.eqb q QUOTE && all_ws r' | [] => false end.
Definition rem_optquote_ws (r : str) : bool :=                        (* quote? ws* end *)
  rem_quote_ws r || all_ws r.

Definition not_space (x : N) : bool := negb (N.eqb x SPACE).
Definition not_quote (x : N) : bool := negb (N.eqb x QUOTE).
Definition not_lf (x : N) : bool := negb (N.eqb x LF).

Definition value_or_nil (o : option (str * str)) : str :=
  match o with Some (v, _) => v | None => [] end.

(** The extractors are only ever applied to accepted lines; on other input their value is
    irrelevant (and never observed). *)
Definition extract (k : kind) (line : str) : result pdata :=
  let '(t, rest) := head_tick line in
  let* tick := py_int T t in
  match k with
  | KNote =>
      (* " = N " i " " digits *)
      let r := skipn 5 rest in
      let idx := match r with i :: _ => Z.of_N i - 48 | [] => 0 end in
      let '(l, _) := span (is_digit T) (skipn 2 r) in
      let* sus := py_int T l in
      if existsb (Z.eqb idx) (nti_values c) then Ok (PNote tick idx sus) else Err EValue
  | KSP =>
      (* " = S " literal " " digits *)
      let r := skipn (5 + length (sp_literal c) + 1) rest in
      let '(l, _) := span (is_digit T) r in
      let* sus := py_int T l in
      Ok (PSP tick sus)
  | KTev =>
      let r := skipn 5 rest in
      Ok (PTev tick (value_or_nil (lazy_prefix not_space 0 rem_ws r)))
  | KBpm =>
      let '(raw, _) := span (is_digit T) (skipn 5 rest) in
      Ok (PBpm tick raw)
  | KTs =>
      let '(u, r) := span (is_digit T) (skipn 6 rest) in
      let* up := py_int T u in
      match r with
      | sp :: r' =>
          let '(l, r'') := span (is_digit T) r' in
          if N.eqb sp SPACE && negb (Nat.eqb (length l) 0) && all_ws r'' then
            let* lo := py_int T l in Ok (PTs tick up (Some lo))
          else Ok (PTs tick up None)
      | [] => Ok (PTs tick up None)
      end
  | KAnchor =>
      let '(u, _) := span (is_digit T) (skipn 5 rest) in
      let* us := py_int T u in
      Ok (PAnchor tick us)
  | KText =>
      (* " = E " then a quote *)
      let r := skipn 6 rest in
      Ok (PGlobal KText tick (value_or_nil (lazy_prefix not_quote 0 rem_quote_ws r)))
  | KSection =>
      let r := skipn (6 + 8) rest in
      Ok (PGlobal KSection tick (value_or_nil (lazy_prefix not_lf 0 rem_quote_ws r)))
  | KLyric =>
      let r := skipn (6 + 6) rest in
      Ok (PGlobal KLyric tick (value_or_nil (lazy_prefix not_lf 0 rem_quote_ws r)))
  end.

(** [K.ParsedData.from_chart_line(line)]. *)
Definition dec (k : kind) (line : str) : result pdata :=
  if matchb T (re_of_kind c k) line then extract k line else Err ERegexNotMatch.

(** *** parse_data_from_chart_lines
    For each line try the kinds in order; RegexNotMatchError moves on to the next kind, any
    other exception escapes; no kind accepts => one warning and the line is skipped. *)
Inductive line_outcome :=
| Claimed (k : kind) (d : pdata)
| Unparsable (line : str).

Fixpoint try_kinds (order : list kind) (line : str) : result line_outcome :=
  match order with
  | [] => Ok (Unparsable line)
  | k :: ks =>
      match dec k line with
      | Ok d => Ok (Claimed k d)
      | Err ERegexNotMatch => try_kinds ks line
      | Err e => Err e
      end
  end.

Definition dispatch (order : list kind) (lines : list str) : result (list line_outcome) :=
  mapM (try_kinds order) lines.

Definition data_of (k : kind) (outs : list line_outcome) : list pdata :=
  flat_map (fun o => match o with
                     | Claimed k' d => if kind_eqb k k' then [d] else []
                     | Unparsable _ => []
                     end) outs.

Definition warnings_of (outs : list line_outcome) : list str :=
  flat_map (fun o => match o with Unparsable l => [l] | Claimed _ _ => [] end) outs.

(** *** Section header lines: [^\[(.+?)\]$] *)
Definition dec_header (line : str) : result str :=
  if matchb T (re_header c) line then
    (* shortest non-empty x whose remainder is a closing bracket then end (or LF end) *)
    match lazy_prefix not_lf 1
            (fun r => match r with
                      | b :: r' => N.eqb b 93%N &&
                                   match r' with [] => true | [n] => N.eqb n LF | _ => false end
                      | [] => false end)
            (tl line) with
    | Some (v, _) => Ok v
    | None => Err EUnmodelled
    end
  else Err ERegexNotMatch.

End WithCfg.
