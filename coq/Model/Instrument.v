(** Model/Instrument.v — chartparse/instrument.py: grouping of note lines by tick, lanes,
    sustains, HOPO state, the star-power cursor, special and track events, and
    [InstrumentTrack.from_chart_lines]. *)
From CP Require Import Base.Prelude Base.Str Base.Regex Base.Cfg Base.Float64 Base.Timedelta
  Model.Lines Model.Sync.
Open Scope Z_scope.

(** One parsed N line. *)
Record ndata := { nd_tick : Z; nd_idx : Z; nd_sus : Z }.

Definition ndata_of (d : pdata) : ndata :=
  match d with
  | PNote t i s => {| nd_tick := t; nd_idx := i; nd_sus := s |}
  | _ => {| nd_tick := 0; nd_idx := 0; nd_sus := 0 |}
  end.

(** *** Lanes: [Note.from_parsed_datas] — five bits; indices 5, 6, 7 hit the IndexError branch. *)
Fixpoint set_nth {A} (n : nat) (x : A) (l : list A) : list A :=
  match l, n with
  | [], _ => []
  | _ :: t, O => x :: t
  | h :: t, S n' => h :: set_nth n' x t
  end.

Definition no_lanes : list bool := [false; false; false; false; false].

Definition lanes_of (g : list ndata) : list bool :=
  fold_left (fun n d => if (0 <=? nd_idx d) && (nd_idx d <? 5)
                        then set_nth (Z.to_nat (nd_idx d)) true n else n) g no_lanes.

Definition lanes_eqb (a b : list bool) : bool := list_eqb Bool.eqb a b.
Definition lane_count (n : list bool) : Z := Zlength_ (filter (fun b => b) n).
Definition is_chord (n : list bool) : bool := 1 <? lane_count n.

(** *** Sustains *)
Inductive sustain :=
| SInt (n : Z)
| STuple (l : list (option Z)).      (* five slots *)

Definition IDX_OPEN : Z := 7.
Definition IDX_FORCED : Z := 5.
Definition IDX_TAP : Z := 6.

Definition no_sustains : list (option Z) := [None; None; None; None; None].

Definition is_5_note (i : Z) : bool := (0 <=? i) && (i <=? 4).

Definition opt_Z_eqb := option_eqb Z.eqb.

(** [_refined_sustain_tuple]. *)
Definition refined_sustain (l : list (option Z)) : sustain :=
  match flat_map (fun o => match o with Some v => [v] | None => [] end) l with
  | [] => SInt 0
  | s0 :: _ =>
      if forallb (fun o => match o with None => true | Some v => v =? s0 end) l
      then SInt s0 else STuple l
  end.

Definition lane_sustains (g : list ndata) : list (option Z) :=
  fold_left (fun l d => if is_5_note (nd_idx d)
                        then set_nth (Z.to_nat (nd_idx d)) (Some (nd_sus d)) l else l)
            g no_sustains.

(** [complex_sustain_from_parsed_datas] on the pinned tree: only [datas[0]] is tested for OPEN.
    Kept for the record [C03_refuted_pinned]; the model follows the repaired source below. *)
Definition complex_sustain_pinned (g : list ndata) : result sustain :=
  match g with
  | [] => Err EIndex
  | d0 :: _ =>
      if nd_idx d0 =? IDX_OPEN then Ok (SInt (nd_sus d0))
      else Ok (refined_sustain (lane_sustains g))
  end.

(** [complex_sustain_from_parsed_datas] (repaired): the first OPEN line of the tick, wherever
    it stands, gives the sustain; otherwise the lane lines do. *)
Definition complex_sustain (g : list ndata) : result sustain :=
  match find (fun d => nd_idx d =? IDX_OPEN) g with
  | Some d => Ok (SInt (nd_sus d))
  | None => Ok (refined_sustain (lane_sustains g))
  end.

(** [NoteEvent._longest_sustain]. *)
Definition longest_sustain (s : sustain) : result Z :=
  match s with
  | SInt n => Ok n
  | STuple l =>
      match flat_map (fun o => match o with Some v => [v] | None => [] end) l with
      | [] => Err EValue
      | v :: vs => Ok (fold_left Z.max vs v)
      end
  end.

(** *** HOPO state *)
Inductive hopo := STRUM | HOPO | TAP.

Definition hopo_eqb (a b : hopo) : bool :=
  match a, b with STRUM, STRUM | HOPO, HOPO | TAP, TAP => true | _, _ => false end.

(** [NoteEvent._compute_hopo_state(resolution, tick, note, is_tap, is_forced, previous)];
    [prev] carries the previous event's (tick, lanes). *)
Definition compute_hopo (c : cfg) (R tick : Z) (note : list bool) (is_tap is_forced : bool)
           (prev : option (Z * list bool)) : result hopo :=
  match prev with
  | None =>
      if is_forced then Err EValue
      else if is_tap then Ok TAP else Ok STRUM
  | Some (ptick, pnote) =>
      if is_tap then Ok TAP
      else
        let* boundary := note_duration_to_ticks R (eighth_triplet c) in
        let within := tick - ptick <=? boundary in
        let different := negb (lanes_eqb note pnote) in
        let should := within && different && negb (is_chord note) in
        Ok (if Bool.eqb should is_forced then STRUM else HOPO)
  end.

(** *** Special (star-power) events and the cursor *)
Record special_event := { sp_at : timed; sp_sus : Z }.

Definition sp_tick (e : special_event) : Z := t_tick (sp_at e).
Definition sp_end (e : special_event) : Z := tick_add (sp_tick e) (sp_sus e).
Definition tick_is_after (e : special_event) (tick : Z) : bool := sp_end e <=? tick.
Definition tick_is_during (e : special_event) (tick : Z) : bool :=
  (sp_tick e <=? tick) && negb (tick_is_after e tick).

(** The [for … break] scan: first index >= i whose phrase is not over at [tick], or the last. *)
Fixpoint sp_scan (l : list special_event) (i : Z) (tick : Z) : Z :=
  match l with
  | [] => i
  | e :: rest =>
      if negb (tick_is_after e tick) then i
      else match rest with [] => i | _ => sp_scan rest (i + 1) tick end
  end.

(** [NoteEvent._compute_star_power_data(tick, events, proximal_star_power_event_index=i)]
    -> (Some index | None, new cursor). *)
Definition compute_sp (sps : list special_event) (tick i : Z) : result (option Z * Z) :=
  match sps with
  | [] => Ok (None, 0)
  | _ =>
      if Zlength_ sps <=? i then Err EValue
      else if i <? 0 then Err EUnmodelled
      else
        let j := sp_scan (skipn (Z.to_nat i) sps) i tick in
        match nth_Z sps j with
        | None => Err EIndex
        | Some cand => if tick_is_during cand tick then Ok (Some j, j) else Ok (None, j)
        end
  end.

(** *** Note events *)
Record note_event := {
  n_at : timed;
  n_end_ts : Z;
  n_note : list bool;
  n_sustain : sustain;
  n_hopo : hopo;
  n_sp : option Z          (* star_power_data.star_power_event_index *)
}.

Definition n_tick (e : note_event) : Z := t_tick (n_at e).

(** [NoteEvent.from_parsed_data(datas, prev, sps, bpm_events, hint, cursor)]
    -> (event, new hint, new cursor), in source evaluation order. *)
Definition note_from_group (c : cfg) (B : bpm_events) (sps : list special_event)
           (g : list ndata) (prev : option note_event) (hint cursor : Z)
  : result (note_event * Z * Z) :=
  match g with
  | [] => Err EIndex
  | d0 :: _ =>
      let tick := nd_tick d0 in
      let note := lanes_of g in
      let* sus := complex_sustain g in
      let is_tap := existsb (fun d => nd_idx d =? IDX_TAP) g in
      let is_forced := existsb (fun d => nd_idx d =? IDX_FORCED) g in
      let* (ts, idx) := timestamp_at_tick B tick hint in
      let* h := compute_hopo c (resolution B) tick note is_tap is_forced
                  (match prev with Some p => Some (n_tick p, n_note p) | None => None end) in
      let* (spd, cursor') := compute_sp sps tick cursor in
      let* longest := longest_sustain sus in
      let end_tick := tick_add tick longest in
      let* (end_ts, _) := timestamp_at_tick B end_tick idx in
      Ok ({| n_at := {| t_tick := tick; t_ts := ts; t_idx := idx |};
             n_end_ts := end_ts; n_note := note; n_sustain := sus; n_hopo := h; n_sp := spd |},
          idx, cursor')
  end.

(** Contiguous runs of equal tick ([_build_note_events_from_data]'s inner while loop). *)
Fixpoint group_by_tick (l : list ndata) : list (list ndata) :=
  match l with
  | [] => []
  | d :: rest =>
      match group_by_tick rest with
      | (d' :: g) :: gs => if nd_tick d' =? nd_tick d then (d :: d' :: g) :: gs
                           else [d] :: (d' :: g) :: gs
      | gs => [d] :: gs
      end
  end.

Fixpoint build_notes (c : cfg) (B : bpm_events) (sps : list special_event)
         (groups : list (list ndata)) (prev : option note_event) (hint cursor : Z)
  : result (list note_event) :=
  match groups with
  | [] => Ok []
  | g :: gs =>
      let* (e, hint', cursor') := note_from_group c B sps g prev hint cursor in
      let* es := build_notes c B sps gs (Some e) hint' cursor' in
      Ok (e :: es)
  end.

(** *** Track events *)
Record track_event := { te_at : timed; te_value : str }.

Record itrack := {
  it_instr : str;        (* Instrument member value, e.g. "Single" *)
  it_diff : str;         (* Difficulty member value, e.g. "Expert" *)
  it_notes : list note_event;
  it_sps : list special_event;
  it_tevs : list track_event
}.

Definition sp_sus_of (d : pdata) : Z := match d with PSP _ s => s | _ => 0 end.
Definition tev_val_of (d : pdata) : str := match d with PTev _ v => v | _ => [] end.

(** [InstrumentTrack.from_chart_lines(instrument, difficulty, lines, bpm_events)]. *)
Definition itrack_from_lines (c : cfg) (instr diff : str) (lines : list str) (B : bpm_events)
  : result (itrack * list str) :=
  let* outs := dispatch c (order_instr c) lines in
  let note_data := map ndata_of (data_of KNote outs) in
  let sp_data := data_of KSP outs in
  let tev_data := data_of KTev outs in
  let* sp_tm := build_timed B (map pd_tick sp_data) None in
  let sps := map (fun '(tm, d) => {| sp_at := tm; sp_sus := sp_sus_of d |}) (combine sp_tm sp_data) in
  let* tev_tm := build_timed B (map pd_tick tev_data) None in
  let tevs := map (fun '(tm, d) => {| te_at := tm; te_value := tev_val_of d |}) (combine tev_tm tev_data) in
  let* notes := build_notes c B sps (group_by_tick note_data) None 0 0 in
  Ok ({| it_instr := instr; it_diff := diff; it_notes := notes; it_sps := sps; it_tevs := tevs |},
      warnings_of outs).

(** [InstrumentTrack.last_note_end_timestamp]: Python's [max(..., key=)] keeps the first maximum;
    only the timestamp is returned. *)
Definition last_note_end (tr : itrack) : option Z :=
  match it_notes tr with
  | [] => None
  | e :: es => Some (fold_left Z.max (map n_end_ts es) (n_end_ts e))
  end.
