(** Model/Sync.v — chartparse/tick.py, chartparse/time.py and chartparse/sync.py:
    tick arithmetic, [seconds_from_ticks_at_bpm], the tempo list with accumulated timestamps,
    the tick-to-time query with its start hint, time-signature and anchor events, and
    [SyncTrack.from_chart_lines]. *)
From CP Require Import Base.Prelude Base.Str Base.Regex Base.Cfg Base.Float64 Base.Timedelta
  Model.Lines.
Open Scope Z_scope.

(** *** tick.py *)
Definition tick_between (a b : Z) : Z := Z.abs (a - b).
Definition tick_add (a b : Z) : Z := a + b.

(** [seconds_from_ticks_at_bpm(ticks, bpm, resolution)] — the four float operations in source
    order.  [ticks] and [resolution] are ints, [bpm] a float. *)
Definition seconds (ticks : Z) (bpm : f64) (R : Z) : result f64 :=
  if ticks <? 0 then Err EValue
  else if f_le bpm fzero then Err EValue
  else if R <=? 0 then Err EValue
  else
    let* tpm := py_mul_float_int bpm R in          (* bpm * resolution *)
    let* tps := py_div_float_int tpm 60 in         (* ticks_per_minute / 60 *)
    let* spt := py_div_int_float 1 tps in          (* 1 / ticks_per_second *)
    py_mul_int_float ticks spt.                    (* ticks * seconds_per_tick *)

(** [note_duration_to_ticks(resolution, d)] = round(resolution / d.value) for an int value. *)
Definition note_duration_to_ticks (R dv : Z) : result Z :=
  let* q := py_truediv_int R dv in py_round_int q.

(** *** time.py: [add(ts, seconds : float)] *)
Definition time_add_seconds (ts : Z) (s : f64) : result Z :=
  let* d := td_of_seconds s in td_add ts d.

(** *** BPMEvent *)
Record bpm_event := {
  b_tick : Z;
  b_ts : Z;          (* microseconds *)
  b_bpm : f64;
  b_idx : Z          (* _proximal_bpm_event_index *)
}.

(** Decoding of the raw BPM numeral (thousandths of a BPM).
    [decode_bpm_pinned] is what the pinned tree computes ([whole + last3/1000], two roundings);
    [decode_bpm] is the repaired source ([int(raw)/1000], one correctly-rounded division).
    The model follows the repaired source; the pinned version survives for [C08_refuted]. *)
Definition decode_bpm_pinned (T : tables) (raw : str) : result f64 :=
  let whole_s := drop_last_n 3 raw in
  let dec_s := take_last_n 3 raw in
  let* whole := match whole_s with [] => Ok 0 | _ => py_int T whole_s end in
  let* dec := py_int T dec_s in
  let* decf := py_truediv_int dec 1000 in
  let* wf := py_float_of_int whole in
  Ok (fadd wf decf).

Definition decode_bpm (T : tables) (raw : str) : result f64 :=
  let* n := py_int T raw in py_truediv_int n 1000.

(** [BPMEvent.__post_init__]: round(bpm, 3) != bpm -> ValueError. *)
Definition check_bpm_3dp (b : f64) : result unit :=
  let* r := py_round3 b in
  if f_eq r b then Ok tt else Err EValue.

(** [BPMEvent.from_parsed_data(data, prev_event, resolution)]. *)
Definition bpm_from_data (T : tables) (tick : Z) (raw : str) (prev : option bpm_event) (R : Z)
  : result bpm_event :=
  let* bpm := decode_bpm T raw in
  let* (ts, idx) :=
    match prev with
    | None => Ok (0, 0)
    | Some p =>
        if tick <=? b_tick p then Err EValue
        else
          let dt := tick_between (b_tick p) tick in
          let* s := seconds dt (b_bpm p) R in
          let* d := td_of_seconds s in
          let* ts := td_add (b_ts p) d in
          Ok (ts, b_idx p + 1)
    end in
  let* _ := check_bpm_3dp bpm in
  Ok {| b_tick := tick; b_ts := ts; b_bpm := bpm; b_idx := idx |}.

Fixpoint build_bpm_list (T : tables) (datas : list (Z * str)) (prev : option bpm_event) (R : Z)
  : result (list bpm_event) :=
  match datas with
  | [] => Ok []
  | (tick, raw) :: ds =>
      let* e := bpm_from_data T tick raw prev R in
      let* es := build_bpm_list T ds (Some e) R in
      Ok (e :: es)
  end.

(** [BPMEvents]: the events wrapped with the resolution; [__post_init__] validation. *)
Record bpm_events := { evs : list bpm_event; resolution : Z }.

Definition mk_bpm_events (es : list bpm_event) (R : Z) : result bpm_events :=
  if R <=? 0 then Err EValue
  else match es with
       | [] => Err EValue
       | e0 :: _ => if b_tick e0 =? 0 then Ok {| evs := es; resolution := R |} else Err EValue
       end.

Definition build_bpm_events (T : tables) (datas : list (Z * str)) (R : Z) : result bpm_events :=
  let* es := build_bpm_list T datas None R in mk_bpm_events es R.

(** *** The query.  [_index_of_proximal_event(tick, start_iteration_index=h)]:
    the two start checks, then a forward scan. *)
Fixpoint scan_from (l : list bpm_event) (idx : Z) (tick : Z) : Z :=
  (* [l] = events from position idx on (non-empty) *)
  match l with
  | [] => idx
  | _ :: rest =>
      match rest with
      | [] => idx                                    (* last event: proximal by definition *)
      | nxt :: _ => if tick <? b_tick nxt then idx else scan_from rest (idx + 1) tick
      end
  end.

Definition index_of_proximal (es : list bpm_event) (tick h : Z) : result Z :=
  if h <? 0 then Err EUnmodelled                     (* negative hints are not modelled *)
  else
    let last := Zlength_ es - 1 in
    if last <? h then Err EValue
    else match skipn (Z.to_nat h) es with
         | [] => Err EIndex                          (* unreachable: h <= last *)
         | (first :: _) as l =>
             if tick <? b_tick first then Err EValue
             else Ok (scan_from l h tick)
         end.

(** [timestamp_at_tick(tick, start_iteration_index=h)] -> (timestamp, index). *)
Definition timestamp_at_tick (B : bpm_events) (tick h : Z) : result (Z * Z) :=
  let* idx := index_of_proximal (evs B) tick h in
  match nth_Z (evs B) idx with
  | None => Err EIndex
  | Some p =>
      let dt := tick_between (b_tick p) tick in
      let* s := seconds dt (b_bpm p) (resolution B) in
      let* ts := time_add_seconds (b_ts p) s in
      Ok (ts, idx)
  end.

Definition timestamp_at_tick_no_optimize_return (B : bpm_events) (tick : Z) : result Z :=
  let* (ts, _) := timestamp_at_tick B tick 0 in Ok ts.

(** *** Events that need the tempo map.  [build_events_from_data] for TimeSignatureEvent,
    StarPowerEvent, TrackEvent, Text/Section/LyricEvent: a fold which hands the previous
    event's stored index on as the next start hint. *)
Record timed := { t_tick : Z; t_ts : Z; t_idx : Z }.

Definition timed_from (B : bpm_events) (tick : Z) (prev : option timed) : result timed :=
  let h := match prev with Some p => t_idx p | None => 0 end in
  let* (ts, idx) := timestamp_at_tick B tick h in
  Ok {| t_tick := tick; t_ts := ts; t_idx := idx |}.

Fixpoint build_timed (B : bpm_events) (ticks : list Z) (prev : option timed) : result (list timed) :=
  match ticks with
  | [] => Ok []
  | t :: ts =>
      let* e := timed_from B t prev in
      let* es := build_timed B ts (Some e) in
      Ok (e :: es)
  end.

Record ts_event := { ts_at : timed; ts_upper : Z; ts_lower : Z }.
Record anchor_event := { a_tick : Z; a_ts : Z }.

Record sync_track := {
  st_ts : list ts_event;
  st_bpm : bpm_events;
  st_anchor : list anchor_event
}.

Definition ts_payload (c : cfg) (d : pdata) : Z * Z :=
  match d with
  | PTs _ up (Some lo) => (up, 2 ^ lo)
  | PTs _ up None => (up, default_lower c)
  | _ => (0, 0)
  end.

Definition bpm_payload (d : pdata) : Z * str :=
  match d with PBpm t raw => (t, raw) | _ => (0, []) end.

Definition anchor_from (d : pdata) : result anchor_event :=
  match d with
  | PAnchor t us => let* ts := td_of_us us in Ok {| a_tick := t; a_ts := ts |}
  | _ => Err EUnreachable
  end.

(** [SyncTrack.from_chart_lines(resolution, lines)] incl. [SyncTrack.__post_init__]. *)
Definition sync_from_lines (c : cfg) (R : Z) (lines : list str)
  : result (sync_track * list str) :=
  let* outs := dispatch c (order_sync c) lines in
  let ts_data := data_of KTs outs in
  let bpm_data := data_of KBpm outs in
  let anchor_data := data_of KAnchor outs in
  let* B := build_bpm_events (tbl c) (map bpm_payload bpm_data) R in
  let* tms := build_timed B (map pd_tick ts_data) None in
  let tss := map (fun '(tm, d) => let '(u, l) := ts_payload c d in
                                  {| ts_at := tm; ts_upper := u; ts_lower := l |})
                 (combine tms ts_data) in
  let* anchors := mapM anchor_from anchor_data in
  match tss with
  | [] => Err EValue
  | t0 :: _ =>
      if t_tick (ts_at t0) =? 0
      then Ok ({| st_ts := tss; st_bpm := B; st_anchor := anchors |}, warnings_of outs)
      else Err EValue
  end.
