(** Model/Chart.v — chartparse/globalevents.py, chartparse/metadata.py and chartparse/chart.py:
    global events, metadata, the section framer, routing, [Chart.from_file],
    [Chart.from_filepath] (after UTF-8 decoding) and [Chart.notes_per_second]. *)
From CP Require Import Base.Prelude Base.Str Base.Regex Base.Cfg Base.Float64 Base.Timedelta
  Model.Lines Model.Sync Model.Instrument.
Open Scope Z_scope.

(** *** globalevents.py *)
Record global_event := { ge_at : timed; ge_value : str }.

Record global_events_track := {
  g_text : list global_event;
  g_section : list global_event;
  g_lyric : list global_event
}.

Definition gval_of (d : pdata) : str := match d with PGlobal _ _ v => v | _ => [] end.

Definition build_globals (B : bpm_events) (ds : list pdata) : result (list global_event) :=
  let* tms := build_timed B (map pd_tick ds) None in
  Ok (map (fun '(tm, d) => {| ge_at := tm; ge_value := gval_of d |}) (combine tms ds)).

(** [GlobalEventsTrack.from_chart_lines(lines, bpm_events)]: text, then section, then lyric. *)
Definition globals_from_lines (c : cfg) (lines : list str) (B : bpm_events)
  : result (global_events_track * list str) :=
  let* outs := dispatch c (order_events c) lines in
  let* tx := build_globals B (data_of KText outs) in
  let* se := build_globals B (data_of KSection outs) in
  let* ly := build_globals B (data_of KLyric outs) in
  Ok ({| g_text := tx; g_section := se; g_lyric := ly |}, warnings_of outs).

(** *** metadata.py *)
Definition metadata := list (str * meta_val).     (* attribute name -> value, in field order *)

Section Meta.
Variable c : cfg.
Notation T := (tbl c).

Definition meta_value_ok (k : meta_kind) : N -> bool :=
  match k with
  | MInt => is_digit T
  | MStr => not_lf
  | MPlayer2 => not_quote
  end.

(** The text captured by group 1 of a field regex on an accepted line: after the (forced)
    leading white space, the field name and " = ", Python first tries to consume an opening
    quote (a greedy optional quote) and, if the rest of the pattern cannot match then, retries without. *)
Definition meta_capture (f : meta_field) (line : str) : option str :=
  let rest := skipn (length (mf_pascal f) + 3) (dropwhile (is_ws T) line) in
  let try u := lazy_prefix (meta_value_ok (mf_kind f)) 1 (rem_optquote_ws c) u in
  match rest with
  | q :: rest' =>
      if N.eqb q QUOTE then
        match try rest' with
        | Some (v, _) => Some v
        | None => match try rest with Some (v, _) => Some v | None => None end
        end
      else match try rest with Some (v, _) => Some v | None => None end
  | [] => None
  end.

Definition meta_process (f : meta_field) (v : str) : result meta_val :=
  match mf_kind f with
  | MInt => let* z := py_int T v in Ok (MVInt z)
  | MStr => Ok (MVStr v)
  | MPlayer2 => if existsb (str_eqb v) (player2_values c) then Ok (MVEnum v) else Err EValue
  end.

(** [parse_all_lines_for_field]: first accepting line wins. *)
Fixpoint meta_find (f : meta_field) (lines : list str) : option str :=
  match lines with
  | [] => None
  | l :: ls => if matchb T (mf_re f) l then Some l else meta_find f ls
  end.

Definition meta_field_value (f : meta_field) (lines : list str) : result meta_val :=
  match meta_find f lines with
  | Some l =>
      match meta_capture f l with
      | Some v => meta_process f v
      | None => Err EUnmodelled
      end
  | None => if mf_required f then Err EMissingRequiredField else Ok (mf_default f)
  end.

(** [Metadata.from_chart_lines]: the fields are looked up in source order; the first
    exception escapes. *)
Fixpoint meta_parse_fields (fs : list meta_field) (lines : list str) : result metadata :=
  match fs with
  | [] => Ok []
  | f :: fs' =>
      let* v := meta_field_value f lines in
      let* rest := meta_parse_fields fs' lines in
      Ok ((mf_name f, v) :: rest)
  end.

Definition meta_parse (lines : list str) : result metadata :=
  meta_parse_fields (meta_fields c) lines.

End Meta.

Fixpoint assoc {A} (k : str) (l : list (str * A)) : option A :=
  match l with
  | [] => None
  | (k', v) :: l' => if str_eqb k k' then Some v else assoc k l'
  end.

Definition RESOLUTION : str := of_string "resolution"%string.

Definition meta_resolution (m : metadata) : result Z :=
  match assoc RESOLUTION m with
  | Some (MVInt r) => Ok r
  | _ => Err EAttribute
  end.

(** *** chart.py: the section framer [_partition_lines_by_data_section] *)

(** Python dict assignment on an insertion-ordered association list. *)
Fixpoint dict_set {A} (k : str) (v : A) (d : list (str * A)) : list (str * A) :=
  match d with
  | [] => [(k, v)]
  | (k', v') :: d' => if str_eqb k k' then (k, v) :: d' else (k', v') :: dict_set k v d'
  end.

Definition OPEN_BRACE : str := [123%N].
Definition CLOSE_BRACE : str := [125%N].

Record pstate := {
  ps_tag : option str;
  ps_first : option nat;
  ps_dict : list (str * list str)
}.

(** [itertools.islice(lines, first, i)] over a list. *)
Definition islice {A} (l : list A) (first : option nat) (stop : nat) : list A :=
  let a := match first with Some f => f | None => O end in
  firstn (stop - a) (skipn a l).

Definition pstep (c : cfg) (all : list str) (st : pstate) (i : nat) (line : str) : result pstate :=
  match ps_tag st with
  | None =>
      let* tag := dec_header c line in
      Ok {| ps_tag := Some tag; ps_first := ps_first st; ps_dict := ps_dict st |}
  | Some tag =>
      if str_eqb line OPEN_BRACE then
        Ok {| ps_tag := Some tag; ps_first := Some (S i); ps_dict := ps_dict st |}
      else if str_eqb line CLOSE_BRACE then
        Ok {| ps_tag := None; ps_first := None;
              ps_dict := dict_set tag (islice all (ps_first st) i) (ps_dict st) |}
      else Ok st
  end.

Fixpoint ploop (c : cfg) (all : list str) (st : pstate) (i : nat) (rest : list str) : result pstate :=
  match rest with
  | [] => Ok st
  | l :: rest' => let* st' := pstep c all st i l in ploop c all st' (S i) rest'
  end.

Definition partition (c : cfg) (lines : list str) : result (list (str * list str)) :=
  let* st := ploop c lines {| ps_tag := None; ps_first := None; ps_dict := [] |} O lines in
  Ok (ps_dict st).

(** *** Routing *)
Inductive log :=
| LUnparsable (line : str)      (* logger chartparse.track *)
| LUnhandled (tag : str)        (* logger chartparse.chart *)
| LOther (msg : str).           (* any other record: never produced by the model *)

Record chart := {
  c_meta : metadata;
  c_gev : global_events_track;
  c_sync : sync_track;
  c_tracks : list (str * list (str * itrack))      (* instrument -> difficulty -> track *)
}.

(** [{d.value + i.value: (i, d) for i, d in itertools.product(Instrument, Difficulty)}]:
    a dict comprehension, so for a duplicated key the last pair wins. *)
Definition header_pairs (c : cfg) : list (str * (str * str)) :=
  flat_map (fun i => map (fun d => (d ++ i, (i, d))) (diff_values c)) (instr_values c).

Definition header_lookup (c : cfg) (tag : str) : option (str * str) :=
  assoc tag (rev (header_pairs c)).

Definition pair_eqb (a b : str * str) : bool := str_eqb (fst a) (fst b) && str_eqb (snd a) (snd b).

Definition wanted (want : option (list (str * str))) (p : str * str) : bool :=
  match want with None => true | Some l => existsb (pair_eqb p) l end.

Definition tracks_set (i d : str) (tr : itrack) (m : list (str * list (str * itrack)))
  : list (str * list (str * itrack)) :=
  let inner := match assoc i m with Some x => x | None => [] end in
  dict_set i (dict_set d tr inner) m.

Definition mem_str (k : str) (l : list str) : bool := existsb (str_eqb k) l.

Fixpoint route (c : cfg) (B : bpm_events) (want : option (list (str * str)))
         (secs : list (str * list str)) (acc : list (str * list (str * itrack))) (logs : list log)
  : result (list (str * list (str * itrack)) * list log) :=
  match secs with
  | [] => Ok (acc, logs)
  | (tag, body) :: secs' =>
      match header_lookup c tag with
      | Some (i, d) =>
          if wanted want (i, d) then
            let* (tr, ws) := itrack_from_lines c i d body B in
            route c B want secs' (tracks_set i d tr acc) (logs ++ map LUnparsable ws)
          else route c B want secs' acc logs
      | None =>
          if mem_str tag (required_tags c) then route c B want secs' acc logs
          else route c B want secs' acc (logs ++ [LUnhandled tag])
      end
  end.

Definition sec_lookup (tag : str) (secs : list (str * list str)) : result (list str) :=
  match assoc tag secs with Some b => Ok b | None => Err EKey end.

(** [Chart.from_file(fp, want_tracks)] on the text [fp.read()] returns. *)
Definition from_file (c : cfg) (text : str) (want : option (list (str * str)))
  : result (chart * list log) :=
  let lines := splitlines (tbl c) text in
  let* secs := partition c lines in
  if negb (forallb (fun t => match assoc t secs with Some _ => true | None => false end)
                   (required_tags c))
  then Err EValue
  else
    let* song := sec_lookup (tag_song c) secs in
    let* meta := meta_parse c song in
    let* R := meta_resolution meta in
    let* sync_lines := sec_lookup (tag_sync c) secs in
    let* (sync, w1) := sync_from_lines c R sync_lines in
    let* ev_lines := sec_lookup (tag_events c) secs in
    let* (gev, w2) := globals_from_lines c ev_lines (st_bpm sync) in
    let* (tracks, logs) :=
      route c (st_bpm sync) want secs [] (map LUnparsable w1 ++ map LUnparsable w2) in
    Ok ({| c_meta := meta; c_gev := gev; c_sync := sync; c_tracks := tracks |}, logs).

(** [Chart.from_filepath]: the code points the utf-8-sig codec and the universal-newline
    layer hand to [from_file]. *)
Definition from_filepath (c : cfg) (decoded : str) (want : option (list (str * str)))
  : result (chart * list log) :=
  from_file c (universal_nl (strip_bom decoded)) want.

(** *** notes_per_second *)
Inductive bound := BNone | BTick (t : Z) | BTime (us : Z).

Definition track_lookup (ch : chart) (i d : str) : option itrack :=
  match assoc i (c_tracks ch) with
  | Some inner => assoc d inner
  | None => None
  end.

Definition nps_core (notes : list note_event) (a b : Z) : result f64 :=
  let n := Zlength_ (filter (fun e => (a <=? t_ts (n_at e)) && (t_ts (n_at e) <=? b)) notes) in
  let* d := td_sub b a in
  let* secs := total_seconds d in
  if f_le secs fzero then Err EValue
  else py_div_int_float n secs.

Definition notes_per_second (ch : chart) (i d : str) (s e : bound) : result f64 :=
  match track_lookup ch i d with
  | None => Err EValue
  | Some tr =>
      match it_notes tr, last_note_end tr with
      | [], _ => Err EValue
      | _, None => Err EAssertion
      | _, Some last =>
          let B := st_bpm (c_sync ch) in
          match s with
          | BTime a =>
              match e with
              | BTick _ => Err EAssertion
              | BTime b => nps_core (it_notes tr) a b
              | BNone => nps_core (it_notes tr) a last
              end
          | _ =>
              match e with
              | BTime _ => Err EAssertion
              | _ =>
                  let* a := match s with
                            | BTick t => timestamp_at_tick_no_optimize_return B t
                            | _ => Ok 0 end in
                  let* b := match e with
                            | BTick t => timestamp_at_tick_no_optimize_return B t
                            | _ => Ok last end in
                  nps_core (it_notes tr) a b
              end
          end
      end
  end.
