(** Model/ChartBytes.v — [Chart.from_filepath] from the BYTES of the file: the utf-8-sig codec, the
    universal-newline layer, then [from_file]. *)
From CP Require Import Base.Prelude Base.Str Base.Regex Base.Cfg Base.Utf8 Model.Chart.

Definition from_filepath_bytes (c : cfg) (bytes : list N) (want : option (list (str * str)))
  : result (chart * list log) :=
  let* s := utf8_sig_decode bytes in from_file c (universal_nl s) want.
