(** Proofs/RegexShapes.v — reusable inversion / introduction lemmas for the languages of the
    reference regular expressions of Spec/RefRegex.v, facts about [span] / [dropwhile] /
    [lazy_prefix] / [horner] / [py_int], and the consequences of [tables_ok].

    Conventions.  "all of [l] satisfies the boolean predicate [p]" is always written
    [Forall (fun x => p x = true) l]; [head_fails p l] says that [l] is empty or its first
    element does not satisfy [p].  Every [Lang_seq_*] lemma is stated for [seq (x :: l)] with an
    arbitrary (possibly empty) tail [l]: [seq [x] = x] and [seq [] = Eps] are handled inside. *)
From CP Require Import Base.Prelude Base.Str Base.Regex Base.Cfg Model.Lines Spec.RefRegex.
From Coq Require Import Lia.
Open Scope Z_scope.

(** * Lists: span, dropwhile, takewhile, trailing runs *)
Section ListFacts.
Context {A : Type}.
Variable p : A -> bool.

Definition head_fails (l : list A) : Prop :=
  match l with [] => True | x :: _ => p x = false end.

Lemma head_fails_nil : head_fails [].
Proof. exact I. Qed.

Lemma head_fails_cons x l : p x = false -> head_fails (x :: l).
Proof. intro H; exact H. Qed.

Lemma forallb_Forall l : forallb p l = true <-> Forall (fun x => p x = true) l.
Proof.
  induction l as [|x l IH]; cbn [forallb].
  - split; [constructor | reflexivity].
  - rewrite andb_true_iff, IH. split.
    + intros [H1 H2]; constructor; assumption.
    + intro H; inversion H; subst; auto.
Qed.

Lemma forallb_false_in l x : In x l -> p x = false -> forallb p l = false.
Proof.
  intros Hin Hx. destruct (forallb p l) eqn:E; [|reflexivity].
  rewrite forallb_forall in E. rewrite (E x Hin) in Hx. discriminate.
Qed.

Lemma span_app a b :
  Forall (fun x => p x = true) a -> head_fails b -> span p (a ++ b) = (a, b).
Proof.
  intros Ha Hb. induction Ha as [|x a Hx Ha IH]; cbn [app span].
  - destruct b as [|y b]; [reflexivity|]. cbn [span]. cbn in Hb. rewrite Hb. reflexivity.
  - rewrite Hx, IH. reflexivity.
Qed.

Lemma span_all a : Forall (fun x => p x = true) a -> span p a = (a, []).
Proof. intro H. rewrite <- (app_nil_r a) at 1. apply span_app; [exact H | exact I]. Qed.

Lemma span_head_fails l : head_fails l -> span p l = ([], l).
Proof. intro H. apply (span_app [] l); [constructor | exact H]. Qed.

Lemma span_spec l a b :
  span p l = (a, b) -> l = a ++ b /\ Forall (fun x => p x = true) a /\ head_fails b.
Proof.
  revert a b. induction l as [|x l IH]; intros a b; cbn [span].
  - intro H; inversion H; subst. repeat split; constructor.
  - destruct (p x) eqn:Hx.
    + destruct (span p l) as [a' b'] eqn:E. intro H; inversion H; subst.
      destruct (IH a' b eq_refl) as (-> & Ha & Hb).
      repeat split; [constructor; assumption | exact Hb].
    + intro H; inversion H; subst. repeat split; [constructor | exact Hx].
Qed.

Lemma span_unique a b a' b' :
  Forall (fun x => p x = true) a -> head_fails b ->
  Forall (fun x => p x = true) a' -> head_fails b' ->
  a ++ b = a' ++ b' -> a = a' /\ b = b'.
Proof.
  intros Ha Hb Ha' Hb' E.
  pose proof (span_app a b Ha Hb) as H1. pose proof (span_app a' b' Ha' Hb') as H2.
  rewrite E in H1. rewrite H1 in H2. inversion H2; auto.
Qed.

Lemma dropwhile_app a b :
  Forall (fun x => p x = true) a -> head_fails b -> dropwhile p (a ++ b) = b.
Proof. intros Ha Hb. unfold dropwhile. rewrite span_app by assumption. reflexivity. Qed.

Lemma takewhile_app a b :
  Forall (fun x => p x = true) a -> head_fails b -> takewhile p (a ++ b) = a.
Proof. intros Ha Hb. unfold takewhile. rewrite span_app by assumption. reflexivity. Qed.

Lemma dropwhile_all a : Forall (fun x => p x = true) a -> dropwhile p a = [].
Proof. intro H. unfold dropwhile. rewrite span_all by assumption. reflexivity. Qed.

Lemma dropwhile_head_fails l : head_fails l -> dropwhile p l = l.
Proof. intro H. unfold dropwhile. rewrite span_head_fails by assumption. reflexivity. Qed.

(** Every list is a part not ending in a [p]-element followed by a run of [p]-elements. *)
Definition last_fails (l : list A) : Prop :=
  l = [] \/ exists l' x, l = l' ++ [x] /\ p x = false.

Lemma split_trailing l :
  exists a b, l = a ++ b /\ last_fails a /\ Forall (fun x => p x = true) b.
Proof.
  induction l as [|x l IH].
  - exists [], []. repeat split; [left; reflexivity | constructor].
  - destruct IH as (a & b & -> & Ha & Hb).
    destruct a as [|y a'].
    + destruct (p x) eqn:Hx.
      * exists [], (x :: b). repeat split; [left; reflexivity | constructor; assumption].
      * exists [x], b. repeat split; [|exact Hb]. right. exists [], x. auto.
    + exists (x :: y :: a'), b. repeat split; [|exact Hb].
      right. destruct Ha as [Ha | (l' & z & E & Hz)]; [discriminate|].
      exists (x :: l'), z. rewrite E. auto.
Qed.

Lemma rstrip_app a b :
  last_fails a -> Forall (fun x => p x = true) b -> rstrip p (a ++ b) = a.
Proof.
  intros Ha Hb. unfold rstrip. rewrite rev_app_distr.
  rewrite dropwhile_app.
  - apply rev_involutive.
  - apply Forall_rev; exact Hb.
  - destruct Ha as [-> | (l' & x & -> & Hx)]; [exact I|].
    rewrite rev_app_distr. exact Hx.
Qed.

Lemma Forall_app_inv (P : A -> Prop) a b : Forall P (a ++ b) -> Forall P a /\ Forall P b.
Proof. apply Forall_app. Qed.

End ListFacts.

Lemma Forall_iff {A} (P Q : A -> Prop) l :
  (forall x, P x <-> Q x) -> (Forall P l <-> Forall Q l).
Proof. intro H. split; apply Forall_impl; intro x; apply H. Qed.

Lemma app_cons_assoc {A} (a : list A) x b : a ++ x :: b = (a ++ [x]) ++ b.
Proof. rewrite <- app_assoc. reflexivity. Qed.

(** * Character-class membership *)
Lemma in_range_iff c lo hi : in_range c (lo, hi) = true <-> (lo <= c <= hi)%N.
Proof. unfold in_range; cbn [fst snd]. rewrite andb_true_iff, !N.leb_le. tauto. Qed.

Lemma in_ranges_iff rs c :
  in_ranges rs c = true <-> exists r, In r rs /\ (fst r <= c <= snd r)%N.
Proof.
  unfold in_ranges. rewrite existsb_exists. split; intros (r & Hin & H); exists r; split; auto.
  - destruct r; apply in_range_iff in H; exact H.
  - destruct r; apply in_range_iff; exact H.
Qed.

Lemma in_ranges_one lo hi c : in_ranges [(lo, hi)] c = true <-> (lo <= c <= hi)%N.
Proof.
  unfold in_ranges; cbn [existsb]. rewrite orb_false_r. apply in_range_iff.
Qed.

Lemma in_ranges_single c x : in_ranges [(c, c)] x = N.eqb x c.
Proof.
  destruct (N.eqb_spec x c) as [->|Hne].
  - apply in_ranges_one. lia.
  - destruct (in_ranges [(c, c)] x) eqn:E; [|reflexivity].
    apply in_ranges_one in E. lia.
Qed.

Lemma cls_mem_lit T c x : cls_mem T (KSet false [(c, c)]) x = N.eqb x c.
Proof. cbn [cls_mem]. rewrite in_ranges_single. destruct (x =? c)%N; reflexivity. Qed.

Lemma cls_mem_any_but T c x : cls_mem T (KSet true [(c, c)]) x = negb (N.eqb x c).
Proof. cbn [cls_mem]. rewrite in_ranges_single. destruct (x =? c)%N; reflexivity. Qed.

Lemma cls_mem_range T lo hi x :
  cls_mem T (KSet false [(lo, hi)]) x = true <-> (lo <= x <= hi)%N.
Proof. cbn [cls_mem]. rewrite xorb_false_l. apply in_ranges_one. Qed.

Lemma cls_mem_dot T x : cls_mem T KDot x = true <-> x <> LF.
Proof.
  cbn [cls_mem]. destruct (N.eqb_spec x LF); cbn [negb]; split; intro H; congruence.
Qed.

(** * Languages *)
Section LangShapes.
Variable T : tables.
Notation L := (Lang T).

Lemma seq_cons2 x y l : seq (x :: y :: l) = Cat x (seq (y :: l)).
Proof. reflexivity. Qed.

Lemma seq_cons_ne x l : l <> [] -> seq (x :: l) = Cat x (seq l).
Proof. destruct l; [congruence | reflexivity]. Qed.

(** The work-horse: valid for every tail, empty or not. *)
Lemma Lang_seq_cons x l w :
  L (seq (x :: l)) w <-> exists a b, w = a ++ b /\ L x a /\ L (seq l) b.
Proof.
  destruct l as [|y l].
  - cbn [seq]. split.
    + intro H. exists w, []. rewrite app_nil_r. repeat split; [exact H | constructor].
    + intros (a & b & -> & Ha & Hb). inversion Hb; subst. rewrite app_nil_r. exact Ha.
  - rewrite seq_cons2. apply Lang_Cat.
Qed.

Lemma Lang_seq_nil w : L (seq []) w <-> w = [].
Proof. apply Lang_Eps. Qed.

Lemma Lang_seq_one x w : L (seq [x]) w <-> L x w.
Proof. reflexivity. Qed.

Lemma Lang_seq_app l1 l2 w :
  L (seq (l1 ++ l2)) w <-> exists a b, w = a ++ b /\ L (seq l1) a /\ L (seq l2) b.
Proof.
  revert w. induction l1 as [|x l1 IH]; intro w.
  - cbn [app]. split.
    + intro H. exists [], w. repeat split; [constructor | exact H].
    + intros (a & b & -> & Ha & Hb). apply Lang_seq_nil in Ha; subst. exact Hb.
  - cbn [app]. rewrite Lang_seq_cons. split.
    + intros (a0 & b0 & -> & Ha & Hb). apply IH in Hb as (a1 & b1 & -> & H1 & H2).
      exists (a0 ++ a1), b1. rewrite app_assoc. repeat split; [|exact H2].
      apply Lang_seq_cons. exists a0, a1. auto.
    + intros (a & b & -> & Ha & Hb). apply Lang_seq_cons in Ha as (a0 & a1 & -> & H0 & H1).
      exists a0, (a1 ++ b). rewrite app_assoc. repeat split; [exact H0|].
      apply IH. exists a1, b. auto.
Qed.

(** ** Single characters and literals *)
Lemma Lang_lit1 c w : L (lit1 c) w <-> w = [c].
Proof.
  unfold lit1. rewrite Lang_Chr. split.
  - intros (x & -> & H). rewrite cls_mem_lit in H. apply N.eqb_eq in H. subst; reflexivity.
  - intros ->. exists c. split; [reflexivity|]. rewrite cls_mem_lit. apply N.eqb_refl.
Qed.

Lemma Lang_range lo hi w :
  L (Chr (KSet false [(lo, hi)])) w <-> exists x, w = [x] /\ (lo <= x <= hi)%N.
Proof.
  rewrite Lang_Chr. split; intros (x & -> & H); exists x; (split; [reflexivity|]).
  - apply (proj1 (cls_mem_range T lo hi x)); exact H.
  - apply (proj2 (cls_mem_range T lo hi x)); exact H.
Qed.

Lemma Lang_any_but1 c w : L (any_but c) w <-> exists x, w = [x] /\ x <> c.
Proof.
  unfold any_but. rewrite Lang_Chr. split; intros (x & -> & H); exists x; (split; [reflexivity|]).
  - rewrite cls_mem_any_but in H. destruct (N.eqb_spec x c); [discriminate | assumption].
  - rewrite cls_mem_any_but. destruct (N.eqb_spec x c); [contradiction | reflexivity].
Qed.

Lemma Lang_lits s w : L (seq (lits s)) w <-> w = s.
Proof.
  revert w. induction s as [|c s IH]; intro w.
  - apply Lang_seq_nil.
  - change (lits (c :: s)) with (lit1 c :: lits s). rewrite Lang_seq_cons. split.
    + intros (a & b & -> & Ha & Hb). apply Lang_lit1 in Ha. apply IH in Hb. subst. reflexivity.
    + intros ->. exists [c], s. repeat split; [apply Lang_lit1; reflexivity | apply IH; reflexivity].
Qed.

Lemma Lang_seq_lits s rest w :
  L (seq (lits s ++ rest)) w <-> exists w', w = s ++ w' /\ L (seq rest) w'.
Proof.
  rewrite Lang_seq_app. split.
  - intros (a & b & -> & Ha & Hb). apply Lang_lits in Ha; subst. eauto.
  - intros (w' & -> & H). exists s, w'. repeat split; [apply Lang_lits; reflexivity | exact H].
Qed.

Lemma Lang_seq_Ls s rest w :
  L (seq (Ls s ++ rest)) w <-> exists w', w = of_string s ++ w' /\ L (seq rest) w'.
Proof. apply Lang_seq_lits. Qed.

Lemma Lang_seq_lit1 c l w : L (seq (lit1 c :: l)) w <-> exists b, w = c :: b /\ L (seq l) b.
Proof.
  rewrite Lang_seq_cons. split.
  - intros (a & b & -> & Ha & Hb). apply Lang_lit1 in Ha; subst. exists b. split; [reflexivity | exact Hb].
  - intros (b & -> & H). exists [c], b. repeat split; [apply Lang_lit1; reflexivity | exact H].
Qed.

Lemma Lang_seq_range lo hi l w :
  L (seq (Chr (KSet false [(lo, hi)]) :: l)) w <->
  exists x b, w = x :: b /\ (lo <= x <= hi)%N /\ L (seq l) b.
Proof.
  rewrite Lang_seq_cons. split.
  - intros (a & b & -> & Ha & Hb). apply Lang_range in Ha as (x & -> & Hx). exists x, b. auto.
  - intros (x & b & -> & Hx & H). exists [x], b. repeat split; [|exact H].
    apply Lang_range. eauto.
Qed.

(** ** Star / plus of a character class *)
Lemma Lang_plus r w : L (plus r) w <-> exists a b, w = a ++ b /\ L r a /\ L (Star r) b.
Proof. unfold plus. apply Lang_Cat. Qed.

Lemma Lang_plus_cls k w :
  L (plus (Chr k)) w <-> w <> [] /\ Forall (fun c => cls_mem T k c = true) w.
Proof.
  rewrite Lang_plus. split.
  - intros (a & b & -> & Ha & Hb). apply Lang_Chr in Ha as (c & -> & Hc).
    apply Lang_Star_cls in Hb. split; [discriminate | constructor; assumption].
  - intros [Hne H]. destruct w as [|c w]; [congruence|]. inversion H; subst.
    exists [c], w. repeat split; [constructor; assumption | apply Lang_Star_cls; assumption].
Qed.

Lemma Lang_Star_ws w : L (Star ws) w <-> Forall (fun c => is_ws T c = true) w.
Proof. apply Lang_Star_cls. Qed.

Lemma Lang_Star_dg w : L (Star dg) w <-> Forall (fun c => is_digit T c = true) w.
Proof. apply Lang_Star_cls. Qed.

Lemma Lang_plus_dg w : L (plus dg) w <-> w <> [] /\ Forall (fun c => is_digit T c = true) w.
Proof. apply Lang_plus_cls. Qed.

Lemma Lang_Star_any_but c w : L (Star (any_but c)) w <-> Forall (fun x => x <> c) w.
Proof.
  unfold any_but. rewrite Lang_Star_cls. apply Forall_iff. intro x.
  rewrite cls_mem_any_but. destruct (N.eqb_spec x c); cbn [negb]; split; intro H; congruence.
Qed.

Lemma Lang_plus_any_but c w : L (plus (any_but c)) w <-> w <> [] /\ Forall (fun x => x <> c) w.
Proof.
  unfold any_but. rewrite Lang_plus_cls.
  rewrite (Forall_iff (fun x => cls_mem T (KSet true [(c, c)]) x = true) (fun x => x <> c)); [reflexivity|].
  intro x. rewrite cls_mem_any_but. destruct (N.eqb_spec x c); cbn [negb]; split; intro H; congruence.
Qed.

Lemma Lang_Star_dot w : L (Star (Chr KDot)) w <-> Forall (fun x => x <> LF) w.
Proof. rewrite Lang_Star_cls. apply Forall_iff. intro x. apply cls_mem_dot. Qed.

Lemma Lang_plus_dot w : L (plus (Chr KDot)) w <-> w <> [] /\ Forall (fun x => x <> LF) w.
Proof.
  rewrite Lang_plus_cls.
  rewrite (Forall_iff (fun x => cls_mem T KDot x = true) (fun x => x <> LF)); [reflexivity|].
  intro x. apply cls_mem_dot.
Qed.

Lemma Lang_seq_star_cls k l w :
  L (seq (Star (Chr k) :: l)) w <->
  exists a b, w = a ++ b /\ Forall (fun c => cls_mem T k c = true) a /\ L (seq l) b.
Proof.
  rewrite Lang_seq_cons. split; intros (a & b & -> & Ha & Hb); exists a, b;
    (repeat split; [apply Lang_Star_cls; exact Ha | exact Hb]).
Qed.

Lemma Lang_seq_plus_cls k l w :
  L (seq (plus (Chr k) :: l)) w <->
  exists a b, w = a ++ b /\ a <> [] /\ Forall (fun c => cls_mem T k c = true) a /\ L (seq l) b.
Proof.
  rewrite Lang_seq_cons. split.
  - intros (a & b & -> & Ha & Hb). apply Lang_plus_cls in Ha as [H1 H2]. exists a, b. auto.
  - intros (a & b & -> & H1 & H2 & Hb). exists a, b. repeat split; [|exact Hb].
    apply Lang_plus_cls. auto.
Qed.

Lemma Lang_seq_star_ws l w :
  L (seq (Star ws :: l)) w <->
  exists a b, w = a ++ b /\ Forall (fun c => is_ws T c = true) a /\ L (seq l) b.
Proof. apply Lang_seq_star_cls. Qed.

Lemma Lang_seq_plus_dg l w :
  L (seq (plus dg :: l)) w <->
  exists a b, w = a ++ b /\ a <> [] /\ Forall (fun c => is_digit T c = true) a /\ L (seq l) b.
Proof. apply Lang_seq_plus_cls. Qed.

Lemma Lang_seq_star_any_but c l w :
  L (seq (Star (any_but c) :: l)) w <->
  exists a b, w = a ++ b /\ Forall (fun x => x <> c) a /\ L (seq l) b.
Proof.
  rewrite Lang_seq_cons. split; intros (a & b & -> & Ha & Hb); exists a, b;
    (repeat split; [apply Lang_Star_any_but; exact Ha | exact Hb]).
Qed.

Lemma Lang_seq_star_dot l w :
  L (seq (Star (Chr KDot) :: l)) w <->
  exists a b, w = a ++ b /\ Forall (fun x => x <> LF) a /\ L (seq l) b.
Proof.
  rewrite Lang_seq_cons. split; intros (a & b & -> & Ha & Hb); exists a, b;
    (repeat split; [apply Lang_Star_dot; exact Ha | exact Hb]).
Qed.

(** ** opt, eol and the common tails *)
Lemma Lang_opt r w : L (opt r) w <-> w = [] \/ L r w.
Proof. unfold opt. rewrite Lang_Alt, Lang_Eps. reflexivity. Qed.

Lemma Lang_seq_opt r l w :
  L (seq (opt r :: l)) w <-> L (seq l) w \/ exists a b, w = a ++ b /\ L r a /\ L (seq l) b.
Proof.
  rewrite Lang_seq_cons. split.
  - intros (a & b & -> & Ha & Hb). apply Lang_opt in Ha as [-> | Ha]; [left; exact Hb|].
    right. exists a, b. auto.
  - intros [H | (a & b & -> & Ha & Hb)].
    + exists [], w. repeat split; [apply Lang_opt; left; reflexivity | exact H].
    + exists a, b. repeat split; [apply Lang_opt; right; exact Ha | exact Hb].
Qed.

Lemma Lang_eol w : L eol w <-> w = [] \/ w = [LF].
Proof. unfold eol. rewrite Lang_Alt, Lang_Eps, Lang_lit1. reflexivity. Qed.

(** [\s*$]: LF being white space, the final optional LF is absorbed. *)
Lemma Lang_ws_eol w :
  is_ws T LF = true ->
  (L (seq [Star ws; eol]) w <-> Forall (fun c => is_ws T c = true) w).
Proof.
  intro HLF. rewrite Lang_seq_star_ws. split.
  - intros (a & b & -> & Ha & Hb). cbn [seq] in Hb. apply Lang_eol in Hb as [-> | ->].
    + rewrite app_nil_r. exact Ha.
    + apply Forall_app. split; [exact Ha | constructor; [exact HLF | constructor]].
  - intro H. exists w, []. rewrite app_nil_r. repeat split; [exact H|].
    cbn [seq]. apply Lang_eol. left; reflexivity.
Qed.

(** [\d+$] (anchor lines): digits then an optional final LF. *)
Lemma Lang_plus_dg_eol w :
  L (seq [plus dg; eol]) w <->
  exists d e, w = d ++ e /\ d <> [] /\ Forall (fun c => is_digit T c = true) d /\ (e = [] \/ e = [LF]).
Proof.
  rewrite Lang_seq_plus_dg. split.
  - intros (a & b & -> & H1 & H2 & Hb). cbn [seq] in Hb. apply Lang_eol in Hb. exists a, b. auto.
  - intros (d & e & -> & H1 & H2 & He). exists d, e. repeat split; auto. cbn [seq]. apply Lang_eol; exact He.
Qed.

(** ** The common head [^\s*(\d+)] *)
Lemma Lang_head l w :
  L (seq (head ++ l)) w <->
  exists p t r, w = p ++ t ++ r /\ Forall (fun c => is_ws T c = true) p /\
                t <> [] /\ Forall (fun c => is_digit T c = true) t /\ L (seq l) r.
Proof.
  unfold head. cbn [app]. rewrite Lang_seq_star_ws. split.
  - intros (p & b & -> & Hp & Hb). apply Lang_seq_plus_dg in Hb as (t & r & -> & H1 & H2 & Hr).
    exists p, t, r. auto.
  - intros (p & t & r & -> & Hp & H1 & H2 & Hr). exists p, (t ++ r). repeat split; [exact Hp|].
    apply Lang_seq_plus_dg. exists t, r. auto.
Qed.

(** [head ++ Ls lit ++ rest]: the shape shared by all nine body-line recognisers. *)
Lemma Lang_head_lit lit l w :
  L (seq (head ++ Ls lit ++ l)) w <->
  exists p t r, w = p ++ t ++ of_string lit ++ r /\ Forall (fun c => is_ws T c = true) p /\
                t <> [] /\ Forall (fun c => is_digit T c = true) t /\ L (seq l) r.
Proof.
  rewrite Lang_head. split.
  - intros (p & t & r & -> & Hp & H1 & H2 & Hr). apply Lang_seq_Ls in Hr as (r' & -> & Hr).
    exists p, t, r'. auto.
  - intros (p & t & r & -> & Hp & H1 & H2 & Hr). exists p, t, (of_string lit ++ r).
    repeat split; auto. apply Lang_seq_Ls. eauto.
Qed.

End LangShapes.

(** * Consequences of [tables_ok] *)
Lemma In_nat_range a n c :
  (N.of_nat a <= c < N.of_nat (a + n))%N -> In c (nat_range a n).
Proof.
  intro H. unfold nat_range. rewrite <- (N2Nat.id c). apply in_map. apply in_seq. lia.
Qed.

Lemma digit_val_in_Some rs c v : digit_val_in rs c = Some v -> in_ranges rs c = true.
Proof.
  induction rs as [|r rs IH]; cbn [digit_val_in]; [discriminate|].
  unfold in_ranges; cbn [existsb]. destruct (in_range c r); [reflexivity|]. exact IH.
Qed.

Lemma digit_val_in_range rs c v : digit_val_in rs c = Some v -> 0 <= v < 10.
Proof.
  induction rs as [|r rs IH]; cbn [digit_val_in]; [discriminate|].
  destruct (in_range c r); [|exact IH]. intro H; inversion H; subst.
  assert (Hm : ((c - fst r) mod 10 < 10)%N) by (apply N.mod_upper_bound; discriminate).
  set (m := ((c - fst r) mod 10)%N) in *. lia.
Qed.

Lemma digit_val_in_total rs c : in_ranges rs c = true -> exists v, digit_val_in rs c = Some v.
Proof.
  induction rs as [|r rs IH]; unfold in_ranges; cbn [existsb digit_val_in]; [discriminate|].
  destruct (in_range c r); [eauto | exact IH].
Qed.

Section Tables.
Variable T : tables.
Hypothesis HT : tables_ok T = true.

Lemma tables_ok_inv :
  (forall w d, In w (ws_ranges T) -> In d (digit_ranges T) -> (snd w < fst d \/ snd d < fst w)%N) /\
  is_ws T 32%N = true /\ is_ws T 10%N = true /\
  (forall c, In c (nat_range 33 15 ++ nat_range 58 69) -> is_ws T c = false /\ is_digit T c = false) /\
  (forall i, (i < 10)%nat -> digit_val T (48 + N.of_nat i)%N = Some (Z.of_nat i)) /\
  is_break T 10%N = true /\ is_break T 13%N = true /\
  (forall c, In c (nat_range 32 95) -> is_break T c = false).
Proof.
  pose proof HT as H. unfold tables_ok in H.
  rewrite !andb_true_iff in H. destruct H as [[[[[[[H1 H2] H3] H4] H5] H6] H7] H8].
  split; [|split; [exact H2|split; [exact H3|split; [|split; [|split; [exact H6|split; [exact H7|]]]]]]].
  - intros w d Hw Hd. rewrite forallb_forall in H1. specialize (H1 w Hw). rewrite forallb_forall in H1.
    specialize (H1 d Hd). apply orb_true_iff in H1. rewrite !N.ltb_lt in H1. exact H1.
  - intros c Hc. rewrite forallb_forall in H4. specialize (H4 c Hc). apply andb_true_iff in H4 as [Ha Hb].
    apply negb_true_iff in Ha, Hb. auto.
  - intros i Hi. rewrite forallb_forall in H5. specialize (H5 i).
    assert (Hin : In i (List.seq 0 10)) by (apply in_seq; lia). specialize (H5 Hin).
    destruct (digit_val T (48 + N.of_nat i)%N) as [v|]; [|discriminate].
    apply Z.eqb_eq in H5. congruence.
  - intros c Hc. rewrite forallb_forall in H8. specialize (H8 c Hc). apply negb_true_iff in H8. exact H8.
Qed.

Lemma ws_blank : is_ws T 32%N = true.
Proof. apply tables_ok_inv. Qed.

Lemma ws_LF : is_ws T LF = true.
Proof. apply tables_ok_inv. Qed.

Lemma ws_not_digit c : is_ws T c = true -> is_digit T c = false.
Proof.
  intro Hw. destruct (is_digit T c) eqn:Hd; [|reflexivity]. exfalso.
  destruct tables_ok_inv as (Hdis & _).
  apply in_ranges_iff in Hw as (w & Hw & Hwc). apply in_ranges_iff in Hd as (d & Hd & Hdc).
  specialize (Hdis w d Hw Hd). lia.
Qed.

Lemma digit_not_ws c : is_digit T c = true -> is_ws T c = false.
Proof.
  intro Hd. destruct (is_ws T c) eqn:Hw; [|reflexivity].
  apply ws_not_digit in Hw. congruence.
Qed.

Lemma blank_not_digit : is_digit T 32%N = false.
Proof. apply ws_not_digit, ws_blank. Qed.

Lemma LF_not_digit : is_digit T LF = false.
Proof. apply ws_not_digit, ws_LF. Qed.

(** Printable ASCII other than blank and 0-9: ! .. / (33-47) and : .. ~ (58-126); in particular
    '=' (61), the quote (34), '[' (91), ']' (93) and all letters. *)
Lemma ascii_plain c :
  (33 <= c <= 47 \/ 58 <= c <= 126)%N -> is_ws T c = false /\ is_digit T c = false.
Proof.
  intro H. destruct tables_ok_inv as (_ & _ & _ & Hp & _). apply Hp.
  apply in_or_app. destruct H as [H|H]; [left | right]; apply In_nat_range; lia.
Qed.

Lemma ascii_not_ws c : (33 <= c <= 47 \/ 58 <= c <= 126)%N -> is_ws T c = false.
Proof. intro H. apply ascii_plain; exact H. Qed.

Lemma ascii_not_digit c : (33 <= c <= 47 \/ 58 <= c <= 126)%N -> is_digit T c = false.
Proof. intro H. apply ascii_plain; exact H. Qed.

Lemma digit_val_ascii i : (i < 10)%nat -> digit_val T (48 + N.of_nat i)%N = Some (Z.of_nat i).
Proof. apply tables_ok_inv. Qed.

Lemma digit_val_asciiN c : (48 <= c <= 57)%N -> digit_val T c = Some (Z.of_N c - 48).
Proof.
  intro H. replace c with (48 + N.of_nat (N.to_nat (c - 48)))%N at 1 by lia.
  rewrite digit_val_ascii by lia. f_equal. lia.
Qed.

Lemma ascii_digit_is_digit c : (48 <= c <= 57)%N -> is_digit T c = true.
Proof.
  intro H. pose proof (digit_val_asciiN c H) as Hv. unfold digit_val in Hv.
  apply digit_val_in_Some in Hv. exact Hv.
Qed.

Lemma ascii_digit_not_ws c : (48 <= c <= 57)%N -> is_ws T c = false.
Proof. intro H. apply digit_not_ws, ascii_digit_is_digit, H. Qed.

Lemma break_LF : is_break T LF = true.
Proof. apply tables_ok_inv. Qed.

Lemma break_CR : is_break T CR = true.
Proof. apply tables_ok_inv. Qed.

Lemma printable_not_break c : (32 <= c <= 126)%N -> is_break T c = false.
Proof.
  intro H. destruct tables_ok_inv as (_ & _ & _ & _ & _ & _ & _ & Hb). apply Hb.
  apply In_nat_range. lia.
Qed.

(** [head_fails] instances used when running the extractors over a shape. *)
Lemma hf_ws_of_digits t r :
  t <> [] -> Forall (fun c => is_digit T c = true) t -> head_fails (is_ws T) (t ++ r).
Proof.
  intros Hne H. destruct t as [|x t]; [congruence|]. inversion H; subst.
  cbn. apply digit_not_ws; assumption.
Qed.

Lemma hf_digit_of_ws p : Forall (fun c => is_ws T c = true) p -> head_fails (is_digit T) p.
Proof. intro H. destruct p as [|x p]; [exact I|]. inversion H; subst. cbn. apply ws_not_digit; assumption. Qed.

Lemma hf_digit_blank r : head_fails (is_digit T) (32%N :: r).
Proof. exact blank_not_digit. Qed.

Lemma hf_digit_eol e : e = [] \/ e = [LF] -> head_fails (is_digit T) e.
Proof. intros [-> | ->]; [exact I | exact LF_not_digit]. Qed.

(** [span digit (dropwhile ws (p ++ t ++ r)) = (t, r)]: what [head_tick] computes. *)
Lemma head_span p t r :
  Forall (fun c => is_ws T c = true) p -> t <> [] -> Forall (fun c => is_digit T c = true) t ->
  head_fails (is_digit T) r ->
  span (is_digit T) (dropwhile (is_ws T) (p ++ t ++ r)) = (t, r).
Proof.
  intros Hp Hne Ht Hr. rewrite dropwhile_app; [| exact Hp | apply hf_ws_of_digits; assumption].
  apply span_app; assumption.
Qed.

(** The decomposition [p ++ t ++ r] of a line is unique. *)
Lemma head_unique p t r p' t' r' :
  Forall (fun c => is_ws T c = true) p -> t <> [] -> Forall (fun c => is_digit T c = true) t ->
  head_fails (is_digit T) r ->
  Forall (fun c => is_ws T c = true) p' -> t' <> [] -> Forall (fun c => is_digit T c = true) t' ->
  head_fails (is_digit T) r' ->
  p ++ t ++ r = p' ++ t' ++ r' -> p = p' /\ t = t' /\ r = r'.
Proof.
  intros Hp Hne Ht Hr Hp' Hne' Ht' Hr' E.
  destruct (span_unique (is_ws T) p (t ++ r) p' (t' ++ r')) as [E1 E2]; auto using hf_ws_of_digits.
  destruct (span_unique (is_digit T) t r t' r') as [E3 E4]; auto.
Qed.

End Tables.

(** [head_tick] of Model/Lines.v on a line of the common shape. *)
Lemma head_tick_shape c p t r :
  tables_ok (tbl c) = true ->
  Forall (fun x => is_ws (tbl c) x = true) p -> t <> [] ->
  Forall (fun x => is_digit (tbl c) x = true) t -> head_fails (is_digit (tbl c)) r ->
  head_tick c (p ++ t ++ r) = (t, r).
Proof. intros. unfold head_tick. apply head_span; assumption. Qed.

(** * horner and py_int *)
Section Horner.
Variable T : tables.

Lemma horner_app a b acc : horner T (a ++ b) acc = horner T b (horner T a acc).
Proof. revert acc. induction a as [|x a IH]; intro acc; cbn [app horner]; [reflexivity | apply IH]. Qed.

Lemma horner_nil acc : horner T [] acc = acc.
Proof. reflexivity. Qed.

Lemma horner_cons x s acc :
  horner T (x :: s) acc = horner T s (acc * 10 + match digit_val T x with Some d => d | None => 0 end).
Proof. reflexivity. Qed.

Lemma digit_val_range x v : digit_val T x = Some v -> 0 <= v < 10.
Proof. apply digit_val_in_range. Qed.

Lemma digit_val_total x : is_digit T x = true -> exists v, digit_val T x = Some v /\ 0 <= v < 10.
Proof.
  intro H. destruct (digit_val_in_total _ _ H) as [v Hv]. exists v. split; [exact Hv|].
  eapply digit_val_range; exact Hv.
Qed.

Lemma horner_nonneg s acc : 0 <= acc -> 0 <= horner T s acc.
Proof.
  revert acc. induction s as [|x s IH]; intros acc H; cbn [horner]; [exact H|].
  apply IH. destruct (digit_val T x) as [v|] eqn:E; [|lia].
  apply digit_val_range in E. lia.
Qed.

Lemma horner_mono s acc acc' : acc <= acc' -> horner T s acc <= horner T s acc'.
Proof.
  revert acc acc'. induction s as [|x s IH]; intros acc acc' H; cbn [horner]; [exact H|].
  apply IH. lia.
Qed.

(** Linear in the accumulator: [horner s acc = acc * 10^|s| + horner s 0]. *)
Lemma horner_acc s acc : horner T s acc = acc * 10 ^ Z.of_nat (length s) + horner T s 0.
Proof.
  revert acc. induction s as [|x s IH]; intro acc.
  - cbn [horner length]. change (10 ^ Z.of_nat 0) with 1. lia.
  - cbn [horner]. rewrite IH. rewrite (IH (0 * 10 + _)).
    cbn [length]. rewrite Nat2Z.inj_succ, Z.pow_succ_r by lia. ring.
Qed.

Lemma py_int_short s : (length s <= max_str_digits)%nat -> py_int T s = Ok (horner T s 0).
Proof.
  intro H. unfold py_int. destruct (Nat.ltb max_str_digits (length s)) eqn:E; [|reflexivity].
  apply Nat.ltb_lt in E. lia.
Qed.

Lemma py_int_long s : (max_str_digits < length s)%nat -> py_int T s = Err EValue.
Proof. intro H. unfold py_int. apply Nat.ltb_lt in H. rewrite H. reflexivity. Qed.

Lemma py_int_ok s v : py_int T s = Ok v -> v = horner T s 0 /\ (length s <= max_str_digits)%nat.
Proof.
  unfold py_int. destruct (Nat.ltb max_str_digits (length s)) eqn:E; [discriminate|].
  intro H; inversion H. split; [reflexivity|]. apply Nat.ltb_ge in E. exact E.
Qed.

End Horner.

(** For ASCII digits [horner] is the usual positional value. *)
Lemma horner_ascii T (HT : tables_ok T = true) (ds : list nat) acc :
  Forall (fun d => (d < 10)%nat) ds ->
  horner T (map (fun d => N.of_nat (48 + d)) ds) acc =
  fold_left (fun a d => a * 10 + Z.of_nat d) ds acc.
Proof.
  intro H. revert acc. induction H as [|d ds Hd _ IH]; intro acc; cbn [map horner fold_left]; [reflexivity|].
  rewrite Nat2N.inj_add. change (N.of_nat 48) with 48%N.
  rewrite (digit_val_ascii T HT d Hd). apply IH.
Qed.

(** * lazy_prefix *)
Section LazyPrefix.
Variable okc : N -> bool.
Variable rem_ok : str -> bool.

(** Soundness: what a [Some] answer means. *)
Lemma lazy_prefix_sound min u v r :
  lazy_prefix okc min rem_ok u = Some (v, r) ->
  u = v ++ r /\ Forall (fun x => okc x = true) v /\ rem_ok r = true /\ (min <= length v)%nat.
Proof.
  revert min v r. induction u as [|x u IH]; intros min v r.
  - destruct min; cbn [lazy_prefix]; [|discriminate].
    destruct (rem_ok []) eqn:E; [|discriminate]. intro H; inversion H; subst.
    repeat split; [constructor | exact E | cbn; lia].
  - destruct min as [|m]; cbn [lazy_prefix].
    + destruct (rem_ok (x :: u)) eqn:E.
      * intro H; inversion H; subst. repeat split; [constructor | exact E | cbn; lia].
      * destruct (okc x) eqn:Hx; [|discriminate].
        destruct (lazy_prefix okc 0 rem_ok u) as [[v' r']|] eqn:E'; [|discriminate].
        intro H; inversion H; subst. destruct (IH 0%nat v' r E') as (-> & Hv & Hr & _).
        repeat split; [constructor; assumption | exact Hr | cbn; lia].
    + destruct (okc x) eqn:Hx; [|discriminate].
      destruct (lazy_prefix okc m rem_ok u) as [[v' r']|] eqn:E'; [|discriminate].
      intro H; inversion H; subst. destruct (IH m v' r E') as (-> & Hv & Hr & Hm).
      repeat split; [constructor; assumption | exact Hr | cbn; lia].
Qed.

(** Introduction: [v] is returned when it is allowed, long enough, its remainder is fine and no
    shorter admissible prefix has a fine remainder. *)
Lemma lazy_prefix_intro min v r :
  Forall (fun x => okc x = true) v -> (min <= length v)%nat -> rem_ok r = true ->
  (forall v1 v2, v = v1 ++ v2 -> v2 <> [] -> (min <= length v1)%nat -> rem_ok (v2 ++ r) = false) ->
  lazy_prefix okc min rem_ok (v ++ r) = Some (v, r).
Proof.
  intro Hv. revert min. induction Hv as [|x v Hx Hv IH]; intros min Hmin Hr Hshort.
  - cbn [length] in Hmin. assert (min = 0)%nat by lia. subst min. cbn [app].
    destruct r as [|y r]; cbn [lazy_prefix]; rewrite Hr; reflexivity.
  - cbn [app]. destruct min as [|m]; cbn [lazy_prefix].
    + pose proof (Hshort [] (x :: v) eq_refl ltac:(discriminate) ltac:(cbn; lia)) as Hs.
      cbn [app] in Hs. rewrite Hs.
      rewrite Hx. rewrite (IH 0%nat); [reflexivity | lia | exact Hr |].
      intros v1 v2 -> Hne _. apply (Hshort (x :: v1) v2 eq_refl Hne). lia.
    + rewrite Hx. rewrite (IH m); [reflexivity | cbn [length] in Hmin; lia | exact Hr |].
      intros v1 v2 -> Hne Hm. apply (Hshort (x :: v1) v2 eq_refl Hne). cbn [length]. lia.
Qed.

Lemma lazy_prefix0_intro v r :
  Forall (fun x => okc x = true) v -> rem_ok r = true ->
  (forall v1 v2, v = v1 ++ v2 -> v2 <> [] -> rem_ok (v2 ++ r) = false) ->
  lazy_prefix okc 0 rem_ok (v ++ r) = Some (v, r).
Proof.
  intros Hv Hr Hs. apply lazy_prefix_intro; [exact Hv | lia | exact Hr |].
  intros v1 v2 E Hne _. exact (Hs v1 v2 E Hne).
Qed.

End LazyPrefix.

(** * all_ws and the remainder predicates of Model/Lines.v *)
Section Rem.
Variable c : cfg.
Notation T := (tbl c).

Lemma all_ws_iff s : all_ws c s = true <-> Forall (fun x => is_ws T x = true) s.
Proof. apply forallb_Forall. Qed.

Lemma all_ws_app a b : all_ws c (a ++ b) = all_ws c a && all_ws c b.
Proof. apply forallb_app. Qed.

Lemma all_ws_false_in s x : In x s -> is_ws T x = false -> all_ws c s = false.
Proof. apply forallb_false_in. Qed.

Lemma rem_ws_iff s : rem_ws c s = true <-> Forall (fun x => is_ws T x = true) s.
Proof. apply all_ws_iff. Qed.

Lemma rem_quote_ws_iff s :
  rem_quote_ws c s = true <-> exists r, s = QUOTE :: r /\ Forall (fun x => is_ws T x = true) r.
Proof.
  destruct s as [|q r]; cbn [rem_quote_ws].
  - split; [discriminate | intros (r & E & _); discriminate].
  - rewrite andb_true_iff, N.eqb_eq, all_ws_iff. split.
    + intros [-> H]. eauto.
    + intros (r' & E & H). inversion E; subst. auto.
Qed.

End Rem.

(** * The decidable configuration side conditions, unpacked *)
Lemma cfg_ok_instr_inv c :
  cfg_ok_instr c = true ->
  tables_ok (tbl c) = true /\ re_note c = ref_note /\ re_sp c = ref_sp /\ re_tev c = ref_tev /\
  sp_literal c = [50%N] /\
  (forall i, 0 <= i < 8 -> existsb (Z.eqb i) (nti_values c) = true).
Proof.
  unfold cfg_ok_instr, items_ok, instr_items. cbn [forallb snd].
  rewrite !andb_true_iff, !re_eqb_eq, str_eqb_eq.
  intros (H1 & H2 & H3 & H4 & H5 & H6 & _). repeat split; try assumption.
  destruct H6 as (G0 & G1 & G2 & G3 & G4 & G5 & G6 & G7 & _).
  intros i Hi.
  assert (i = 0 \/ i = 1 \/ i = 2 \/ i = 3 \/ i = 4 \/ i = 5 \/ i = 6 \/ i = 7) as Hc by lia.
  destruct Hc as [->|[->|[->|[->|[->|[->|[->| ->]]]]]]]; assumption.
Qed.

Lemma cfg_ok_sync_inv c :
  cfg_ok_sync c = true ->
  tables_ok (tbl c) = true /\ re_bpm c = ref_bpm /\ re_ts c = ref_ts /\ re_anchor c = ref_anchor /\
  default_lower c = 4.
Proof.
  unfold cfg_ok_sync, items_ok, sync_items. cbn [forallb snd].
  rewrite !andb_true_iff, !re_eqb_eq, Z.eqb_eq.
  intros (H1 & H2 & H3 & H4 & H5 & _). auto.
Qed.

Lemma cfg_ok_events_inv c :
  cfg_ok_events c = true ->
  tables_ok (tbl c) = true /\ re_text c = ref_text /\ re_section c = ref_section /\
  re_lyric c = ref_lyric /\
  (order_events c = [KLyric; KSection; KText] \/ order_events c = [KSection; KLyric; KText]).
Proof.
  unfold cfg_ok_events, items_ok, events_items. cbn [forallb snd].
  rewrite !andb_true_iff, !re_eqb_eq, orb_true_iff, !(list_eqb_eq kind_eqb kind_eqb_eq).
  intros (H1 & H2 & H3 & H4 & H5 & _). auto.
Qed.

Lemma cfg_ok_meta_inv c :
  cfg_ok_meta c = true ->
  tables_ok (tbl c) = true /\
  (forall f, In f (meta_fields c) ->
     mf_re f = ref_meta (mf_pascal f) (mf_kind f) /\ mf_pascal f <> [] /\
     Forall (fun ch => is_ws (tbl c) ch = false /\ ch <> 32%N) (mf_pascal f)) /\
  nodup_str (map mf_pascal (meta_fields c)) = true /\
  nodup_str (map mf_name (meta_fields c)) = true /\
  player2_values c = [of_string "bass"; of_string "rhythm"].
Proof.
  unfold cfg_ok_meta, items_ok, meta_items. cbn [forallb snd].
  rewrite !andb_true_iff, (list_eqb_eq str_eqb str_eqb_eq).
  intros (H1 & H2 & H3 & H4 & H5 & _). repeat split; try assumption.
  - rewrite forallb_forall in H2. specialize (H2 f H). unfold meta_field_ok in H2.
    rewrite !andb_true_iff in H2. apply re_eqb_eq. apply H2.
  - rewrite forallb_forall in H2. specialize (H2 f H). unfold meta_field_ok in H2.
    rewrite !andb_true_iff in H2. destruct H2 as [[_ H2] _]. intro E. rewrite E in H2. discriminate.
  - rewrite forallb_forall in H2. specialize (H2 f H). unfold meta_field_ok in H2.
    rewrite !andb_true_iff in H2. destruct H2 as [_ H2].
    apply forallb_Forall in H2. revert H2. apply Forall_impl. intros a Ha.
    apply andb_true_iff in Ha as [Ha Hb]. apply negb_true_iff in Ha, Hb.
    split; [exact Ha|]. intro E; subst. discriminate.
Qed.

(** * Two recognisers of the common shape [head ++ Ls lit ++ l] on the same line
    Both literals start with a blank, so the head decomposition is forced and the two literals
    (followed by their tails) spell the same remainder. *)
Lemma hf_digit_lit T (HT : tables_ok T = true) lit r :
  hd_error (of_string lit) = Some 32%N -> head_fails (is_digit T) (of_string lit ++ r).
Proof.
  destruct (of_string lit) as [|x y]; cbn [hd_error]; [discriminate|].
  intro H; inversion H; subst. cbn [app]. apply hf_digit_blank; exact HT.
Qed.

Lemma Lang_head_lit_agree T (HT : tables_ok T = true) lit lit' l l' s :
  hd_error (of_string lit) = Some 32%N -> hd_error (of_string lit') = Some 32%N ->
  Lang T (seq (head ++ Ls lit ++ l)) s -> Lang T (seq (head ++ Ls lit' ++ l')) s ->
  exists r r', of_string lit ++ r = of_string lit' ++ r' /\ Lang T (seq l) r /\ Lang T (seq l') r'.
Proof.
  intros Hl Hl' H H'.
  apply Lang_head_lit in H as (p & t & r & -> & Hp & Hne & Ht & Hr).
  apply Lang_head_lit in H' as (p' & t' & r' & E & Hp' & Hne' & Ht' & Hr').
  exists r, r'. split; [|split; assumption].
  destruct (head_unique T HT p t (of_string lit ++ r) p' t' (of_string lit' ++ r')) as (_ & _ & E');
    auto using hf_digit_lit.
Qed.
