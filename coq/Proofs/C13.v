(** Proofs/C13.v — Track selection restricts the parse and tracks do not interfere:
    proofs of the statements of Spec/C13.v.  [C13_unselected_stmt] is false for configurations in
    which an instrument header is also the Song/SyncTrack/Events tag ([C13_unselected_refuted]);
    [C13_unselected_partial] proves it under [cfg_ok_chart c = true]. *)
From CP Require Import Base.Prelude Base.Str Base.Regex Base.Cfg Base.Float64 Base.Timedelta
  Model.Lines Model.Sync Model.Instrument Model.Chart Spec.RefRegex Spec.ChartSpec Spec.C13.
From CP Require Import Proofs.ChartInv.
From Coq Require Import Permutation Lia.
Open Scope Z_scope.

Lemma wanted_None p : wanted None p = true.
Proof. reflexivity. Qed.

Lemma wanted_Some_nil p : wanted (Some []) p = false.
Proof. reflexivity. Qed.

(** Under a selection, a wanted key is built from the same sections as in the unrestricted parse. *)
Lemma sec_builds_wanted c B want secs i d tr :
  wanted want (i, d) = true ->
  (sec_builds c B None secs i d tr <-> sec_builds c B want secs i d tr).
Proof.
  intro Hw. unfold sec_builds. split; intros (tag & body & ws & Hin & Hh & _ & Hb);
    exists tag, body, ws; repeat split; auto.
Qed.

Lemma C13_select : C13_select_stmt.
Proof.
  intros c secs ch logs sel Hc Hnd H.
  apply from_secs_ok_inv in H as (l0 & Hf & Hr).
  set (B := st_bpm (c_sync ch)) in *.
  assert (Hb : Forall (builds c B (Some sel)) secs).
  { assert (Hb0 : Forall (builds c B None) secs) by (apply (route_ok_iff c B None secs [] l0); eauto).
    revert Hb0. apply Forall_impl. intro s. apply builds_None_any. }
  apply (route_ok_iff c B (Some sel) secs [] l0) in Hb as [[t' l'] Hr'].
  exists {| c_meta := c_meta ch; c_gev := c_gev ch; c_sync := c_sync ch; c_tracks := t' |}, l'.
  split; [apply (from_secs_of_parts c secs (Some sel) _ _ _ _ _ _ Hf Hr')|].
  cbn [c_meta c_sync c_gev c_tracks]. repeat split.
  - intros i d. destruct (wanted (Some sel) (i, d)) eqn:Ew.
    + apply (option_eq_of_iff _ _ (sec_builds c B (Some sel) secs i d)).
      * apply (route_lookup_nil c B (Some sel) secs l0 t' l' Hnd Hr').
      * intro tr. rewrite (route_lookup_nil c B None secs l0 _ _ Hnd Hr i d tr).
        apply sec_builds_wanted. exact Ew.
    + destruct (lookup_tracks t' i d) as [tr|] eqn:E; [|reflexivity].
      apply (route_lookup_nil c B (Some sel) secs l0 t' l' Hnd Hr') in E
        as (tag & body & ws & _ & _ & Hw & _). congruence.
  - exact (route_inner_nonempty c B (Some sel) secs [] l0 t' l' inner_nonempty_nil Hr').
Qed.

Lemma C13_empty : C13_empty_stmt.
Proof.
  intros c secs ch logs H. apply from_secs_ok_inv in H as (l0 & _ & Hr).
  eapply route_no_wanted; [|exact Hr]. intros s p _ _. reflexivity.
Qed.

Lemma C13_select_ok : C13_select_ok_stmt.
Proof.
  intros c secs want ch0 logs0 B H ->.
  apply from_secs_ok_inv in H as (l0 & Hf & _).
  rewrite <- (route_ok_iff c (st_bpm (c_sync ch0)) want secs [] l0).
  rewrite from_secs_split, Hf. cbn [bind finish].
  destruct (route c (st_bpm (c_sync ch0)) want secs [] l0) as [[t l]|e]; cbn [bind].
  - split; intros _; eexists; reflexivity.
  - split; intros [r Hr]; discriminate.
Qed.

(** * Non-interference *)
Lemma assoc_replace_other {A} k k' (v v' : A) l1 l2 :
  k <> k' -> assoc k (l1 ++ (k', v) :: l2) = assoc k (l1 ++ (k', v') :: l2).
Proof. intro H. rewrite !assoc_app_cons_other by exact H. reflexivity. Qed.

Lemma In_replace_other {A} k k' (x v v' : A) (l1 l2 : list (str * A)) :
  k <> k' -> In (k, x) (l1 ++ (k', v) :: l2) -> In (k, x) (l1 ++ (k', v') :: l2).
Proof.
  intros H Hin. apply in_app_iff in Hin as [Hin | [Hin | Hin]]; apply in_app_iff.
  - left; exact Hin.
  - inversion Hin; subst. contradiction.
  - right; right; exact Hin.
Qed.

(** Replacing the body of a section that is none of Song/SyncTrack/Events leaves the
    selection-independent part alone. *)
Lemma fixed_part_replace c s1 tag body body' s2 :
  tag <> tag_song c -> tag <> tag_sync c -> tag <> tag_events c ->
  fixed_part c (s1 ++ (tag, body) :: s2) = fixed_part c (s1 ++ (tag, body') :: s2).
Proof.
  intros H1 H2 H3. apply fixed_part_ext.
  - intros t _. apply assoc_app_cons_is_some.
  - apply assoc_replace_other. congruence.
  - apply assoc_replace_other. congruence.
  - apply assoc_replace_other. congruence.
Qed.

Lemma C13_noninterf : C13_noninterf_stmt.
Proof.
  intros c s1 tag body body' s2 want ch logs ch' logs' Hc Hnd [p Hh] H1 H2.
  apply from_secs_ok_inv in H1 as (l0 & Hf1 & Hr1).
  apply from_secs_ok_inv in H2 as (l0' & Hf2 & Hr2).
  destruct (cfg_ok_chart_header_not_required c tag p Hc Hh) as (_ & N1 & N2 & N3).
  rewrite (fixed_part_replace c s1 tag body body' s2 N1 N2 N3), Hf2 in Hf1.
  inversion Hf1 as [[Em Es Eg El]]. repeat split; try assumption.
  intros i d Hne. rewrite Es in Hr2.
  assert (Hnd' : NoDup (map fst (s1 ++ (tag, body') :: s2))).
  { rewrite map_app in *. exact Hnd. }
  apply (option_eq_of_iff _ _ (sec_builds c (st_bpm (c_sync ch)) want (s1 ++ (tag, body) :: s2) i d)).
  - intro tr. rewrite (route_lookup_nil c _ want _ l0' _ _ Hnd' Hr2 i d tr).
    unfold sec_builds. split; intros (tg & bd & ws & Hin & Hh' & Hrest); exists tg, bd, ws;
      (split; [|split; [exact Hh' | exact Hrest]]);
      (eapply In_replace_other; [|exact Hin]); intro E; subst tg; congruence.
  - apply (route_lookup_nil c _ want _ l0 _ _ Hnd Hr1).
Qed.

(** * An unselected section *)

(** The statement holds whenever the section is none of Song / SyncTrack / Events … *)
Lemma C13_unselected_gen :
  forall c s1 tag body body' s2 want p,
    header_lookup c tag = Some p -> wanted want p = false ->
    tag <> tag_song c -> tag <> tag_sync c -> tag <> tag_events c ->
    from_secs c (s1 ++ (tag, body) :: s2) want = from_secs c (s1 ++ (tag, body') :: s2) want.
Proof.
  intros c s1 tag body body' s2 want [i d] Hh Hw N1 N2 N3.
  rewrite !from_secs_split, (fixed_part_replace c s1 tag body body' s2 N1 N2 N3).
  destruct (fixed_part c (s1 ++ (tag, body') :: s2)) as [[[[meta sync] gev] l0]|e]; cbn [bind]; [|reflexivity].
  unfold finish. rewrite !route_app.
  destruct (route c (st_bpm sync) want s1 [] l0) as [[a l]|e]; cbn [bind]; [|reflexivity].
  rewrite !route_cons, Hh, Hw. reflexivity.
Qed.

(** … in particular for every configuration satisfying the chart side condition (ADDED
    hypothesis: [cfg_ok_chart c = true]). *)
Lemma C13_unselected_partial :
  forall c s1 tag body body' s2 want p, cfg_ok_chart c = true ->
    header_lookup c tag = Some p -> wanted want p = false ->
    from_secs c (s1 ++ (tag, body) :: s2) want = from_secs c (s1 ++ (tag, body') :: s2) want.
Proof.
  intros c s1 tag body body' s2 want p Hc Hh Hw.
  destruct (cfg_ok_chart_header_not_required c tag p Hc Hh) as (_ & N1 & N2 & N3).
  eapply C13_unselected_gen; eassumption.
Qed.

(** Without it the statement is false: in a configuration whose Song tag is also an instrument
    header, the body of that (unselected) section still feeds the metadata parser. *)
Definition cx_tables : tables := {| ws_ranges := []; digit_ranges := []; linebreaks := [] |}.
Definition cx_field : meta_field :=
  {| mf_name := []; mf_pascal := []; mf_re := Eps; mf_kind := MStr;
     mf_required := true; mf_default := MVNone |}.
Definition cx_cfg : cfg :=
  {| tbl := cx_tables;
     re_note := Emp; re_sp := Emp; re_tev := Emp; re_bpm := Emp; re_ts := Emp; re_anchor := Emp;
     re_text := Emp; re_section := Emp; re_lyric := Emp; re_header := Emp;
     meta_fields := [cx_field];
     order_instr := []; order_sync := []; order_events := [];
     instr_values := [[]]; diff_values := [[]]; nti_values := []; player2_values := [];
     tag_song := []; tag_sync := []; tag_events := []; required_tags := [];
     eighth_triplet := 0; default_lower := 4; sp_literal := []; autoinsert_tracks := false |}.

Lemma C13_unselected_refuted : ~ C13_unselected_stmt.
Proof.
  intro H.
  specialize (H cx_cfg [] [] [[]] [] [] (Some []) ([], []) eq_refl eq_refl).
  vm_compute in H. discriminate.
Qed.
