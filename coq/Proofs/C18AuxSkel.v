(** Proofs/C18AuxSkel.v — the error skeleton of [from_file], proved once for an abstract set [P] of
    allowed error kinds, an abstract bound [NB] on the numerals read from bounded lines [LB], an
    abstract invariant [BI] of the built tempo list and a bound [TB] on queried ticks.  Stage A and
    stage B of C18 instantiate it. *)
From CP Require Import Base.Prelude Base.Str Base.Regex Base.Cfg Base.Float64 Base.Timedelta
  Model.Lines Model.Sync Model.Instrument Model.Chart Spec.RefRegex Spec.C02 Spec.C10 Spec.C11 Spec.C14
  Spec.ChartSpec Spec.C18.
From CP Require Import Proofs.RegexShapes Proofs.C02 Proofs.C10 Proofs.C11 Proofs.C14 Proofs.ChartInv
  Proofs.C18Aux Proofs.C18AuxText Proofs.C18AuxRe.
From Coq Require Import Lia.
Open Scope Z_scope.

(** * Small list facts *)
Lemma span_in {A} (p : A -> bool) x a b l :
  span p x = (a, b) -> infix x l -> infix a l /\ infix b l /\ Forall (fun y => p y = true) a.
Proof.
  intros E Hx.
  assert (Ea : a = fst (span p x)) by (rewrite E; reflexivity).
  assert (Eb : b = snd (span p x)) by (rewrite E; reflexivity).
  subst a b. split; [|split].
  - eapply infix_trans; [apply infix_span_fst | exact Hx].
  - eapply infix_trans; [apply infix_span_snd | exact Hx].
  - apply span_fst_all.
Qed.

Lemma skipn_in {A} n (x l : list A) : infix x l -> infix (skipn n x) l.
Proof. intro H. eapply infix_trans; [apply infix_skipn | exact H]. Qed.

Lemma cons_in {A} (y : A) r l : infix (y :: r) l -> infix r l.
Proof. intro H. eapply infix_trans; [|exact H]. exact (infix_tl (y :: r)). Qed.

Lemma Forall_set_nth {A} (Q : A -> Prop) n x l : Forall Q l -> Q x -> Forall Q (set_nth n x l).
Proof.
  intros Hl Hx. revert n. induction Hl as [|y l Hy Hl IH]; intro n; [destruct n; constructor|].
  destruct n; cbn [set_nth]; constructor; auto.
Qed.

Lemma fold_max_closed (Q : Z -> Prop) :
  (forall a b, Q a -> Q b -> Q (Z.max a b)) ->
  forall vs v, Forall Q vs -> Q v -> Q (fold_left Z.max vs v).
Proof.
  intros Hm vs. induction vs as [|x vs IH]; intros v Hvs Hv; cbn [fold_left]; [exact Hv|].
  inversion Hvs; subst. apply IH; [assumption | apply Hm; assumption].
Qed.

Lemma In_firstn {A} n (l : list A) x : In x (firstn n l) -> In x l.
Proof. intro H. rewrite <- (firstn_skipn n l). apply in_or_app. left; exact H. Qed.

Lemma In_skipn {A} n (l : list A) x : In x (skipn n l) -> In x l.
Proof. intro H. rewrite <- (firstn_skipn n l). apply in_or_app. right; exact H. Qed.

Section Skel.
Variable c : cfg.
Notation T := (tbl c).
Hypothesis Hc : cfg_ok_all c = true.

Variable P : errkind -> Prop.
Hypothesis PV : P EValue.
Hypothesis PR : P ERegexNotMatch.
Hypothesis PM : P EMissingRequiredField.

Variable LB : str -> Prop.
Variable NB : Z -> Prop.
Hypothesis LB_int : forall l s v, LB l -> infix s l ->
  Forall (fun ch => is_digit T ch = true) s -> py_int T s = Ok v -> NB v.
Hypothesis NB0 : NB 0.
Hypothesis NBmax : forall a b, NB a -> NB b -> NB (Z.max a b).

Variable BI : bpm_events -> Prop.
Variable TB : Z -> Prop.
Hypothesis NB_TB : forall a, NB a -> TB a.
Hypothesis NB_TB2 : forall a b, NB a -> NB b -> TB (a + b).
Hypothesis H_ts : forall B t h, BI B -> TB t -> 0 <= h -> eok P (timestamp_at_tick B t h).
Hypothesis H_bpm : forall datas R, NB R ->
  Forall (fun d => NB (fst d) /\ forall n, py_int T (snd d) = Ok n -> NB n) datas ->
  eok P (build_bpm_events T datas R) /\ forall B, build_bpm_events T datas R = Ok B -> BI B.
Hypothesis H_ndt : forall B, BI B -> eok P (note_duration_to_ticks (resolution B) 3).
Hypothesis H_us : forall us, NB us -> eok P (td_of_us us).

(** ** The configuration side conditions *)
Lemma cfg_parts :
  cfg_ok_C10 c = true /\ cfg_ok_chart c = true /\ eighth_triplet c = 3.
Proof.
  unfold cfg_ok_all in Hc. rewrite !andb_true_iff in Hc.
  destruct Hc as [[[[[_ _] _] H4] H5] H6]. apply Z.eqb_eq in H6. auto.
Qed.

(** ** Lines *)
Definition pd_ok (d : pdata) : Prop :=
  match d with
  | PNote t _ s => NB t /\ NB s
  | PSP t s => NB t /\ NB s
  | PTev t _ => NB t
  | PBpm t raw => NB t /\ forall n, py_int T raw = Ok n -> NB n
  | PTs t _ _ => NB t
  | PAnchor t us => NB t /\ NB us
  | PGlobal _ t _ => NB t
  end.

Definition pd_good (k : kind) (d : pdata) : Prop :=
  pd_ok d /\ (k = KAnchor -> exists t us, d = PAnchor t us).

Lemma pd_ok_tick d : pd_ok d -> NB (pd_tick d).
Proof. destruct d; cbn; tauto. Qed.

Lemma int_fail {A} s e (k : Z -> result A) :
  py_int T s = Err e -> eok P (bind (py_int T s) k) /\ forall d, bind (py_int T s) k = Ok d -> False.
Proof.
  intro E. rewrite E. cbn [bind]. apply py_int_err in E. subst e. split; [exact PV | discriminate].
Qed.

Lemma extract_ok k l :
  LB l -> eok P (extract c k l) /\ forall d, extract c k l = Ok d -> pd_good k d.
Proof.
  intro HL. unfold extract.
  destruct (head_tick c l) as [t rest] eqn:Eh. unfold head_tick in Eh.
  destruct (span_in _ _ _ _ l Eh (infix_dropwhile _ _)) as (It & Irest & Dt).
  destruct (py_int T t) as [tick|e] eqn:Et; cbn [bind].
  2:{ apply py_int_err in Et; subst e. split; [exact PV | discriminate]. }
  assert (Ntick : NB tick) by exact (LB_int l t tick HL It Dt Et).
  destruct k.
  - (* KNote *)
    cbv zeta.
    destruct (span (is_digit T) (skipn 2 (skipn 5 rest))) as [s r] eqn:Es.
    destruct (span_in _ _ _ _ l Es (skipn_in _ _ _ (skipn_in _ _ _ Irest))) as (Is & _ & Ds).
    destruct (py_int T s) as [sus|e] eqn:E2; cbn [bind].
    2:{ apply py_int_err in E2; subst e. split; [exact PV | discriminate]. }
    destruct (existsb _ _).
    + split; [exact I|]. intros d H; inversion H; subst. split; [|discriminate].
      split; [exact Ntick | exact (LB_int l s sus HL Is Ds E2)].
    + split; [exact PV | discriminate].
  - (* KSP *)
    cbv zeta.
    destruct (span (is_digit T) (skipn (5 + length (sp_literal c) + 1) rest)) as [s r] eqn:Es.
    destruct (span_in _ _ _ _ l Es (skipn_in _ _ _ Irest)) as (Is & _ & Ds).
    destruct (py_int T s) as [sus|e] eqn:E2; cbn [bind].
    2:{ apply py_int_err in E2; subst e. split; [exact PV | discriminate]. }
    split; [exact I|]. intros d H; inversion H; subst. split; [|discriminate].
    split; [exact Ntick | exact (LB_int l s sus HL Is Ds E2)].
  - (* KTev *)
    split; [exact I|]. intros d H; inversion H; subst. split; [exact Ntick | discriminate].
  - (* KBpm *)
    destruct (span (is_digit T) (skipn 5 rest)) as [raw r] eqn:Es.
    destruct (span_in _ _ _ _ l Es (skipn_in _ _ _ Irest)) as (Is & _ & Ds).
    split; [exact I|]. intros d H; inversion H; subst. split; [|discriminate].
    split; [exact Ntick | intros n Hn; exact (LB_int l raw n HL Is Ds Hn)].
  - (* KTs *)
    destruct (span (is_digit T) (skipn 6 rest)) as [u r] eqn:Es.
    destruct (span_in _ _ _ _ l Es (skipn_in _ _ _ Irest)) as (Iu & Ir & Du).
    destruct (py_int T u) as [up|e] eqn:E2; cbn [bind].
    2:{ apply py_int_err in E2; subst e. split; [exact PV | discriminate]. }
    destruct r as [|sp r'].
    { split; [exact I|]. intros d H; inversion H; subst. split; [exact Ntick | discriminate]. }
    destruct (span (is_digit T) r') as [lo r''] eqn:Es2.
    destruct (_ && _ && _)%bool.
    + destruct (py_int T lo) as [lov|e] eqn:E3; cbn [bind].
      2:{ apply py_int_err in E3; subst e. split; [exact PV | discriminate]. }
      split; [exact I|]. intros d H; inversion H; subst. split; [exact Ntick | discriminate].
    + split; [exact I|]. intros d H; inversion H; subst. split; [exact Ntick | discriminate].
  - (* KAnchor *)
    destruct (span (is_digit T) (skipn 5 rest)) as [u r] eqn:Es.
    destruct (span_in _ _ _ _ l Es (skipn_in _ _ _ Irest)) as (Iu & _ & Du).
    destruct (py_int T u) as [us|e] eqn:E2; cbn [bind].
    2:{ apply py_int_err in E2; subst e. split; [exact PV | discriminate]. }
    split; [exact I|]. intros d H; inversion H; subst. split.
    + split; [exact Ntick | exact (LB_int l u us HL Iu Du E2)].
    + intros _. eauto.
  - split; [exact I|]. intros d H; inversion H; subst. split; [exact Ntick | discriminate].
  - split; [exact I|]. intros d H; inversion H; subst. split; [exact Ntick | discriminate].
  - split; [exact I|]. intros d H; inversion H; subst. split; [exact Ntick | discriminate].
Qed.

Lemma dec_ok k l :
  LB l -> eok P (dec c k l) /\ forall d, dec c k l = Ok d -> pd_good k d.
Proof.
  intro HL. unfold dec. destruct (matchb _ _ _); [apply extract_ok; exact HL|].
  split; [exact PR | discriminate].
Qed.

Definition out_ok (o : line_outcome) : Prop :=
  match o with Claimed k d => pd_good k d | Unparsable _ => True end.

Lemma try_kinds_okP order l :
  LB l -> eok P (try_kinds c order l) /\ forall o, try_kinds c order l = Ok o -> out_ok o.
Proof.
  intro HL. induction order as [|k ks IH]; cbn [try_kinds].
  - split; [exact I|]. intros o H; inversion H; subst. exact I.
  - destruct (dec_ok k l HL) as [H1 H2].
    destruct (dec c k l) as [d|e].
    + split; [exact I|]. intros o H; inversion H; subst. apply H2. reflexivity.
    + cbn in H1. destruct e; try (split; [exact H1 | discriminate]). exact IH.
Qed.

Lemma dispatch_okP order lines :
  Forall LB lines ->
  eok P (dispatch c order lines) /\ forall outs, dispatch c order lines = Ok outs -> Forall out_ok outs.
Proof.
  unfold dispatch. induction 1 as [|l ls Hl _ IH]; cbn [mapM].
  - split; [exact I|]. intros outs H; inversion H; constructor.
  - destruct (try_kinds_okP order l Hl) as [H1 H2]. destruct IH as [I1 I2].
    destruct (try_kinds c order l) as [o|e]; cbn [bind]; [|split; [exact H1 | discriminate]].
    destruct (mapM (try_kinds c order) ls) as [os|e]; cbn [bind]; [|split; [exact I1 | discriminate]].
    split; [exact I|]. intros outs H; inversion H; subst. constructor; [apply H2 | apply I2]; reflexivity.
Qed.

Lemma data_of_ok k outs : Forall out_ok outs -> Forall (pd_good k) (data_of k outs).
Proof.
  unfold data_of. induction 1 as [|o os Ho _ IH]; cbn [flat_map]; [constructor|].
  destruct o as [k' d|l]; [|exact IH].
  destruct (kind_eqb k k') eqn:E; [|exact IH]. apply kind_eqb_eq in E. subst k'.
  cbn [app]. constructor; [exact Ho | exact IH].
Qed.

Lemma data_ticks k outs : Forall out_ok outs -> Forall TB (map pd_tick (data_of k outs)).
Proof.
  intro H. apply Forall_map. eapply Forall_impl; [|apply (data_of_ok k); exact H].
  intros d [Hd _]. apply NB_TB. apply pd_ok_tick. exact Hd.
Qed.

(** ** Timed events *)
Lemma build_timed_okP B : BI B -> forall ticks prev,
  Forall TB ticks -> 0 <= hint_of prev -> eok P (build_timed B ticks prev).
Proof.
  intros HB. induction ticks as [|t ts IH]; intros prev Ht Hh; cbn [build_timed]; [exact I|].
  inversion Ht; subst.
  apply eok_bind.
  - unfold timed_from. fold (hint_of prev). apply eok_bind; [apply H_ts; assumption|].
    intros [u idx] _. exact I.
  - intros e He. apply eok_bind; [|intros es _; exact I].
    apply IH; [assumption|]. cbn [hint_of].
    apply timed_from_ok_inv in He as [_ He]. apply ts_ok_range in He. tauto.
Qed.

Lemma build_globals_okP B ds :
  BI B -> Forall TB (map pd_tick ds) -> eok P (build_globals B ds).
Proof.
  intros HB Hd. unfold build_globals. apply eok_bind; [|intros; exact I].
  apply build_timed_okP; [exact HB | exact Hd | cbn; lia].
Qed.

(** ** Notes *)
Definition nd_ok (d : ndata) : Prop := NB (nd_tick d) /\ NB (nd_sus d).

Lemma ndata_of_ok d : pd_ok d -> nd_ok (ndata_of d).
Proof. destruct d; cbn; unfold nd_ok; cbn; tauto. Qed.

Definition osus_ok (o : option Z) : Prop := match o with Some v => NB v | None => True end.

Lemma lane_sustains_ok g : Forall nd_ok g -> Forall osus_ok (lane_sustains g).
Proof.
  intro Hg. unfold lane_sustains.
  assert (H0 : Forall osus_ok no_sustains) by (repeat constructor).
  revert H0. generalize no_sustains. induction Hg as [|d g Hd _ IH]; intros l Hl; cbn [fold_left]; [exact Hl|].
  apply IH. destruct (is_5_note (nd_idx d)); [|exact Hl].
  apply Forall_set_nth; [exact Hl | exact (proj2 Hd)].
Qed.

Lemma somes_ok l : Forall osus_ok l ->
  Forall NB (flat_map (fun o => match o with Some v => [v] | None => [] end) l).
Proof.
  induction 1 as [|o l Ho _ IH]; cbn [flat_map]; [constructor|].
  destruct o; cbn [app]; [constructor; assumption | exact IH].
Qed.

Lemma longest_ok l : Forall osus_ok l ->
  longest_sustain (STuple l) = Err EValue \/ exists n, longest_sustain (STuple l) = Ok n /\ NB n.
Proof.
  intro H. apply somes_ok in H. cbn [longest_sustain].
  destruct (flat_map _ l) as [|v vs]; [left; reflexivity|].
  right. eexists; split; [reflexivity|]. inversion H; subst.
  apply fold_max_closed; assumption.
Qed.

Lemma complex_sustain_ok g : Forall nd_ok g ->
  exists sus, complex_sustain g = Ok sus /\
    (longest_sustain sus = Err EValue \/ exists n, longest_sustain sus = Ok n /\ NB n).
Proof.
  intro Hg. unfold complex_sustain.
  destruct (find _ g) as [d|] eqn:Ef.
  - eexists; split; [reflexivity|]. right. eexists; split; [reflexivity|].
    apply find_some in Ef as [Hin _]. rewrite Forall_forall in Hg. exact (proj2 (Hg d Hin)).
  - eexists; split; [reflexivity|].
    pose proof (lane_sustains_ok g Hg) as Hl. unfold refined_sustain.
    pose proof (somes_ok _ Hl) as Hs.
    destruct (flat_map _ (lane_sustains g)) as [|s0 ss] eqn:E.
    + right. exists 0. split; [reflexivity | exact NB0].
    + destruct (forallb _ _).
      * right. exists s0. split; [reflexivity|]. inversion Hs; assumption.
      * apply longest_ok. exact Hl.
Qed.

Lemma compute_hopo_okP B tick note is_tap is_forced prev :
  BI B -> eok P (compute_hopo c (resolution B) tick note is_tap is_forced prev).
Proof.
  intro HB. unfold compute_hopo. destruct prev as [[ptick pnote]|].
  - destruct is_tap; [exact I|]. destruct cfg_parts as (_ & _ & E3). rewrite E3.
    apply eok_bind; [apply H_ndt; exact HB|]. intros b _. exact I.
  - destruct is_forced; [exact PV|]. destruct is_tap; exact I.
Qed.

Lemma note_from_group_okP B sps g prev hint cursor :
  BI B -> g <> [] -> Forall nd_ok g -> 0 <= hint -> 0 <= cursor ->
  eok P (note_from_group c B sps g prev hint cursor).
Proof.
  intros HB Hne Hg Hh Hcur. unfold note_from_group.
  destruct g as [|d0 g']; [congruence|].
  remember (d0 :: g') as g eqn:Eg.
  assert (Hd0 : nd_ok d0) by (subst g; inversion Hg; assumption).
  destruct (complex_sustain_ok g Hg) as (sus & Es & Hlong). rewrite Es. cbn [bind].
  apply eok_bind; [apply H_ts; [exact HB | apply NB_TB; exact (proj1 Hd0) | exact Hh]|].
  intros [ts idx] Hq. apply ts_ok_range in Hq as [_ Hidx].
  apply eok_bind; [apply compute_hopo_okP; exact HB|]. intros hp _.
  apply eok_bind.
  { destruct (compute_sp_cases sps (nd_tick d0) cursor Hcur) as [E | (o & j & E & _)]; rewrite E;
      [exact PV | exact I]. }
  intros [spd cur'] _.
  destruct Hlong as [E | (n & E & Hn)]; rewrite E; cbn [bind]; [exact PV|].
  apply eok_bind; [|intros [ets i2] _; exact I].
  apply H_ts; [exact HB | | exact Hidx]. unfold tick_add. apply NB_TB2; [exact (proj1 Hd0) | exact Hn].
Qed.

Lemma note_from_group_next B sps g prev hint cursor e h' c' :
  0 <= cursor -> note_from_group c B sps g prev hint cursor = Ok (e, h', c') -> 0 <= h' /\ 0 <= c'.
Proof.
  intros Hcur H. unfold note_from_group in H. destruct g as [|d0 g']; [discriminate|].
  apply bind_ok in H as (sus & _ & H).
  apply bind_ok in H as ([ts idx] & Hq & H). cbv beta iota in H.
  apply bind_ok in H as (h & _ & H).
  apply bind_ok in H as ([spd cur] & Hsp & H). cbv beta iota in H.
  apply bind_ok in H as (longest & _ & H).
  apply bind_ok in H as ([end_ts idx2] & _ & H). cbv beta iota in H.
  inversion H; subst. split.
  - apply ts_ok_range in Hq. tauto.
  - destruct (compute_sp_cases sps (nd_tick d0) cursor Hcur) as [E | (o & j & E & Hj)];
      rewrite E in Hsp; [discriminate|]. inversion Hsp; subst. exact Hj.
Qed.

Lemma build_notes_okP B sps : BI B -> forall groups prev hint cursor,
  Forall (fun g => g <> [] /\ Forall nd_ok g) groups -> 0 <= hint -> 0 <= cursor ->
  eok P (build_notes c B sps groups prev hint cursor).
Proof.
  intro HB. induction groups as [|g gs IH]; intros prev hint cursor Hg Hh Hcur; cbn [build_notes];
    [exact I|].
  inversion Hg as [|? ? [Hne Hnd] Hgs]; subst.
  apply eok_bind; [apply note_from_group_okP; assumption|].
  intros [[e h'] c'] He. destruct (note_from_group_next _ _ _ _ _ _ _ _ _ Hcur He) as [Hh' Hc'].
  apply eok_bind; [|intros; exact I]. apply IH; assumption.
Qed.

Lemma groups_ok l : Forall nd_ok l -> Forall (fun g => g <> [] /\ Forall nd_ok g) (group_by_tick l).
Proof.
  intro Hl. pose proof (groups_nonempty l) as Hne. pose proof (C02_concat l) as Hcc.
  rewrite Forall_forall in *. intros g Hg. split; [apply Hne; exact Hg|].
  rewrite Forall_forall. intros d Hd. apply Hl. rewrite <- Hcc. apply in_concat. eauto.
Qed.

(** ** An instrument track *)
Lemma itrack_okP i d lines B :
  BI B -> Forall LB lines -> eok P (itrack_from_lines c i d lines B).
Proof.
  intros HB HL. unfold itrack_from_lines.
  destruct (dispatch_okP (order_instr c) lines HL) as [H1 H2].
  apply eok_bind; [exact H1|]. intros outs Ho. specialize (H2 outs Ho). cbv zeta.
  apply eok_bind; [apply build_timed_okP; [exact HB | apply data_ticks; exact H2 | cbn; lia]|].
  intros sp_tm _.
  apply eok_bind; [apply build_timed_okP; [exact HB | apply data_ticks; exact H2 | cbn; lia]|].
  intros tev_tm _.
  apply eok_bind; [|intros; exact I].
  apply build_notes_okP; [exact HB | | lia | lia].
  apply groups_ok. apply Forall_map. eapply Forall_impl; [|apply (data_of_ok KNote); exact H2].
  intros x [Hx _]. apply ndata_of_ok. exact Hx.
Qed.

Lemma route_okP B want : BI B -> forall secs acc logs,
  Forall (fun s => Forall LB (snd s)) secs -> eok P (route c B want secs acc logs).
Proof.
  intro HB. induction secs as [|[tag body] secs IH]; intros acc logs Hs; cbn [route]; [exact I|].
  inversion Hs; subst. cbn [snd] in *.
  destruct (header_lookup c tag) as [[i d]|].
  - destruct (wanted want (i, d)); [|apply IH; assumption].
    apply eok_bind; [apply itrack_okP; assumption|]. intros [tr ws] _. apply IH; assumption.
  - destruct (mem_str tag (required_tags c)); apply IH; assumption.
Qed.

(** ** The sync track and the global events *)
Lemma sync_okP R lines :
  NB R -> Forall LB lines ->
  eok P (sync_from_lines c R lines) /\
  forall sync w, sync_from_lines c R lines = Ok (sync, w) -> BI (st_bpm sync).
Proof.
  intros HR HL. unfold sync_from_lines.
  destruct (dispatch_okP (order_sync c) lines HL) as [H1 H2].
  destruct (dispatch c (order_sync c) lines) as [outs|e]; cbn [bind]; [|split; [exact H1 | discriminate]].
  specialize (H2 outs eq_refl). cbv zeta.
  assert (Hb : Forall (fun d => NB (fst d) /\ forall n, py_int T (snd d) = Ok n -> NB n)
                 (map bpm_payload (data_of KBpm outs))).
  { apply Forall_map. eapply Forall_impl; [|apply (data_of_ok KBpm); exact H2].
    intros x [Hx _]. destruct x; cbn in *; try tauto;
      (split; [exact NB0 | intros n Hn; inversion Hn; exact NB0]). }
  destruct (H_bpm _ R HR Hb) as [B1 B2].
  destruct (build_bpm_events T _ R) as [B|e]; cbn [bind]; [|split; [exact B1 | discriminate]].
  specialize (B2 B eq_refl).
  assert (Ht : eok P (build_timed B (map pd_tick (data_of KTs outs)) None)).
  { apply build_timed_okP; [exact B2 | apply data_ticks; exact H2 | cbn; lia]. }
  destruct (build_timed B _ None) as [tms|e]; cbn [bind]; [|split; [exact Ht | discriminate]].
  assert (Ha : eok P (mapM anchor_from (data_of KAnchor outs))).
  { apply eok_mapM. eapply Forall_impl; [|apply (data_of_ok KAnchor); exact H2].
    intros x [Hx Hs]. destruct (Hs eq_refl) as (t & us & ->). cbn in Hx. cbn [anchor_from].
    apply eok_bind; [apply H_us; tauto | intros; exact I]. }
  destruct (mapM anchor_from _) as [anchors|e]; cbn [bind]; [|split; [exact Ha | discriminate]].
  match goal with |- context [match ?l with [] => _ | _ => _ end] => destruct l as [|t0 tss] end.
  - split; [exact PV | discriminate].
  - destruct (t_tick (ts_at t0) =? 0).
    + split; [exact I|]. intros sync w H; inversion H; subst. exact B2.
    + split; [exact PV | discriminate].
Qed.

Lemma globals_okP lines B : BI B -> Forall LB lines -> eok P (globals_from_lines c lines B).
Proof.
  intros HB HL. unfold globals_from_lines.
  destruct (dispatch_okP (order_events c) lines HL) as [H1 H2].
  apply eok_bind; [exact H1|]. intros outs Ho. specialize (H2 outs Ho).
  apply eok_bind; [apply build_globals_okP; [exact HB | apply data_ticks; exact H2]|]. intros tx _.
  apply eok_bind; [apply build_globals_okP; [exact HB | apply data_ticks; exact H2]|]. intros se _.
  apply eok_bind; [apply build_globals_okP; [exact HB | apply data_ticks; exact H2]|]. intros ly _.
  exact I.
Qed.

(** ** Metadata *)
Lemma meta_find_some f lines l :
  meta_find c f lines = Some l -> In l lines /\ Spec.C10.accepts c f l = true.
Proof.
  induction lines as [|x ls IH]; cbn [meta_find]; [discriminate|].
  destruct (matchb T (mf_re f) x) eqn:E.
  - intro H; inversion H; subst. split; [left; reflexivity | exact E].
  - intro H. destruct (IH H). split; [right|]; assumption.
Qed.

Lemma meta_field_value_okP f lines :
  In f (meta_fields c) -> Forall LB lines ->
  eok P (meta_field_value c f lines) /\
  forall v, meta_field_value c f lines = Ok v -> mf_kind f = MInt -> mf_required f = true ->
            exists z, v = MVInt z /\ NB z.
Proof.
  intros Hf HL. destruct cfg_parts as (HC10 & _ & _).
  destruct (cfg_ok_C10_inv c HC10) as [Hmeta _].
  unfold meta_field_value.
  destruct (meta_find c f lines) as [l|] eqn:Efind.
  - apply meta_find_some in Efind as [Hin Hacc].
    destruct (meta_capture_some c f l Hmeta Hf Hacc) as (v & Ecap & Hv & a & b & El).
    rewrite Ecap. unfold meta_process.
    assert (HLl : LB l) by (rewrite Forall_forall in HL; apply HL; exact Hin).
    destruct (mf_kind f) eqn:Ek.
    + destruct (py_int T v) as [z|e] eqn:Ez; cbn [bind].
      * split; [exact I|]. intros w H _ _. injection H as <-. exists z. split; [reflexivity|].
        eapply LB_int; [exact HLl | exists a, b; exact El | exact Hv | exact Ez].
      * apply py_int_err in Ez; subst e. split; [exact PV | discriminate].
    + split; [exact I | discriminate].
    + destruct (existsb _ _); (split; [first [exact I | exact PV] | discriminate]).
  - destruct (mf_required f).
    + split; [exact PM | discriminate].
    + split; [exact I | discriminate].
Qed.

Lemma meta_parse_fields_okP lines : Forall LB lines -> forall fs,
  (forall f, In f fs -> In f (meta_fields c)) -> eok P (meta_parse_fields c fs lines).
Proof.
  intros HL. induction fs as [|f fs IH]; intro Hsub; cbn [meta_parse_fields]; [exact I|].
  apply eok_bind; [apply meta_field_value_okP; [apply Hsub; left; reflexivity | exact HL]|].
  intros v _. apply eok_bind; [|intros; exact I]. apply IH. intros g Hg. apply Hsub. right; exact Hg.
Qed.

Lemma meta_okP lines :
  Forall LB lines ->
  eok P (meta_parse c lines) /\
  forall m, meta_parse c lines = Ok m -> exists R, meta_resolution m = Ok R /\ NB R.
Proof.
  intro HL. split; [apply meta_parse_fields_okP; [exact HL | auto]|].
  intros m Hm. destruct cfg_parts as (HC10 & _ & _).
  destruct (cfg_ok_C10_inv c HC10) as [_ H2b].
  unfold meta_parse in Hm. revert H2b Hm.
  destruct (meta_fields c) as [|f fs] eqn:Efs; unfold doc_table; cbn [forall2b]; [discriminate|].
  intros H2b Hm. apply andb_true_iff in H2b as [Hfm _].
  apply fmd_inv in Hfm as (Hn & _ & Hk & Hr & _).
  cbn [meta_parse_fields] in Hm.
  apply bind_ok in Hm as (v & Hv & Hm). apply bind_ok in Hm as (rest & _ & Hm). inversion Hm; subst m.
  assert (Hf : In f (meta_fields c)) by (rewrite Efs; left; reflexivity).
  destruct (meta_field_value_okP f lines Hf HL) as [_ H].
  destruct (H v Hv Hk Hr) as (z & -> & Hz).
  exists z. split; [|exact Hz].
  unfold meta_resolution. cbn [assoc]. rewrite Hn.
  change (of_string "resolution") with RESOLUTION. rewrite str_eqb_refl. reflexivity.
Qed.

(** ** The section framer *)
Definition dict_in (all : list str) (d : list (str * list str)) : Prop :=
  Forall (fun s => forall l, In l (snd s) -> In l all) d.

Lemma dict_set_in_all all k v d :
  dict_in all d -> (forall l, In l v -> In l all) -> dict_in all (dict_set k v d).
Proof.
  intros Hd Hv. induction Hd as [|[k' v'] d Hx Hd IH]; cbn [dict_set].
  - repeat constructor. exact Hv.
  - destruct (str_eqb k k'); constructor; try assumption.
Qed.

Lemma pstep_okP all st i line :
  dict_in all (ps_dict st) ->
  eok P (pstep c all st i line) /\ forall st', pstep c all st i line = Ok st' -> dict_in all (ps_dict st').
Proof.
  intro Hd. unfold pstep. destruct cfg_parts as (_ & Hchart & _).
  destruct (ps_tag st) as [tag|].
  - destruct (str_eqb line OPEN_BRACE).
    { split; [exact I|]. intros st' H; inversion H; subst. exact Hd. }
    destruct (str_eqb line CLOSE_BRACE).
    + split; [exact I|]. intros st' H; inversion H; subst. cbn [ps_dict].
      apply dict_set_in_all; [exact Hd|]. intros l Hl. unfold islice in Hl.
      apply In_firstn in Hl. apply In_skipn in Hl. exact Hl.
    + split; [exact I|]. intros st' H; inversion H; subst. exact Hd.
  - destruct (dec_header c line) as [tag|e] eqn:E; cbn [bind].
    + split; [exact I|]. intros st' H; inversion H; subst. exact Hd.
    + apply dec_header_err in E; [|apply cfg_ok_chart_header; exact Hchart]. subst e.
      split; [exact PR | discriminate].
Qed.

Lemma ploop_okP all : forall rest st i,
  dict_in all (ps_dict st) ->
  eok P (ploop c all st i rest) /\ forall st', ploop c all st i rest = Ok st' -> dict_in all (ps_dict st').
Proof.
  induction rest as [|l rest IH]; intros st i Hd; cbn [ploop].
  - split; [exact I|]. intros st' H; inversion H; subst. exact Hd.
  - destruct (pstep_okP all st i l Hd) as [H1 H2].
    destruct (pstep c all st i l) as [st1|e]; cbn [bind]; [|split; [exact H1 | discriminate]].
    apply IH. apply H2. reflexivity.
Qed.

Lemma partition_okP lines :
  eok P (partition c lines) /\ forall secs, partition c lines = Ok secs -> dict_in lines secs.
Proof.
  unfold partition.
  destruct (ploop_okP lines lines {| ps_tag := None; ps_first := None; ps_dict := [] |} O) as [H1 H2];
    [constructor|].
  destruct (ploop c lines _ O lines) as [st|e]; cbn [bind]; [|split; [exact H1 | discriminate]].
  split; [exact I|]. intros secs H; inversion H; subst. apply H2. reflexivity.
Qed.

Lemma sec_lookup_in lines secs tag body :
  Forall LB lines -> dict_in lines secs -> sec_lookup tag secs = Ok body -> Forall LB body.
Proof.
  intros HL Hd H. unfold sec_lookup in H. destruct (assoc tag secs) as [b|] eqn:E; [|discriminate].
  inversion H; subst. apply assoc_In in E. unfold dict_in in Hd. rewrite Forall_forall in *.
  intros l Hl. apply HL. exact (Hd _ E l Hl).
Qed.

(** ** The whole parse *)
Theorem from_file_okP text want :
  Forall LB (splitlines T text) -> eok P (from_file c text want).
Proof.
  intro HL. unfold from_file. cbv zeta.
  destruct (partition_okP (splitlines T text)) as [H1 H2].
  destruct (partition c (splitlines T text)) as [secs|e]; cbn [bind]; [|exact H1].
  specialize (H2 secs eq_refl).
  destruct (forallb _ (required_tags c)) eqn:Ereq; cbn [negb]; [|exact PV].
  destruct cfg_parts as (_ & Hchart & _).
  rewrite (cfg_ok_chart_required c Hchart) in Ereq. cbn [forallb] in Ereq.
  rewrite !andb_true_iff in Ereq. destruct Ereq as (E1 & E2 & E3 & _).
  unfold sec_lookup at 1.
  destruct (assoc (tag_song c) secs) as [song|] eqn:Es; [|discriminate]. cbn [bind].
  assert (Hsong : Forall LB song).
  { eapply (sec_lookup_in _ secs (tag_song c)); [exact HL | exact H2 |]. unfold sec_lookup. rewrite Es. reflexivity. }
  destruct (meta_okP song Hsong) as [M1 M2].
  destruct (meta_parse c song) as [meta|e]; cbn [bind]; [|exact M1].
  destruct (M2 meta eq_refl) as (R & ER & HR). rewrite ER. cbn [bind].
  unfold sec_lookup at 1.
  destruct (assoc (tag_sync c) secs) as [sl|] eqn:Esy; [|discriminate]. cbn [bind].
  assert (Hsl : Forall LB sl).
  { eapply (sec_lookup_in _ secs (tag_sync c)); [exact HL | exact H2 |]. unfold sec_lookup. rewrite Esy. reflexivity. }
  destruct (sync_okP R sl HR Hsl) as [S1 S2].
  destruct (sync_from_lines c R sl) as [[sync w1]|e]; cbn [bind]; [|exact S1].
  specialize (S2 sync w1 eq_refl).
  unfold sec_lookup at 1.
  destruct (assoc (tag_events c) secs) as [el|] eqn:Eev; [|discriminate]. cbn [bind].
  assert (Hel : Forall LB el).
  { eapply (sec_lookup_in _ secs (tag_events c)); [exact HL | exact H2 |]. unfold sec_lookup. rewrite Eev. reflexivity. }
  apply eok_bind; [apply globals_okP; assumption|]. intros [gev w2] _.
  apply eok_bind; [|intros [tracks logs] _; exact I].
  apply route_okP; [exact S2|].
  unfold dict_in in H2. rewrite Forall_forall in *. intros s Hs. rewrite Forall_forall.
  intros l Hl. apply HL. exact (H2 s Hs l Hl).
Qed.

End Skel.
