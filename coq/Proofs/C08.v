(** Proofs/C08.v — the sync-section recognisers (tempo, time signature, anchor) accept exactly
    the canonical shapes, the extractors return the written values, and the decoded values
    are the written ones (Spec/C08.v). *)
From CP Require Import Base.Prelude Base.Str Base.Regex Base.Cfg Base.Float64 Base.Timedelta
  Model.Lines Model.Sync Spec.RefRegex Spec.C07 Spec.FloatSpec Spec.C08 Proofs.RegexShapes.
From Coq Require Import Lia ZifyBool.
Open Scope Z_scope.
Open Scope string_scope.

Ltac Zify.zify_post_hook ::= Z.to_euclidean_division_equations.

(** The literals, as explicit code-point lists. *)
Lemma S_B : S_ " = B " = [32; 61; 32; 66; 32]%N.
Proof. reflexivity. Qed.
Lemma S_TS : S_ " = TS " = [32; 61; 32; 84; 83; 32]%N.
Proof. reflexivity. Qed.
Lemma S_A : S_ " = A " = [32; 61; 32; 65; 32]%N.
Proof. reflexivity. Qed.
Lemma S_sp : S_ " " = [32]%N.
Proof. reflexivity. Qed.

Section P.
Variable c : cfg.
Notation T := (tbl c).
Hypothesis HT : tables_ok T = true.

Notation wsF := (Forall (fun x => is_ws T x = true)).
Notation dgF := (Forall (fun x => is_digit T x = true)).

(** * The three languages *)
Lemma lang_bpm s : Lang T ref_bpm s <-> exists t n, bpm_shape c s t n.
Proof.
  unfold ref_bpm. rewrite Lang_head_lit. split.
  - intros (p & t & r & -> & Hp & Hne & Ht & Hr).
    apply Lang_seq_plus_dg in Hr as (n & p2 & -> & Hn1 & Hn2 & Hp2).
    apply (Lang_ws_eol T p2 (ws_LF T HT)) in Hp2.
    exists t, n, p, p2. split; [exact Hp|]. split; [exact Hp2|].
    split; [split; assumption|]. split; [split; assumption|]. reflexivity.
  - intros (t & n & p1 & p2 & Hp1 & Hp2 & [Hne Ht] & [Hn1 Hn2] & ->).
    exists p1, t, (n ++ p2). split; [reflexivity|]. split; [exact Hp1|].
    split; [exact Hne|]. split; [exact Ht|].
    apply Lang_seq_plus_dg. exists n, p2. split; [reflexivity|]. split; [exact Hn1|].
    split; [exact Hn2|]. apply (Lang_ws_eol T p2 (ws_LF T HT)). exact Hp2.
Qed.

Lemma lang_anchor s : Lang T ref_anchor s <-> exists t u, anchor_shape c s t u.
Proof.
  unfold ref_anchor. rewrite Lang_head_lit. split.
  - intros (p & t & r & -> & Hp & Hne & Ht & Hr).
    apply Lang_plus_dg_eol in Hr as (u & e & -> & Hu1 & Hu2 & He).
    exists t, u, p, e. split; [exact Hp|]. split; [exact He|].
    split; [split; assumption|]. split; [split; assumption|]. reflexivity.
  - intros (t & u & p1 & p2 & Hp1 & Hp2 & [Hne Ht] & [Hu1 Hu2] & ->).
    exists p1, t, (u ++ p2). split; [reflexivity|]. split; [exact Hp1|].
    split; [exact Hne|]. split; [exact Ht|].
    apply Lang_plus_dg_eol. exists u, p2. auto.
Qed.

(** The optional group of the time-signature recogniser: the two alternatives of [opt] give
    the two shapes.  No ambiguity arises: a pad is all white space, and white space and digits
    are disjoint ([tables_ok]), so a pad never starts with a blank followed by a digit; this is
    also why the extractor's test ([span digit] after the blank, remainder all white space)
    agrees with the shape in [C08_ts_accept] below, including the case [l = None]. *)
Lemma lang_ts s : Lang T ref_ts s <-> exists t u l, ts_shape c s t u l.
Proof.
  unfold ref_ts. rewrite Lang_head_lit. split.
  - intros (p & t & r & -> & Hp & Hne & Ht & Hr).
    apply Lang_seq_plus_dg in Hr as (u & r2 & -> & Hu1 & Hu2 & Hr2).
    apply Lang_seq_opt in Hr2 as [Hr2 | (a & p2 & -> & Ha & Hp2)].
    + apply (Lang_ws_eol T r2 (ws_LF T HT)) in Hr2.
      exists t, u, None, p, r2. split; [exact Hp|]. split; [exact Hr2|].
      split; [split; assumption|]. split; [split; assumption|]. reflexivity.
    + apply (Lang_ws_eol T p2 (ws_LF T HT)) in Hp2.
      apply Lang_seq_Ls in Ha as (l & -> & Hl). apply Lang_seq_one, Lang_plus_dg in Hl as [Hl1 Hl2].
      exists t, u, (Some l), p, p2. split; [exact Hp|]. split; [exact Hp2|].
      split; [split; assumption|]. split; [split; assumption|].
      split; [split; assumption|]. unfold S_. rewrite <- !app_assoc. reflexivity.
  - intros (t & u & l & p1 & p2 & Hp1 & Hp2 & [Hne Ht] & [Hu1 Hu2] & Hl).
    destruct l as [l|].
    + destruct Hl as ([Hl1 Hl2] & ->).
      exists p1, t, (u ++ (S_ " " ++ l) ++ p2). split; [rewrite <- !app_assoc; reflexivity|].
      split; [exact Hp1|]. split; [exact Hne|]. split; [exact Ht|].
      apply Lang_seq_plus_dg. exists u, ((S_ " " ++ l) ++ p2). split; [reflexivity|].
      split; [exact Hu1|]. split; [exact Hu2|].
      apply Lang_seq_opt. right. exists (S_ " " ++ l), p2. split; [reflexivity|]. split.
      * apply Lang_seq_Ls. exists l. split; [reflexivity|]. apply Lang_seq_one, Lang_plus_dg. auto.
      * apply (Lang_ws_eol T p2 (ws_LF T HT)). exact Hp2.
    + subst s.
      exists p1, t, (u ++ p2). split; [reflexivity|].
      split; [exact Hp1|]. split; [exact Hne|]. split; [exact Ht|].
      apply Lang_seq_plus_dg. exists u, p2. split; [reflexivity|].
      split; [exact Hu1|]. split; [exact Hu2|].
      apply Lang_seq_opt. left. apply (Lang_ws_eol T p2 (ws_LF T HT)). exact Hp2.
Qed.

(** The head of a line whose literal starts with a blank. *)
Lemma head_tick_blank p t r :
  wsF p -> t <> [] -> dgF t -> head_tick c (p ++ t ++ 32%N :: r) = (t, 32%N :: r).
Proof.
  intros Hp Hne Ht. apply head_tick_shape; auto. apply (hf_digit_blank T HT).
Qed.

End P.

Section Main.
Variable c : cfg.
Notation T := (tbl c).

(** * Exactly the canonical shapes *)
Lemma C08_bpm_only : C08_bpm_only_stmt c.
Proof.
  intros Hc s. destruct (cfg_ok_sync_inv c Hc) as (HT & Eb & Ets & Ea & Hd).
  rewrite Eb, matchb_correct. apply lang_bpm; exact HT.
Qed.

Lemma C08_ts_only : C08_ts_only_stmt c.
Proof.
  intros Hc s. destruct (cfg_ok_sync_inv c Hc) as (HT & Eb & Ets & Ea & Hd).
  rewrite Ets, matchb_correct. apply lang_ts; exact HT.
Qed.

Lemma C08_anchor_only : C08_anchor_only_stmt c.
Proof.
  intros Hc s. destruct (cfg_ok_sync_inv c Hc) as (HT & Eb & Ets & Ea & Hd).
  rewrite Ea, matchb_correct. apply lang_anchor; exact HT.
Qed.

(** * Acceptance with the written values *)
Lemma C08_bpm_accept : C08_bpm_accept_stmt c.
Proof.
  intros Hc s t n Hsh Hst.
  destruct (cfg_ok_sync_inv c Hc) as (HT & Eb & Ets & Ea & Hd).
  assert (Hm : matchb T (re_bpm c) s = true) by (apply (C08_bpm_only Hc); eauto).
  destruct Hsh as (p1 & p2 & Hp1 & Hp2 & [Hne Ht] & [Hn1 Hn2] & ->).
  unfold dec. cbn [re_of_kind]. rewrite Hm.
  unfold extract. rewrite S_B. cbn [app].
  rewrite (head_tick_blank c HT p1 t _ Hp1 Hne Ht).
  rewrite (py_int_short T t Hst). cbn [bind skipn].
  rewrite (span_app _ n p2 Hn2 (hf_digit_of_ws T HT p2 Hp2)). reflexivity.
Qed.

Lemma C08_anchor_accept : C08_anchor_accept_stmt c.
Proof.
  intros Hc s t u Hsh Hst Hsu.
  destruct (cfg_ok_sync_inv c Hc) as (HT & Eb & Ets & Ea & Hd).
  assert (Hm : matchb T (re_anchor c) s = true) by (apply (C08_anchor_only Hc); eauto).
  destruct Hsh as (p1 & p2 & Hp1 & Hp2 & [Hne Ht] & [Hu1 Hu2] & ->).
  unfold dec. cbn [re_of_kind]. rewrite Hm.
  unfold extract. rewrite S_A. cbn [app].
  rewrite (head_tick_blank c HT p1 t _ Hp1 Hne Ht).
  rewrite (py_int_short T t Hst). cbn [bind skipn].
  rewrite (span_app _ u p2 Hu2 (hf_digit_eol T HT p2 Hp2)).
  rewrite (py_int_short T u Hsu). reflexivity.
Qed.

Lemma C08_ts_accept : C08_ts_accept_stmt c.
Proof.
  intros Hc s t u l Hsh Hst Hsu Hsl.
  destruct (cfg_ok_sync_inv c Hc) as (HT & Eb & Ets & Ea & Hd).
  assert (Hm : matchb T (re_ts c) s = true) by (apply (C08_ts_only Hc); eauto).
  destruct Hsh as (p1 & p2 & Hp1 & Hp2 & [Hne Ht] & [Hu1 Hu2] & Hl).
  unfold dec. cbn [re_of_kind]. rewrite Hm. clear Hm.
  destruct l as [l|].
  - destruct Hl as ([Hl1 Hl2] & ->).
    unfold extract. rewrite S_TS, S_sp. cbn [app].
    rewrite (head_tick_blank c HT p1 t _ Hp1 Hne Ht).
    rewrite (py_int_short T t Hst). cbn [bind skipn].
    rewrite (span_app _ u (32%N :: l ++ p2) Hu2 (hf_digit_blank T HT _)).
    rewrite (py_int_short T u Hsu). cbn [bind].
    rewrite (span_app _ l p2 Hl2 (hf_digit_of_ws T HT p2 Hp2)).
    change (N.eqb 32 SPACE) with true.
    replace (Nat.eqb (length l) 0) with false by (destruct l; [congruence | reflexivity]).
    rewrite (proj2 (all_ws_iff c p2) Hp2). cbn [andb negb].
    rewrite (py_int_short T l Hsl). reflexivity.
  - subst s.
    unfold extract. rewrite S_TS. cbn [app].
    rewrite (head_tick_blank c HT p1 t _ Hp1 Hne Ht).
    rewrite (py_int_short T t Hst). cbn [bind skipn].
    rewrite (span_app _ u p2 Hu2 (hf_digit_of_ws T HT p2 Hp2)).
    rewrite (py_int_short T u Hsu). cbn [bind].
    destruct p2 as [|sp r']; [reflexivity|].
    inversion Hp2 as [|? ? Hsp Hr']; subst.
    rewrite (span_head_fails _ r' (hf_digit_of_ws T HT r' Hr')).
    cbn [length Nat.eqb negb]. rewrite andb_false_r. reflexivity.
Qed.

(** * The three recognisers are pairwise disjoint *)
Lemma head_of_match lit l s :
  tables_ok T = true -> Lang T (seq (head ++ Ls lit ++ l)) s ->
  exists p t r, s = p ++ t ++ of_string lit ++ r /\
    Forall (fun x => is_ws T x = true) p /\ t <> [] /\ Forall (fun x => is_digit T x = true) t.
Proof.
  intros HT H. apply Lang_head_lit in H as (p & t & r & E & Hp & Hne & Ht & _).
  exists p, t, r. auto.
Qed.

Lemma C08_disjoint : C08_disjoint_stmt c.
Proof.
  intros Hc s. destruct (cfg_ok_sync_inv c Hc) as (HT & Eb & Ets & Ea & Hd).
  rewrite Eb, Ets, Ea, !matchb_correct.
  assert (Hb : Lang T ref_bpm s -> exists p t r, s = p ++ t ++ [32; 61; 32; 66]%N ++ r /\
            Forall (fun x => is_ws T x = true) p /\ t <> [] /\ Forall (fun x => is_digit T x = true) t).
  { intro H. apply (head_of_match _ _ _ HT) in H as (p & t & r & E & H).
    exists p, t, (32%N :: r). split; [exact E | exact H]. }
  assert (Hts : Lang T ref_ts s -> exists p t r, s = p ++ t ++ [32; 61; 32; 84]%N ++ r /\
            Forall (fun x => is_ws T x = true) p /\ t <> [] /\ Forall (fun x => is_digit T x = true) t).
  { intro H. apply (head_of_match _ _ _ HT) in H as (p & t & r & E & H).
    exists p, t, (83%N :: 32%N :: r). split; [exact E | exact H]. }
  assert (Ha : Lang T ref_anchor s -> exists p t r, s = p ++ t ++ [32; 61; 32; 65]%N ++ r /\
            Forall (fun x => is_ws T x = true) p /\ t <> [] /\ Forall (fun x => is_digit T x = true) t).
  { intro H. apply (head_of_match _ _ _ HT) in H as (p & t & r & E & H).
    exists p, t, (32%N :: r). split; [exact E | exact H]. }
  assert (U : forall x y p t r p' t' r',
            s = p ++ t ++ [32; 61; 32; x]%N ++ r -> s = p' ++ t' ++ [32; 61; 32; y]%N ++ r' ->
            Forall (fun x => is_ws T x = true) p -> t <> [] -> Forall (fun x => is_digit T x = true) t ->
            Forall (fun x => is_ws T x = true) p' -> t' <> [] -> Forall (fun x => is_digit T x = true) t' ->
            x = y).
  { intros x y p t r p' t' r' E E' Hp Hne Ht Hp' Hne' Ht'. rewrite E in E'. cbn [app] in E'.
    destruct (head_unique T HT p t _ p' t' _ Hp Hne Ht (hf_digit_blank T HT _)
                Hp' Hne' Ht' (hf_digit_blank T HT _) E') as (_ & _ & E3).
    inversion E3. reflexivity. }
  split; [|split].
  - intros [H1 H2]. apply Hb in H1 as (p & t & r & E & Hp & Hne & Ht).
    apply Hts in H2 as (p' & t' & r' & E' & Hp' & Hne' & Ht').
    pose proof (U _ _ _ _ _ _ _ _ E E' Hp Hne Ht Hp' Hne' Ht'). discriminate.
  - intros [H1 H2]. apply Hb in H1 as (p & t & r & E & Hp & Hne & Ht).
    apply Ha in H2 as (p' & t' & r' & E' & Hp' & Hne' & Ht').
    pose proof (U _ _ _ _ _ _ _ _ E E' Hp Hne Ht Hp' Hne' Ht'). discriminate.
  - intros [H1 H2]. apply Hts in H1 as (p & t & r & E & Hp & Hne & Ht).
    apply Ha in H2 as (p' & t' & r' & E' & Hp' & Hne' & Ht').
    pose proof (U _ _ _ _ _ _ _ _ E E' Hp Hne Ht Hp' Hne' Ht'). discriminate.
Qed.

(** * Values *)
Lemma C08_ts_value : C08_ts_value_stmt c.
Proof.
  intros Hd t u l. unfold ts_payload. destruct l as [l|]; [reflexivity | rewrite Hd; reflexivity].
Qed.

Lemma C08_anchor_value : C08_anchor_value_stmt.
Proof.
  intros t us Hus. unfold anchor_from, td_of_us, td_check.
  replace (td_in_range us) with true; [reflexivity|].
  symmetry. unfold td_in_range, us_per_day, us_per_second, max_days.
  apply andb_true_iff. split; [apply Z.leb_le | apply Z.leb_le]; lia.
Qed.

Lemma decode_bpm_ok raw n :
  py_int T raw = Ok n -> 1 <= n < 2 ^ 52 -> decode_bpm T raw = Ok (bpm_of_n n).
Proof.
  intros Hpy Hn. unfold decode_bpm. rewrite Hpy. cbn [bind].
  unfold py_truediv_int. change (1000 =? 0) with false. cbv iota.
  change (Z.abs 1000 <=? two53) with true.
  replace (Z.abs n <=? two53) with true; [reflexivity|].
  symmetry. apply Z.leb_le. unfold two53. change (2 ^ 52) with 4503599627370496 in Hn. lia.
Qed.

Lemma C08_bpm_value : C08_bpm_value_stmt c.
Proof.
  intros HF raw n tick prev R e Hpy Hn H.
  unfold bpm_from_data in H. rewrite (decode_bpm_ok raw n Hpy Hn) in H. cbn [bind] in H.
  apply bind_ok in H as ([ts idx] & _ & H).
  apply bind_ok in H as (u & _ & H). inversion H; subst e. cbn [b_bpm b_tick]. split; reflexivity.
Qed.

Lemma C08_bpm_first : C08_bpm_first_stmt c.
Proof.
  intros HF raw n tick R Hpy Hn.
  destruct (HF n Hn) as (_ & _ & _ & _ & Hchk).
  unfold bpm_from_data. rewrite (decode_bpm_ok raw n Hpy Hn). cbn [bind].
  rewrite Hchk. reflexivity.
Qed.

End Main.
