(** Proofs/C18Aux.v — helper lemmas for Proofs/C18.v: the "value or allowed error" predicate,
    structural facts about the tempo query, the star-power cursor and the tempo build which hold for
    every input (indices stay inside their lists, every stored timestamp went through [td_check],
    every decoded tempo is finite). *)
From CP Require Import Base.Prelude Base.Str Base.Regex Base.Cfg Base.Float64 Base.Timedelta
  Model.Lines Model.Sync Model.Instrument Model.Chart Spec.FloatSpec Spec.C11 Spec.C15.
From CP Require Import Proofs.FloatBase Proofs.C05 Proofs.C11 Proofs.C15.
From Coq Require Import Reals Lra Lia.
From Flocq Require Import Core.Core IEEE754.BinarySingleNaN.
Open Scope Z_scope.

(** * Value or allowed error *)
Definition eok {A} (P : errkind -> Prop) (r : result A) : Prop :=
  match r with Ok _ => True | Err e => P e end.

Lemma eok_bind {A B} P (r : result A) (f : A -> result B) :
  eok P r -> (forall a, r = Ok a -> eok P (f a)) -> eok P (bind r f).
Proof. destruct r as [a|e]; simpl; intros H1 H2; [apply H2; reflexivity | exact H1]. Qed.

Lemma eok_weaken {A} (P Q : errkind -> Prop) (r : result A) :
  (forall e, P e -> Q e) -> eok P r -> eok Q r.
Proof. destruct r; simpl; auto. Qed.

Lemma eok_ok {A} P (a : A) : eok P (Ok a).
Proof. exact I. Qed.

Lemma ve_eok {A} (P : errkind -> Prop) (r : result A) :
  P EValue -> P EOverflow -> ve r -> eok P r.
Proof. destruct r as [a|e]; simpl; [auto|]. intros H1 H2 [-> | ->]; assumption. Qed.

Lemma eok_mapM {A B} P (f : A -> result B) (l : list A) :
  Forall (fun x => eok P (f x)) l -> eok P (mapM f l).
Proof.
  induction 1 as [|x l Hx _ IH]; cbn [mapM]; [exact I|].
  apply eok_bind; [exact Hx|]. intros y _. apply eok_bind; [exact IH|]. intros ys _. exact I.
Qed.

Lemma mapM_ok_Forall2 {A B} (f : A -> result B) : forall l out,
  mapM f l = Ok out -> Forall2 (fun x y => f x = Ok y) l out.
Proof.
  induction l as [|x l IH]; intros out H; cbn [mapM] in H.
  - inversion H; constructor.
  - apply bind_ok in H as (y & Hy & H). apply bind_ok in H as (ys & Hys & H). inversion H; subst.
    constructor; [exact Hy | apply IH; exact Hys].
Qed.

(** * The tempo query: indices stay inside the list *)
Lemma nth_Z_Some_nonneg {A} (l : list A) i x : nth_Z l i = Some x -> 0 <= i.
Proof. unfold nth_Z. destruct (i <? 0) eqn:E; [discriminate|]. intros _. apply Z.ltb_ge in E. exact E. Qed.

Lemma nth_Z_In {A} (l : list A) i x : nth_Z l i = Some x -> In x l.
Proof. unfold nth_Z. destruct (i <? 0); [discriminate|]. apply nth_error_In. Qed.

Lemma index_of_proximal_cases es t h :
  0 <= h ->
  index_of_proximal es t h = Err EValue \/
  exists idx p, index_of_proximal es t h = Ok idx /\ nth_Z es idx = Some p /\ b_tick p <= t /\ 0 <= idx.
Proof.
  intro Hh. destruct (index_of_proximal es t h) as [idx|e] eqn:E.
  - right. destruct (index_of_proximal_ok_le _ _ _ _ E) as (p & Hp & Hle).
    exists idx, p. repeat split; try assumption. eapply nth_Z_Some_nonneg; exact Hp.
  - left. unfold index_of_proximal in E.
    destruct (h <? 0) eqn:E0; [apply Z.ltb_lt in E0; lia|].
    destruct (Zlength_ es - 1 <? h) eqn:E1; [symmetry; exact E|]. apply Z.ltb_ge in E1.
    destruct (skipn (Z.to_nat h) es) as [|first rest] eqn:Esk.
    + exfalso. pose proof (skipn_length (Z.to_nat h) es) as Hl. rewrite Esk in Hl. cbn [length] in Hl.
      unfold Zlength_ in E1. lia.
    + destruct (t <? b_tick first); [symmetry; exact E | discriminate E].
Qed.

Lemma time_add_seconds_range ts s u : time_add_seconds ts s = Ok u -> td_in_range u = true.
Proof.
  unfold time_add_seconds. intro H. apply bind_ok in H as (d & _ & H).
  unfold td_add, td_check in H. destruct (td_in_range (ts + d)) eqn:E; [|discriminate].
  inversion H; subst. exact E.
Qed.

Lemma ts_ok_range B t h ts idx :
  timestamp_at_tick B t h = Ok (ts, idx) -> td_in_range ts = true /\ 0 <= idx.
Proof.
  intro H. apply timestamp_at_tick_ok_inv in H as (Hi & p & s & Hn & _ & Ht). split.
  - eapply time_add_seconds_range; exact Ht.
  - eapply nth_Z_Some_nonneg; exact Hn.
Qed.

(** The general shape of a query: an index error is impossible; everything else is decided by
    the governing event [p], the distance to it and the two conversions. *)
Lemma ts_shape (P : errkind -> Prop) B t h :
  P EValue -> 0 <= h ->
  (forall p, In p (evs B) -> b_tick p <= t ->
     eok P (let* s := seconds (tick_between (b_tick p) t) (b_bpm p) (resolution B) in
            time_add_seconds (b_ts p) s)) ->
  eok P (timestamp_at_tick B t h).
Proof.
  intros PV Hh Hp. unfold timestamp_at_tick.
  destruct (index_of_proximal_cases (evs B) t h Hh) as [E | (idx & p & E & Hn & Hle & _)]; rewrite E; cbn [bind].
  - exact PV.
  - rewrite Hn. specialize (Hp p (nth_Z_In _ _ _ Hn) Hle).
    destruct (seconds _ _ _) as [s|e]; cbn [bind] in *; [|exact Hp].
    destruct (time_add_seconds (b_ts p) s) as [u|e]; cbn [bind] in *; [exact I | exact Hp].
Qed.

(** * The star-power cursor never leaves the list *)
Lemma compute_sp_cases sps t i :
  0 <= i ->
  compute_sp sps t i = Err EValue \/
  exists o j, compute_sp sps t i = Ok (o, j) /\ 0 <= j.
Proof.
  intro Hi. destruct sps as [|x xs] eqn:Esps.
  { right. exists None, 0. split; [reflexivity | lia]. }
  rewrite <- Esps. assert (Hne0 : sps <> []) by (rewrite Esps; discriminate). clear Esps x xs.
  destruct (Zlength_ sps <=? i) eqn:E1.
  { left. unfold compute_sp. destruct sps; [congruence|]. rewrite E1. reflexivity. }
  apply Z.leb_gt in E1. right.
  set (n := Z.to_nat i).
  assert (Hn : (n < length sps)%nat) by (unfold Zlength_ in E1; lia).
  assert (Hpre : Zlength_ (firstn n sps) = i).
  { unfold Zlength_. rewrite firstn_length. lia. }
  assert (Hsuf : skipn n sps <> []).
  { intro E. pose proof (skipn_length n sps) as Hl. rewrite E in Hl. cbn [length] in Hl. lia. }
  assert (E : compute_sp sps t i =
              compute_sp (firstn n sps ++ skipn n sps) t (Zlength_ (firstn n sps)))
    by (rewrite firstn_skipn, Hpre; reflexivity).
  rewrite E. clear E.
  rewrite compute_sp_unfold by exact Hsuf. cbv zeta.
  destruct (sp_scan_split (skipn n sps) (Zlength_ (firstn n sps)) t Hsuf)
    as (pre2 & p & suf2 & Heq & Hscan & _ & _).
  rewrite Hscan, Heq, <- Zlength_app, app_assoc, nth_Z_app_mid.
  rewrite Zlength_app, Hpre. pose proof (Zlength_nonneg pre2).
  destruct (tick_is_during p t); eexists; eexists; (split; [reflexivity | lia]).
Qed.

(** * Decoded tempos are finite; built tempo lists hold decoded tempos and checked timestamps *)
Lemma decoded_finite b : decoded b -> is_finite b = true.
Proof.
  intros [n [Hn Eb]].
  assert (H1000 : B2R (of_Z 1000) = 1000%R) by (apply of_Z_B2R; lia).
  assert (Hb : (Rabs (IZR n) <= bpow radix2 53)%R).
  { rewrite <- abs_IZR, <- IZR_pow2 by lia. apply IZR_le. exact Hn. }
  destruct (fdiv_correct (of_Z n) (of_Z 1000)) as (Hv & Hf & _).
  - apply of_Z_finite; exact Hn.
  - apply of_Z_finite; lia.
  - rewrite H1000. lra.
  - rewrite H1000, of_Z_B2R by exact Hn.
    unfold Rdiv. rewrite Rabs_mult. rewrite (Rabs_pos_eq (/ 1000)) by lra.
    apply Rle_trans with (bpow radix2 53); [|apply bpow_le; lia].
    assert (0 <= Rabs (IZR n))%R by apply Rabs_pos. lra.
  - rewrite Eb. exact Hf.
Qed.

Definition bev_ok (e : bpm_event) : Prop := decoded (b_bpm e) /\ td_in_range (b_ts e) = true.

Lemma td_in_range_0 : td_in_range 0 = true.
Proof. reflexivity. Qed.

Lemma bpm_from_data_bev T tick raw prev R e :
  bpm_from_data T tick raw prev R = Ok e -> bev_ok e.
Proof.
  intro H. split.
  - apply bpm_from_data_ok_inv in H as (_ & _ & bpm & Hd & Hb & _). rewrite Hb.
    eapply decode_bpm_decoded; exact Hd.
  - unfold bpm_from_data in H.
    apply bind_ok in H as (bpm & _ & H). apply bind_ok in H as ([ts idx] & Hp & H).
    apply bind_ok in H as (u & _ & H). inversion H; subst e. cbn [b_ts].
    destruct prev as [p|].
    + destruct (tick <=? b_tick p); [discriminate|].
      apply bind_ok in Hp as (s & _ & Hp). apply bind_ok in Hp as (d & _ & Hp).
      apply bind_ok in Hp as (ts' & Hadd & Hp). inversion Hp; subst.
      unfold td_add, td_check in Hadd. destruct (td_in_range (b_ts p + d)) eqn:E; [|discriminate].
      inversion Hadd; subst. exact E.
    + inversion Hp; subst. exact td_in_range_0.
Qed.

Lemma build_bpm_list_bev T R : forall datas prev es,
  build_bpm_list T datas prev R = Ok es -> Forall bev_ok es.
Proof.
  induction datas as [|[tick raw] ds IH]; intros prev es H; cbn [build_bpm_list] in H.
  - inversion H; constructor.
  - apply bind_ok in H as (e & He & H). apply bind_ok in H as (es' & Hes & H). inversion H; subst.
    constructor; [eapply bpm_from_data_bev; exact He | eapply IH; exact Hes].
Qed.

Lemma build_bpm_events_bev T datas R B :
  build_bpm_events T datas R = Ok B -> Forall bev_ok (evs B) /\ resolution B = R /\ 0 < R.
Proof.
  intro H. apply build_bpm_events_ok_inv in H as (es & Hl & Hm).
  apply mk_bpm_events_ok_inv in Hm as (HR & Hev & Hres & _). rewrite Hev.
  split; [eapply build_bpm_list_bev; exact Hl | auto].
Qed.

(** * Stage A leaves: errors of the numeric operations, for arbitrary numerals *)
Section StageA.
Variable P : errkind -> Prop.
Hypothesis PV : P EValue.
Hypothesis PO : P EOverflow.
Hypothesis PU : P EUnmodelled.

Lemma py_int_eok T s : eok P (py_int T s).
Proof. unfold py_int. destruct (Nat.ltb _ _); [exact PV | exact I]. Qed.

Lemma py_truediv_int_eok a b : b <> 0 -> eok P (py_truediv_int a b).
Proof.
  intro Hb. unfold py_truediv_int. replace (b =? 0) with false by (symmetry; apply Z.eqb_neq; exact Hb).
  destruct (_ && _)%bool; [exact I | exact PU].
Qed.

Lemma py_round_int_eok x : eok P (py_round_int x).
Proof. destruct x; simpl; auto. Qed.

Lemma note_duration_eok R : eok P (note_duration_to_ticks R 3).
Proof.
  unfold note_duration_to_ticks. apply eok_bind; [apply py_truediv_int_eok; lia|].
  intros q _. apply py_round_int_eok.
Qed.

Lemma decode_bpm_eok T raw : eok P (decode_bpm T raw).
Proof.
  unfold decode_bpm. apply eok_bind; [apply py_int_eok|]. intros n _. apply py_truediv_int_eok. lia.
Qed.

Lemma py_round3_eok x : eok P (py_round3 x).
Proof.
  destruct x as [s|s| |s m e Hb]; simpl; auto.
  destruct (0 <=? e); [exact I|]. destruct (_ =? 0); [exact I|]. destruct (_ <=? two53); [exact I | exact PU].
Qed.

Lemma check_bpm_eok b : eok P (check_bpm_3dp b).
Proof.
  unfold check_bpm_3dp. apply eok_bind; [apply py_round3_eok|]. intros r _.
  destruct (f_eq r b); [exact I | exact PV].
Qed.

Lemma td_check_eok v : eok P (td_check v).
Proof. unfold td_check. destruct (td_in_range v); [exact I | exact PO]. Qed.

(** One segment: seconds, conversion, addition — for a decoded tempo. *)
Lemma seg_add_eok dt b R ts :
  decoded b -> 0 <= dt ->
  eok P (let* s := seconds dt b R in time_add_seconds ts s).
Proof.
  intros Hd Hdt. destruct (seconds_ve dt b R Hd Hdt) as [Hve Hsign].
  apply eok_bind; [apply ve_eok; assumption|]. intros s Hs.
  unfold time_add_seconds. apply eok_bind.
  - apply ve_eok; [exact PV | exact PO |]. apply ve_td_of_seconds. exact (Hsign s Hs).
  - intros d _. apply td_check_eok.
Qed.

Definition bpm_dec (B : bpm_events) : Prop := Forall (fun e => decoded (b_bpm e)) (evs B).

Lemma ts_eok_A B t h : bpm_dec B -> 0 <= h -> eok P (timestamp_at_tick B t h).
Proof.
  intros HB Hh. apply ts_shape; [exact PV | exact Hh |].
  intros p Hin _. apply seg_add_eok.
  - unfold bpm_dec in HB. rewrite Forall_forall in HB. exact (HB p Hin).
  - unfold tick_between. lia.
Qed.

Lemma bpm_from_data_eok_A T tick raw prev R :
  (forall p, prev = Some p -> decoded (b_bpm p)) ->
  eok P (bpm_from_data T tick raw prev R).
Proof.
  intro Hprev. unfold bpm_from_data.
  apply eok_bind; [apply decode_bpm_eok|]. intros bpm _.
  apply eok_bind.
  - destruct prev as [p|]; [|exact I].
    destruct (tick <=? b_tick p); [exact PV|].
    assert (H0 : 0 <= tick_between (b_tick p) tick) by (unfold tick_between; lia).
    destruct (seconds_ve (tick_between (b_tick p) tick) (b_bpm p) R (Hprev p eq_refl) H0) as [Hve Hsign].
    apply eok_bind; [apply ve_eok; assumption|]. intros s Hs.
    apply eok_bind; [apply ve_eok; [exact PV | exact PO | apply ve_td_of_seconds; exact (Hsign s Hs)]|].
    intros d _. apply eok_bind; [apply td_check_eok|]. intros ts _. exact I.
  - intros [ts idx] _. apply eok_bind; [apply check_bpm_eok|]. intros _ _. exact I.
Qed.

Lemma build_bpm_list_eok_A T R : forall datas prev,
  (forall p, prev = Some p -> decoded (b_bpm p)) ->
  eok P (build_bpm_list T datas prev R).
Proof.
  induction datas as [|[tick raw] ds IH]; intros prev Hprev; cbn [build_bpm_list]; [exact I|].
  apply eok_bind; [apply bpm_from_data_eok_A; exact Hprev|]. intros e He.
  apply eok_bind.
  - apply IH. intros p Ep. inversion Ep; subst p. apply (bpm_from_data_bev _ _ _ _ _ _ He).
  - intros es _. exact I.
Qed.

Lemma build_bpm_events_eok_A T datas R : eok P (build_bpm_events T datas R).
Proof.
  unfold build_bpm_events. apply eok_bind; [apply build_bpm_list_eok_A; discriminate|].
  intros es _. apply ve_eok; [exact PV | exact PO | apply ve_mk_bpm_events].
Qed.

End StageA.

Lemma bev_bpm_dec B : Forall bev_ok (evs B) -> bpm_dec B.
Proof. unfold bpm_dec. apply Forall_impl. intros a [H _]. exact H. Qed.
