(** Proofs/C18AuxRe.v — the two "model declines" branches ([Err EUnmodelled]) of
    [meta_field_value] and [dec_header] are unreachable once the corresponding reference
    regular expression has accepted the line. *)
From CP Require Import Base.Prelude Base.Str Base.Regex Base.Cfg Model.Lines Model.Chart
  Spec.RefRegex Spec.C07 Spec.C10.
From CP Require Import Proofs.RegexShapes Proofs.C10.
From Coq Require Import Lia.
Open Scope Z_scope.
Open Scope string_scope.

(** * (A) [lazy_prefix] never fails when some admissible split exists *)
Lemma lazy_prefix_exists okc min rem v r :
  Forall (fun x => okc x = true) v -> (min <= length v)%nat -> rem r = true ->
  exists v' r', lazy_prefix okc min rem (v ++ r) = Some (v', r').
Proof.
  intro Hv. revert min. induction Hv as [|x v Hx Hv IH]; intros min Hmin Hr.
  - cbn [length] in Hmin. assert (min = 0)%nat by lia. subst min. cbn [app].
    exists [], r. destruct r as [|y r]; cbn [lazy_prefix]; rewrite Hr; reflexivity.
  - cbn [app]. destruct min as [|m]; cbn [lazy_prefix].
    + destruct (rem (x :: v ++ r)); [eauto|].
      rewrite Hx. destruct (IH 0%nat ltac:(lia) Hr) as (v' & r' & E). rewrite E. eauto.
    + rewrite Hx. cbn [length] in Hmin.
      destruct (IH m ltac:(lia) Hr) as (v' & r' & E). rewrite E. eauto.
Qed.

(** * (B) the metadata capture on an accepted line *)
Section Meta.
Variable c : cfg.
Notation T := (tbl c).

Lemma meta_capture_some f l :
  cfg_ok_meta c = true -> In f (meta_fields c) -> accepts c f l = true ->
  exists v, meta_capture c f l = Some v /\
            Forall (fun x => meta_value_ok c (mf_kind f) x = true) v /\
            (exists a b, l = a ++ v ++ b).
Proof.
  intros Hok Hf Hacc.
  destruct (cfg_ok_meta_inv c Hok) as (HT & Hfs & _).
  destruct (Hfs f Hf) as (_ & Hne & Hnm).
  apply (accepts_iff c f l Hok Hf) in Hacc
    as (p1 & q1 & v0 & q2 & p2 & -> & Hp1 & Hp2 & Hvne & Hv).
  assert (Hv' : Forall (fun x => meta_value_ok c (mf_kind f) x = true) v0).
  { revert Hv. apply Forall_impl. intro a. rewrite kcls_meta_value_ok. auto. }
  clear Hv.
  pose proof (rem_opt_qs c q2 p2 Hp2) as Hr.
  set (tail := qs q2 ++ p2) in *. clearbody tail.
  assert (Hlen : (1 <= length v0)%nat) by (destruct v0; [congruence | cbn [length]; lia]).
  destruct (lazy_prefix_exists (meta_value_ok c (mf_kind f)) 1 (rem_optquote_ws c) v0 tail
              Hv' Hlen Hr) as (w & rw & Htry).
  unfold meta_capture. cbv zeta.
  rewrite dropwhile_app; [| exact Hp1 |].
  2:{ destruct (mf_pascal f) as [|a nm]; [congruence|]. inversion Hnm; subst.
      cbn [app]. apply H1. }
  replace (length (mf_pascal f) + 3)%nat with (length (mf_pascal f ++ S_ " = "))
    by (rewrite app_length; reflexivity).
  rewrite (app_assoc (mf_pascal f)), skipn_len_app.
  destruct q1; cbn [qs app].
  - rewrite N.eqb_refl, Htry. exists w.
    apply lazy_prefix_sound in Htry as (E & Hw & _ & _).
    split; [reflexivity | split; [exact Hw|]].
    exists (p1 ++ (mf_pascal f ++ S_ " = ") ++ [QUOTE]), rw.
    rewrite E. rewrite <- !app_assoc. reflexivity.
  - destruct v0 as [|x v']; [congruence|]. cbn [app].
    change (x :: v' ++ tail) with ((x :: v') ++ tail).
    destruct (N.eqb x QUOTE).
    + destruct (lazy_prefix (meta_value_ok c (mf_kind f)) 1 (rem_optquote_ws c) (v' ++ tail))
        as [[w2 r2]|] eqn:E2.
      * exists w2. apply lazy_prefix_sound in E2 as (E & Hw & _ & _).
        split; [reflexivity | split; [exact Hw|]].
        exists (p1 ++ (mf_pascal f ++ S_ " = ") ++ [x]), r2.
        cbn [app]. rewrite E. rewrite <- !app_assoc. reflexivity.
      * rewrite Htry. exists w.
        apply lazy_prefix_sound in Htry as (E & Hw & _ & _).
        split; [reflexivity | split; [exact Hw|]].
        exists (p1 ++ mf_pascal f ++ S_ " = "), rw.
        rewrite E. rewrite <- !app_assoc. reflexivity.
    + rewrite Htry. exists w.
      apply lazy_prefix_sound in Htry as (E & Hw & _ & _).
      split; [reflexivity | split; [exact Hw|]].
      exists (p1 ++ mf_pascal f ++ S_ " = "), rw.
      rewrite E. rewrite <- !app_assoc. reflexivity.
Qed.

(** * (C) the section header decoder on an accepted line *)
Lemma dec_header_accepts l :
  re_header c = ref_header -> matchb T (re_header c) l = true ->
  exists tag, dec_header c l = Ok tag.
Proof.
  intros Hre Hm. unfold dec_header. rewrite Hm.
  rewrite Hre in Hm. apply matchb_correct in Hm. unfold ref_header in Hm.
  apply Lang_seq_Ls in Hm as (w1 & -> & Hm).
  cbn [app] in Hm. apply Lang_seq_plus_cls in Hm as (x & b & -> & Hxne & Hx & Hm).
  apply (Lang_seq_Ls T "]" [eol]) in Hm as (e & -> & Hm).
  cbn [seq] in Hm. apply Lang_eol in Hm.
  change (tl (of_string "[" ++ x ++ of_string "]" ++ e)) with (x ++ 93%N :: e).
  match goal with |- context [lazy_prefix ?okc ?min ?rem _] =>
    destruct (lazy_prefix_exists okc min rem x (93%N :: e)) as (v' & r' & E)
  end.
  - revert Hx. apply Forall_impl. intros a Ha. apply cls_mem_dot in Ha. unfold not_lf.
    destruct (N.eqb_spec a LF); [contradiction | reflexivity].
  - destruct x; [congruence | cbn [length]; lia].
  - destruct Hm as [-> | ->]; reflexivity.
  - rewrite E. eauto.
Qed.

Lemma dec_header_err l e :
  re_header c = ref_header -> dec_header c l = Err e -> e = ERegexNotMatch.
Proof.
  intros Hre H. destruct (matchb T (re_header c) l) eqn:Hm.
  - destruct (dec_header_accepts l Hre Hm) as (tag & E). rewrite E in H. discriminate.
  - unfold dec_header in H. rewrite Hm in H. inversion H. reflexivity.
Qed.

End Meta.
