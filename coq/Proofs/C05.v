(** Proofs/C05.v — proofs of the statements of Spec/C05.v. *)
From CP Require Import Base.Prelude Base.Str Base.Regex Base.Cfg Base.Float64 Base.Timedelta Model.Lines Model.Sync Model.Instrument Spec.C05.
From Coq Require Import Sorted Lia ZifyBool.
Open Scope Z_scope.

(** *** Small facts *)

Lemma during_covers p t : tick_is_during p t = covers p t.
Proof.
  unfold tick_is_during, covers, tick_is_after, sp_end, tick_add.
  destruct (sp_tick p <=? t) eqn:E1; cbn [andb]; [|reflexivity].
  destruct (sp_tick p + sp_sus p <=? t) eqn:E2;
    destruct (t <? sp_tick p + sp_sus p) eqn:E3; cbn [negb]; try reflexivity; lia.
Qed.

Lemma after_le p t : tick_is_after p t = true <-> sp_end p <= t.
Proof. unfold tick_is_after. apply Z.leb_le. Qed.

Lemma over_not_covers p t : sp_end p <= t -> covers p t = false.
Proof.
  unfold sp_end, tick_add, covers. intro H.
  destruct (sp_tick p <=? t) eqn:E1; cbn [andb]; [|reflexivity]. lia.
Qed.

Lemma late_not_covers p t : t < sp_tick p -> covers p t = false.
Proof. unfold covers. intro H. destruct (sp_tick p <=? t) eqn:E1; cbn [andb]; [lia|reflexivity]. Qed.

Lemma Zlength_nil {A} : Zlength_ (@nil A) = 0.
Proof. reflexivity. Qed.

Lemma Zlength_cons {A} (x : A) l : Zlength_ (x :: l) = Zlength_ l + 1.
Proof. unfold Zlength_. cbn [length]. lia. Qed.

Lemma Zlength_app {A} (a b : list A) : Zlength_ (a ++ b) = Zlength_ a + Zlength_ b.
Proof. unfold Zlength_. rewrite app_length. lia. Qed.

Lemma Zlength_nonneg {A} (a : list A) : 0 <= Zlength_ a.
Proof. unfold Zlength_. lia. Qed.

Lemma nth_Z_app_mid {A} (a : list A) p b : nth_Z (a ++ p :: b) (Zlength_ a) = Some p.
Proof.
  unfold nth_Z, Zlength_.
  destruct (Z.of_nat (length a) <? 0) eqn:E; [lia|].
  rewrite Nat2Z.id, nth_error_app2 by lia. rewrite Nat.sub_diag. reflexivity.
Qed.

Lemma SSorted_app_r {A} (R : A -> A -> Prop) l1 l2 :
  StronglySorted R (l1 ++ l2) -> StronglySorted R l2.
Proof.
  induction l1 as [|x l1 IH]; cbn [app]; intro H; [exact H|].
  inversion H as [|? ? Hs Hf]; subst. apply IH, Hs.
Qed.

(** *** first_cover_from *)

Lemma first_cover_none : forall ps k t,
  Forall (fun p => covers p t = false) ps -> first_cover_from ps k t = None.
Proof.
  induction ps as [|p ps IH]; intros k t HF; cbn [first_cover_from]; [reflexivity|].
  inversion HF as [|? ? Hp HF']; subst. rewrite Hp. apply IH, HF'.
Qed.

Lemma first_cover_skip : forall pre suf k t,
  Forall (fun p => covers p t = false) pre ->
  first_cover_from (pre ++ suf) k t = first_cover_from suf (k + Zlength_ pre) t.
Proof.
  induction pre as [|p pre IH]; intros suf k t HF; cbn [app first_cover_from].
  - rewrite Zlength_nil, Z.add_0_r. reflexivity.
  - inversion HF as [|? ? Hp HF']; subst. rewrite Hp, IH by exact HF'.
    rewrite Zlength_cons. f_equal. lia.
Qed.

(** *** The scan *)

Lemma sp_scan_cons e rest i t :
  sp_scan (e :: rest) i t =
  if negb (tick_is_after e t) then i
  else match rest with [] => i | _ => sp_scan rest (i + 1) t end.
Proof. reflexivity. Qed.

Lemma sp_scan_split : forall suf i t, suf <> [] ->
  exists pre2 p suf2, suf = pre2 ++ p :: suf2 /\ sp_scan suf i t = i + Zlength_ pre2 /\
    Forall (fun q => sp_end q <= t) pre2 /\
    (tick_is_after p t = false \/ (suf2 = [] /\ tick_is_after p t = true)).
Proof.
  induction suf as [|e rest IH]; intros i t Hne; [congruence|].
  rewrite sp_scan_cons. destruct (tick_is_after e t) eqn:Ea; cbn [negb].
  - destruct rest as [|e' rest'].
    + exists [], e, []. rewrite Zlength_nil, Z.add_0_r. repeat split; auto.
    + destruct (IH (i + 1) t) as (pre2 & p & suf2 & Heq & Hscan & HF & Hlast); [discriminate|].
      exists (e :: pre2), p, suf2. rewrite Heq at 1. split; [reflexivity|].
      split; [rewrite Hscan, Zlength_cons; lia|].
      split; [|exact Hlast]. constructor; [apply after_le, Ea|exact HF].
  - exists [], e, rest. rewrite Zlength_nil, Z.add_0_r. repeat split; auto.
Qed.

(** *** One step of the cursor *)

Lemma compute_sp_unfold : forall pre suf t, suf <> [] ->
  compute_sp (pre ++ suf) t (Zlength_ pre) =
  let j := sp_scan suf (Zlength_ pre) t in
  match nth_Z (pre ++ suf) j with
  | None => Err EIndex
  | Some cand => if tick_is_during cand t then Ok (Some j, j) else Ok (None, j)
  end.
Proof.
  intros pre suf t Hne. unfold compute_sp.
  destruct (pre ++ suf) as [|x xs] eqn:E.
  { apply app_eq_nil in E. destruct E; congruence. }
  rewrite <- E. clear E x xs.
  assert (Hlen : (0 < length suf)%nat) by (destruct suf; [congruence|cbn; lia]).
  destruct (Zlength_ (pre ++ suf) <=? Zlength_ pre) eqn:E1.
  { rewrite Zlength_app in E1. unfold Zlength_ in E1. lia. }
  destruct (Zlength_ pre <? 0) eqn:E2.
  { unfold Zlength_ in E2. lia. }
  assert (Hskip : skipn (Z.to_nat (Zlength_ pre)) (pre ++ suf) = suf).
  { unfold Zlength_. rewrite Nat2Z.id.
    rewrite skipn_app, skipn_all, Nat.sub_diag. reflexivity. }
  rewrite Hskip. reflexivity.
Qed.

Lemma compute_sp_step : forall pre suf t,
  suf <> [] ->
  StronglySorted Z.le (map sp_tick (pre ++ suf)) ->
  Forall (fun q => sp_end q <= t) pre ->
  exists pre2 p suf2, suf = pre2 ++ p :: suf2 /\
    Forall (fun q => sp_end q <= t) pre2 /\
    compute_sp (pre ++ suf) t (Zlength_ pre) = Ok (spec_sp (pre ++ suf) t, Zlength_ (pre ++ pre2)).
Proof.
  intros pre suf t Hne Hs Hpre.
  destruct (sp_scan_split suf (Zlength_ pre) t Hne) as (pre2 & p & suf2 & Heq & Hscan & HF & Hlast).
  exists pre2, p, suf2. split; [exact Heq|]. split; [exact HF|].
  rewrite compute_sp_unfold by exact Hne. cbv zeta. rewrite Hscan, <- Zlength_app.
  assert (Hall : Forall (fun q => covers q t = false) (pre ++ pre2)).
  { apply Forall_app; split; eapply Forall_impl; try eassumption;
      intros q Hq; apply over_not_covers, Hq. }
  subst suf. rewrite app_assoc in *.
  rewrite nth_Z_app_mid, during_covers.
  unfold spec_sp. rewrite first_cover_skip by exact Hall. rewrite Z.add_0_l.
  cbn [first_cover_from]. destruct (covers p t) eqn:Ec; [reflexivity|].
  rewrite first_cover_none; [reflexivity|].
  destruct Hlast as [Hna | [Hnil _]]; [|subst suf2; constructor].
  assert (Hlate : t < sp_tick p).
  { unfold covers in Ec. unfold tick_is_after, sp_end, tick_add in Hna. lia. }
  rewrite map_app in Hs. apply SSorted_app_r in Hs. cbn [map] in Hs.
  inversion Hs as [|? ? _ Hf]; subst.
  rewrite Forall_map in Hf. eapply Forall_impl; [|exact Hf].
  intros q Hq. cbv beta in Hq. apply late_not_covers. lia.
Qed.

(** *** The cursor threaded over a non-decreasing tick sequence *)

Lemma run_cursor_cons sps t ts c :
  run_cursor sps (t :: ts) c =
  (let* (o, c') := compute_sp sps t c in
   let* os := run_cursor sps ts c' in
   Ok (o :: os)).
Proof. reflexivity. Qed.

Lemma run_cursor_nil_sps : forall ticks c,
  run_cursor [] ticks c = Ok (map (spec_sp []) ticks).
Proof.
  induction ticks as [|t ts IH]; intro c; [reflexivity|].
  rewrite run_cursor_cons. cbn [compute_sp bind]. rewrite IH. reflexivity.
Qed.

Lemma run_cursor_gen : forall sps ticks pre suf,
  sps = pre ++ suf -> suf <> [] ->
  StronglySorted Z.le (map sp_tick sps) -> StronglySorted Z.le ticks ->
  (forall t, In t ticks -> Forall (fun q => sp_end q <= t) pre) ->
  run_cursor sps ticks (Zlength_ pre) = Ok (map (spec_sp sps) ticks).
Proof.
  intros sps ticks; induction ticks as [|t ts IH]; intros pre suf Hsps Hne Hs Ht Hinv;
    [reflexivity|].
  subst sps.
  destruct (compute_sp_step pre suf t Hne Hs) as (pre2 & p & suf2 & Hsuf & HF2 & Hc).
  { apply Hinv; left; reflexivity. }
  rewrite run_cursor_cons, Hc. cbn [bind].
  apply StronglySorted_inv in Ht as [Hts Hle].
  rewrite (IH (pre ++ pre2) (p :: suf2)); try assumption.
  - reflexivity.
  - rewrite Hsuf, app_assoc. reflexivity.
  - discriminate.
  - intros t' Hin. apply Forall_app; split.
    + apply Hinv. right; exact Hin.
    + rewrite Forall_forall in Hle. specialize (Hle t' Hin).
      eapply Forall_impl; [|exact HF2]. intros q Hq. cbv beta in Hq. lia.
Qed.

Lemma Sorted_le_SSorted l : Sorted Z.le l -> StronglySorted Z.le l.
Proof. apply Sorted_StronglySorted. intros x y z; apply Z.le_trans. Qed.

Lemma C05_cursor : C05_cursor_stmt.
Proof.
  intros sps ticks Hs Ht.
  destruct sps as [|p sps'] eqn:E; [apply run_cursor_nil_sps|]. rewrite <- E in *.
  change 0 with (Zlength_ (@nil special_event)).
  apply (run_cursor_gen sps ticks [] sps).
  - reflexivity.
  - rewrite E; discriminate.
  - apply Sorted_le_SSorted, Hs.
  - apply Sorted_le_SSorted, Ht.
  - intros; constructor.
Qed.

(** *** Track level *)

Lemma note_from_group_sp c B sps g prev hint cursor e hint' cursor' :
  note_from_group c B sps g prev hint cursor = Ok (e, hint', cursor') ->
  compute_sp sps (n_tick e) cursor = Ok (n_sp e, cursor').
Proof.
  unfold note_from_group. destruct g as [|d0 g']; [discriminate|]. intro H.
  apply bind_ok in H as (sus & _ & H).
  apply bind_ok in H as ([ts idx] & _ & H). cbv beta iota in H.
  apply bind_ok in H as (h & _ & H).
  apply bind_ok in H as ([spd cur] & Hsp & H). cbv beta iota in H.
  apply bind_ok in H as (longest & _ & H).
  apply bind_ok in H as ([end_ts idx2] & _ & H). cbv beta iota in H.
  inversion H; subst. exact Hsp.
Qed.

Lemma build_notes_cons c B sps g gs prev hint cursor :
  build_notes c B sps (g :: gs) prev hint cursor =
  (let* (e, hint', cursor') := note_from_group c B sps g prev hint cursor in
   let* es := build_notes c B sps gs (Some e) hint' cursor' in
   Ok (e :: es)).
Proof. reflexivity. Qed.

Lemma build_notes_cursor c B sps : forall groups prev hint cursor notes,
  build_notes c B sps groups prev hint cursor = Ok notes ->
  run_cursor sps (map n_tick notes) cursor = Ok (map n_sp notes).
Proof.
  induction groups as [|g gs IH]; intros prev hint cursor notes H.
  - cbn [build_notes] in H. inversion H; subst. reflexivity.
  - rewrite build_notes_cons in H.
    apply bind_ok in H as ([[e hint'] cursor'] & Hg & H). cbv beta iota in H.
    apply bind_ok in H as (es & Hes & H). inversion H; subst notes.
    cbn [map]. rewrite run_cursor_cons.
    rewrite (note_from_group_sp _ _ _ _ _ _ _ _ _ _ Hg). cbn [bind].
    rewrite (IH _ _ _ _ Hes). reflexivity.
Qed.

Lemma map_eq_Forall {A B C} (f : A -> C) (g : B -> C) (h : A -> B) : forall l,
  map f l = map g (map h l) -> Forall (fun e => f e = g (h e)) l.
Proof.
  induction l as [|x l IH]; cbn [map]; intro H; constructor.
  - inversion H; reflexivity.
  - apply IH. inversion H; reflexivity.
Qed.

Lemma C05_track : C05_track_stmt.
Proof.
  intros c B sps groups notes Hs Hb Hn.
  apply build_notes_cursor in Hb.
  rewrite (C05_cursor sps (map n_tick notes) Hs Hn) in Hb.
  inversion Hb as [Heq]. apply map_eq_Forall. symmetry. exact Heq.
Qed.

Lemma C05_from_lines : C05_from_lines_stmt.
Proof.
  intros c instr diff lines B tr ws H Hs Hn.
  unfold itrack_from_lines in H.
  apply bind_ok in H as (outs & _ & H).
  apply bind_ok in H as (sp_tm & _ & H).
  apply bind_ok in H as (tev_tm & _ & H).
  apply bind_ok in H as (notes & Hb & H).
  inversion H; subst tr ws. cbn [it_sps it_notes] in *.
  eapply C05_track; eassumption.
Qed.

(** *** Consequences *)

Lemma C05_zero_length : C05_zero_length_stmt.
Proof.
  intros p t H. unfold covers. rewrite H.
  destruct (sp_tick p <=? t) eqn:E1; cbn [andb]; [lia|reflexivity].
Qed.

Lemma C05_end_excluded : C05_end_excluded_stmt.
Proof.
  intro p. unfold covers. rewrite Z.ltb_irrefl. apply andb_false_r.
Qed.

Lemma first_cover_none_iff : forall ps k t,
  first_cover_from ps k t = None <-> Forall (fun p => covers p t = false) ps.
Proof.
  intros ps k t; split; [|apply first_cover_none].
  revert k; induction ps as [|p ps IH]; intros k H; [constructor|].
  cbn [first_cover_from] in H. destruct (covers p t) eqn:Ec; [discriminate|].
  constructor; [exact Ec|eapply IH, H].
Qed.

Lemma C05_none_iff : C05_none_iff_stmt.
Proof. intros sps t. apply first_cover_none_iff. Qed.

Lemma first_cover_some : forall ps k t j,
  first_cover_from ps k t = Some j ->
  k <= j /\ exists p, nth_error ps (Z.to_nat (j - k)) = Some p /\ covers p t = true /\
    forall i q, k <= i < j -> nth_error ps (Z.to_nat (i - k)) = Some q -> covers q t = false.
Proof.
  induction ps as [|p ps IH]; intros k t j H; cbn [first_cover_from] in H; [discriminate|].
  destruct (covers p t) eqn:Ec.
  - inversion H; subst j. split; [lia|]. exists p. rewrite Z.sub_diag. cbn.
    repeat split; auto. intros i q Hi; lia.
  - apply IH in H as (Hle & p' & Hnth & Hc & Hprev). split; [lia|].
    exists p'. split.
    + replace (Z.to_nat (j - k)) with (S (Z.to_nat (j - (k + 1)))) by lia. exact Hnth.
    + split; [exact Hc|]. intros i q Hi Hq.
      destruct (Z.eq_dec i k) as [->|Hne].
      * rewrite Z.sub_diag in Hq. cbn in Hq. inversion Hq; subst q. exact Ec.
      * apply (Hprev i q); [lia|].
        replace (Z.to_nat (i - k)) with (S (Z.to_nat (i - (k + 1)))) in Hq by lia. exact Hq.
Qed.

Lemma C05_some_first : C05_some_first_stmt.
Proof.
  intros sps t j H. apply first_cover_some in H as (Hle & p & Hnth & Hc & Hprev).
  rewrite Z.sub_0_r in Hnth. exists p. split; [|split; [exact Hc|]].
  - unfold nth_Z. destruct (j <? 0) eqn:E; [lia|exact Hnth].
  - intros i q Hi Hq. apply (Hprev i q Hi). rewrite Z.sub_0_r.
    unfold nth_Z in Hq. destruct (i <? 0) eqn:E; [lia|exact Hq].
Qed.

