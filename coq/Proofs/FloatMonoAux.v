(** Proofs/FloatMonoAux.v — helper lemmas for Proofs/FloatMono.v: real-number semantics of
    [of_Z], [fmul], [fdiv] signs, and the closed form of [td_of_seconds]. *)
From CP Require Import Base.Prelude Base.Float64 Base.Timedelta Model.Sync Spec.FloatSpec.
From Coq Require Import Reals Lra ZifyBool.
From Flocq Require Import Core.Core IEEE754.BinarySingleNaN.
Open Scope Z_scope.

Ltac Zify.zify_post_hook ::= Z.to_euclidean_division_equations.

(** *** RN *)

Lemma RN_eq x : RN x = round radix2 (SpecFloat.fexp prec emax) (round_mode mode_NE) x.
Proof. reflexivity. Qed.

Lemma RN_le x y : (x <= y)%R -> (RN x <= RN y)%R.
Proof. intro H. unfold RN. apply round_le; auto with typeclass_instances. Qed.

Lemma RN_0 : RN 0 = 0%R.
Proof. unfold RN. apply round_0. auto with typeclass_instances. Qed.

Lemma RN_small_int z : Z.abs z < 2 ^ 53 -> RN (IZR z) = IZR z.
Proof.
  intro H. unfold RN. apply round_generic; auto with typeclass_instances.
  apply generic_format_FLT. exists (Float radix2 z 0).
  - unfold F2R; simpl. now rewrite Rmult_1_r.
  - exact H.
  - simpl. lia.
Qed.

Lemma RN_ge_0 x : (0 <= x)%R -> (0 <= RN x)%R.
Proof. intro H. rewrite <- RN_0. now apply RN_le. Qed.

(** *** Signs *)

Lemma f_le_fzero_false b : f_le b fzero = false -> Bsign b = false.
Proof. destruct b as [[|]|[|]| |[|] m e H]; simpl; try reflexivity; discriminate. Qed.

Lemma of_Z_correct z :
  is_finite (of_Z z) = true ->
  B2R (of_Z z) = RN (IZR z) /\ (0 <= z -> Bsign (of_Z z) = false).
Proof.
  intro Hf. unfold of_Z, F in *.
  generalize (binary_normalize_correct prec emax Hprec Hemax mode_NE z 0 false).
  cbv zeta.
  replace (F2R (Float radix2 z 0)) with (IZR z) by (unfold F2R; simpl; now rewrite Rmult_1_r).
  destruct Rlt_bool.
  - intros (H1 & _ & H3). split. exact H1.
    intro Hz. rewrite H3. apply IZR_le in Hz.
    destruct (Rcompare_spec (IZR z) 0); try reflexivity. lra.
  - intro H. exfalso.
    rewrite <- is_finite_SF_B2SF, H in Hf. discriminate.
Qed.

Lemma Bsign_fmul x y : Bsign x = false -> Bsign y = false -> Bsign (fmul x y) = false.
Proof.
  intros Hx Hy. unfold fmul.
  generalize (Bmult_correct prec emax Hprec Hemax mode_NE x y).
  destruct Rlt_bool.
  - intros (_ & _ & H). destruct (is_nan (Bmult mode_NE x y)) eqn:E.
    + destruct (Bmult mode_NE x y); try discriminate. reflexivity.
    + rewrite H, Hx, Hy; reflexivity.
  - rewrite Hx, Hy. simpl. destruct (Bmult mode_NE x y); simpl; intro H; try discriminate.
    now inversion H.
Qed.

Lemma Bsign_fdiv x y : Bsign x = false -> Bsign y = false -> Bsign (fdiv x y) = false.
Proof.
  intros Hx Hy. unfold fdiv.
  destruct (Req_dec (B2R y) 0) as [Hy0|Hy0].
  - destruct y as [sy|sy| |sy my ey Hyb]; simpl in Hy; subst;
      try (destruct x as [sx|sx| |sx mx ex Hxb]; simpl in Hx; subst; reflexivity).
    exfalso. simpl in Hy0. apply eq_0_F2R in Hy0. discriminate.
  - generalize (Bdiv_correct prec emax Hprec Hemax mode_NE x y Hy0).
    destruct Rlt_bool.
    + intros (_ & _ & H). destruct (is_nan (Bdiv mode_NE x y)) eqn:E.
      * destruct (Bdiv mode_NE x y); try discriminate. reflexivity.
      * rewrite H, Hx, Hy; reflexivity.
    + rewrite Hx, Hy. simpl. destruct (Bdiv mode_NE x y); simpl; intro H; try discriminate.
      now inversion H.
Qed.

(** Product of a finite float by a fixed float, when the result is finite. *)
Lemma fmul_finite x y :
  is_finite (fmul x y) = true -> is_finite x = true ->
  B2R (fmul x y) = RN (B2R x * B2R y).
Proof.
  intros Hf Hx. unfold fmul in *.
  generalize (Bmult_correct prec emax Hprec Hemax mode_NE x y).
  destruct Rlt_bool.
  - intros (H & _). exact H.
  - intro H. exfalso. rewrite <- is_finite_SF_B2SF, H in Hf. discriminate.
Qed.

(** *** Shape of [seconds] *)

(** seconds-per-tick: does not depend on the tick count. *)
Definition spt_of (b : f64) (R : Z) : f64 :=
  fdiv (of_Z 1) (fdiv (fmul b (of_Z R)) (of_Z 60)).

Lemma py_float_of_int_ok z x : py_float_of_int z = Ok x -> x = of_Z z /\ is_finite (of_Z z) = true.
Proof.
  unfold py_float_of_int, is_fin. cbv zeta. destruct (is_finite (of_Z z)); intro H; inversion H; auto.
Qed.

Lemma seconds_ok k b R s :
  seconds k b R = Ok s ->
  0 <= k /\ is_finite (of_Z k) = true /\ s = fmul (of_Z k) (spt_of b R) /\
  Bsign (spt_of b R) = false.
Proof.
  unfold seconds.
  destruct (k <? 0) eqn:Ek; [discriminate|].
  destruct (f_le b fzero) eqn:Eb; [discriminate|].
  destruct (R <=? 0) eqn:ER; [discriminate|].
  unfold py_mul_float_int, py_div_float_int, py_div_int_float, py_mul_int_float.
  intro H.
  apply bind_ok in H as (tpm & H1 & H).
  apply bind_ok in H1 as (yR & HR & H1). apply py_float_of_int_ok in HR as (-> & HRf).
  inversion H1; subst tpm; clear H1.
  apply bind_ok in H as (tps & H2 & H).
  apply bind_ok in H2 as (y60 & H60 & H2). apply py_float_of_int_ok in H60 as (-> & H60f).
  destruct (is_zero (of_Z 60)); [discriminate|]. inversion H2; subst tps; clear H2.
  apply bind_ok in H as (spt & H3 & H).
  apply bind_ok in H3 as (y1 & H1 & H3). apply py_float_of_int_ok in H1 as (-> & H1f).
  destruct (is_zero _); [discriminate|]. inversion H3; subst spt; clear H3.
  apply bind_ok in H as (yk & Hk & H). apply py_float_of_int_ok in Hk as (-> & Hkf).
  inversion H; subst s; clear H.
  split; [lia|]. split; [exact Hkf|]. split; [reflexivity|].
  unfold spt_of. apply Bsign_fdiv.
  - apply of_Z_correct; [exact H1f | lia].
  - apply Bsign_fdiv.
    + apply Bsign_fmul. now apply f_le_fzero_false. apply of_Z_correct; [exact HRf | lia].
    + apply of_Z_correct; [exact H60f | lia].
Qed.

(** *** Round-half-even of a rational *)

Lemma ZnearestE_div a b : 0 < b -> ZnearestE (IZR a / IZR b) = rhe_div a b.
Proof.
  intros Hb. unfold Znearest, rhe_div. cbv zeta.
  assert (Hb' : (0 < IZR b)%R) by (apply IZR_lt; lia).
  assert (HF : Zfloor (IZR a / IZR b) = a / b) by (apply Zfloor_div; lia).
  rewrite HF.
  set (q := a / b) in *. set (r := a mod b).
  assert (Ha : a = b * q + r) by (apply Z_div_mod_eq_full).
  assert (Hr : 0 <= r < b) by (apply Z.mod_pos_bound; lia).
  assert (Hx : (IZR a / IZR b - IZR q = IZR r / IZR b)%R).
  { rewrite Ha, plus_IZR, mult_IZR. field. lra. }
  rewrite Hx.
  assert (HC : r <> 0 -> Zceil (IZR a / IZR b) = q + 1).
  { intro Hr0. rewrite Zceil_floor_neq; rewrite HF; [reflexivity|].
    intro E. rewrite E in Hx. apply Hr0. apply eq_IZR.
    assert (IZR r / IZR b = 0)%R by lra.
    apply Rmult_eq_compat_r with (r := IZR b) in H. unfold Rdiv in H.
    rewrite Rmult_assoc, Rinv_l, Rmult_0_l in H by lra. lra. }
  assert (Hc : Rcompare (IZR r / IZR b) (/2) = (2 * r ?= b)).
  { assert (E : (IZR r / IZR b - /2 = (IZR (2 * r) - IZR b) / (2 * IZR b))%R).
    { rewrite mult_IZR. field. lra. }
    assert (P : (0 < / (2 * IZR b))%R) by (apply Rinv_0_lt_compat; lra).
    destruct (Z.compare_spec (2 * r) b) as [H|H|H].
    - apply Rcompare_Eq. replace (IZR (2 * r) - IZR b)%R with 0%R in E by (rewrite H; ring).
      unfold Rdiv in E. rewrite Rmult_0_l in E. lra.
    - apply Rcompare_Lt. apply IZR_lt in H.
      assert ((IZR (2 * r) - IZR b) / (2 * IZR b) < 0)%R; [|lra].
      unfold Rdiv.
      assert (0 < (IZR b - IZR (2 * r)) * / (2 * IZR b))%R by (apply Rmult_lt_0_compat; lra).
      lra.
    - apply Rcompare_Gt. apply IZR_lt in H.
      assert (0 < (IZR (2 * r) - IZR b) / (2 * IZR b))%R; [|lra].
      unfold Rdiv. apply Rmult_lt_0_compat; lra. }
  rewrite Hc.
  destruct (Z.compare_spec (2 * r) b) as [H|H|H].
  - rewrite HC by lia. destruct (Z.even q); reflexivity.
  - reflexivity.
  - apply HC; lia.
Qed.

(** *** Closed form of [td_of_seconds] *)

Definition tdR (x : R) : Z :=
  Zfloor x * us_per_second + ZnearestE (RN ((x - IZR (Zfloor x)) * IZR us_per_second)).

Lemma ZnearestE_IZR n : ZnearestE (IZR n) = n.
Proof. apply (Zrnd_IZR (Znearest (fun x => negb (Z.even x)))). Qed.

Lemma ZnearestE_le x y : (x <= y)%R -> ZnearestE x <= ZnearestE y.
Proof. apply (Zrnd_le (Znearest (fun x => negb (Z.even x)))). Qed.

Lemma frac_us_bounds x :
  0 <= ZnearestE (RN ((x - IZR (Zfloor x)) * IZR us_per_second)) <= us_per_second.
Proof.
  pose proof (Zfloor_lb x) as H1. pose proof (Zfloor_ub x) as H2.
  assert (Hus : (0 < IZR us_per_second)%R) by (apply IZR_lt; reflexivity).
  set (f := (x - IZR (Zfloor x))%R) in *.
  assert (Hf : (0 <= f < 1)%R) by (unfold f; lra).
  split.
  - rewrite <- (ZnearestE_IZR 0). apply ZnearestE_le. apply RN_ge_0.
    apply Rmult_le_pos; lra.
  - rewrite <- (ZnearestE_IZR us_per_second) at 2. apply ZnearestE_le.
    apply Rle_trans with (RN (IZR us_per_second));
      [|rewrite RN_small_int by (unfold us_per_second; lia); lra].
    apply RN_le. rewrite <- (Rmult_1_l (IZR us_per_second)) at 2.
    apply Rmult_le_compat_r; lra.
Qed.

Lemma tdR_mono x y : (x <= y)%R -> tdR x <= tdR y.
Proof.
  intro H. unfold tdR.
  pose proof (frac_us_bounds x) as Bx. pose proof (frac_us_bounds y) as By.
  pose proof (Zfloor_le _ _ H) as Hfl.
  destruct (Z.eq_dec (Zfloor x) (Zfloor y)) as [E|E].
  - rewrite E. apply Zplus_le_compat_l. apply ZnearestE_le, RN_le.
    apply Rmult_le_compat_r. apply IZR_le; unfold us_per_second; lia. lra.
  - assert (Zfloor x + 1 <= Zfloor y) by lia.
    unfold us_per_second in *. lia.
Qed.

Lemma tdR_int n : tdR (IZR n) = n * us_per_second.
Proof.
  unfold tdR. rewrite Zfloor_IZR. rewrite Rminus_diag_eq by reflexivity.
  rewrite Rmult_0_l, RN_0, (ZnearestE_IZR 0). lia.
Qed.

Lemma td_check_ok v u : td_check v = Ok u -> u = v.
Proof. unfold td_check. destruct (td_in_range v); intro H; inversion H; reflexivity. Qed.

Lemma bpow_neg_inv e : e < 0 -> bpow radix2 e = (/ IZR (2 ^ (- e)))%R.
Proof.
  intro He. replace e with (- (- e)) at 1 by lia. rewrite bpow_opp.
  rewrite <- IZR_Zpower by lia. reflexivity.
Qed.

Lemma bpow_nonneg_IZR e : 0 <= e -> bpow radix2 e = IZR (2 ^ e).
Proof. intro He. rewrite <- IZR_Zpower by lia. reflexivity. Qed.

Lemma us_lt_emax : (IZR us_per_second < bpow radix2 emax)%R.
Proof.
  apply Rlt_le_trans with (bpow radix2 20).
  - rewrite bpow_nonneg_IZR by lia. apply IZR_lt. reflexivity.
  - apply bpow_le. unfold emax. lia.
Qed.

(** Value of a positive finite float rounded half-even to an integer, as the model computes it. *)
Lemma ZnearestE_pos_float (m2 : positive) e2 total :
  Z.odd total = Z.odd (if 0 <=? e2 then Zpos m2 * 2 ^ e2 else Zpos m2 / 2 ^ (- e2)) ->
  (let '(ip2, num2, d2) :=
     if 0 <=? e2 then (Zpos m2 * 2 ^ e2, 0, 1)
     else let d2 := 2 ^ (- e2) in (Zpos m2 / d2, Zpos m2 mod d2, d2) in
   ip2 + match Z.compare (2 * num2) d2 with
         | Lt => 0 | Gt => 1 | Eq => if Z.odd total then 1 else 0 end)
  = ZnearestE (F2R (Float radix2 (Zpos m2) e2)).
Proof.
  intro Hodd. unfold F2R; cbn [Fnum Fexp].
  destruct (0 <=? e2) eqn:E.
  - apply Z.leb_le in E. rewrite bpow_nonneg_IZR by lia. rewrite <- mult_IZR, ZnearestE_IZR.
    cbn. lia.
  - apply Z.leb_gt in E. rewrite bpow_neg_inv by lia.
    assert (Hd : 0 < 2 ^ (- e2)) by (apply Z.pow_pos_nonneg; lia).
    cbv zeta. fold (Rdiv (IZR (Zpos m2)) (IZR (2 ^ (- e2)))).
    rewrite ZnearestE_div by exact Hd. unfold rhe_div. cbv zeta.
    rewrite Hodd. rewrite <- Z.negb_even.
    destruct (2 * (Zpos m2 mod 2 ^ (- e2)) ?= 2 ^ (- e2)); try lia.
    destruct (Z.even _); cbn [negb]; lia.
Qed.

Lemma odd_total ip q : Z.odd (ip * us_per_second + q) = Z.odd q.
Proof.
  rewrite Z.odd_add, Z.odd_mul. replace (Z.odd us_per_second) with false by reflexivity.
  rewrite Bool.andb_false_r. apply Bool.xorb_false_l.
Qed.

Lemma td_of_seconds_closed s u :
  td_of_seconds s = Ok u ->
  is_finite s = true /\ (0 <= B2R s)%R /\ u = tdR (B2R s).
Proof.
  destruct s as [sz|si| |[|] m e Hb]; unfold td_of_seconds; try discriminate.
  - intro H; inversion H; subst u. cbn [is_finite B2R]. repeat split; try lra.
    now rewrite (tdR_int 0).
  - cbn [is_finite B2R cond_Zopp].
    assert (Hpos : (0 <= F2R (Float radix2 (Zpos m) e))%R) by (apply F2R_ge_0; cbn; lia).
    intro H. split; [reflexivity|]. split; [exact Hpos|].
    destruct (0 <=? e) eqn:Ee.
    + apply Z.leb_le in Ee. apply td_check_ok in H. subst u.
      unfold F2R; cbn [Fnum Fexp]. rewrite bpow_nonneg_IZR by lia.
      rewrite <- mult_IZR, tdR_int. reflexivity.
    + apply Z.leb_gt in Ee. cbv zeta in H.
      assert (Hd : 0 < 2 ^ (- e)) by (apply Z.pow_pos_nonneg; lia).
      set (d := 2 ^ (- e)) in *.
      assert (Hd' : (0 < IZR d)%R) by (apply IZR_lt; lia).
      set (ip := Zpos m / d) in *. set (fm := Zpos m mod d) in *.
      assert (Hm : Zpos m = d * ip + fm) by (apply Z_div_mod_eq_full).
      assert (Hfm : 0 <= fm < d) by (apply Z.mod_pos_bound; lia).
      assert (Hx : F2R (Float radix2 (Zpos m) e) = (IZR (Zpos m) / IZR d)%R).
      { unfold F2R; cbn [Fnum Fexp]. rewrite bpow_neg_inv by lia. reflexivity. }
      rewrite Hx. unfold tdR.
      assert (Hfl : Zfloor (IZR (Zpos m) / IZR d) = ip) by (apply Zfloor_div; lia).
      rewrite Hfl.
      assert (Hfr : ((IZR (Zpos m) / IZR d - IZR ip) * IZR us_per_second
                     = F2R (Float radix2 (fm * us_per_second) e))%R).
      { unfold F2R; cbn [Fnum Fexp]. rewrite bpow_neg_inv by lia. fold d.
        rewrite Hm, plus_IZR, !mult_IZR. field. lra. }
      rewrite Hfr.
      assert (Hv0 : (0 <= F2R (Float radix2 (fm * us_per_second) e))%R).
      { apply F2R_ge_0. cbn [Fnum]. unfold us_per_second. lia. }
      assert (Hv1 : (F2R (Float radix2 (fm * us_per_second) e) <= IZR us_per_second)%R).
      { rewrite <- Hfr.
        rewrite <- (Rmult_1_l (IZR us_per_second)) at 2.
        apply Rmult_le_compat_r. apply IZR_le; unfold us_per_second; lia.
        assert (IZR (Zpos m) / IZR d - IZR ip = IZR fm / IZR d)%R as ->.
        { rewrite Hm, plus_IZR, mult_IZR. field. lra. }
        apply Rmult_le_reg_r with (IZR d); [lra|].
        unfold Rdiv. rewrite Rmult_assoc, Rinv_l, Rmult_1_r, Rmult_1_l by lra.
        apply IZR_le. lia. }
      destruct (fm =? 0) eqn:Efm.
      * apply Z.eqb_eq in Efm. apply td_check_ok in H. subst u.
        rewrite Efm. rewrite Z.mul_0_l, F2R_0, RN_0, (ZnearestE_IZR 0). lia.
      * (* the float product *)
        generalize (binary_normalize_correct prec emax Hprec Hemax mode_NE
                      (fm * us_per_second) e false).
        cbv zeta. fold (F (fm * us_per_second) e).
        rewrite Rlt_bool_true.
        2:{ change (round radix2 (SpecFloat.fexp prec emax) (round_mode mode_NE)) with RN.
            rewrite Rabs_pos_eq by now apply RN_ge_0.
            apply Rle_lt_trans with (2 := us_lt_emax).
            rewrite <- (RN_small_int us_per_second) by (unfold us_per_second; lia).
            now apply RN_le. }
        change (round radix2 (SpecFloat.fexp prec emax) (round_mode mode_NE)) with RN.
        intros (HR & HF & HS).
        rewrite <- HR.
        destruct (F (fm * us_per_second) e) as [s2|s2| |s2 m2 e2 Hb2]; try discriminate.
        -- apply td_check_ok in H. subst u. cbn [B2R]. rewrite (ZnearestE_IZR 0). lia.
        -- assert (s2 = false) as ->.
           { cbn [Bsign] in HS. rewrite HS.
             destruct (Rcompare_spec (F2R (Float radix2 (fm * us_per_second) e)) 0);
               try reflexivity. lra. }
           cbn [B2R cond_Zopp].
           rewrite <- (ZnearestE_pos_float m2 e2 (ip * us_per_second +
                        (if 0 <=? e2 then Zpos m2 * 2 ^ e2 else Zpos m2 / 2 ^ (- e2))))
             by apply odd_total.
           destruct (0 <=? e2); cbv zeta in H |- *; apply td_check_ok in H; subst u; lia.
Qed.
