(** Proofs/C09.v — the three global-event recognisers (lyric / section / text) accept exactly the
    canonical quoted shapes, the first-match-wins dispatcher classifies every canonical line into
    the right kind, and the lazy value extractor returns the text verbatim. *)
From CP Require Import Base.Prelude Base.Str Base.Regex Base.Cfg Model.Lines Spec.RefRegex
  Spec.C07 Spec.C09.
From CP Require Import Proofs.RegexShapes.
From Coq Require Import Lia.
Open Scope Z_scope.
Open Scope string_scope.

(** * The literals, as explicit code points *)
Lemma S_E : S_ " = E """ = [32; 61; 32; 69; 32; 34]%N.
Proof. reflexivity. Qed.
Lemma S_lyric : S_ "lyric " = [108; 121; 114; 105; 99; 32]%N.
Proof. reflexivity. Qed.
Lemma S_section : S_ "section " = [115; 101; 99; 116; 105; 111; 110; 32]%N.
Proof. reflexivity. Qed.
Lemma S_empty : S_ "" = [].
Proof. reflexivity. Qed.

(** * prefixb *)
Lemma prefixb_app pre r : prefixb pre (pre ++ r) = true.
Proof.
  induction pre as [|a pre IH]; cbn [app prefixb]; [reflexivity|].
  rewrite N.eqb_refl, IH. reflexivity.
Qed.

(** A prefix test that succeeds on [v ++ x :: r] succeeds on [v] already when the literal does
    not contain [x]. *)
Lemma prefixb_cut pre x v r :
  Forall (fun a => a <> x) pre -> prefixb pre (v ++ x :: r) = true -> prefixb pre v = true.
Proof.
  intro Hp. revert v. induction Hp as [|a pre Ha Hp IH]; intros v H; [reflexivity|].
  destruct v as [|b v]; cbn [app prefixb] in *.
  - apply andb_true_iff in H as [H _]. apply N.eqb_eq in H. congruence.
  - apply andb_true_iff in H as [H1 H2]. rewrite H1, (IH v H2). reflexivity.
Qed.

(** * The language of a quoted-value recogniser *)
Section QLang.
Variable T : tables.
Hypothesis HT : tables_ok T = true.
Notation L := (Lang T).

Definition qre (lit : String.string) (k : cls) : re :=
  seq (head ++ Ls lit ++ [Star (Chr k)] ++ Ls """" ++ [Star ws; eol]).

Lemma Lang_qre lit k w :
  L (qre lit k) w <->
  exists p t v p2, w = p ++ t ++ of_string lit ++ v ++ [QUOTE] ++ p2 /\
    Forall (fun x => is_ws T x = true) p /\ t <> [] /\ Forall (fun x => is_digit T x = true) t /\
    Forall (fun x => cls_mem T k x = true) v /\ Forall (fun x => is_ws T x = true) p2.
Proof.
  unfold qre. rewrite Lang_head_lit. split.
  - intros (p & t & r & -> & Hp & Hne & Ht & Hr).
    change ([Star (Chr k)] ++ Ls """" ++ [Star ws; eol])
      with (Star (Chr k) :: (Ls """" ++ [Star ws; eol])) in Hr.
    apply Lang_seq_star_cls in Hr as (v & b & -> & Hv & Hb).
    apply Lang_seq_Ls in Hb as (p2 & -> & Hp2).
    apply (Lang_ws_eol T p2 (ws_LF T HT)) in Hp2.
    exists p, t, v, p2. repeat split; assumption.
  - intros (p & t & v & p2 & -> & Hp & Hne & Ht & Hv & Hp2).
    exists p, t, (v ++ [QUOTE] ++ p2). repeat split; try assumption.
    change ([Star (Chr k)] ++ Ls """" ++ [Star ws; eol])
      with (Star (Chr k) :: (Ls """" ++ [Star ws; eol])).
    apply Lang_seq_star_cls. exists v, ([QUOTE] ++ p2). repeat split; [exact Hv|].
    apply Lang_seq_Ls. exists p2. split; [reflexivity|].
    apply (Lang_ws_eol T p2 (ws_LF T HT)). exact Hp2.
Qed.

Lemma dot_no_lf v : Forall (fun x => cls_mem T KDot x = true) v <-> no_lf v.
Proof. apply Forall_iff. intro x. apply cls_mem_dot. Qed.

Lemma nq_no_quote v : Forall (fun x => cls_mem T (KSet true [(34%N, 34%N)]) x = true) v <-> no_quote v.
Proof.
  apply Forall_iff. intro x. rewrite cls_mem_any_but. unfold QUOTE.
  destruct (N.eqb_spec x 34%N); cbn [negb]; split; intro H; congruence.
Qed.

(** The tick and the remainder of a line [p ++ t ++ ' ' :: r] are determined by the line. *)
Lemma blank_rest_unique p t r p' t' r' :
  Forall (fun x => is_ws T x = true) p -> t <> [] -> Forall (fun x => is_digit T x = true) t ->
  Forall (fun x => is_ws T x = true) p' -> t' <> [] -> Forall (fun x => is_digit T x = true) t' ->
  p ++ t ++ 32%N :: r = p' ++ t' ++ 32%N :: r' -> p = p' /\ t = t' /\ r = r'.
Proof.
  intros Hp Hne Ht Hp' Hne' Ht' E.
  destruct (head_unique T HT p t (32%N :: r) p' t' (32%N :: r')) as (E1 & E2 & E3); auto;
    try apply (hf_digit_blank T HT).
  inversion E3. auto.
Qed.

End QLang.

Lemma not_lf_no_lf v : Forall (fun x => not_lf x = true) v <-> no_lf v.
Proof.
  apply Forall_iff. intro x. unfold not_lf.
  destruct (N.eqb_spec x LF); cbn [negb]; split; intro H; congruence.
Qed.

Lemma not_quote_no_quote v : Forall (fun x => not_quote x = true) v <-> no_quote v.
Proof.
  apply Forall_iff. intro x. unfold not_quote.
  destruct (N.eqb_spec x QUOTE); cbn [negb]; split; intro H; congruence.
Qed.

Section Main.
Variable c : cfg.
Notation T := (tbl c).

(** * The lazy value group is verbatim *)
Lemma quote_not_ws : tables_ok T = true -> is_ws T QUOTE = false.
Proof. intro HT. apply (ascii_not_ws T HT). unfold QUOTE. lia. Qed.

Lemma rem_quote_ws_inner v2 p2 :
  tables_ok T = true -> v2 <> [] -> rem_quote_ws c (v2 ++ QUOTE :: p2) = false.
Proof.
  intros HT Hne. destruct (rem_quote_ws c (v2 ++ QUOTE :: p2)) eqn:E; [|reflexivity]. exfalso.
  apply rem_quote_ws_iff in E as (r & E & Hr).
  destruct v2 as [|x v2]; [congruence|]. cbn [app] in E. inversion E; subst.
  apply Forall_app in Hr as [_ Hr]. inversion Hr; subst.
  rewrite (quote_not_ws HT) in H1. discriminate.
Qed.

Lemma lazy_value okc v p2 :
  tables_ok T = true ->
  Forall (fun x => okc x = true) v -> Forall (fun x => is_ws T x = true) p2 ->
  lazy_prefix okc 0 (rem_quote_ws c) (v ++ QUOTE :: p2) = Some (v, QUOTE :: p2).
Proof.
  intros HT Hv Hp2. apply lazy_prefix0_intro; [exact Hv | |].
  - apply rem_quote_ws_iff. exists p2. auto.
  - intros v1 v2 _ Hne. apply rem_quote_ws_inner; assumption.
Qed.

(** * Unpacking [quoted_shape] *)
Lemma quoted_shape_inv pre s t v :
  quoted_shape c pre s t v ->
  exists p1 p2, Forall (fun x => is_ws T x = true) p1 /\ Forall (fun x => is_ws T x = true) p2 /\
    t <> [] /\ Forall (fun x => is_digit T x = true) t /\
    s = p1 ++ t ++ 32%N :: ([61; 32; 69; 32; 34]%N ++ S_ pre ++ v ++ QUOTE :: p2).
Proof.
  intros (p1 & p2 & H1 & H2 & [H3 H4] & ->). exists p1, p2. repeat split; assumption.
Qed.

(** Two readings of one line agree on the tick and on everything after the opening quote. *)
Lemma quoted_shape_agree pre pre' s t v t' v' :
  tables_ok T = true ->
  quoted_shape c pre s t v -> quoted_shape c pre' s t' v' ->
  t = t' /\ exists p2 p2', S_ pre ++ v ++ QUOTE :: p2 = S_ pre' ++ v' ++ QUOTE :: p2'.
Proof.
  intros HT H H'.
  apply quoted_shape_inv in H as (p1 & p2 & Hp1 & Hp2 & Hne & Ht & E).
  apply quoted_shape_inv in H' as (p1' & p2' & Hp1' & Hp2' & Hne' & Ht' & E').
  rewrite E in E'.
  destruct (blank_rest_unique T HT _ _ _ _ _ _ Hp1 Hne Ht Hp1' Hne' Ht' E') as (_ & Et & Er).
  split; [exact Et|]. exists p2, p2'. apply app_inv_head in Er. exact Er.
Qed.

(** * The recognisers accept exactly the canonical shapes *)
Lemma qre_shape pre k s (P : str -> Prop) :
  tables_ok T = true ->
  (forall v, Forall (fun x => cls_mem T k x = true) v <-> P v) ->
  (Lang T (qre (String.append " = E """ pre) k) s <-> exists t v, quoted_shape c pre s t v /\ P v).
Proof.
  intros HT HP. rewrite (Lang_qre T HT).
  split.
  - intros (p & t & v & p2 & -> & Hp & Hne & Ht & Hv & Hp2).
    exists t, v. split; [|apply HP; exact Hv].
    exists p, p2. unfold all_ws_p, digits_p. repeat split; assumption.
  - intros (t & v & (p & p2 & Hp & Hp2 & [Hne Ht] & ->) & Hv).
    exists p, t, v, p2. repeat split; try assumption. apply HP; exact Hv.
Qed.

Lemma C09_lyric_only : C09_lyric_only_stmt c.
Proof.
  intros Hok s. destruct (cfg_ok_events_inv c Hok) as (HT & _ & _ & Hre & _).
  rewrite matchb_correct, Hre.
  change ref_lyric with (qre (String.append " = E """ "lyric ") KDot).
  apply qre_shape; [exact HT | apply dot_no_lf].
Qed.

Lemma C09_section_only : C09_section_only_stmt c.
Proof.
  intros Hok s. destruct (cfg_ok_events_inv c Hok) as (HT & _ & Hre & _ & _).
  rewrite matchb_correct, Hre.
  change ref_section with (qre (String.append " = E """ "section ") KDot).
  apply qre_shape; [exact HT | apply dot_no_lf].
Qed.

Lemma C09_text_only : C09_text_only_stmt c.
Proof.
  intros Hok s. destruct (cfg_ok_events_inv c Hok) as (HT & Hre & _ & _ & _).
  rewrite matchb_correct, Hre.
  change ref_text with (qre (String.append " = E """ "") (KSet true [(34%N, 34%N)])).
  apply qre_shape; [exact HT | apply nq_no_quote].
Qed.

(** * Lyric and section are disjoint *)
Lemma C09_lyric_section_disjoint : C09_lyric_section_disjoint_stmt c.
Proof.
  intros Hok s [Hl Hs]. destruct (cfg_ok_events_inv c Hok) as (HT & _).
  apply (C09_lyric_only Hok) in Hl as (t & v & Hl & _).
  apply (C09_section_only Hok) in Hs as (t' & v' & Hs & _).
  destruct (quoted_shape_agree _ _ _ _ _ _ _ HT Hl Hs) as (_ & p2 & p2' & E).
  rewrite S_lyric, S_section in E. discriminate E.
Qed.

(** A text-shaped line whose value does not start with the literal is not claimed by the
    recogniser of that literal. *)
Lemma text_not_prefixed pre s t v t' v' :
  tables_ok T = true -> Forall (fun a => a <> QUOTE) (S_ pre) ->
  quoted_shape c "" s t v -> quoted_shape c pre s t' v' -> prefixb (S_ pre) v = true.
Proof.
  intros HT Hpre H H'.
  destruct (quoted_shape_agree _ _ _ _ _ _ _ HT H H') as (_ & p2 & p2' & E).
  rewrite S_empty in E. cbn [app] in E.
  apply (prefixb_cut (S_ pre) QUOTE v p2 Hpre). rewrite E. apply prefixb_app.
Qed.

(** * Decoding *)
Lemma dec_reject k s : matchb T (re_of_kind c k) s = false -> dec c k s = Err ERegexNotMatch.
Proof. intro H. unfold dec. rewrite H. reflexivity. Qed.

Lemma head_tick_quoted pre s t v :
  tables_ok T = true -> quoted_shape c pre s t v ->
  exists p2, Forall (fun x => is_ws T x = true) p2 /\
    head_tick c s = (t, S_ " = E """ ++ S_ pre ++ v ++ QUOTE :: p2).
Proof.
  intros HT H. apply quoted_shape_inv in H as (p1 & p2 & Hp1 & Hp2 & Hne & Ht & ->).
  exists p2. split; [exact Hp2|].
  rewrite (head_tick_shape c p1 t _ HT Hp1 Hne Ht (hf_digit_blank T HT _)). reflexivity.
Qed.

Lemma dec_lyric s t v :
  cfg_ok_events c = true -> quoted_shape c "lyric " s t v -> no_lf v -> short t ->
  dec c KLyric s = Ok (PGlobal KLyric (horner T t 0) v).
Proof.
  intros Hok Hs Hv Hsh. destruct (cfg_ok_events_inv c Hok) as (HT & _).
  assert (Hm : matchb T (re_lyric c) s = true) by (apply (C09_lyric_only Hok); eauto).
  unfold dec. cbn [re_of_kind]. rewrite Hm.
  destruct (head_tick_quoted _ _ _ _ HT Hs) as (p2 & Hp2 & Eh).
  unfold extract. rewrite Eh, (py_int_short T t Hsh). cbn [bind].
  rewrite S_E, S_lyric.
  change (skipn (6 + 6) _) with (v ++ QUOTE :: p2).
  rewrite (lazy_value not_lf v p2 HT (proj2 (not_lf_no_lf v) Hv) Hp2). reflexivity.
Qed.

Lemma dec_section s t v :
  cfg_ok_events c = true -> quoted_shape c "section " s t v -> no_lf v -> short t ->
  dec c KSection s = Ok (PGlobal KSection (horner T t 0) v).
Proof.
  intros Hok Hs Hv Hsh. destruct (cfg_ok_events_inv c Hok) as (HT & _).
  assert (Hm : matchb T (re_section c) s = true) by (apply (C09_section_only Hok); eauto).
  unfold dec. cbn [re_of_kind]. rewrite Hm.
  destruct (head_tick_quoted _ _ _ _ HT Hs) as (p2 & Hp2 & Eh).
  unfold extract. rewrite Eh, (py_int_short T t Hsh). cbn [bind].
  rewrite S_E, S_section.
  change (skipn (6 + 8) _) with (v ++ QUOTE :: p2).
  rewrite (lazy_value not_lf v p2 HT (proj2 (not_lf_no_lf v) Hv) Hp2). reflexivity.
Qed.

Lemma dec_text s t v :
  cfg_ok_events c = true -> quoted_shape c "" s t v -> no_quote v -> short t ->
  dec c KText s = Ok (PGlobal KText (horner T t 0) v).
Proof.
  intros Hok Hs Hv Hsh. destruct (cfg_ok_events_inv c Hok) as (HT & _).
  assert (Hm : matchb T (re_text c) s = true) by (apply (C09_text_only Hok); eauto).
  unfold dec. cbn [re_of_kind]. rewrite Hm.
  destruct (head_tick_quoted _ _ _ _ HT Hs) as (p2 & Hp2 & Eh).
  unfold extract. rewrite Eh, (py_int_short T t Hsh). cbn [bind].
  rewrite S_E, S_empty.
  change (skipn 6 _) with (v ++ QUOTE :: p2).
  rewrite (lazy_value not_quote v p2 HT (proj2 (not_quote_no_quote v) Hv) Hp2). reflexivity.
Qed.

(** * Classification by the first-match-wins dispatcher *)
Lemma C09_lyric : C09_lyric_stmt c.
Proof.
  intros Hok s t v Hs Hv Hsh.
  pose proof (dec_lyric s t v Hok Hs Hv Hsh) as Hd.
  destruct (cfg_ok_events_inv c Hok) as (HT & _ & _ & _ & [Ho | Ho]); rewrite Ho; cbn [try_kinds].
  - rewrite Hd. reflexivity.
  - rewrite (dec_reject KSection s).
    + rewrite Hd. reflexivity.
    + cbn [re_of_kind]. destruct (matchb T (re_section c) s) eqn:E; [|reflexivity].
      exfalso. apply (C09_lyric_section_disjoint Hok s). split; [|exact E].
      apply (C09_lyric_only Hok). eauto.
Qed.

Lemma C09_section : C09_section_stmt c.
Proof.
  intros Hok s t v Hs Hv Hsh.
  pose proof (dec_section s t v Hok Hs Hv Hsh) as Hd.
  destruct (cfg_ok_events_inv c Hok) as (HT & _ & _ & _ & [Ho | Ho]); rewrite Ho; cbn [try_kinds].
  - rewrite (dec_reject KLyric s).
    + rewrite Hd. reflexivity.
    + cbn [re_of_kind]. destruct (matchb T (re_lyric c) s) eqn:E; [|reflexivity].
      exfalso. apply (C09_lyric_section_disjoint Hok s). split; [exact E|].
      apply (C09_section_only Hok). eauto.
  - rewrite Hd. reflexivity.
Qed.

Lemma C09_text : C09_text_stmt c.
Proof.
  intros Hok s t v Hs Hq Hlf Hnl Hns Hsh.
  pose proof (dec_text s t v Hok Hs Hq Hsh) as Hd.
  destruct (cfg_ok_events_inv c Hok) as (HT & _ & _ & _ & Ho).
  assert (Hl : dec c KLyric s = Err ERegexNotMatch).
  { apply dec_reject. cbn [re_of_kind]. destruct (matchb T (re_lyric c) s) eqn:E; [|reflexivity].
    exfalso. apply (C09_lyric_only Hok) in E as (t' & v' & H' & _).
    rewrite (text_not_prefixed "lyric " s t v t' v' HT) in Hnl; [discriminate | | exact Hs | exact H'].
    rewrite S_lyric. repeat constructor; discriminate. }
  assert (Hsec : dec c KSection s = Err ERegexNotMatch).
  { apply dec_reject. cbn [re_of_kind]. destruct (matchb T (re_section c) s) eqn:E; [|reflexivity].
    exfalso. apply (C09_section_only Hok) in E as (t' & v' & H' & _).
    rewrite (text_not_prefixed "section " s t v t' v' HT) in Hns; [discriminate | | exact Hs | exact H'].
    rewrite S_section. repeat constructor; discriminate. }
  destruct Ho as [Ho | Ho]; rewrite Ho; cbn [try_kinds]; rewrite Hl, Hsec, Hd; reflexivity.
Qed.

(** * Partition: a general fact about [mapM] and [flat_map] *)
Lemma mapM_flat_map {A B C} (f : A -> result B) (g : B -> list C) lines outs :
  mapM f lines = Ok outs ->
  flat_map g outs = flat_map (fun l => match f l with Ok o => g o | Err _ => [] end) lines.
Proof.
  revert outs. induction lines as [|x xs IH]; intros outs; cbn [mapM].
  - intro H; inversion H; subst. reflexivity.
  - destruct (f x) as [y|e] eqn:Ex; cbn [bind]; [|discriminate].
    destruct (mapM f xs) as [ys|e] eqn:Exs; cbn [bind]; [|discriminate].
    intro H; inversion H; subst. cbn [flat_map]. rewrite Ex, (IH ys eq_refl). reflexivity.
Qed.

Lemma C09_partition : C09_partition_stmt c.
Proof.
  intros lines outs H k. unfold dispatch in H. unfold data_of.
  rewrite (mapM_flat_map _ _ _ _ H).
  apply flat_map_ext. intro l.
  destruct (try_kinds c (order_events c) l) as [[k' d | u] | e]; reflexivity.
Qed.

End Main.
