(** Proofs/C19.v *)
From CP Require Import Base.Prelude Base.Str Base.Regex Base.Cfg Model.Chart Model.ChartState Spec.C19.
Open Scope Z_scope.

Lemma touch_plain st i : touch false st i = st.
Proof. unfold touch. destruct (has_key st i); reflexivity. Qed.

Lemma step_plain st o : fst (step false st o) = st.
Proof.
  destruct o; cbn [step fst]; try reflexivity.
  - destruct (assoc i (c_tracks (cs_chart st))); [reflexivity|].
    rewrite Bool.orb_false_r. destruct (mem_str i (cs_extra st)); cbn [fst]; [apply touch_plain|reflexivity].
  - apply touch_plain.
Qed.

Lemma run_plain ops : forall st, fst (run false st ops) = st /\
  snd (run false st ops) = map (fun o => snd (step false st o)) ops.
Proof.
  induction ops as [|o ops IH]; intro st; cbn [run map]; [split; reflexivity|].
  destruct (step false st o) as [st' r] eqn:E.
  assert (Hst : st' = st) by (pose proof (step_plain st o) as H; rewrite E in H; exact H).
  subst st'. destruct (IH st) as [H1 H2]. destruct (run false st ops) as [st'' rs].
  cbn [fst snd] in *. subst st''. split; [reflexivity|]. rewrite H2. reflexivity.
Qed.

Lemma C19_immutable : C19_immutable_stmt.
Proof. intros ops st. destruct (run_plain ops st) as [H _]. rewrite H. split; reflexivity. Qed.

Lemma C19_history_free : C19_history_free_stmt.
Proof. intros ops st. apply run_plain. Qed.

Lemma C19_twin : C19_twin_stmt.
Proof.
  intros ops ch. rewrite (proj2 (run_plain ops (init_state ch))).
  apply Forall_forall. intros r Hr. apply in_map_iff in Hr as (o & <- & _).
  destruct o; cbn [step snd]; try exact I.
  - destruct (assoc i (c_tracks (cs_chart (init_state ch)))); cbn [snd]; [exact I|].
    destruct (mem_str i (cs_extra (init_state ch)) || false); exact I.
  - reflexivity.
Qed.

Lemma C19_frozen : C19_frozen_stmt.
Proof. intros auto st. reflexivity. Qed.

Lemma C19_refuted_autoinsert : C19_refuted_autoinsert_stmt.
Proof.
  exists {| c_meta := []; c_gev := {| g_text := []; g_section := []; g_lyric := [] |};
            c_sync := {| Sync.st_ts := []; Sync.st_bpm := {| Sync.evs := []; Sync.resolution := 192 |}; Sync.st_anchor := [] |};
            c_tracks := [] |}, [66%N].
  split; [|reflexivity]. cbn. discriminate.
Qed.
