(** Proofs/FloatBase.v — reusable real-number facts about the binary64 operations of
    Base/Float64.v (Flocq [BinarySingleNaN], round to nearest even). *)
From CP Require Import Base.Prelude Base.Float64 Spec.FloatSpec.
From Coq Require Import Reals Lra Lia ZifyBool.
From Flocq Require Import Core.Core IEEE754.BinarySingleNaN Relative.
Open Scope Z_scope.

Notation fexp64 := (SpecFloat.fexp 53 1024).

(** *** The format and the rounding [RN] *)

Lemma fexp64_FLT : forall e, fexp64 e = FLT_exp (-1074) 53 e.
Proof. reflexivity. Qed.

Lemma RN_fexp : forall x, round radix2 fexp64 ZnearestE x = RN x.
Proof. reflexivity. Qed.

Lemma RN_mode_NE : forall x, round radix2 fexp64 (round_mode mode_NE) x = RN x.
Proof. reflexivity. Qed.

#[global] Instance FLT64_valid : Valid_exp (FLT_exp (-1074) 53).
Proof. apply FLT_exp_valid. reflexivity. Qed.

Definition format64 (x : R) : Prop := generic_format radix2 (FLT_exp (-1074) 53) x.

Lemma RN_le : forall x y, (x <= y)%R -> (RN x <= RN y)%R.
Proof. intros x y H. unfold RN. apply round_le; auto with typeclass_instances. Qed.

Lemma RN_0 : RN 0 = 0%R.
Proof. unfold RN. apply round_0. auto with typeclass_instances. Qed.

Lemma RN_generic : forall x, format64 x -> RN x = x.
Proof. intros x H. unfold RN. apply round_generic; auto with typeclass_instances. Qed.

Lemma format64_RN : forall x, format64 (RN x).
Proof. intros x. unfold RN, format64. apply generic_format_round; auto with typeclass_instances. Qed.

Lemma format64_B2R : forall x : f64, format64 (B2R x).
Proof. intros x. exact (generic_format_B2R 53 1024 x). Qed.

Lemma format64_bpow : forall e, -1074 <= e -> format64 (bpow radix2 e).
Proof.
  intros e He. unfold format64. apply generic_format_FLT_bpow; auto. reflexivity.
Qed.

Lemma RN_bpow : forall e, -1074 <= e -> RN (bpow radix2 e) = bpow radix2 e.
Proof. intros e He. apply RN_generic, format64_bpow, He. Qed.

Lemma RN_ge_0 : forall x, (0 <= x)%R -> (0 <= RN x)%R.
Proof. intros x H. rewrite <- RN_0. now apply RN_le. Qed.

Lemma RN_le_generic : forall x y, format64 y -> (x <= y)%R -> (RN x <= y)%R.
Proof. intros x y Hy H. rewrite <- (RN_generic y Hy). now apply RN_le. Qed.

Lemma RN_ge_generic : forall x y, format64 x -> (x <= y)%R -> (x <= RN y)%R.
Proof. intros x y Hx H. rewrite <- (RN_generic x Hx). now apply RN_le. Qed.

Lemma RN_abs_le_generic : forall x y, format64 y -> (Rabs x <= y)%R -> (Rabs (RN x) <= y)%R.
Proof.
  intros x y Hy H. unfold RN. apply abs_round_le_generic; auto with typeclass_instances.
Qed.

Lemma RN_opp : forall x, RN (- x) = (- RN x)%R.
Proof. intros x. unfold RN. apply round_NE_opp. Qed.

(** Relative error of one rounding, away from the subnormal range. *)
Lemma RN_error : forall x,
  (bpow radix2 (-1022) <= Rabs x)%R ->
  (Rabs (RN x - x) <= bpow radix2 (-53) * Rabs x)%R.
Proof.
  intros x Hx. unfold RN.
  assert (H := relative_error_N_FLT radix2 (-1074) 53 ltac:(reflexivity)
                 (fun x => negb (Z.even x)) x).
  replace (bpow radix2 (-53)) with (/ 2 * bpow radix2 (-53 + 1))%R.
  - apply H. exact Hx.
  - change (bpow radix2 (-53 + 1)) with (bpow radix2 (-52)).
    replace (-52) with (1 + -53) by reflexivity.
    rewrite bpow_plus. change (bpow radix2 1) with 2%R. field.
Qed.

(** Absolute error: half an ulp in the subnormal range is 2^-1075. *)
Lemma RN_error_pos : forall x, (0 < x)%R -> (bpow radix2 (-1022) <= x)%R ->
  (x * (1 - bpow radix2 (-53)) <= RN x <= x * (1 + bpow radix2 (-53)))%R.
Proof.
  intros x H0 Hx.
  assert (H := RN_error x). rewrite (Rabs_pos_eq x) in H by lra.
  specialize (H Hx). apply Rabs_le_inv in H. lra.
Qed.

Lemma IZR_pow2 : forall e, 0 <= e -> IZR (2 ^ e) = bpow radix2 e.
Proof. intros e He. exact (IZR_Zpower radix2 e He). Qed.

Lemma format64_IZR : forall z, Z.abs z <= 2 ^ 53 -> format64 (IZR z).
Proof.
  intros z Hz. unfold format64.
  destruct (Z.eq_dec (Z.abs z) (2 ^ 53)) as [E|E].
  - assert (z = 2 ^ 53 \/ z = - 2 ^ 53) as [->| ->] by lia.
    + rewrite IZR_pow2 by lia. apply format64_bpow. lia.
    + rewrite opp_IZR. apply generic_format_opp. rewrite IZR_pow2 by lia.
      apply format64_bpow. lia.
  - apply generic_format_FLT. apply (FLT_spec radix2 (-1074) 53 _ (Float radix2 z 0)).
    + unfold F2R. simpl. ring.
    + simpl. change (Z.pow_pos 2 53) with (2 ^ 53). lia.
    + simpl. lia.
Qed.

Lemma RN_IZR : forall z, Z.abs z <= 2 ^ 53 -> RN (IZR z) = IZR z.
Proof. intros z Hz. apply RN_generic, format64_IZR, Hz. Qed.

Lemma bpow_lt_emax : forall e, e < 1024 -> (bpow radix2 e < bpow radix2 1024)%R.
Proof. intros e He. apply bpow_lt. exact He. Qed.

(** *** int -> float *)

Lemma of_Z_exact_le : forall z, Z.abs z <= 2 ^ 53 ->
  B2R (of_Z z) = IZR z /\ is_finite (of_Z z) = true /\ Bsign (of_Z z) = (z <? 0).
Proof.
  intros z Hz. unfold of_Z, F.
  assert (H := binary_normalize_correct 53 1024 Hprec Hemax mode_NE z 0 false).
  cbv zeta in H.
  assert (EF : F2R (Float radix2 z 0) = IZR z) by (unfold F2R; simpl; ring).
  rewrite EF in H. rewrite RN_mode_NE in H. rewrite RN_IZR in H by exact Hz.
  rewrite Rlt_bool_true in H.
  - destruct H as (H1 & H2 & H3). split; [exact H1|]. split; [exact H2|].
    refine (eq_trans H3 _). destruct (Rcompare_spec (IZR z) 0) as [C|C|C].
    + apply lt_IZR in C. lia.
    + apply eq_IZR in C. lia.
    + apply lt_IZR in C. lia.
  - apply Rle_lt_trans with (bpow radix2 53).
    + rewrite <- abs_IZR. rewrite <- IZR_pow2 by lia. apply IZR_le. exact Hz.
    + apply bpow_lt. reflexivity.
Qed.

Lemma of_Z_exact : forall z, Z.abs z < 2 ^ 53 ->
  B2R (of_Z z) = IZR z /\ is_finite (of_Z z) = true.
Proof.
  intros z Hz. destruct (of_Z_exact_le z ltac:(lia)) as (H1 & H2 & _). now split.
Qed.

Lemma of_Z_B2R : forall z, Z.abs z <= 2 ^ 53 -> B2R (of_Z z) = IZR z.
Proof. intros z Hz. apply of_Z_exact_le, Hz. Qed.

Lemma of_Z_finite : forall z, Z.abs z <= 2 ^ 53 -> is_finite (of_Z z) = true.
Proof. intros z Hz. apply of_Z_exact_le, Hz. Qed.

Lemma of_Z_sign : forall z, Z.abs z <= 2 ^ 53 -> Bsign (of_Z z) = (z <? 0).
Proof. intros z Hz. apply of_Z_exact_le, Hz. Qed.

Lemma two53_eq : two53 = 2 ^ 53.
Proof. reflexivity. Qed.

(** *** Division and multiplication without overflow *)

Lemma finite_not_nan : forall x : f64, is_finite x = true -> is_nan x = false.
Proof. now intros [ | | | ]. Qed.

Lemma fdiv_correct_gen : forall (x y : f64) e, e < 1024 ->
  is_finite x = true -> is_finite y = true -> B2R y <> 0%R ->
  (Rabs (B2R x / B2R y) <= bpow radix2 e)%R ->
  B2R (fdiv x y) = RN (B2R x / B2R y) /\ is_finite (fdiv x y) = true /\
  Bsign (fdiv x y) = xorb (Bsign x) (Bsign y).
Proof.
  intros x y e He Fx Fy Hy Hb. unfold fdiv.
  assert (H := Bdiv_correct 53 1024 Hprec Hemax mode_NE x y Hy).
  rewrite RN_mode_NE in H. rewrite Rlt_bool_true in H.
  - destruct H as (H1 & H2 & H3). split; [exact H1|].
    assert (F2 : is_finite (Bdiv mode_NE x y) = true) by exact (eq_trans H2 Fx).
    split; [exact F2|]. apply H3. apply finite_not_nan. exact F2.
  - apply Rle_lt_trans with (bpow radix2 (Z.max e (-1074))).
    + apply RN_abs_le_generic. apply format64_bpow; lia.
      eapply Rle_trans; [exact Hb|]. apply bpow_le. lia.
    + apply bpow_lt. lia.
Qed.

Lemma fdiv_correct : forall x y : f64,
  is_finite x = true -> is_finite y = true -> B2R y <> 0%R ->
  (Rabs (B2R x / B2R y) <= bpow radix2 1000)%R ->
  B2R (fdiv x y) = RN (B2R x / B2R y) /\ is_finite (fdiv x y) = true /\
  Bsign (fdiv x y) = xorb (Bsign x) (Bsign y).
Proof. intros x y. apply fdiv_correct_gen. reflexivity. Qed.

Lemma fmul_correct_gen : forall (x y : f64) e, e < 1024 ->
  is_finite x = true -> is_finite y = true ->
  (Rabs (B2R x * B2R y) <= bpow radix2 e)%R ->
  B2R (fmul x y) = RN (B2R x * B2R y) /\ is_finite (fmul x y) = true /\
  Bsign (fmul x y) = xorb (Bsign x) (Bsign y).
Proof.
  intros x y e He Fx Fy Hb. unfold fmul.
  assert (H := Bmult_correct 53 1024 Hprec Hemax mode_NE x y).
  rewrite RN_mode_NE in H. rewrite Rlt_bool_true in H.
  - destruct H as (H1 & H2 & H3). split; [exact H1|].
    assert (F2 : is_finite (Bmult mode_NE x y) = true).
    { refine (eq_trans H2 _). change (is_finite x && is_finite y = true)%bool.
      now rewrite Fx, Fy. }
    split; [exact F2|]. apply H3. apply finite_not_nan. exact F2.
  - apply Rle_lt_trans with (bpow radix2 (Z.max e (-1074))).
    + apply RN_abs_le_generic. apply format64_bpow; lia.
      eapply Rle_trans; [exact Hb|]. apply bpow_le. lia.
    + apply bpow_lt. lia.
Qed.

Lemma fmul_correct : forall x y : f64,
  is_finite x = true -> is_finite y = true ->
  (Rabs (B2R x * B2R y) <= bpow radix2 1000)%R ->
  B2R (fmul x y) = RN (B2R x * B2R y) /\ is_finite (fmul x y) = true /\
  Bsign (fmul x y) = xorb (Bsign x) (Bsign y).
Proof. intros x y. apply fmul_correct_gen. reflexivity. Qed.

(** *** Comparisons *)

Lemma f_le_correct : forall x y : f64, is_finite x = true -> is_finite y = true ->
  f_le x y = Rle_bool (B2R x) (B2R y).
Proof. intros x y. apply Bleb_correct. Qed.

Lemma f_lt_correct : forall x y : f64, is_finite x = true -> is_finite y = true ->
  f_lt x y = Rlt_bool (B2R x) (B2R y).
Proof. intros x y. apply Bltb_correct. Qed.

Lemma f_eq_correct : forall x y : f64, is_finite x = true -> is_finite y = true ->
  f_eq x y = Req_bool (B2R x) (B2R y).
Proof. intros x y. apply Beqb_correct. Qed.

Lemma f_eq_refl : forall x : f64, is_finite x = true -> f_eq x x = true.
Proof.
  intros x Fx. unfold f_eq. rewrite Beqb_refl. now rewrite finite_not_nan.
Qed.

Lemma f_le_fzero_pos : forall x : f64, is_finite x = true -> (0 < B2R x)%R ->
  f_le x fzero = false.
Proof.
  intros x Fx Hx. rewrite f_le_correct by (auto; reflexivity).
  apply Rle_bool_false. simpl. exact Hx.
Qed.

(** *** Mantissa/exponent view of a finite float *)

Lemma B2R_finite : forall s m e (H : SpecFloat.bounded 53 1024 m e = true),
  B2R (B754_finite s m e H : f64) = (IZR (cond_Zopp s (Zpos m)) * bpow radix2 e)%R.
Proof. reflexivity. Qed.

Lemma B2R_finite_pos : forall m e (H : SpecFloat.bounded 53 1024 m e = true),
  B2R (B754_finite false m e H : f64) = (IZR (Zpos m) * bpow radix2 e)%R.
Proof. reflexivity. Qed.

Lemma B2R_finite_pos_int : forall m e (H : SpecFloat.bounded 53 1024 m e = true),
  0 <= e -> B2R (B754_finite false m e H : f64) = IZR (Zpos m * 2 ^ e).
Proof.
  intros m e H He. rewrite B2R_finite_pos, mult_IZR, IZR_pow2 by exact He. reflexivity.
Qed.

Lemma B2R_finite_pos_quot : forall m e (H : SpecFloat.bounded 53 1024 m e = true),
  e < 0 -> B2R (B754_finite false m e H : f64) = (IZR (Zpos m) / IZR (2 ^ (- e)))%R.
Proof.
  intros m e H He. rewrite B2R_finite_pos, IZR_pow2 by lia.
  rewrite bpow_opp. unfold Rdiv. rewrite Rinv_inv. reflexivity.
Qed.

(** A finite float whose magnitude is below 2^52 has a negative exponent. *)
Lemma finite_lt_2p52_exp_neg : forall s m e (H : SpecFloat.bounded 53 1024 m e = true),
  (Rabs (B2R (B754_finite s m e H : f64)) < bpow radix2 52)%R -> e < 0.
Proof.
  intros s m e H Hlt.
  destruct (Z_lt_le_dec e 0) as [L|L]; [exact L|exfalso].
  assert (Hb := H). unfold SpecFloat.bounded in Hb.
  apply andb_prop in Hb. destruct Hb as [Hc _].
  unfold SpecFloat.canonical_mantissa in Hc. apply Zeq_bool_eq in Hc.
  unfold SpecFloat.fexp, SpecFloat.emin in Hc.
  rewrite Zpos_digits2_pos in Hc.
  assert (D : 53 <= Zdigits radix2 (Zpos m)) by lia.
  assert (M : 2 ^ 52 <= Zpos m).
  { assert (Q := Zpower_le_Zdigits radix2 52 (Zpos m) ltac:(lia)).
    change (Zpower radix2 52) with (2 ^ 52) in Q. lia. }
  rewrite B2R_finite in Hlt. rewrite Rabs_mult in Hlt.
  rewrite <- abs_IZR, abs_cond_Zopp in Hlt.
  rewrite (Rabs_pos_eq (bpow radix2 e)) in Hlt by apply bpow_ge_0.
  assert (1 <= bpow radix2 e)%R by (change 1%R with (bpow radix2 0); now apply bpow_le).
  assert (bpow radix2 52 <= IZR (Z.abs (Zpos m)))%R.
  { rewrite <- IZR_pow2 by lia. apply IZR_le. lia. }
  assert (0 < bpow radix2 52)%R by apply bpow_gt_0.
  nra.
Qed.

(** *** Round-half-even of a quotient of integers *)

Lemma ZnearestE_div : forall a b, 0 < b -> ZnearestE (IZR a / IZR b) = rhe_div a b.
Proof.
  intros a b Hb. unfold rhe_div, Znearest.
  assert (Hb' : b <> 0) by lia.
  rewrite (Zfloor_div a b Hb').
  assert (Hm := Z.mod_pos_bound a b Hb).
  assert (Hd := Z.div_mod a b Hb').
  set (q := a / b) in *. set (r := a mod b) in *.
  assert (Rb : (0 < IZR b)%R) by (apply IZR_lt; lia).
  assert (E : (IZR a / IZR b - IZR q = IZR r / IZR b)%R).
  { rewrite Hd, plus_IZR, mult_IZR. field. lra. }
  rewrite E.
  assert (C : Rcompare (IZR r / IZR b) (/ 2) = (2 * r ?= b)).
  { destruct (Z.compare_spec (2 * r) b) as [K|K|K].
    - apply Rcompare_Eq. rewrite <- K, mult_IZR. field.
      apply IZR_neq. lia.
    - apply Rcompare_Lt. apply IZR_lt in K. rewrite mult_IZR in K.
      apply Rmult_lt_reg_r with (IZR b); [exact Rb|]. field_simplify; lra.
    - apply Rcompare_Gt. apply IZR_lt in K. rewrite mult_IZR in K.
      apply Rmult_lt_reg_r with (IZR b); [exact Rb|]. field_simplify; lra. }
  rewrite C.
  assert (Ceil : r <> 0 -> Zceil (IZR a / IZR b) = q + 1).
  { intros Hr. rewrite Zceil_floor_neq; rewrite (Zfloor_div a b Hb'); [reflexivity|].
    fold q. intro K.
    assert (IZR r / IZR b = 0)%R by lra.
    assert (IZR r = 0)%R.
    { apply Rmult_eq_reg_r with (/ IZR b)%R; [|apply Rinv_neq_0_compat; lra].
      unfold Rdiv in H. lra. }
    apply eq_IZR in H0. lia. }
  destruct (Z.compare_spec (2 * r) b) as [K|K|K].
  - destruct (Z.even q); simpl; [reflexivity|]. apply Ceil. lia.
  - reflexivity.
  - apply Ceil. lia.
Qed.

Lemma ZnearestE_IZR : forall z, ZnearestE (IZR z) = z.
Proof. intros z. apply Zrnd_IZR. apply valid_rnd_N. Qed.

Lemma ZnearestE_opp : forall x, ZnearestE (- x) = - ZnearestE x.
Proof.
  intros x. rewrite Znearest_opp.
  f_equal. unfold Znearest.
  replace (negb (negb (Z.even (- (Zfloor x + 1))))) with (negb (Z.even (Zfloor x))).
  - reflexivity.
  - rewrite negb_involutive, Z.even_opp, Z.even_add. simpl.
    destruct (Z.even (Zfloor x)); reflexivity.
Qed.

(** *** Python's round(float) *)

Lemma py_round_int_pos : forall x : f64,
  is_finite x = true -> Bsign x = false -> py_round_int x = Ok (ZnearestE (B2R x)).
Proof.
  intros [s|s| |s m e H] Fx Sx; try discriminate.
  - simpl. now rewrite ZnearestE_IZR.
  - simpl in Sx. subst s. unfold py_round_int.
    destruct (Z.leb_spec 0 e) as [L|L].
    + rewrite B2R_finite_pos_int by exact L. now rewrite ZnearestE_IZR.
    + rewrite B2R_finite_pos_quot by exact L.
      rewrite ZnearestE_div by (apply Z.pow_pos_nonneg; lia). reflexivity.
Qed.

Lemma py_round_int_finite : forall x : f64,
  is_finite x = true -> py_round_int x = Ok (ZnearestE (B2R x)).
Proof.
  intros x Fx. destruct (Bsign x) eqn:S; [|now apply py_round_int_pos].
  destruct x as [s|s| |s m e H]; try discriminate.
  - simpl. now rewrite ZnearestE_IZR.
  - simpl in S. subst s.
    assert (P := py_round_int_pos (B754_finite false m e H) eq_refl eq_refl).
    pose (v := if 0 <=? e then Zpos m * 2 ^ e else rhe_div (Zpos m) (2 ^ (- e))).
    change (Ok v = Ok (ZnearestE (B2R (B754_finite false m e H : f64)))) in P.
    change (Ok (- v) = Ok (ZnearestE (B2R (B754_finite true m e H : f64)))).
    injection P as P. rewrite P. f_equal.
    rewrite <- ZnearestE_opp. f_equal.
    rewrite !B2R_finite. cbn [cond_Zopp]. rewrite opp_IZR. unfold F2R. cbn [Fnum Fexp]. ring.
Qed.

Lemma py_round_int_nonneg : forall x : f64,
  is_finite x = true -> (0 <= B2R x)%R -> py_round_int x = Ok (ZnearestE (B2R x)).
Proof. intros x Fx _. now apply py_round_int_finite. Qed.
