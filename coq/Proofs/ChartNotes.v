(** Proofs/ChartNotes.v — the note properties C02–C05 lifted from one built track to every track of
    every successfully parsed chart (through [from_file]). *)
From CP Require Import Base.Prelude Base.Str Base.Regex Base.Cfg Base.Float64 Base.Timedelta
  Model.Lines Model.Sync Model.Instrument Model.Chart
  Spec.C02 Spec.C03 Spec.C04 Spec.C05 Spec.C11 Spec.Tempo Spec.ChartSpec Spec.ChartTimed Spec.ChartNotes
  Proofs.C02 Proofs.C03 Proofs.C04 Proofs.FloatC04 Proofs.C05 Proofs.C11 Proofs.Tempo
  Proofs.ChartInv Proofs.ChartTimed.
From Coq Require Import Sorted Lia.
Open Scope Z_scope.

(** * Every track of a parsed chart was built by [itrack_from_lines] from some section body *)

Lemma chart_track_built c text want ch logs :
  from_file c text want = Ok (ch, logs) ->
  forall tr, In tr (chart_tracks ch) -> track_of_section c (st_bpm (c_sync ch)) tr.
Proof.
  intros H tr Hin. apply from_file_from_secs in H. destruct H as [secs H].
  apply from_secs_ok_inv in H. destruct H as [l0 [_ Hroute]].
  assert (HF : Forall (track_of_section c (st_bpm (c_sync ch))) (tracks_of (c_tracks ch))).
  { eapply route_inv; [| |exact Hroute].
    - intros i d body tr0 ws Hit. unfold track_of_section.
      destruct (itrack_from_lines_labels _ _ _ _ _ _ _ Hit) as [Ei Ed].
      exists body, ws. rewrite Ei, Ed. exact Hit.
    - constructor. }
  rewrite Forall_forall in HF. apply HF. exact Hin.
Qed.

(** * One unfolding of [itrack_from_lines] *)

Lemma itrack_notes_inv c i d body B tr ws :
  itrack_from_lines c i d body B = Ok (tr, ws) ->
  exists nl, note_lines c body = Ok nl /\
    build_notes c B (it_sps tr) (group_by_tick nl) None 0 0 = Ok (it_notes tr).
Proof.
  intro H. unfold itrack_from_lines in H.
  apply bind_ok in H. destruct H as [outs [Hd H]]. cbv zeta in H.
  apply bind_ok in H. destruct H as [sp_tm [_ H]].
  apply bind_ok in H. destruct H as [tev_tm [_ H]].
  apply bind_ok in H. destruct H as [notes [Hn H]].
  inversion H; subst tr. clear H. cbn [it_sps it_notes].
  exists (map ndata_of (data_of KNote outs)). split; [|exact Hn].
  unfold note_lines. rewrite Hd. reflexivity.
Qed.

(** The common front end of the four chart-level statements. *)
Lemma chart_track_notes c text want ch logs :
  from_file c text want = Ok (ch, logs) ->
  forall tr, In tr (chart_tracks ch) ->
    exists body ws nl,
      itrack_from_lines c (it_instr tr) (it_diff tr) body (st_bpm (c_sync ch)) = Ok (tr, ws) /\
      note_lines c body = Ok nl /\
      build_notes c (st_bpm (c_sync ch)) (it_sps tr) (group_by_tick nl) None 0 0 = Ok (it_notes tr).
Proof.
  intros H tr Hin. destruct (chart_track_built _ _ _ _ _ H tr Hin) as [body [ws Hit]].
  destruct (itrack_notes_inv _ _ _ _ _ _ _ Hit) as [nl [Hnl Hb]].
  exists body, ws, nl. auto.
Qed.

(** * C02 *)

Lemma Forall2_ticks groups notes :
  Forall2 (fun g e => n_tick e = group_tick g /\ n_note e = lanes_of g) groups notes ->
  map n_tick notes = map group_tick groups.
Proof.
  induction 1 as [|g e gs es [Ht _] _ IH]; [reflexivity|]. cbn [map]. rewrite Ht, IH. reflexivity.
Qed.

Lemma C02_chart : C02_chart_stmt.
Proof.
  unfold C02_chart_stmt. intros c text want ch logs H tr Hin.
  destruct (chart_track_notes _ _ _ _ _ H tr Hin) as [body [ws [nl [Hit [Hnl Hb]]]]].
  exists body, ws, nl. split; [exact Hit|]. split; [exact Hnl|].
  pose proof (C02_events _ _ _ _ _ _ _ _ Hb) as HF. split; [exact HF|].
  intro Hs. rewrite (Forall2_ticks _ _ HF). apply (C02_sorted nl Hs).
Qed.

(** * C03 *)

Lemma build_notes_sustain c B sps : forall groups prev hint cursor notes,
  build_notes c B sps groups prev hint cursor = Ok notes ->
  Forall2 (fun g e => complex_sustain g = Ok (n_sustain e)) groups notes.
Proof.
  induction groups as [|g gs IH]; intros prev hint cursor notes H; cbn [build_notes] in H.
  - inversion H. constructor.
  - apply bind_ok in H. destruct H as [[[e h'] c'] [He H]].
    apply bind_ok in H. destruct H as [es [Hes H]]. inversion H; subst notes. clear H.
    constructor.
    + apply (C03_event _ _ _ _ _ _ _ _ _ _ He).
    + eapply IH. exact Hes.
Qed.

Lemma C03_chart : C03_chart_stmt.
Proof.
  unfold C03_chart_stmt. intros c text want ch logs H tr Hin.
  destruct (chart_track_notes _ _ _ _ _ H tr Hin) as [body [ws [nl [Hit [Hnl Hb]]]]].
  exists body, ws, nl. split; [exact Hit|]. split; [exact Hnl|].
  split; [eapply build_notes_sustain; exact Hb|].
  pose proof (C11_file _ _ _ _ _ H) as HC. cbv zeta in HC. destruct HC as [_ [_ HN]].
  rewrite Forall_forall in *. intros e He.
  assert (Hc : In e (chart_notes ch)).
  { unfold chart_notes. apply in_flat_map. exists tr. split; assumption. }
  destruct (HN e Hc) as [_ Hend]. exact Hend.
Qed.

(** * C04 *)

Lemma C04_chart : C04_chart_stmt.
Proof.
  unfold C04_chart_stmt. intros c text want ch logs Het H HR tr Hin.
  destruct (chart_track_notes _ _ _ _ _ H tr Hin) as [body [ws [nl [Hit [Hnl Hb]]]]].
  exists body, ws, nl. split; [exact Hit|]. split; [exact Hnl|].
  pose proof (C11_file _ _ _ _ _ H) as HC. cbv zeta in HC. destruct HC as [[Hpos _] _].
  apply (C04_track_from C04_threshold_float c (st_bpm (c_sync ch)) (it_sps tr)); [exact Het | lia | exact Hb].
Qed.

(** * C05 *)

Lemma C05_chart : C05_chart_stmt.
Proof.
  unfold C05_chart_stmt. intros c text want ch logs H tr Hin Hsp Hn.
  destruct (chart_track_built _ _ _ _ _ H tr Hin) as [body [ws Hit]].
  eapply C05_from_lines; eassumption.
Qed.
