(** Proofs/C01.v — the tick -> time query of a tempo map is within half a microsecond (plus one
    nanosecond of float slack) per tempo segment of the exact rational time. *)
From CP Require Import Base.Prelude Base.Str Base.Float64 Base.Timedelta Model.Sync
  Spec.FloatSpec Spec.C11 Spec.Tempo Spec.C01 Proofs.C11 Proofs.Tempo Proofs.FloatAcc.
From Coq Require Import Reals Lra Lia Sorted.
Open Scope Z_scope.

(** * Small facts *)

Lemma Rabs_le_inv x a : (Rabs x <= a -> - a <= x <= a)%R.
Proof. unfold Rabs. destruct (Rcase_abs x); lra. Qed.

Lemma slack_0 : slack 0 = 0%R.
Proof. unfold slack. simpl. ring. Qed.

Lemma slack_succ k : slack (k + 1) = (slack k + (1 / 2 + 1 / 1000))%R.
Proof. unfold slack. rewrite plus_IZR. simpl. ring. Qed.

Lemma seg_exact_nonneg n res k :
  1 <= n -> 1 <= res -> 0 <= k -> (0 <= seg_exact n res k)%R.
Proof.
  intros Hn Hr Hk. unfold seg_exact.
  assert (1 <= IZR n)%R by (apply IZR_le; lia).
  assert (1 <= IZR res)%R by (apply IZR_le; lia).
  assert (0 <= IZR k)%R by (apply IZR_le; lia).
  unfold Rdiv. apply Rmult_le_pos; [nra|].
  apply Rlt_le, Rinv_0_lt_compat. nra.
Qed.

Lemma seg_exact_0 n res : seg_exact n res 0 = 0%R.
Proof. unfold seg_exact, Rdiv. simpl. ring. Qed.

Lemma exact_from_single res tk n t :
  exact_from res [(tk, n)] t = seg_exact n res (t - tk).
Proof. reflexivity. Qed.

Lemma exact_from_cons2 res tk n tk1 n1 tm t :
  exact_from res ((tk, n) :: (tk1, n1) :: tm) t =
  if t <? tk1 then seg_exact n res (t - tk)
  else (seg_exact n res (tk1 - tk) + exact_from res ((tk1, n1) :: tm) t)%R.
Proof. reflexivity. Qed.

Lemma Forall2_cons_inv {A B} (P : A -> B -> Prop) a l b m :
  Forall2 P (a :: l) (b :: m) -> P a b /\ Forall2 P l m.
Proof. intro H. inversion H; subst. auto. Qed.

Lemma nth_Z_cons_succ {A} (a : A) l g : 0 <= g -> nth_Z (a :: l) (g + 1) = nth_Z l g.
Proof.
  intro Hg. unfold nth_Z.
  destruct (g + 1 <? 0) eqn:E1; [apply Z.ltb_lt in E1; lia|].
  destruct (g <? 0) eqn:E2; [apply Z.ltb_lt in E2; lia|].
  replace (Z.to_nat (g + 1)) with (S (Z.to_nat g)) by lia. reflexivity.
Qed.

Lemma td_check_small us :
  -10000000000000000 <= us <= 10000000000000000 -> td_check us = Ok us.
Proof.
  intro H. unfold td_check, td_in_range, us_per_day, us_per_second, max_days.
  change (86400 * 1000000) with 86400000000.
  assert (H1 : -999999999 <= us / 86400000000).
  { apply Z.div_le_lower_bound; lia. }
  assert (H2 : us / 86400000000 <= 999999999).
  { apply Z.div_le_upper_bound; lia. }
  match goal with |- (if ?b then _ else _) = _ => replace b with true; [reflexivity|] end.
  symmetry. apply andb_true_intro. split; apply Z.leb_le; lia.
Qed.

Lemma segments_gov es tm t : matches_tm es tm -> segments tm t = gov es t + 1.
Proof.
  intro H. unfold segments, gov.
  enough (E : Zlength_ (filter (fun p => fst p <=? t) tm) =
              Zlength_ (filter (fun e => b_tick e <=? t) es)) by lia.
  induction H as [|e p es' tm' [Htk _] _ IH]; [reflexivity|].
  simpl. rewrite Htk. destruct (fst p <=? t); unfold Zlength_ in *; simpl length; lia.
Qed.

(** * One segment, in the shape used below *)

Lemma seg_acc res e n k :
  1 <= res < 2 ^ 53 -> 1 <= n <= 10 ^ 9 -> b_bpm e = bpm_of_n n -> 0 <= k < 2 ^ 53 ->
  (seg_exact n res k <= 10 ^ 12)%R ->
  exists d, seg_us (b_bpm e) res k = Ok d /\ 0 <= d /\
            (Rabs (IZR d - seg_exact n res k) <= 1 / 2 + 1 / 1000)%R.
Proof.
  intros Hres Hn Hb Hk Hex. rewrite Hb. apply dur_acc; assumption.
Qed.

(** * The main induction along the chained list.

    For a query tick [t] at or after the head event [e0]: the governing event [p], the rounded
    duration [d] of the last partial segment, and the exact time [x] of [p]'s tick measured from
    [e0]'s tick. *)
Definition query_concl (res : Z) (es : list bpm_event) (tm : list (Z * Z)) (e0 : bpm_event) (t : Z)
  : Prop :=
  exists p d x,
    nth_Z es (gov es t) = Some p /\ 0 <= gov es t <= t - b_tick e0 /\
    b_tick p <= t /\
    seg_us (b_bpm p) res (t - b_tick p) = Ok d /\ 0 <= d /\
    (0 <= x <= exact_from res tm t)%R /\
    (Rabs (IZR (b_ts p) - IZR (b_ts e0) - x) <= slack (gov es t))%R /\
    (Rabs (IZR d - (exact_from res tm t - x)) <= 1 / 2 + 1 / 1000)%R /\
    (t = b_tick p -> x = exact_from res tm t).

Lemma head_case res e es' tm n t :
  1 <= res < 2 ^ 53 -> 1 <= n <= 10 ^ 9 -> b_bpm e = bpm_of_n n ->
  0 <= b_tick e <= t -> t < 2 ^ 53 ->
  gov (e :: es') t = 0 ->
  exact_from res tm t = seg_exact n res (t - b_tick e) ->
  (exact_from res tm t <= 10 ^ 12)%R ->
  query_concl res (e :: es') tm e t.
Proof.
  intros Hres Hn Hb Ht Ht53 Hg Hex Hle.
  rewrite Hex in Hle.
  destruct (seg_acc res e n (t - b_tick e) Hres Hn Hb ltac:(lia) Hle) as [d [Hd [Hd0 Hacc]]].
  pose proof (seg_exact_nonneg n res (t - b_tick e) ltac:(lia) ltac:(lia) ltac:(lia)) as Hnn.
  exists e, d, 0%R. rewrite Hg, Hex.
  split; [reflexivity|]. split; [lia|]. split; [lia|]. split; [exact Hd|]. split; [exact Hd0|].
  split; [lra|]. split; [|split].
  - rewrite slack_0. replace (IZR (b_ts e) - IZR (b_ts e) - 0)%R with 0%R by ring.
    rewrite Rabs_R0. lra.
  - rewrite Rminus_0_r. exact Hacc.
  - intro Et. rewrite Et, Z.sub_diag, seg_exact_0. reflexivity.
Qed.

Lemma chain_query res :
  1 <= res < 2 ^ 53 ->
  forall es tm, matches_tm es tm -> chained res es ->
    Forall (fun p => 1 <= snd p <= 10 ^ 9) tm ->
    forall e0 rest t, es = e0 :: rest -> 0 <= b_tick e0 <= t -> t < 2 ^ 53 ->
      (exact_from res tm t <= 10 ^ 12)%R ->
      query_concl res es tm e0 t.
Proof.
  intros Hres.
  induction es as [|e es' IH]; intros tm Hm Hc Hf e0 rest t E Ht Ht53 Hex; [discriminate E|].
  injection E as <- <-.
  destruct tm as [|[tk n] tm']; [inversion Hm|].
  apply Forall2_cons_inv in Hm. destruct Hm as [[Htk Hbpm] Hm']. simpl in Htk, Hbpm.
  apply Forall_cons_iff in Hf. destruct Hf as [Hn Hf']. cbn [snd] in Hn.
  assert (Ele : (b_tick e <=? t) = true) by (apply Z.leb_le; lia).
  destruct es' as [|e1 es2].
  - (* a single event *)
    inversion Hm'; subst tm'.
    apply (head_case res e [] _ n t Hres Hn Hbpm Ht Ht53).
    + rewrite gov_cnt, cnt_cons, cnt_nil, Ele. reflexivity.
    + rewrite exact_from_single, Htk. reflexivity.
    + exact Hex.
  - destruct tm' as [|[tk1 n1] tm'']; [inversion Hm'|].
    pose proof (Forall2_cons_inv _ _ _ _ _ Hm') as [[Htk1 _] _]. simpl in Htk1.
    apply chained_cons2 in Hc. destruct Hc as [[Hlt [d01 [Hd01 Hts01]]] Hc'].
    pose proof (chained_sorted _ _ Hc') as Hs'.
    rewrite exact_from_cons2 in Hex.
    destruct (t <? tk1) eqn:Et.
    + (* the head governs *)
      apply Z.ltb_lt in Et.
      apply (head_case res e (e1 :: es2) _ n t Hres Hn Hbpm Ht Ht53).
      * rewrite gov_cnt, cnt_cons, Ele.
        rewrite (sorted_head_lt e1 es2 t Hs') by lia. reflexivity.
      * rewrite exact_from_cons2. apply Z.ltb_lt in Et. rewrite Et, Htk. reflexivity.
      * rewrite exact_from_cons2. apply Z.ltb_lt in Et. rewrite Et. exact Hex.
    + apply Z.ltb_ge in Et.
      pose proof (seg_exact_nonneg n res (tk1 - tk) ltac:(lia) ltac:(lia) ltac:(lia)) as Hseg0.
      set (S0 := seg_exact n res (tk1 - tk)) in *.
      set (tm1 := (tk1, n1) :: tm'') in *.
      set (E1 := exact_from res tm1 t) in *.
      assert (HE1 : (E1 <= 10 ^ 12)%R) by lra.
      destruct (IH tm1 Hm' Hc' Hf' e1 es2 t eq_refl ltac:(lia) Ht53 HE1)
        as (p & d & x & Hnth & Hg & Hpt & Hd & Hd0 & Hx & Hacc & Hdacc & Heq).
      fold E1 in Hx, Hdacc, Heq.
      set (g1 := gov (e1 :: es2) t) in *.
      assert (Hgov : gov (e :: e1 :: es2) t = g1 + 1).
      { rewrite gov_cnt, cnt_cons, Ele. unfold g1. rewrite gov_cnt. lia. }
      (* the first whole segment *)
      assert (HS0 : (S0 <= 10 ^ 12)%R) by lra.
      destruct (seg_acc res e n (tk1 - tk) Hres Hn Hbpm ltac:(lia) HS0) as [d0 [Hd0' [_ Hacc0]]].
      rewrite <- Htk, <- Htk1 in Hd0'. rewrite Hd01 in Hd0'. injection Hd0' as <-.
      fold S0 in Hacc0.
      exists p, d, (S0 + x)%R.
      assert (Eex : exact_from res ((tk, n) :: tm1) t = (S0 + E1)%R).
      { unfold tm1. rewrite exact_from_cons2.
        apply Z.ltb_ge in Et. rewrite Et. reflexivity. }
      rewrite Eex, Hgov.
      split; [rewrite nth_Z_cons_succ by lia; exact Hnth|].
      split; [lia|]. split; [exact Hpt|]. split; [exact Hd|]. split; [exact Hd0|].
      split; [lra|]. split; [|split].
      * rewrite slack_succ.
        replace (IZR (b_ts p) - IZR (b_ts e) - (S0 + x))%R
          with ((IZR (b_ts p) - IZR (b_ts e1) - x) + (IZR d01 - S0))%R
          by (rewrite Hts01, plus_IZR; ring).
        eapply Rle_trans; [apply Rabs_triang|]. apply Rplus_le_compat; assumption.
      * replace (S0 + E1 - (S0 + x))%R with (E1 - x)%R by ring. exact Hdacc.
      * intro Etp. rewrite (Heq Etp). reflexivity.
Qed.

(** * The statements *)

Lemma gov_nonneg B t : tempo_wf B -> 0 <= t -> 0 <= gov (evs B) t.
Proof.
  intros [_ [[e0 [rest [E [Ht0 _]]]] _]] Ht. rewrite E, gov_cnt, cnt_cons.
  assert (Ele : (b_tick e0 <=? t) = true) by (apply Z.leb_le; lia).
  rewrite Ele. pose proof (cnt_bounds rest t). lia.
Qed.

Lemma C01_query : C01_query_stmt.
Proof.
  unfold C01_query_stmt. intros B tm t h Hwf Hm [Hres [Hf [Ht Hex]]] Hh.
  destruct (tempo_wf_sorted B Hwf) as [Hs Hne].
  destruct Hwf as [Hr0 [[e0 [rest [E [Ht0 Hts0]]]] Hc]].
  destruct (chain_query (resolution B) Hres (evs B) tm Hm Hc Hf e0 rest t E ltac:(lia)
              ltac:(lia) Hex)
    as (p & d & x & Hnth & Hg & Hpt & Hd & Hd0 & Hx & Hacc & Hdacc & _).
  rewrite Hts0 in Hacc.
  exists (b_ts p + d). split.
  - unfold timestamp_at_tick.
    destruct (C11_hint (evs B) t h Hs Hne ltac:(lia)) as [H1 _].
    rewrite (H1 ltac:(lia)). cbn [bind]. rewrite Hnth.
    replace (tick_between (b_tick p) t) with (t - b_tick p) by (unfold tick_between; lia).
    unfold seg_us in Hd. apply bind_ok in Hd. destruct Hd as [s [Hsec Htd]].
    rewrite Hsec. cbn [bind]. unfold time_add_seconds. rewrite Htd. cbn [bind].
    unfold td_add. rewrite td_check_small; [reflexivity|].
    (* the range check of the final addition *)
    assert (E12 : (10 ^ 12 = 1000000000000)%R) by (simpl; ring).
    rewrite E12 in Hex.
    apply Rabs_le_inv in Hacc. apply Rabs_le_inv in Hdacc.
    assert (Hgr : (0 <= IZR (gov (evs B) t) <= 9007199254740992)%R).
    { split; apply IZR_le; [lia|]. change (2 ^ 53) with 9007199254740992 in Ht. lia. }
    unfold slack in Hacc.
    set (G := IZR (gov (evs B) t)) in *.
    split; apply le_IZR; rewrite plus_IZR; lra.
  - rewrite (segments_gov _ _ _ Hm), slack_succ, plus_IZR.
    replace (IZR (b_ts p) + IZR d - exact_from (resolution B) tm t)%R
      with ((IZR (b_ts p) - IZR 0 - x) + (IZR d - (exact_from (resolution B) tm t - x)))%R
      by (simpl; ring).
    eapply Rle_trans; [apply Rabs_triang|]. apply Rplus_le_compat; assumption.
Qed.

Lemma C01_tick0 : C01_tick0_stmt.
Proof.
  unfold C01_tick0_stmt. intros B tm Hwf Hm Hres Hf.
  destruct (tempo_wf_sorted B Hwf) as [Hs Hne].
  pose proof (gov_nonneg B 0 Hwf ltac:(lia)) as Hg0.
  destruct Hwf as [Hr0 [[e0 [rest [E [Ht0 Hts0]]]] Hc]].
  assert (Hgov : gov (evs B) 0 = 0).
  { rewrite E in Hs |- *. apply sorted_cons_inv in Hs. destruct Hs as [Hfa _].
    rewrite gov_cnt, cnt_cons, Ht0. change (0 <=? 0) with true. cbv iota.
    rewrite cnt_none; [reflexivity|].
    eapply Forall_impl; [|exact Hfa]. simpl. intros a Ha. lia. }
  rewrite E in Hm. destruct tm as [|[tk0 n0] tm']; [inversion Hm|].
  apply Forall2_cons_inv in Hm. destruct Hm as [[_ Hbpm] _]. simpl in Hbpm.
  apply Forall_cons_iff in Hf. destruct Hf as [Hn _]. cbn [snd] in Hn.
  pose proof (dur_zero n0 (resolution B) Hn ltac:(lia)) as Hz.
  unfold seg_us in Hz. apply bind_ok in Hz. destruct Hz as [s [Hsec Htd]].
  unfold timestamp_at_tick.
  destruct (C11_hint (evs B) 0 0 Hs Hne ltac:(lia)) as [H1 _].
  rewrite (H1 Hg0), Hgov. cbn [bind]. rewrite E.
  change (nth_Z (e0 :: rest) 0) with (Some e0). cbv iota beta.
  rewrite Ht0. change (tick_between 0 0) with 0.
  rewrite Hbpm, Hsec. cbn [bind]. unfold time_add_seconds. rewrite Htd. cbn [bind].
  rewrite Hts0. reflexivity.
Qed.

Lemma C01_tempo_events : C01_tempo_events_stmt.
Proof.
  unfold C01_tempo_events_stmt. intros B tm i e Hwf Hm Hnth [Hres [Hf [Ht Hex]]].
  destruct (tempo_wf_sorted B Hwf) as [Hs Hne].
  destruct Hwf as [Hr0 [[e0 [rest [E [Ht0 Hts0]]]] Hc]].
  destruct (chain_query (resolution B) Hres (evs B) tm Hm Hc Hf e0 rest (b_tick e) E
              ltac:(lia) ltac:(lia) Hex)
    as (p & d & x & Hnth' & Hg & Hpt & Hd & Hd0 & Hx & Hacc & Hdacc & Heq).
  assert (Hgi : gov (evs B) (b_tick e) = i).
  { unfold nth_Z in Hnth. destruct (i <? 0) eqn:Ei; [discriminate Hnth|].
    apply Z.ltb_ge in Ei. rewrite (gov_self (evs B) Hs _ _ Hnth). lia. }
  rewrite Hgi in Hnth', Hacc. rewrite Hnth in Hnth'. injection Hnth' as <-.
  rewrite (Heq eq_refl), Hts0 in Hacc.
  replace (IZR (b_ts e) - exact_from (resolution B) tm (b_tick e))%R
    with (IZR (b_ts e) - IZR 0 - exact_from (resolution B) tm (b_tick e))%R
    by (simpl; ring).
  exact Hacc.
Qed.

Lemma C01_stored : C01_stored_stmt.
Proof.
  unfold C01_stored_stmt. intros B tm e Hwf Hm Hq Hst.
  assert (Ht : 0 <= t_tick e) by (destruct Hq as [_ [_ [Ht _]]]; lia).
  pose proof (gov_nonneg B (t_tick e) Hwf Ht) as Hg.
  destruct (C01_query B tm (t_tick e) 0 Hwf Hm Hq ltac:(lia)) as [us [Hts Hb]].
  unfold stored_ok in Hst. rewrite Hst in Hts. injection Hts as Hus _.
  rewrite Hus. exact Hb.
Qed.
