(** Proofs/FloatAcc.v — accuracy of one segment duration (C01): the four float operations of
    [seconds] followed by [td_of_seconds] are within 1/2 + 1/1000 microsecond of the exact
    rational duration. *)
From CP Require Import Base.Prelude Base.Float64 Base.Timedelta Model.Sync Spec.FloatSpec.
From CP Require Import Proofs.FloatAccAux.
From Coq Require Import Reals Lra Lia.
From Flocq Require Import Core.Core IEEE754.BinarySingleNaN.
From Interval Require Import Tactic.
Open Scope R_scope.

Lemma is_zero_false (x : f64) : B2R x <> 0 -> is_zero x = false.
Proof. destruct x; simpl; intros H; try reflexivity; now elim H. Qed.

(** The first three operations: seconds-per-tick. *)
Lemma spt_chain n R k :
  (1 <= n < 2 ^ 52)%Z -> (1 <= R < 2 ^ 53)%Z -> (0 <= k < 2 ^ 53)%Z ->
  exists spt e1 e2 e3 e4,
    seconds k (bpm_of_n n) R = Ok (fmul (of_Z k) spt) /\
    is_finite spt = true /\
    Rabs e1 <= bpow radix2 (-53) /\ Rabs e2 <= bpow radix2 (-53) /\
    Rabs e3 <= bpow radix2 (-53) /\ Rabs e4 <= bpow radix2 (-53) /\
    B2R spt = 1 / (IZR n / 1000 * (1 + e1) * IZR R * (1 + e2) / 60 * (1 + e3)) * (1 + e4) /\
    bpow radix2 (-93) <= B2R spt <= bpow radix2 20.
Proof.
  intros Hn HR Hk.
  change (2 ^ 52)%Z with 4503599627370496%Z in *.
  change (2 ^ 53)%Z with 9007199254740992%Z in *.
  destruct (of_Z_exact n) as [Bn Fn]; [change (2 ^ 53)%Z with 9007199254740992%Z; lia|].
  destruct (of_Z_exact 1000) as [B1000 F1000]; [reflexivity|].
  destruct (of_Z_exact R) as [BR FR]; [change (2 ^ 53)%Z with 9007199254740992%Z; lia|].
  destruct (of_Z_exact 60) as [B60 F60]; [reflexivity|].
  destruct (of_Z_exact 1) as [B1 F1]; [reflexivity|].
  destruct (of_Z_exact k) as [_ Fk]; [change (2 ^ 53)%Z with 9007199254740992%Z; lia|].
  assert (Zk : (k <? 0)%Z = false) by (apply Z.ltb_ge; lia).
  assert (ZR : (R <=? 0)%Z = false) by (apply Z.leb_gt; lia).
  assert (Hnn : 1 <= IZR n <= 4503599627370496) by (split; apply IZR_le; lia).
  assert (Hrr : 1 <= IZR R <= 9007199254740992) by (split; apply IZR_le; lia).
  (* bpm *)
  destruct (fdiv_rel (of_Z n) (of_Z 1000)) as (e1 & He1 & V1 & G1).
  { exact Fn. } { rewrite B1000. lra. } { rewrite Bn, B1000. split; interval with (i_prec 64). }
  change (fdiv (of_Z n) (of_Z 1000)) with (bpm_of_n n) in V1, G1.
  rewrite Bn, B1000 in V1.
  set (bpm := bpm_of_n n) in *.
  assert (R1 : bpow radix2 (-11) <= B2R bpm <= bpow radix2 43) by (rewrite V1; split; interval with (i_prec 64)).
  (* tpm *)
  destruct (fmul_rel bpm (of_Z R)) as (e2 & He2 & V2 & G2).
  { exact G1. } { exact FR. } { rewrite BR. split; interval with (i_prec 64). }
  rewrite BR in V2. set (tpm := fmul bpm (of_Z R)) in *.
  assert (R2 : bpow radix2 (-12) <= B2R tpm <= bpow radix2 97) by (rewrite V2; split; interval with (i_prec 64)).
  (* tps *)
  destruct (fdiv_rel tpm (of_Z 60)) as (e3 & He3 & V3 & G3).
  { exact G2. } { rewrite B60. lra. } { rewrite B60. split; interval with (i_prec 64). }
  rewrite B60 in V3. set (tps := fdiv tpm (of_Z 60)) in *.
  assert (R3 : bpow radix2 (-19) <= B2R tps <= bpow radix2 92) by (rewrite V3; split; interval with (i_prec 64)).
  (* spt *)
  assert (P3 : 0 < B2R tps) by (assert (0 < bpow radix2 (-19)) by apply bpow_gt_0; lra).
  destruct (fdiv_rel (of_Z 1) tps) as (e4 & He4 & V4 & G4).
  { exact F1. } { lra. } { rewrite B1. split; interval with (i_prec 64). }
  rewrite B1 in V4. set (spt := fdiv (of_Z 1) tps) in *.
  assert (R4 : bpow radix2 (-93) <= B2R spt <= bpow radix2 20) by (rewrite V4; split; interval with (i_prec 64)).
  exists spt, e1, e2, e3, e4.
  split; [|split; [exact G4|]].
  - unfold seconds. rewrite Zk.
    assert (L : f_le bpm fzero = false).
    { unfold f_le, fzero. rewrite Bleb_correct by (try exact G1; reflexivity).
      apply Rle_bool_false. simpl (B2R (B754_zero false)).
      assert (0 < bpow radix2 (-11)) by apply bpow_gt_0. lra. }
    rewrite L. rewrite ZR.
    unfold py_mul_float_int, py_float_of_int, is_fin. rewrite FR. cbn [bind].
    unfold py_div_float_int, py_float_of_int, is_fin. rewrite F60. cbn [bind].
    rewrite is_zero_false by (rewrite B60; lra). cbn [bind].
    unfold py_div_int_float, py_float_of_int, is_fin. rewrite F1. cbn [bind].
    fold tpm. fold tps. rewrite is_zero_false by lra. fold spt.
    unfold py_mul_int_float, py_float_of_int, is_fin.
    rewrite Fk. cbn [bind]. reflexivity.
  - repeat (split; [assumption|]). split; [|exact R4].
    rewrite V4, V3, V2, V1. reflexivity.
Qed.

Lemma dur_zero : dur_zero_stmt.
Proof.
  intros n R Hn HR.
  destruct (spt_chain n R 0) as (spt & e1 & e2 & e3 & e4 & Hs & Fs & _); try lia.
  unfold seg_us. rewrite Hs. cbn [bind].
  change (of_Z 0) with (B754_zero false : f64).
  destruct spt; try discriminate; reflexivity.
Qed.

(** The four operations: relative error of [seconds]. *)
Lemma seconds_acc n R k :
  (1 <= n < 2 ^ 52)%Z -> (1 <= R < 2 ^ 53)%Z -> (1 <= k < 2 ^ 53)%Z ->
  exists s d,
    seconds k (bpm_of_n n) R = Ok s /\ is_finite s = true /\
    B2R s = IZR k * 60000 / (IZR n * IZR R) * (1 + d) /\
    Rabs d <= 6 * bpow radix2 (-53).
Proof.
  intros Hn HR Hk.
  destruct (spt_chain n R k) as (spt & e1 & e2 & e3 & e4 & Hs & Fs & He1 & He2 & He3 & He4 & V4 & R4);
    try lia.
  change (2 ^ 52)%Z with 4503599627370496%Z in *.
  change (2 ^ 53)%Z with 9007199254740992%Z in *.
  destruct (of_Z_exact k) as [Bk Fk]; [change (2 ^ 53)%Z with 9007199254740992%Z; lia|].
  assert (Hnn : 1 <= IZR n <= 4503599627370496) by (split; apply IZR_le; lia).
  assert (Hrr : 1 <= IZR R <= 9007199254740992) by (split; apply IZR_le; lia).
  assert (Hkk : 1 <= IZR k <= 9007199254740992) by (split; apply IZR_le; lia).
  destruct (fmul_rel (of_Z k) spt) as (e5 & He5 & V5 & G5).
  { exact Fk. } { exact Fs. } { rewrite Bk. split; interval with (i_prec 64). }
  rewrite Bk in V5.
  exists (fmul (of_Z k) spt), ((1 + e4) * (1 + e5) / ((1 + e1) * (1 + e2) * (1 + e3)) - 1).
  split; [exact Hs|]. split; [exact G5|]. split.
  - rewrite V5, V4.
    assert (0 < 1 + e1) by interval with (i_prec 64). assert (0 < 1 + e2) by interval with (i_prec 64).
    assert (0 < 1 + e3) by interval with (i_prec 64).
    field. repeat split; lra.
  - interval with (i_prec 120).
Qed.

Lemma dur_acc : dur_acc_stmt.
Proof.
  intros n R k Hn HR Hk Hex.
  assert (E12 : 10 ^ 12 = 1000000000000) by (simpl; ring). rewrite E12 in Hex. clear E12.
  change (10 ^ 9)%Z with 1000000000%Z in Hn.
  destruct (Z.eq_dec k 0) as [-> | Hk0].
  { exists 0%Z. split; [apply dur_zero; [change (2 ^ 52)%Z with 4503599627370496%Z|]; lia|].
    split; [lia|]. unfold seg_exact. replace (_ - _) with 0 by (unfold Rdiv; ring).
    rewrite Rabs_R0. lra. }
  destruct (seconds_acc n R k) as (s & d & Hs & Fs & Vs & Hd);
    [change (2 ^ 52)%Z with 4503599627370496%Z; lia | lia | lia |].
  change (2 ^ 53)%Z with 9007199254740992%Z in *.
  assert (Hnn : 1 <= IZR n) by (apply IZR_le; lia).
  assert (Hrr : 1 <= IZR R) by (apply IZR_le; lia).
  assert (Hkk : 1 <= IZR k) by (apply IZR_le; lia).
  unfold seg_exact in *. set (ex := IZR k * 60000000000 / (IZR n * IZR R)) in *.
  assert (Hex0 : 0 <= ex).
  { unfold ex. apply Rmult_le_pos; [nra|]. apply Rlt_le, Rinv_0_lt_compat. nra. }
  assert (Vs' : 1000000 * B2R s = ex * (1 + d)).
  { rewrite Vs. unfold ex. field. lra. }
  clearbody ex. assert (Hex' : 0 <= ex <= 1000000000000) by lra.
  clear Hex Hex0.
  assert (Hb : 0 <= B2R s <= 2000000).
  { assert (0 <= 1000000 * B2R s <= 1000000 * 2000000); [|lra].
    rewrite Vs'. split; interval with (i_prec 100). }
  destruct (td_of_seconds_acc s Fs Hb) as (us & Hus & Hus0 & Herr).
  exists us. split; [unfold seg_us; rewrite Hs; exact Hus|]. split; [exact Hus0|].
  replace (IZR us - ex) with ((IZR us - 1000000 * B2R s) + ex * d) by (rewrite Vs'; ring).
  apply Rle_trans with (1 := Rabs_triang _ _).
  apply Rle_trans with (1 / 2 + bpow radix2 (-32) + 1000000000000 * (6 * bpow radix2 (-53))).
  - apply Rplus_le_compat; [exact Herr|]. rewrite Rabs_mult.
    apply Rmult_le_compat; try apply Rabs_pos; [rewrite Rabs_pos_eq; lra | exact Hd].
  - interval with (i_prec 64).
Qed.

Lemma dur_strict : dur_strict_stmt.
Proof.
  intros n R k1 k2 u1 u2 Hn HR HnR Hk Hk2 Hex H1 H2.
  assert (Hnn : 1 <= IZR n) by (apply IZR_le; lia).
  assert (Hrr : 1 <= IZR R) by (apply IZR_le; lia).
  assert (HnR' : IZR n * IZR R <= 30000000000) by (rewrite <- mult_IZR; apply IZR_le; exact HnR).
  assert (Hp : 0 < IZR n * IZR R) by nra.
  set (c := 60000000000 / (IZR n * IZR R)).
  assert (Hc : 2 <= c).
  { unfold c. apply Rmult_le_reg_r with (IZR n * IZR R); [exact Hp|].
    unfold Rdiv. rewrite Rmult_assoc, Rinv_l by lra. lra. }
  assert (Ek : forall k, seg_exact n R k = IZR k * c).
  { intros k. unfold seg_exact, c. unfold Rdiv. ring. }
  assert (Hk12 : IZR k1 + 1 <= IZR k2) by (rewrite <- plus_IZR; apply IZR_le; lia).
  assert (Hk1 : 0 <= IZR k1) by (apply IZR_le; lia).
  assert (Hex1 : seg_exact n R k1 <= 10 ^ 12).
  { apply Rle_trans with (2 := Hex). rewrite !Ek. nra. }
  destruct (dur_acc n R k1 Hn HR ltac:(lia) Hex1) as (v1 & E1 & _ & A1).
  destruct (dur_acc n R k2 Hn HR ltac:(lia) Hex) as (v2 & E2 & _ & A2).
  rewrite H1 in E1. rewrite H2 in E2. injection E1 as <-. injection E2 as <-.
  apply lt_IZR. rewrite Ek in A1, A2.
  apply Rabs_le_inv in A1. apply Rabs_le_inv in A2.
  assert (IZR k2 * c - IZR k1 * c >= 2) by nra.
  lra.
Qed.
