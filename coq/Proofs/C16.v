(** Proofs/C16.v — notes_per_second is count-in-closed-interval over interval length. *)
From CP Require Import Base.Prelude Base.Str Base.Regex Base.Cfg Base.Float64 Base.Timedelta
  Model.Lines Model.Sync Model.Instrument Model.Chart Spec.FloatSpec Spec.Tempo Spec.C16
  Proofs.FloatBase.
From Coq Require Import Reals Lra Lia ZifyBool.
From Flocq Require Import Core.Core IEEE754.BinarySingleNaN.
Open Scope Z_scope.

Ltac Zify.zify_post_hook ::= Z.to_euclidean_division_equations.

(** * The trivial rejections *)

Lemma C16_absent : C16_absent_stmt.
Proof.
  unfold C16_absent_stmt, notes_per_second. intros ch i d s e H. rewrite H. reflexivity.
Qed.

Lemma C16_noteless : C16_noteless_stmt.
Proof.
  unfold C16_noteless_stmt, notes_per_second. intros ch i d s e tr H Hn.
  rewrite H, Hn. reflexivity.
Qed.

(** * Tick bounds and time bounds agree *)

Lemma C16_tick_vs_time : C16_tick_vs_time_stmt.
Proof.
  unfold C16_tick_vs_time_stmt, ts_of, notes_per_second. intros ch i d ta tb ua ub Ha Hb.
  destruct (track_lookup ch i d) as [tr|]; [|reflexivity].
  destruct (it_notes tr) as [|n0 ns]; [reflexivity|].
  destruct (last_note_end tr) as [last|]; [|reflexivity].
  rewrite Ha, Hb. reflexivity.
Qed.

(** * The float content *)

Lemma p10_15 : 10 ^ 15 = 1000000000000000.
Proof. reflexivity. Qed.
Lemma p2_53 : 2 ^ 53 = 9007199254740992.
Proof. reflexivity. Qed.

Lemma bpow_m20 : bpow radix2 (-20) = (/ 1048576)%R.
Proof. reflexivity. Qed.
Lemma bpow_31 : bpow radix2 31 = 2147483648%R.
Proof. reflexivity. Qed.
Lemma bpow_m31 : bpow radix2 (-31) = (/ 2147483648)%R.
Proof. reflexivity. Qed.

Definition secs_of (d : Z) : f64 := fdiv (of_Z d) (of_Z 1000000).

Lemma secs_of_correct d :
  Z.abs d <= 2 * 10 ^ 15 ->
  is_finite (secs_of d) = true /\ B2R (secs_of d) = RN (IZR d / 1000000).
Proof.
  intro Hd. rewrite p10_15 in Hd.
  assert (Hd53 : Z.abs d <= 2 ^ 53) by (rewrite p2_53; lia).
  assert (HM : B2R (of_Z 1000000) = 1000000%R) by (apply of_Z_B2R; rewrite p2_53; lia).
  destruct (fdiv_correct (of_Z d) (of_Z 1000000)) as (Hv & Hf & _).
  - apply of_Z_finite; exact Hd53.
  - apply of_Z_finite; rewrite p2_53; lia.
  - rewrite HM. lra.
  - rewrite HM, of_Z_B2R by exact Hd53.
    unfold Rdiv. rewrite Rabs_mult. rewrite (Rabs_pos_eq (/ 1000000)) by lra.
    apply Rle_trans with (bpow radix2 53); [|apply bpow_le; lia].
    assert (Rabs (IZR d) <= bpow radix2 53)%R.
    { rewrite <- abs_IZR, <- IZR_pow2 by lia. apply IZR_le. exact Hd53. }
    assert (0 <= Rabs (IZR d))%R by apply Rabs_pos. lra.
  - unfold secs_of. split; [exact Hf|].
    rewrite Hv, HM, of_Z_B2R by exact Hd53. reflexivity.
Qed.

Lemma secs_of_nonpos d :
  Z.abs d <= 2 * 10 ^ 15 -> d <= 0 -> f_le (secs_of d) fzero = true.
Proof.
  intros Hd H0. destruct (secs_of_correct d Hd) as [Hf Hv].
  rewrite f_le_correct by (auto; reflexivity).
  apply Rle_bool_true. rewrite Hv. simpl. rewrite <- RN_0. apply RN_le.
  apply IZR_le in H0. lra.
Qed.

Lemma secs_of_pos d :
  Z.abs d <= 2 * 10 ^ 15 -> 0 < d ->
  (bpow radix2 (-20) <= B2R (secs_of d) <= bpow radix2 31)%R.
Proof.
  intros Hd H0. destruct (secs_of_correct d Hd) as [Hf Hv]. rewrite Hv.
  rewrite p10_15 in Hd.
  assert (1 <= IZR d)%R by (apply IZR_le; lia).
  assert (IZR d <= 2000000000000000)%R by (apply IZR_le; lia).
  split.
  - apply RN_ge_generic; [apply format64_bpow; lia|]. rewrite bpow_m20. lra.
  - apply RN_le_generic; [apply format64_bpow; lia|]. rewrite bpow_31. lra.
Qed.

Lemma is_zero_B2R (x : f64) : is_zero x = true -> B2R x = 0%R.
Proof. destruct x; simpl; intro H; try discriminate; reflexivity. Qed.

Lemma is_zero_false_pos (x : f64) : (0 < B2R x)%R -> is_zero x = false.
Proof.
  intro H. destruct (is_zero x) eqn:E; [|reflexivity].
  apply is_zero_B2R in E. lra.
Qed.

(** * The model's core equals the specification's rate *)

Lemma filter_length_le_ {A} (f : A -> bool) (l : list A) :
  (length (filter f l) <= length l)%nat.
Proof.
  induction l as [|x l IH]; simpl; [lia|]. destruct (f x); simpl; lia.
Qed.

Lemma count_closed_bounds notes a b :
  0 <= count_closed notes a b <= Zlength_ notes.
Proof.
  unfold count_closed, Zlength_.
  pose proof (filter_length_le_
    (fun e => (a <=? t_ts (n_at e)) && (t_ts (n_at e) <=? b))%bool notes). lia.
Qed.

Lemma td_check_small v : Z.abs v <= 2 * 10 ^ 15 -> td_check v = Ok v.
Proof.
  intro H. rewrite p10_15 in H. unfold td_check, td_in_range.
  unfold us_per_day, us_per_second, max_days. cbv zeta.
  change (86400 * 1000000) with 86400000000.
  match goal with |- (if ?c then _ else _) = _ => destruct c eqn:E end; [reflexivity|].
  exfalso. apply andb_false_iff in E. destruct E as [E|E]; apply Z.leb_gt in E; lia.
Qed.

Lemma nps_core_rate notes a b :
  Z.abs a <= 10 ^ 15 -> Z.abs b <= 10 ^ 15 -> Zlength_ notes < 2 ^ 53 ->
  nps_core notes a b = rate notes a b.
Proof.
  intros Ha Hb Hn.
  assert (Hd : Z.abs (b - a) <= 2 * 10 ^ 15) by lia.
  pose proof (count_closed_bounds notes a b) as Hc.
  unfold nps_core, rate. fold (count_closed notes a b).
  unfold td_sub. rewrite (td_check_small _ Hd). cbn [bind].
  unfold total_seconds, py_truediv_int, us_per_second.
  change (1000000 =? 0) with false. cbv iota.
  replace ((Z.abs (b - a) <=? two53) && (Z.abs 1000000 <=? two53))%bool with true.
  2:{ symmetry. apply andb_true_intro. rewrite two53_eq, p2_53. rewrite p10_15 in Hd.
      split; apply Z.leb_le; lia. }
  cbn [bind]. fold (secs_of (b - a)).
  destruct (b - a <=? 0) eqn:E.
  - apply Z.leb_le in E. rewrite (secs_of_nonpos _ Hd E). reflexivity.
  - apply Z.leb_gt in E.
    pose proof (secs_of_pos _ Hd E) as [Hlo _].
    destruct (secs_of_correct _ Hd) as [Hf _].
    assert (Hpos : (0 < B2R (secs_of (b - a)))%R).
    { eapply Rlt_le_trans; [apply (bpow_gt_0 radix2 (-20)) | exact Hlo]. }
    rewrite (f_le_fzero_pos _ Hf Hpos).
    unfold py_div_int_float, py_float_of_int, is_fin. cbv zeta.
    rewrite of_Z_finite by lia. cbn [bind].
    rewrite (is_zero_false_pos _ Hpos). reflexivity.
Qed.

(** * C16_main *)

Lemma last_note_end_some tr n0 ns :
  it_notes tr = n0 :: ns -> exists l, last_note_end tr = Some l.
Proof. unfold last_note_end. intros ->. eexists. reflexivity. Qed.

Lemma C16_main : C16_main_stmt.
Proof.
  unfold C16_main_stmt. intros ch i d s e Hc Hr.
  unfold in_range in Hr. unfold notes_per_second, spec_nps.
  destruct (track_lookup ch i d) as [tr|] eqn:Etr; [|reflexivity].
  specialize (Hr tr).
  destruct (it_notes tr) as [|n0 ns] eqn:En; [reflexivity|].
  destruct (last_note_end_some tr n0 ns En) as [last El]. rewrite El.
  set (B := st_bpm (c_sync ch)) in *.
  set (notes := n0 :: ns) in *.
  assert (Hcore : forall a b, start_time B s = Ok a -> end_time B tr e = Ok b ->
                              nps_core notes a b = rate notes a b).
  { intros a b Ha Hb. destruct (Hr a b eq_refl Ha Hb) as [H1 [H2 H3]].
    apply nps_core_rate; assumption. }
  clear Hr.
  destruct s as [|ta|ua]; destruct e as [|tb|ub]; try discriminate Hc;
    unfold start_time, end_time, ts_of in *; rewrite ?El in *; cbn [bind].
  - apply Hcore; reflexivity.
  - destruct (timestamp_at_tick_no_optimize_return B tb) as [b|er]; [|reflexivity].
    cbn [bind]. apply Hcore; reflexivity.
  - destruct (timestamp_at_tick_no_optimize_return B ta) as [a|er]; [|reflexivity].
    cbn [bind]. apply Hcore; reflexivity.
  - destruct (timestamp_at_tick_no_optimize_return B ta) as [a|er]; [|reflexivity].
    cbn [bind].
    destruct (timestamp_at_tick_no_optimize_return B tb) as [b|er]; [|reflexivity].
    cbn [bind]. apply Hcore; reflexivity.
  - apply Hcore; reflexivity.
  - apply Hcore; reflexivity.
Qed.

(** * C16_rate_zero *)

Lemma C16_rate_zero : C16_rate_zero_stmt.
Proof.
  unfold C16_rate_zero_stmt, rate. intros notes a b x Hx Hlen Hn.
  destruct (b - a <=? 0) eqn:E; [discriminate Hx|].
  fold (secs_of (b - a)) in Hx.
  assert (Hd : Z.abs (b - a) <= 2 * 10 ^ 15) by lia.
  pose proof (count_closed_bounds notes a b) as Hc.
  pose proof (secs_of_pos _ Hd ltac:(lia)) as [Hlo Hhi].
  destruct (secs_of_correct _ Hd) as [Hf _].
  set (n := count_closed notes a b) in *.
  set (secs := secs_of (b - a)) in *. clearbody secs.
  rewrite bpow_m20 in Hlo. rewrite bpow_31 in Hhi.
  assert (Hx' : x = fdiv (of_Z n) secs) by (injection Hx; auto). clear Hx.
  split.
  - intro H0. rewrite Hx', H0.
    assert (Hz : is_zero (of_Z 0) = true) by (vm_compute; reflexivity).
    destruct (of_Z 0) as [s0|s0| |s0 m0 e0 Hb0]; try discriminate Hz.
    destruct secs as [s1|s1| |s1 m1 e1 Hb1]; try discriminate Hf.
    + simpl in Hlo. lra.
    + reflexivity.
  - intro Hz. apply is_zero_B2R in Hz.
    destruct (Z.eq_dec n 0) as [E0|E0]; [exact E0|exfalso].
    assert (Hn1 : 1 <= n < 2 ^ 53) by lia.
    assert (HB : B2R (of_Z n) = IZR n) by (apply of_Z_B2R; lia).
    assert (Hn1R : (1 <= IZR n)%R) by (apply IZR_le; lia).
    assert (Hn2R : (IZR n <= bpow radix2 53)%R).
    { rewrite <- IZR_pow2 by lia. apply IZR_le. lia. }
    assert (Hq : (/ 2147483648 <= IZR n / B2R secs)%R).
    { unfold Rdiv. apply Rle_trans with (1 * / B2R secs)%R.
      - rewrite Rmult_1_l. apply Rinv_le_contravar; lra.
      - apply Rmult_le_compat_r; [|exact Hn1R].
        apply Rlt_le, Rinv_0_lt_compat. lra. }
    destruct (fdiv_correct (of_Z n) secs) as (Hv & _).
    + apply of_Z_finite; lia.
    + exact Hf.
    + lra.
    + rewrite HB. rewrite Rabs_pos_eq.
      * apply Rle_trans with (bpow radix2 53 * bpow radix2 20)%R.
        -- unfold Rdiv. apply Rmult_le_compat; try lra.
           ++ apply Rlt_le, Rinv_0_lt_compat. lra.
           ++ change (bpow radix2 20) with 1048576%R.
              rewrite <- (Rinv_inv 1048576). apply Rinv_le_contravar; lra.
        -- rewrite <- bpow_plus. apply bpow_le. lia.
      * lra.
    + rewrite <- Hx', Hz, HB in Hv.
      assert (bpow radix2 (-31) <= RN (IZR n / B2R secs))%R.
      { apply RN_ge_generic; [apply format64_bpow; lia|]. rewrite bpow_m31. exact Hq. }
      pose proof (bpow_gt_0 radix2 (-31)). lra.
Qed.
