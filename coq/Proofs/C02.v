(** Proofs/C02.v — grouping of note lines by tick and lanes. *)
From CP Require Import Base.Prelude Base.Str Base.Regex Base.Cfg Base.Float64 Base.Timedelta
  Model.Lines Model.Sync Model.Instrument Spec.C02.
From Coq Require Import Sorted.
Open Scope Z_scope.

(** One unfolding step of [group_by_tick], in a form convenient for case analysis. *)
Lemma group_cons d rest :
  group_by_tick (d :: rest) =
    match group_by_tick rest with
    | (d' :: g) :: gs => if nd_tick d' =? nd_tick d then (d :: d' :: g) :: gs else [d] :: (d' :: g) :: gs
    | gs => [d] :: gs
    end.
Proof. reflexivity. Qed.

(** Shape invariant: no group is empty. *)
Lemma groups_nonempty l : Forall (fun g => g <> []) (group_by_tick l).
Proof.
  induction l as [|d rest IH]; [constructor|].
  rewrite group_cons. destruct (group_by_tick rest) as [|[|d' g] gs].
  - repeat constructor; discriminate.
  - inversion IH as [|? ? Hbad _]; congruence.
  - inversion IH; subst. destruct (nd_tick d' =? nd_tick d); repeat constructor; try discriminate; assumption.
Qed.

Lemma C02_concat : C02_concat_stmt.
Proof.
  intro l; induction l as [|d rest IH]; [reflexivity|].
  rewrite group_cons. pose proof (groups_nonempty rest) as Hne.
  destruct (group_by_tick rest) as [|[|d' g] gs].
  - simpl in *. rewrite <- IH. reflexivity.
  - inversion Hne; congruence.
  - destruct (nd_tick d' =? nd_tick d); simpl in *; rewrite <- IH; reflexivity.
Qed.

Lemma C02_uniform : C02_uniform_stmt.
Proof.
  intro l; induction l as [|d rest IH]; [constructor|].
  rewrite group_cons. destruct (group_by_tick rest) as [|[|d' g] gs].
  - constructor; [|constructor]. split; [discriminate|]. repeat constructor.
  - inversion IH as [|? ? [Hbad _] _]; congruence.
  - inversion IH as [|? ? [_ Hu] Hrest]; subst.
    destruct (nd_tick d' =? nd_tick d) eqn:E.
    + constructor; [|exact Hrest]. split; [discriminate|]. cbn [group_tick] in *.
      apply Z.eqb_eq in E. constructor; [reflexivity|].
      eapply Forall_impl; [|exact Hu]. cbn. intros a Ha. congruence.
    + constructor; [split; [discriminate|repeat constructor]|].
      constructor; [split; [discriminate|exact Hu]|exact Hrest].
Qed.

Lemma C02_maximal : C02_maximal_stmt.
Proof.
  intro l; induction l as [|d rest IH]; [exact I|].
  rewrite group_cons. destruct (group_by_tick rest) as [|[|d' g] gs] eqn:Eg.
  - exact I.
  - pose proof (groups_nonempty rest) as Hne. rewrite Eg in Hne. inversion Hne; congruence.
  - destruct (nd_tick d' =? nd_tick d) eqn:E.
    + cbn [map group_tick] in *. apply Z.eqb_eq in E.
      destruct gs as [|g2 gs2]; [exact I|]. cbn [map adjacent_differ] in *.
      destruct IH as [H1 H2]. split; [congruence|exact H2].
    + cbn [map group_tick adjacent_differ] in *. apply Z.eqb_neq in E. split; [congruence|exact IH].
Qed.

(** *** Sorted input *)
Lemma head_tick_groups d rest :
  match group_by_tick (d :: rest) with
  | g :: _ => group_tick g = nd_tick d
  | [] => False
  end.
Proof.
  rewrite group_cons. destruct (group_by_tick rest) as [|[|d' g] gs]; try reflexivity.
  destruct (nd_tick d' =? nd_tick d); reflexivity.
Qed.

Lemma Sorted_le_inv a l : Sorted Z.le (a :: l) -> Sorted Z.le l /\ Forall (fun x => a <= x) l.
Proof.
  intro H. apply Sorted_StronglySorted in H; [|intros x y z; apply Z.le_trans].
  inversion H; subst. split; [apply StronglySorted_Sorted; assumption|assumption].
Qed.

Lemma group_ticks_in l : forall g, In g (group_by_tick l) -> exists d, In d l /\ nd_tick d = group_tick g.
Proof.
  intros g Hg. pose proof (C02_uniform l) as Hu. pose proof (C02_concat l) as Hc.
  rewrite Forall_forall in Hu. destruct (Hu g Hg) as [Hne _].
  destruct g as [|d g']; [congruence|]. exists d. split; [|reflexivity].
  rewrite <- Hc. apply in_concat. exists (d :: g'). split; [exact Hg|left; reflexivity].
Qed.

Lemma sorted_groups_strict l :
  Sorted Z.le (map nd_tick l) -> StronglySorted Z.lt (map group_tick (group_by_tick l)).
Proof.
  induction l as [|d rest IH]; intro Hs; [constructor|].
  cbn [map] in Hs. apply Sorted_le_inv in Hs as [Hs Hall]. specialize (IH Hs).
  assert (Hge : Forall (fun t => nd_tick d <= t) (map group_tick (group_by_tick rest))).
  { apply Forall_forall. intros t Ht. apply in_map_iff in Ht as (g & <- & Hg).
    apply group_ticks_in in Hg as (d0 & Hd0 & <-).
    rewrite Forall_forall in Hall. apply Hall. apply in_map. exact Hd0. }
  rewrite group_cons. destruct (group_by_tick rest) as [|[|d' g] gs] eqn:Eg.
  - repeat constructor.
  - pose proof (groups_nonempty rest) as Hne. rewrite Eg in Hne. inversion Hne; congruence.
  - cbn [map group_tick] in *. inversion IH as [|? ? IH1 IH2]; subst. inversion Hge as [|? ? Hge1 Hge2]; subst.
    destruct (nd_tick d' =? nd_tick d) eqn:E.
    + apply Z.eqb_eq in E. cbn [map group_tick]. constructor; [exact IH1|].
      rewrite <- E. exact IH2.
    + apply Z.eqb_neq in E. cbn [map group_tick]. constructor.
      * constructor; assumption.
      * constructor; [lia|]. eapply Forall_impl; [|exact IH2]. cbn; intros; lia.
Qed.

Lemma filter_all_true {A} (p : A -> bool) l : Forall (fun x => p x = true) l -> filter p l = l.
Proof. induction 1 as [|x l Hx _ IH]; cbn; [reflexivity|rewrite Hx, IH; reflexivity]. Qed.

Lemma filter_all_false {A} (p : A -> bool) l : Forall (fun x => p x = false) l -> filter p l = [].
Proof. induction 1 as [|x l Hx _ IH]; cbn; [reflexivity|rewrite Hx, IH; reflexivity]. Qed.

(** In a list of groups with uniform ticks and strictly increasing group ticks, each group is the
    fibre of its tick in the concatenation. *)
Lemma fibre_of_groups : forall gs,
  Forall (fun g => g <> [] /\ Forall (fun d => nd_tick d = group_tick g) g) gs ->
  StronglySorted Z.lt (map group_tick gs) ->
  Forall (fun g => g = filter (fun d => nd_tick d =? group_tick g) (concat gs)) gs.
Proof.
  induction gs as [|g gs IH]; intros Hu Hs; [constructor|].
  inversion Hu as [|? ? [Hne Hug] Hu']; subst. cbn [map] in Hs. inversion Hs as [|? ? Hs' Hlt]; subst.
  specialize (IH Hu' Hs'). constructor.
  - cbn [concat]. rewrite filter_app. rewrite filter_all_true.
    + rewrite filter_all_false; [rewrite app_nil_r; reflexivity|].
      apply Forall_forall. intros d Hd. apply in_concat in Hd as (g' & Hg' & Hdg').
      rewrite Forall_forall in Hu'. destruct (Hu' g' Hg') as [_ Hug'].
      rewrite Forall_forall in Hug'. rewrite (Hug' d Hdg').
      rewrite Forall_forall in Hlt. specialize (Hlt (group_tick g') (in_map _ _ _ Hg')).
      apply Z.eqb_neq. lia.
    + eapply Forall_impl; [|exact Hug]. cbn; intros d Hd. apply Z.eqb_eq. exact Hd.
  - rewrite Forall_forall in IH |- *. intros g' Hg'. cbn [concat]. rewrite filter_app.
    rewrite filter_all_false.
    + cbn [app]. apply IH. exact Hg'.
    + eapply Forall_impl; [|exact Hug]. cbn; intros d Hd. rewrite Hd.
      rewrite Forall_forall in Hlt. specialize (Hlt (group_tick g') (in_map _ _ _ Hg')).
      apply Z.eqb_neq. lia.
Qed.

Lemma C02_sorted : C02_sorted_stmt.
Proof.
  intros l Hs. split; [apply sorted_groups_strict; exact Hs|].
  pose proof (fibre_of_groups (group_by_tick l) (C02_uniform l) (sorted_groups_strict l Hs)) as H.
  rewrite C02_concat in H. exact H.
Qed.

(** *** Lanes *)
Lemma set_nth_length {A} n (x : A) l : length (set_nth n x l) = length l.
Proof. revert n; induction l as [|h t IH]; intros [|n]; cbn; auto. Qed.

Lemma set_nth_nth n (x : bool) l k : (n < length l)%nat ->
  nth k (set_nth n x l) false = if Nat.eqb k n then x else nth k l false.
Proof.
  revert n k; induction l as [|h t IH]; intros [|n] [|k] Hn; cbn in *; try lia; auto.
  apply IH; lia.
Qed.

Definition lane_step (n : list bool) (d : ndata) : list bool :=
  if (0 <=? nd_idx d) && (nd_idx d <? 5) then set_nth (Z.to_nat (nd_idx d)) true n else n.

Lemma lanes_fold_spec : forall g n, length n = 5%nat ->
  length (fold_left lane_step g n) = 5%nat /\
  forall k, (k < 5)%nat ->
    (nth k (fold_left lane_step g n) false = true <->
     nth k n false = true \/ exists d, In d g /\ nd_idx d = Z.of_nat k).
Proof.
  induction g as [|d g IH]; intros n Hn; cbn [fold_left].
  - split; [exact Hn|]. intros k Hk. split; [auto|]. intros [H|(d & [] & _)]; exact H.
  - assert (Hn' : length (lane_step n d) = 5%nat).
    { unfold lane_step. destruct ((0 <=? nd_idx d) && (nd_idx d <? 5)); [rewrite set_nth_length|]; exact Hn. }
    destruct (IH _ Hn') as [Hlen Hspec]. split; [exact Hlen|].
    intros k Hk. rewrite (Hspec k Hk). unfold lane_step.
    destruct ((0 <=? nd_idx d) && (nd_idx d <? 5)) eqn:E.
    + rewrite set_nth_nth by lia.
      destruct (Nat.eqb k (Z.to_nat (nd_idx d))) eqn:Ek.
      * apply Nat.eqb_eq in Ek. split; [|tauto]. intros _. right. exists d. split; [left; reflexivity|lia].
      * apply Nat.eqb_neq in Ek. split.
        -- intros [H|(d0 & Hd0 & Hi)]; [left; exact H|right; exists d0; split; [right; exact Hd0|exact Hi]].
        -- intros [H|(d0 & [->|Hd0] & Hi)]; [left; exact H|lia|right; exists d0; auto].
    + split.
      * intros [H|(d0 & Hd0 & Hi)]; [left; exact H|right; exists d0; split; [right; exact Hd0|exact Hi]].
      * intros [H|(d0 & [->|Hd0] & Hi)]; [left; exact H|lia|right; exists d0; auto].
Qed.

Lemma C02_lanes : C02_lanes_stmt.
Proof.
  intro g. destruct (lanes_fold_spec g no_lanes eq_refl) as [Hlen Hspec]. split; [exact Hlen|].
  intros k Hk. unfold lanes_of. change (fun n d => _) with lane_step. rewrite (Hspec k Hk).
  split; [|auto]. intros [H|H]; [|exact H].
  do 5 (destruct k as [|k]; [cbn in H; discriminate|]). lia.
Qed.

Lemma C02_open : C02_open_stmt.
Proof.
  intros g Hg. unfold lanes_of. generalize no_lanes as n.
  induction g as [|d g IH]; intro n; cbn [fold_left]; [reflexivity|].
  assert (E : (0 <=? nd_idx d) && (nd_idx d <? 5) = false).
  { specialize (Hg d (or_introl eq_refl)). lia. }
  rewrite E. apply IH. intros d0 Hd0. apply Hg. right; exact Hd0.
Qed.

(** *** One event per group *)
Lemma note_from_group_shape c B sps g prev hint cursor e hint' cursor' :
  note_from_group c B sps g prev hint cursor = Ok (e, hint', cursor') ->
  n_tick e = group_tick g /\ n_note e = lanes_of g.
Proof.
  unfold note_from_group. destruct g as [|d0 g']; [discriminate|]. intro H.
  repeat match type of H with
  | bind ?r _ = Ok _ => let x := fresh "x" in let Hx := fresh "Hx" in
      apply bind_ok in H as (x & Hx & H); try (destruct x as [? ?])
  end.
  inversion H; subst. split; reflexivity.
Qed.

Lemma C02_events : C02_events_stmt.
Proof.
  intros c B sps groups. induction groups as [|g gs IH]; intros prev hint cursor notes H; cbn [build_notes] in H.
  - inversion H; constructor.
  - apply bind_ok in H as ([[e h'] c'] & He & H). apply bind_ok in H as (es & Hes & H). inversion H; subst.
    constructor; [eapply note_from_group_shape; exact He|eapply IH; exact Hes].
Qed.

(** *** Interleaving *)
Lemma dispatch_app c order l1 l2 :
  dispatch c order (l1 ++ l2) =
    (let* o1 := dispatch c order l1 in let* o2 := dispatch c order l2 in Ok (o1 ++ o2)).
Proof.
  unfold dispatch. induction l1 as [|x l1 IH]; cbn [mapM app].
  - destruct (mapM (try_kinds c order) l2); reflexivity.
  - destruct (try_kinds c order x) as [o|e]; cbn [bind]; [|reflexivity].
    rewrite IH. destruct (mapM (try_kinds c order) l1) as [o1|e1]; cbn [bind]; [|reflexivity].
    destruct (mapM (try_kinds c order) l2) as [o2|e2]; cbn [bind]; reflexivity.
Qed.

Lemma data_of_app k a b : data_of k (a ++ b) = data_of k a ++ data_of k b.
Proof. unfold data_of. apply flat_map_app. Qed.

Lemma C02_interleave : C02_interleave_stmt.
Proof.
  intros c order l1 j l2 outs outs' o Hj Hnot H1 H2.
  rewrite dispatch_app in H1, H2.
  destruct (dispatch c order l1) as [o1|]; cbn [bind] in *; [|discriminate].
  change (j :: l2) with ([j] ++ l2) in H1. rewrite dispatch_app in H1.
  unfold dispatch at 1 in H1. cbn [mapM] in H1. rewrite Hj in H1. cbn [bind] in H1.
  destruct (dispatch c order l2) as [o2|]; cbn [bind] in *; [|discriminate].
  inversion H1; inversion H2; subst. rewrite !data_of_app. f_equal.
  cbn [app]. change (o :: o2) with ([o] ++ o2). rewrite data_of_app.
  replace (data_of KNote [o]) with (@nil pdata); [reflexivity|].
  unfold data_of. cbn. destruct o as [k d|l]; [|reflexivity].
  destruct k; cbn; try reflexivity. exfalso. apply (Hnot d). reflexivity.
Qed.
