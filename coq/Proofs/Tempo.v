(** Proofs/Tempo.v — every successfully built tempo list satisfies [tempo_wf] (timestamps are the
    running sum of the per-segment microsecond durations) and carries the tempos written in the
    file; plus the general facts about [chained]/[tempo_wf] that C01 and C12 share. *)
From CP Require Import Base.Prelude Base.Str Base.Float64 Base.Timedelta Model.Sync
  Spec.FloatSpec Spec.C11 Spec.Tempo Proofs.C11.
From Coq Require Import Sorted Lia.
Open Scope Z_scope.

(** * [chained] *)

Lemma chained_cons2 res e e' l :
  chained res (e :: e' :: l) <-> seg_ok res e e' /\ chained res (e' :: l).
Proof. split; intro H; exact H. Qed.

Lemma chained_tail res e l : chained res (e :: l) -> chained res l.
Proof. destruct l as [|e' l]; [intros _; exact I | intros [_ H]; exact H]. Qed.

Lemma chained_skipn res n : forall l, chained res l -> chained res (skipn n l).
Proof.
  induction n as [|n IH]; intros l H; [exact H|].
  destruct l as [|e l]; [exact H|]. simpl. apply IH. eapply chained_tail. exact H.
Qed.

Lemma sorted_strict_nil : sorted_strict [].
Proof. unfold sorted_strict. simpl. constructor. Qed.

Lemma chained_sorted res es : chained res es -> sorted_strict es.
Proof.
  induction es as [|e l IH]; intro H; [apply sorted_strict_nil|].
  destruct l as [|e' l'].
  - apply sorted_cons_intro; [constructor | apply sorted_strict_nil].
  - destruct H as [[Hlt _] Hc]. pose proof (IH Hc) as Hs.
    apply sorted_cons_intro; [|exact Hs].
    apply sorted_cons_inv in Hs. destruct Hs as [Hf _].
    constructor; [exact Hlt|].
    eapply Forall_impl; [|exact Hf]. simpl. intros a Ha. lia.
Qed.

Lemma tempo_wf_sorted B : tempo_wf B -> sorted_strict (evs B) /\ evs B <> [].
Proof.
  intros [_ [[e0 [rest [E _]]] Hc]]. split.
  - eapply chained_sorted. exact Hc.
  - rewrite E. discriminate.
Qed.

Lemma tempo_wf_wf_bpm B : tempo_wf B -> wf_bpm B.
Proof.
  intros H. destruct (tempo_wf_sorted B H) as [Hs _].
  destruct H as [_ [[e0 [rest [E [H0 _]]]] _]].
  split; [exact Hs|]. exists e0, rest. auto.
Qed.

(** * One event *)

Lemma bpm_from_data_seg T tick raw prev R e :
  bpm_from_data T tick raw prev R = Ok e ->
  match prev with
  | None => b_ts e = 0
  | Some p => seg_ok R p e
  end.
Proof.
  unfold bpm_from_data. intro H.
  destruct (decode_bpm T raw) as [bpm|er] eqn:Edec; simpl in H; [|discriminate H].
  apply bind_ok in H. destruct H as [[ts idx] [Hprev H]].
  destruct (check_bpm_3dp bpm) as [[]|er] eqn:Echk; simpl in H; [|discriminate H].
  inversion H; subst e. clear H.
  destruct prev as [p|].
  - destruct (tick <=? b_tick p) eqn:Et; [discriminate Hprev|].
    apply Z.leb_gt in Et.
    apply bind_ok in Hprev. destruct Hprev as [s [Hs Hprev]].
    apply bind_ok in Hprev. destruct Hprev as [d [Hd Hprev]].
    apply bind_ok in Hprev. destruct Hprev as [ts' [Hts Hprev]].
    inversion Hprev; subst ts' idx. clear Hprev.
    unfold seg_ok. cbn [b_tick b_ts b_bpm]. split; [lia|].
    exists d. split.
    + unfold seg_us.
      replace (tick - b_tick p) with (tick_between (b_tick p) tick)
        by (unfold tick_between; lia).
      rewrite Hs. cbn [bind]. exact Hd.
    + unfold td_add, td_check in Hts.
      destruct (td_in_range (b_ts p + d)); [|discriminate Hts].
      inversion Hts. reflexivity.
  - inversion Hprev; subst. reflexivity.
Qed.

Lemma decode_bpm_of_n T raw n :
  py_int T raw = Ok n -> 1 <= n < 2 ^ 52 -> decode_bpm T raw = Ok (bpm_of_n n).
Proof.
  intros Hn Hr. unfold decode_bpm. rewrite Hn. cbn [bind].
  unfold py_truediv_int.
  change (1000 =? 0) with false. cbv iota.
  change (2 ^ 52) with 4503599627370496 in Hr.
  assert (E1 : (Z.abs n <=? two53) = true) by (apply Z.leb_le; unfold two53; lia).
  assert (E2 : (Z.abs 1000 <=? two53) = true) by reflexivity.
  rewrite E1, E2. reflexivity.
Qed.

(** * The list *)

Definition with_prev (prev : option bpm_event) (es : list bpm_event) : list bpm_event :=
  match prev with Some p => p :: es | None => es end.

Lemma build_bpm_list_chained T R :
  forall datas prev es,
    build_bpm_list T datas prev R = Ok es ->
    chained R (with_prev prev es) /\
    (prev = None -> forall e0 rest, es = e0 :: rest -> b_ts e0 = 0).
Proof.
  induction datas as [|[tick raw] ds IH]; intros prev es H.
  - simpl in H. inversion H; subst es. split.
    + destruct prev; exact I.
    + intros _ e0 rest E. discriminate E.
  - simpl in H.
    apply bind_ok in H. destruct H as [e [He H]].
    apply bind_ok in H. destruct H as [es' [Hes H]].
    inversion H; subst es. clear H.
    apply bpm_from_data_seg in He.
    destruct (IH (Some e) es' Hes) as [IHc _]. simpl with_prev in IHc.
    split.
    + destruct prev as [p|]; simpl with_prev.
      * apply chained_cons2. split; [exact He | exact IHc].
      * exact IHc.
    + intros Ep e0 rest E. subst prev. inversion E; subst e0 rest. exact He.
Qed.

Lemma built_tempo_wf : built_tempo_wf_stmt.
Proof.
  unfold built_tempo_wf_stmt. intros T datas res B H.
  apply build_bpm_events_ok_inv in H. destruct H as [es [Hl Hm]].
  apply build_bpm_list_chained in Hl. destruct Hl as [Hc H0]. simpl with_prev in Hc.
  apply mk_bpm_events_ok_inv in Hm.
  destruct Hm as [HR [Hev [Hres [e0 [rest [E Ht0]]]]]].
  split; [|exact Hres].
  unfold tempo_wf. rewrite Hev, Hres.
  split; [exact HR|]. split; [|exact Hc].
  exists e0, rest. split; [exact E|]. split; [exact Ht0|].
  apply (H0 eq_refl e0 rest E).
Qed.

Lemma build_bpm_list_matches T R :
  forall datas tm,
    Forall2 (fun d p => fst d = fst p /\ py_int T (snd d) = Ok (snd p) /\ 1 <= snd p < 2 ^ 52)
            datas tm ->
    forall prev es, build_bpm_list T datas prev R = Ok es -> matches_tm es tm.
Proof.
  induction 1 as [|[tick raw] [tk n] ds tm' Hd Hrest IH]; intros prev es H.
  - simpl in H. inversion H. constructor.
  - simpl in H.
    apply bind_ok in H. destruct H as [e [He H]].
    apply bind_ok in H. destruct H as [es' [Hes H]].
    inversion H; subst es. clear H.
    simpl in Hd. destruct Hd as [Htk [Hint Hn]].
    apply bpm_from_data_ok_inv in He.
    destruct He as [Htick [_ [bpm [Hdec [Hb _]]]]].
    rewrite (decode_bpm_of_n T raw n Hint Hn) in Hdec. injection Hdec as Hdec'.
    constructor.
    + simpl. split; [congruence | congruence].
    + apply (IH (Some e) es' Hes).
Qed.

Lemma built_matches : built_matches_stmt.
Proof.
  unfold built_matches_stmt. intros T datas tm res B HF H.
  apply build_bpm_events_ok_inv in H. destruct H as [es [Hl Hm]].
  apply mk_bpm_events_ok_inv in Hm. destruct Hm as [_ [Hev _]].
  rewrite Hev. eapply build_bpm_list_matches; eassumption.
Qed.
