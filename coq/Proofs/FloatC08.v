(** Proofs/FloatC08.v — n/1000 computed by one division survives round(_, 3); the pinned
    two-step decode does not. *)
From CP Require Import Base.Prelude Base.Float64 Model.Sync Spec.FloatSpec Proofs.FloatBase.
From Coq Require Import Reals Lra Lia ZifyBool.
From Flocq Require Import Core.Core IEEE754.BinarySingleNaN.
Open Scope Z_scope.

(** round(x, 3) for a positive float below 2^52, in terms of the real value. *)
Lemma py_round3_pos : forall (x : f64) n,
  is_finite x = true -> Bsign x = false ->
  (0 < B2R x < bpow radix2 52)%R ->
  ZnearestE (1000 * B2R x) = n -> 1 <= n <= 2 ^ 53 ->
  py_round3 x = Ok (fdiv (of_Z n) (of_Z 1000)).
Proof.
  intros [s|s| |s m e H] n Fx Sx Bx Hn Hn1; try discriminate.
  - simpl in Bx. lra.
  - simpl in Sx. subst s.
    assert (He : e < 0).
    { apply (finite_lt_2p52_exp_neg false m e H).
      destruct Bx as [B1 B2]. rewrite Rabs_pos_eq; [exact B2|apply Rlt_le, B1]. }
    unfold py_round3.
    replace (0 <=? e) with false by (symmetry; apply Z.leb_gt; exact He).
    assert (Hp : 0 < 2 ^ (- e)) by (apply Z.pow_pos_nonneg; lia).
    rewrite <- (ZnearestE_div (Zpos m * 1000) (2 ^ (- e)) Hp).
    assert (Q : (IZR (Zpos m * 1000) / IZR (2 ^ (- e)) = 1000 * B2R (B754_finite false m e H))%R).
    { refine (eq_trans _ (f_equal (Rmult 1000) (eq_sym (B2R_finite_pos_quot m e H He)))).
      rewrite mult_IZR. unfold Rdiv. ring. }
    rewrite Q, Hn.
    replace (n =? 0) with false by (symmetry; apply Z.eqb_neq; lia).
    replace (n <=? two53) with true by (symmetry; rewrite two53_eq; apply Z.leb_le; lia).
    reflexivity.
Qed.

Lemma C08_bpm_float : C08_bpm_float_stmt.
Proof.
  intros n Hn. unfold bpm_of_n.
  assert (P52 : 2 ^ 52 = 4503599627370496) by reflexivity.
  assert (P53 : 2 ^ 53 = 9007199254740992) by reflexivity.
  assert (Hn53 : Z.abs n <= 2 ^ 53) by lia.
  assert (H1000 : Z.abs 1000 <= 2 ^ 53) by lia.
  destruct (of_Z_exact_le n Hn53) as (Bn & Fn & Sn).
  destruct (of_Z_exact_le 1000 H1000) as (Bk & Fk & Sk).
  assert (Rn : (1 <= IZR n < 4503599627370496)%R).
  { split; [apply IZR_le; lia | apply IZR_lt; lia]. }
  destruct (fdiv_correct (of_Z n) (of_Z 1000) Fn Fk) as (Bq & Fq & Sq).
  { rewrite Bk. lra. }
  { rewrite Bn, Bk. rewrite Rabs_pos_eq by lra.
    apply Rle_trans with (bpow radix2 53).
    - rewrite <- IZR_pow2 by lia. rewrite P53. lra.
    - apply bpow_le. lia. }
  rewrite Bn, Bk in Bq. rewrite Sn, Sk in Sq.
  replace (n <? 0) with false in Sq by (symmetry; apply Z.ltb_ge; lia).
  change (1000 <? 0) with false in Sq. cbn [xorb] in Sq.
  set (x := fdiv (of_Z n) (of_Z 1000)) in *.
  (* the rounding error of the one division *)
  assert (E := RN_error (IZR n / 1000)).
  rewrite (Rabs_pos_eq (IZR n / 1000)) in E by lra.
  assert (Hlow : (bpow radix2 (-1022) <= IZR n / 1000)%R).
  { apply Rle_trans with (bpow radix2 (-10)).
    - apply bpow_le. lia.
    - change (bpow radix2 (-10)) with (/ 1024)%R. lra. }
  specialize (E Hlow). apply Rabs_le_inv in E.
  assert (B53 : bpow radix2 (-53) = (/ 9007199254740992)%R) by reflexivity.
  rewrite B53 in E. rewrite <- Bq in E.
  assert (Xpos : (0 < B2R x)%R) by lra.
  assert (Xlt : (B2R x < bpow radix2 52)%R).
  { rewrite <- IZR_pow2 by lia. rewrite P52. lra. }
  assert (R3 : py_round3 x = Ok x).
  { apply (py_round3_pos x n Fq Sq); [lra| |lia].
    apply Znearest_imp. apply Rabs_def1; lra. }
  split; [exact Fq|]. split; [exact Bq|].
  split; [apply f_le_fzero_pos; assumption|].
  split; [exact R3|].
  unfold check_bpm_3dp. rewrite R3. cbn [bind].
  rewrite (f_eq_refl x Fq). reflexivity.
Qed.

Lemma C08_refuted_pinned : C08_refuted_pinned_stmt.
Proof.
  exists 1118. split; [lia|].
  vm_compute. reflexivity.
Qed.
