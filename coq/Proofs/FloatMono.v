(** Proofs/FloatMono.v — C12: the duration in microseconds of a segment of k ticks is a
    monotone, non-negative function of k, for every tempo float and every resolution for which
    the computation succeeds at all (no accuracy or range assumption). *)
From CP Require Import Base.Prelude Base.Float64 Base.Timedelta Model.Sync Spec.FloatSpec
  Proofs.FloatMonoAux.
From Coq Require Import Reals Lra.
From Flocq Require Import Core.Core IEEE754.BinarySingleNaN.
Open Scope Z_scope.

(** [timedelta(seconds=x)] is monotone in the real value of x wherever it is defined. *)
Lemma td_of_seconds_mono x1 x2 u1 u2 :
  td_of_seconds x1 = Ok u1 -> td_of_seconds x2 = Ok u2 ->
  (B2R x1 <= B2R x2)%R -> u1 <= u2.
Proof.
  intros H1 H2 Hle.
  apply td_of_seconds_closed in H1 as (_ & _ & ->).
  apply td_of_seconds_closed in H2 as (_ & _ & ->).
  now apply tdR_mono.
Qed.

Lemma td_of_seconds_nonneg x u : td_of_seconds x = Ok u -> 0 <= u.
Proof.
  intro H. apply td_of_seconds_closed in H as (_ & Hx & ->).
  pose proof (tdR_mono 0 (B2R x) Hx) as M. rewrite (tdR_int 0) in M. lia.
Qed.

(** [seconds] is monotone in the tick count whenever both results are finite (an infinite or
    NaN result is rejected by [td_of_seconds]). *)
Lemma seconds_mono b R k1 k2 s1 s2 :
  0 <= k1 <= k2 ->
  seconds k1 b R = Ok s1 -> seconds k2 b R = Ok s2 ->
  is_finite s1 = true -> is_finite s2 = true ->
  (B2R s1 <= B2R s2)%R.
Proof.
  intros Hk H1 H2 F1 F2.
  apply seconds_ok in H1 as (_ & Hf1 & -> & Hsgn).
  apply seconds_ok in H2 as (_ & Hf2 & -> & _).
  rewrite (fmul_finite _ _ F1 Hf1), (fmul_finite _ _ F2 Hf2).
  apply RN_le.
  assert (Hs : (0 <= B2R (spt_of b R))%R).
  { destruct (spt_of b R) as [s|s| |s m e Hb]; cbn [B2R]; try lra.
    cbn [Bsign] in Hsgn. subst s. apply F2R_ge_0. cbn. lia. }
  apply Rmult_le_compat_r; [exact Hs|].
  destruct (of_Z_correct k1 Hf1) as [-> _]. destruct (of_Z_correct k2 Hf2) as [-> _].
  apply RN_le, IZR_le. lia.
Qed.

(** *** The two C12 statements *)

Lemma dur_nonneg : dur_nonneg_stmt.
Proof.
  intros b R k u H. unfold seg_us in H.
  apply bind_ok in H as (s & _ & H). now apply td_of_seconds_nonneg in H.
Qed.

Lemma dur_mono : dur_mono_stmt.
Proof.
  intros b R k1 k2 u1 u2 Hk H1 H2. unfold seg_us in *.
  apply bind_ok in H1 as (s1 & Hs1 & H1).
  apply bind_ok in H2 as (s2 & Hs2 & H2).
  apply (td_of_seconds_mono s1 s2 u1 u2 H1 H2).
  apply (seconds_mono b R k1 k2 s1 s2 Hk Hs1 Hs2).
  - now apply td_of_seconds_closed in H1 as (F1 & _).
  - now apply td_of_seconds_closed in H2 as (F2 & _).
Qed.

(* Print Assumptions dur_mono / dur_nonneg: only the standard library's classical-reals axioms
   (sig_not_dec, sig_forall_dec, functional_extensionality_dep, classic). *)
