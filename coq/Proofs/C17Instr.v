(** Proofs/C17Instr.v — the memoisation theorems of Proofs/C17.v tied to chartparse.

    1. The pure interpreter of the programs of Model/InstrumentMemo.v IS the model's note-event
       builder: [mrun_pure (build_notes_prog ...) = build_notes ...].
    2. Hence running the programs of any history of note sections (of any charts), or any
       interleaving of them, against one shared set of lru_cache tables that started empty (or is in
       any state the system can have produced), with any evictions at any time, yields for each
       section exactly [build_notes] of that section. *)
From CP Require Import Base.Prelude Base.Str Base.Regex Base.Cfg Base.Float64 Base.Timedelta
  Model.Lines Model.Sync Model.Instrument Spec.C17 Model.InstrumentMemo Proofs.C17.
Open Scope Z_scope.

(** *** Decidable equality of tables and keys *)
Lemma mtable_eqb_eq : forall a b, mtable_eqb a b = true <-> a = b.
Proof. intros [] []; simpl; split; intro H; try reflexivity; discriminate. Qed.

Lemma option_Z_eqb_eq : forall a b : option Z, option_eqb Z.eqb a b = true <-> a = b.
Proof.
  intros [x|] [y|]; simpl; split; intro H; try reflexivity; try discriminate.
  - apply Z.eqb_eq in H. congruence.
  - inversion H. apply Z.eqb_refl.
Qed.

Lemma mkey_eqb_eq : forall a b, mkey_eqb a b = true <-> a = b.
Proof.
  intros [x|x|x|[r1 d1]] [y|y|y|[r2 d2]]; simpl; split; intro H; try discriminate.
  - apply (list_eqb_eq Bool.eqb Bool.eqb_true_iff) in H. congruence.
  - inversion H. apply (list_eqb_eq Bool.eqb Bool.eqb_true_iff). reflexivity.
  - apply Z.eqb_eq in H. congruence.
  - inversion H. apply Z.eqb_refl.
  - apply (list_eqb_eq _ option_Z_eqb_eq) in H. congruence.
  - inversion H. apply (list_eqb_eq _ option_Z_eqb_eq). reflexivity.
  - apply andb_true_iff in H as [H1 H2]. apply Z.eqb_eq in H1, H2. congruence.
  - inversion H. rewrite !Z.eqb_refl. reflexivity.
Qed.

(** *** The pure interpreter and sequencing *)
Lemma mrun_pure_Ret {A} (a : A) : mrun_pure (mRet a) = a.
Proof. reflexivity. Qed.

Lemma mrun_pure_Memo {A} t k (cont : mvalue -> mprog A) :
  mrun_pure (mMemo t k cont) = mrun_pure (cont (mf t k)).
Proof. reflexivity. Qed.

Lemma mrun_pure_pbind {A B} (p : mprog A) (k : A -> mprog B) :
  mrun_pure (pbind p k) = mrun_pure (k (mrun_pure p)).
Proof.
  induction p as [a | t key cont IH].
  - reflexivity.
  - cbn [pbind]. rewrite mrun_pure_Memo. rewrite IH. reflexivity.
Qed.

Lemma bind_ext {A B} (r : result A) (g h : A -> result B) :
  (forall a, g a = h a) -> bind r g = bind r h.
Proof. intro H. destruct r; simpl; [apply H | reflexivity]. Qed.

Lemma mrun_pure_rbind_p {A B} (r : result A) (k : A -> mprog (result B)) :
  mrun_pure (rbind_p r k) = bind r (fun a => mrun_pure (k a)).
Proof. destruct r; reflexivity. Qed.

Lemma mrun_pure_pbind_r {A B} (p : mprog (result A)) (k : A -> mprog (result B)) :
  mrun_pure (pbind_r p k) = bind (mrun_pure p) (fun a => mrun_pure (k a)).
Proof. unfold pbind_r. rewrite mrun_pure_pbind. destruct (mrun_pure p); reflexivity. Qed.

(** *** The programs compute the model's functions *)
Lemma lane_sustains_prog_from_pure g l :
  mrun_pure (lane_sustains_prog_from g l)
  = fold_left (fun l d => if is_5_note (nd_idx d)
                          then set_nth (Z.to_nat (nd_idx d)) (Some (nd_sus d)) l else l) g l.
Proof.
  revert l. induction g as [|d g IH]; intro l.
  - reflexivity.
  - cbn [lane_sustains_prog_from fold_left]. rewrite mrun_pure_Memo. cbn [mf as_bool]. apply IH.
Qed.

Lemma lane_sustains_prog_pure g : mrun_pure (lane_sustains_prog g) = lane_sustains g.
Proof. apply lane_sustains_prog_from_pure. Qed.

Lemma complex_sustain_prog_pure g : mrun_pure (complex_sustain_prog g) = complex_sustain g.
Proof.
  unfold complex_sustain_prog, complex_sustain.
  destruct (find (fun d => nd_idx d =? IDX_OPEN) g) as [d|].
  - reflexivity.
  - rewrite mrun_pure_pbind, lane_sustains_prog_pure, mrun_pure_Memo. reflexivity.
Qed.

Lemma compute_hopo_prog_pure c R tick note is_tap is_forced prev :
  mrun_pure (compute_hopo_prog c R tick note is_tap is_forced prev)
  = compute_hopo c R tick note is_tap is_forced prev.
Proof.
  unfold compute_hopo_prog, compute_hopo.
  destruct prev as [[ptick pnote]|].
  - destruct is_tap; [reflexivity|].
    rewrite mrun_pure_Memo. cbn [mf as_ticks]. rewrite mrun_pure_rbind_p.
    apply bind_ext; intro boundary. cbv zeta.
    destruct ((tick - ptick <=? boundary) && negb (lanes_eqb note pnote)) eqn:E.
    + rewrite mrun_pure_Memo, mrun_pure_Ret. cbn [mf as_bool]. reflexivity.
    + rewrite mrun_pure_Ret. reflexivity.
  - rewrite mrun_pure_Ret. destruct is_forced, is_tap; reflexivity.
Qed.

Lemma note_from_group_prog_pure c B sps g prev hint cursor :
  mrun_pure (note_from_group_prog c B sps g prev hint cursor)
  = note_from_group c B sps g prev hint cursor.
Proof.
  unfold note_from_group_prog, note_from_group.
  destruct g as [|d0 g']; [reflexivity|]. cbv zeta.
  rewrite mrun_pure_pbind_r, complex_sustain_prog_pure.
  apply bind_ext; intro sus.
  rewrite mrun_pure_rbind_p.
  apply bind_ext; intros [ts idx].
  rewrite mrun_pure_pbind_r, compute_hopo_prog_pure.
  apply bind_ext; intro h.
  rewrite mrun_pure_Ret. reflexivity.
Qed.

Lemma build_notes_prog_pure c B sps groups prev hint cursor :
  mrun_pure (build_notes_prog c B sps groups prev hint cursor)
  = build_notes c B sps groups prev hint cursor.
Proof.
  revert prev hint cursor. induction groups as [|g gs IH]; intros prev hint cursor.
  - reflexivity.
  - cbn [build_notes_prog build_notes].
    rewrite mrun_pure_pbind_r, note_from_group_prog_pure.
    apply bind_ext; intros [[e hint'] cursor'].
    rewrite mrun_pure_pbind_r, IH.
    apply bind_ext; intro es. reflexivity.
Qed.

Lemma section_prog_pure s : mrun_pure (section_prog s) = section_notes s.
Proof. apply build_notes_prog_pure. Qed.

Lemma map_section_prog_pure ss : map mrun_pure (map section_prog ss) = map section_notes ss.
Proof. rewrite map_map. apply map_ext. intro s. apply section_prog_pure. Qed.

(** *** The shared tables are transparent for the note-event builder *)
Definition mReachable : mcache -> Prop := Reachable mtable mkey mvalue mtable_eqb mkey_eqb mf.
Definition mAllGood : mcache -> Prop := AllGood mtable mkey mvalue mf.

Lemma mReachable_nil : mReachable [].
Proof. constructor. Qed.

(** Whatever ran before on the tables (any programs at all, to completion or to an error, with any
    evictions) leaves them in a reachable state. *)
Lemma mReachable_after_history {A} ev (before : list (mprog A)) c :
  mReachable c -> mReachable (fst (mrun_history ev before c)).
Proof. apply Reachable_run_history. Qed.

Lemma mReachable_after_sched {A} ev sched n (pool : list (mprog A)) c :
  mReachable c -> mReachable (fst (mrun_sched ev sched n pool c)).
Proof. apply Reachable_run_sched. Qed.

(** Any history of note sections on shared tables in any reachable state, with any evictions. *)
Theorem C17_sections_history ev (ss : list note_section) c :
  mReachable c ->
  mReachable (fst (mrun_history ev (map section_prog ss) c)) /\
  snd (mrun_history ev (map section_prog ss) c) = map section_notes ss.
Proof.
  intro HR.
  destruct (C17_history_reachable mtable mkey mvalue mtable_eqb mkey_eqb mtable_eqb_eq mkey_eqb_eq mf
              _ ev (map section_prog ss) c HR) as [H1 [_ H2]].
  split; [exact H1|].
  unfold mrun_history. rewrite H2. apply map_section_prog_pure.
Qed.

(** The tables start empty. *)
Corollary C17_sections_history_from_empty ev (ss : list note_section) :
  snd (mrun_history ev (map section_prog ss) []) = map section_notes ss.
Proof. apply C17_sections_history, mReachable_nil. Qed.

(** ... and any other use of the tables may have come first. *)
Corollary C17_sections_after_any_history {A} ev0 (before : list (mprog A)) ev (ss : list note_section) :
  snd (mrun_history ev (map section_prog ss) (fst (mrun_history ev0 before []))) = map section_notes ss.
Proof. apply C17_sections_history, mReachable_after_history, mReachable_nil. Qed.

(** One parse, any reachable state of the tables. *)
Corollary C17_section_cached ev n (s : note_section) c :
  mReachable c -> snd (mrun_cached ev n (section_prog s) c) = section_notes s.
Proof.
  intro HR.
  destruct (C17_cached_reachable mtable mkey mvalue mtable_eqb mkey_eqb mtable_eqb_eq mkey_eqb_eq mf
              _ ev n (section_prog s) c HR) as [_ [_ H2]].
  unfold mrun_cached. rewrite H2. apply section_prog_pure.
Qed.

(** Any interleaving of the parses of several sections (threads), one memoised call being atomic. *)
Theorem C17_sections_schedule ev sched n (ss : list note_section) c :
  mReachable c ->
  mReachable (fst (mrun_sched ev sched n (map section_prog ss) c)) /\
  map mrun_pure (snd (mrun_sched ev sched n (map section_prog ss) c)) = map section_notes ss.
Proof.
  intro HR.
  destruct (C17_schedule_reachable mtable mkey mvalue mtable_eqb mkey_eqb mtable_eqb_eq mkey_eqb_eq mf
              _ ev sched n (map section_prog ss) c HR) as [H1 [_ H2]].
  split; [exact H1|].
  transitivity (map mrun_pure (map section_prog ss)); [exact H2 | apply map_section_prog_pure].
Qed.

(** Every thread that has finished under the schedule returned [build_notes] of its section. *)
Theorem C17_sections_schedule_finished ev sched n (ss : list note_section) c i s p' a :
  mReachable c ->
  nth_error ss i = Some s ->
  nth_error (snd (mrun_sched ev sched n (map section_prog ss) c)) i = Some p' ->
  finished mtable mkey mvalue p' = Some a ->
  a = section_notes s.
Proof.
  intros HR Hs Hp Hf.
  assert (Hi : nth_error (map section_prog ss) i = Some (section_prog s))
    by (rewrite nth_error_map, Hs; reflexivity).
  pose proof (AllGood_run_sched_finished mtable mkey mvalue mtable_eqb mkey_eqb
                mtable_eqb_eq mkey_eqb_eq mf _ ev sched n (map section_prog ss) c i
                (section_prog s) a (Reachable_AllGood _ _ _ _ _ mtable_eqb_eq mkey_eqb_eq _ _ HR) Hi) as H.
  unfold mrun_sched in Hp. rewrite Hp in H. rewrite (H Hf). apply section_prog_pure.
Qed.

Corollary C17_sections_schedule_from_empty ev sched n (ss : list note_section) :
  map mrun_pure (snd (mrun_sched ev sched n (map section_prog ss) [])) = map section_notes ss.
Proof. apply C17_sections_schedule, mReachable_nil. Qed.
