(** Proofs/C04.v — strum / HOPO / tap decision table (the float threshold lemma is in
    Proofs/FloatC04.v). *)
From CP Require Import Base.Prelude Base.Str Base.Regex Base.Cfg Base.Float64 Base.Timedelta
  Model.Lines Model.Sync Model.Instrument Spec.C04.
Open Scope Z_scope.

Lemma C04_rule : C04_rule_stmt.
Proof.
  intros c R tick note tap forced ptick pnote b Hb.
  unfold compute_hopo, spec_hopo. destruct tap; [reflexivity|].
  rewrite Hb. cbn [bind]. f_equal.
  destruct (tick - ptick <=? b), (lanes_eqb note pnote), (is_chord note), forced; reflexivity.
Qed.

Lemma C04_first : C04_first_stmt.
Proof. intros c R tick note tap. unfold compute_hopo, spec_hopo. destruct tap; reflexivity. Qed.

Lemma C04_first_forced : C04_first_forced_stmt.
Proof. intros c R tick note tap. reflexivity. Qed.

Lemma C04_chord : C04_chord_stmt.
Proof.
  intro n. unfold is_chord, lane_count, Zlength_. split; intro H; lia.
Qed.

Section WithThreshold.
Hypothesis Hthr : C04_threshold_stmt.

Lemma C04_closed_from : C04_closed_stmt.
Proof.
  intros c R tick note tap forced ptick pnote Het HR.
  apply C04_rule. rewrite Het. apply Hthr. exact HR.
Qed.

Lemma note_from_group_hopo c B sps g prev hint cursor e hint' cursor' :
  eighth_triplet c = 3 -> 1 <= resolution B < 2 ^ 50 ->
  note_from_group c B sps g prev hint cursor = Ok (e, hint', cursor') ->
  n_hopo e = spec_hopo (thr (resolution B)) (n_tick e) (n_note e) (fst (group_flags g)) (snd (group_flags g))
               (match prev with Some p => Some (n_tick p, n_note p) | None => None end)
  \/ (prev = None /\ False).
Proof.
  intros Het HR H. unfold note_from_group in H. destruct g as [|d0 g']; [discriminate|].
  apply bind_ok in H as (sus & Hsus & H).
  apply bind_ok in H as ([ts idx] & Hts & H).
  apply bind_ok in H as (h & Hh & H).
  apply bind_ok in H as ([spd cur'] & Hsp & H).
  apply bind_ok in H as (longest & Hlong & H).
  apply bind_ok in H as ([end_ts idx'] & Hend & H).
  inversion H; subst. cbn [n_hopo n_tick n_at t_tick n_note]. left.
  unfold group_flags. cbn [fst snd].
  destruct prev as [p|].
  - rewrite C04_closed_from in Hh by assumption. inversion Hh. reflexivity.
  - unfold compute_hopo in Hh. unfold spec_hopo.
    destruct (existsb (fun d => nd_idx d =? IDX_FORCED) (d0 :: g')); [discriminate|].
    destruct (existsb (fun d => nd_idx d =? IDX_TAP) (d0 :: g')); inversion Hh; reflexivity.
Qed.

Lemma build_notes_hopo c B sps : eighth_triplet c = 3 -> 1 <= resolution B < 2 ^ 50 ->
  forall groups prev hint cursor notes,
    build_notes c B sps groups prev hint cursor = Ok notes ->
    hopo_chain2 (resolution B) prev groups notes.
Proof.
  intros Het HR. induction groups as [|g gs IH]; intros prev hint cursor notes H; cbn [build_notes] in H.
  - inversion H. exact I.
  - apply bind_ok in H as ([[e h'] c'] & He & H). apply bind_ok in H as (es & Hes & H). inversion H; subst.
    cbn [hopo_chain2]. split.
    + destruct (note_from_group_hopo _ _ _ _ _ _ _ _ _ _ Het HR He) as [Hh|[_ []]]. exact Hh.
    + eapply IH. exact Hes.
Qed.

Lemma C04_track_from : C04_track_stmt.
Proof. intros c B sps groups notes Het HR H. eapply build_notes_hopo; eauto. Qed.

End WithThreshold.
