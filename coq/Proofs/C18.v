(** Proofs/C18.v — Only documented errors escape; parsed charts always render. *)
From CP Require Import Base.Prelude Base.Str Base.Regex Base.Cfg Base.Float64 Base.Timedelta
  Model.Lines Model.Sync Model.Instrument Model.Chart Spec.RefRegex Spec.FloatSpec Spec.C10 Spec.C11
  Spec.C15 Spec.ChartSpec Spec.ChartTimed Spec.C18.
From CP Require Import Proofs.C11 Proofs.C15 Proofs.ChartInv Proofs.ChartTimed
  Proofs.C18Aux Proofs.C18AuxText Proofs.C18AuxSkel.
From Coq Require Import Lia.
From Flocq Require Import IEEE754.BinarySingleNaN.
Open Scope Z_scope.

(** * Stage A: structure *)
Definition PA (e : errkind) : Prop := struct_err e = true.

Lemma C18_struct : C18_struct_stmt.
Proof.
  intros c text want Hc.
  assert (H : eok PA (from_file c text want)).
  { apply (from_file_okP c Hc PA eq_refl eq_refl eq_refl
             (fun _ => True) (fun _ => True)
             (fun _ _ _ _ _ _ _ => I) I (fun _ _ _ _ => I)
             bpm_dec (fun _ => True) (fun _ _ => I) (fun _ _ _ _ => I)).
    - intros B t h HB _ Hh. apply ts_eok_A; [reflexivity | reflexivity | exact HB | exact Hh].
    - intros datas R _ _. split.
      + apply build_bpm_events_eok_A; reflexivity.
      + intros B HB. apply bev_bpm_dec. apply (build_bpm_events_bev _ _ _ _ HB).
    - intros B _. apply note_duration_eok; reflexivity.
    - intros us _. apply td_check_eok. reflexivity.
    - rewrite Forall_forall. intros; exact I. }
  destruct (from_file c text want); [exact I | exact H].
Qed.

(** * Rendering *)
Lemma sync_render c R lines sync w :
  sync_from_lines c R lines = Ok (sync, w) ->
  Forall bev_ok (evs (st_bpm sync)) /\ Forall (fun a => td_in_range (a_ts a) = true) (st_anchor sync).
Proof.
  intro H. unfold sync_from_lines in H.
  apply bind_ok in H as (outs & _ & H). cbv zeta in H.
  apply bind_ok in H as (B & HB & H).
  apply bind_ok in H as (tms & _ & H).
  apply bind_ok in H as (anchors & Ha & H).
  match type of H with match ?l with [] => _ | _ => _ end = _ => destruct l as [|t0 tss] end;
    [discriminate|].
  destruct (t_tick (ts_at t0) =? 0); [|discriminate].
  inversion H; subst sync w. cbn [st_bpm st_anchor]. split.
  - apply (build_bpm_events_bev _ _ _ _ HB).
  - apply mapM_ok_Forall2 in Ha. clear - Ha.
    induction Ha as [|d a ds as_ Hd _ IH]; constructor; [|exact IH].
    unfold anchor_from in Hd. destruct d; try discriminate.
    apply bind_ok in Hd as (ts & Hts & Hd). inversion Hd; subst a. cbn [a_ts].
    unfold td_of_us, td_check in Hts. destruct (td_in_range us) eqn:E; [|discriminate].
    inversion Hts; subst. exact E.
Qed.

Lemma C18_render : C18_render_stmt.
Proof.
  intros c text want ch logs H. unfold renderable.
  pose proof (C11_file c text want ch logs H) as HC. cbv zeta in HC. destruct HC as (_ & Hp & Hn).
  split; [|split].
  - eapply Forall_impl; [|exact Hp]. intros e He. unfold stored_ok in He.
    apply ts_ok_range in He. tauto.
  - eapply Forall_impl; [|exact Hn]. intros e [_ (longest & idx' & _ & He)].
    apply ts_ok_range in He. tauto.
  - apply from_file_from_secs in H as (secs & H).
    apply from_secs_ok_inv in H as (l0 & Hf & _).
    unfold fixed_part in Hf. destruct (negb _); [discriminate|].
    apply bind_ok in Hf as (song & _ & Hf).
    apply bind_ok in Hf as (meta & _ & Hf).
    apply bind_ok in Hf as (R & _ & Hf).
    apply bind_ok in Hf as (sl & _ & Hf).
    apply bind_ok in Hf as ([sync w1] & Hs & Hf).
    apply bind_ok in Hf as (el & _ & Hf).
    apply bind_ok in Hf as ([gev w2] & _ & Hf).
    inversion Hf; subst.
    apply sync_render in Hs as [Hb Ha]. split; [|exact Ha].
    eapply Forall_impl; [|exact Hb]. intros b [Hd Hr]. split; [exact Hr | apply decoded_finite; exact Hd].
Qed.

(** * Stage B: numeric range *)
From CP Require Import Proofs.C18AuxNum Proofs.FloatC04 Proofs.FloatC08 Proofs.RegexShapes.

Definition PB (e : errkind) : Prop := doc_err e = true.
Definition NBB (z : Z) : Prop := 0 <= z < 100000000.
Definition TBB (z : Z) : Prop := 0 <= z < 200000000.
Definition KK : Z := 60001000001.

Definition evB (e : bpm_event) : Prop :=
  (exists n, 0 <= n < 100000000 /\ b_bpm e = bpm_of_n n) /\
  0 <= b_tick e /\ 0 <= b_ts e <= b_tick e * KK.
Definition BIB (B : bpm_events) : Prop :=
  1 <= resolution B < 100000000 /\ Forall evB (evs B).

Lemma bpm0_le : f_le (bpm_of_n 0) fzero = true.
Proof. vm_compute. reflexivity. Qed.

Lemma bpm0_check : check_bpm_3dp (bpm_of_n 0) = Ok tt.
Proof. vm_compute. reflexivity. Qed.

Lemma pow10_8 : 10 ^ 8 = 100000000.
Proof. reflexivity. Qed.
Lemma pow10_9 : 10 ^ 9 = 1000000000.
Proof. reflexivity. Qed.

(** One segment from an event satisfying the invariant. *)
Lemma seg_B p R dt :
  evB p -> 0 <= R < 100000000 -> 0 <= dt <= 1000000000 ->
  seconds dt (b_bpm p) R = Err EValue \/
  exists s u, seconds dt (b_bpm p) R = Ok s /\ td_of_seconds s = Ok u /\ 0 <= u <= dt * KK.
Proof.
  intros [(n & Hn & Eb) _] HR Hdt. rewrite Eb.
  destruct (Z.eq_dec n 0) as [-> | Hn0].
  { left. unfold seconds. replace (dt <? 0) with false by (symmetry; apply Z.ltb_ge; lia).
    rewrite bpm0_le. reflexivity. }
  destruct (Z.eq_dec R 0) as [-> | HR0].
  { left. unfold seconds. replace (dt <? 0) with false by (symmetry; apply Z.ltb_ge; lia).
    destruct (f_le _ _); reflexivity. }
  right. apply seg_bound; rewrite ?pow10_8, ?pow10_9; lia.
Qed.

Lemma ts_eok_B B t h : BIB B -> TBB t -> 0 <= h -> eok PB (timestamp_at_tick B t h).
Proof.
  intros [HR Hev] Ht Hh. apply ts_shape; [reflexivity | exact Hh |].
  intros p Hin Hle. rewrite Forall_forall in Hev. pose proof (Hev p Hin) as Hp.
  assert (Hp' := Hp). destruct Hp' as [_ [Htick Hts]].
  unfold tick_between. replace (Z.abs (b_tick p - t)) with (t - b_tick p) by lia.
  unfold TBB in Ht.
  destruct (seg_B p (resolution B) (t - b_tick p) Hp) as [E | (s & u & Es & Eu & Hu)]; [lia | lia | |].
  - rewrite E. reflexivity.
  - rewrite Es. cbn [bind]. unfold time_add_seconds. rewrite Eu. cbn [bind].
    unfold td_add. rewrite td_check_le; [exact I|]. unfold KK in *. nia.
Qed.

Lemma decode_bpm_B T raw : (forall n, py_int T raw = Ok n -> NBB n) ->
  decode_bpm T raw = Err EValue \/ exists n, NBB n /\ decode_bpm T raw = Ok (bpm_of_n n).
Proof.
  intro Hraw. unfold decode_bpm. destruct (py_int T raw) as [n|e] eqn:E; cbn [bind].
  - right. exists n. pose proof (Hraw n eq_refl) as Hn. split; [exact Hn|].
    unfold py_truediv_int. change (1000 =? 0) with false. cbv iota. unfold NBB in Hn.
    assert (E1 : (Z.abs n <=? two53) = true) by (apply Z.leb_le; unfold two53; lia).
    assert (E2 : (Z.abs 1000 <=? two53) = true) by reflexivity.
    rewrite E1, E2. reflexivity.
  - left. apply Proofs.C14.py_int_err in E. subst. reflexivity.
Qed.

Lemma check_bpm_B n : NBB n -> check_bpm_3dp (bpm_of_n n) = Ok tt.
Proof.
  intro Hn. unfold NBB in Hn. destruct (Z.eq_dec n 0) as [-> | H0]; [exact bpm0_check|].
  apply C08_bpm_float. change (2 ^ 52) with 4503599627370496. lia.
Qed.

Lemma bpm_from_data_B T tick raw prev R :
  NBB tick -> (forall n, py_int T raw = Ok n -> NBB n) -> NBB R ->
  (forall p, prev = Some p -> evB p) ->
  eok PB (bpm_from_data T tick raw prev R) /\
  forall e, bpm_from_data T tick raw prev R = Ok e -> evB e.
Proof.
  intros Htick Hraw HR Hprev. unfold bpm_from_data. unfold NBB in *.
  destruct (decode_bpm_B T raw Hraw) as [E | (n & Hn & E)]; rewrite E; cbn [bind];
    [split; [reflexivity | discriminate]|].
  rewrite (check_bpm_B n Hn).
  destruct prev as [p|].
  - destruct (tick <=? b_tick p) eqn:Et; cbn [bind]; [split; [reflexivity | discriminate]|].
    apply Z.leb_gt in Et. pose proof (Hprev p eq_refl) as Hp.
    assert (Hp' := Hp). destruct Hp' as [_ [Hpt Hpts]].
    unfold tick_between. replace (Z.abs (b_tick p - tick)) with (tick - b_tick p) by lia.
    destruct (seg_B p R (tick - b_tick p) Hp) as [Es | (s & u & Es & Eu & Hu)]; [lia | lia | |].
    + rewrite Es. cbn [bind]. split; [reflexivity | discriminate].
    + rewrite Es. cbn [bind]. rewrite Eu. cbn [bind]. unfold td_add.
      rewrite td_check_le by (unfold KK in *; nia). cbn [bind].
      split; [exact I|]. intros e He. inversion He; subst e. unfold evB. cbn.
      split; [exists n; split; [exact Hn | reflexivity]|]. unfold KK in *. split; [lia | nia].
  - cbn [bind]. split; [exact I|]. intros e He. inversion He; subst e. unfold evB. cbn.
    split; [exists n; split; [exact Hn | reflexivity]|]. unfold KK. lia.
Qed.

Lemma build_bpm_list_B T R : NBB R -> forall datas prev,
  Forall (fun d => NBB (fst d) /\ forall n, py_int T (snd d) = Ok n -> NBB n) datas ->
  (forall p, prev = Some p -> evB p) ->
  eok PB (build_bpm_list T datas prev R) /\
  forall es, build_bpm_list T datas prev R = Ok es -> Forall evB es.
Proof.
  intro HR. induction datas as [|[tick raw] ds IH]; intros prev Hd Hprev; cbn [build_bpm_list].
  - split; [exact I|]. intros es H; inversion H; constructor.
  - inversion Hd as [|? ? [H1 H2] Hds]; subst. cbn [fst snd] in *.
    destruct (bpm_from_data_B T tick raw prev R H1 H2 HR Hprev) as [B1 B2].
    destruct (bpm_from_data T tick raw prev R) as [e|er]; cbn [bind]; [|split; [exact B1 | discriminate]].
    specialize (B2 e eq_refl).
    destruct (IH (Some e) Hds) as [I1 I2]; [intros p Ep; inversion Ep; subst; exact B2|].
    destruct (build_bpm_list T ds (Some e) R) as [es|er]; cbn [bind]; [|split; [exact I1 | discriminate]].
    split; [exact I|]. intros es' H; inversion H; subst. constructor; [exact B2 | apply I2; reflexivity].
Qed.

Lemma build_bpm_events_B T datas R :
  NBB R -> Forall (fun d => NBB (fst d) /\ forall n, py_int T (snd d) = Ok n -> NBB n) datas ->
  eok PB (build_bpm_events T datas R) /\ forall B, build_bpm_events T datas R = Ok B -> BIB B.
Proof.
  intros HR Hd. unfold build_bpm_events.
  destruct (build_bpm_list_B T R HR datas None Hd) as [L1 L2]; [discriminate|].
  destruct (build_bpm_list T datas None R) as [es|e]; cbn [bind]; [|split; [exact L1 | discriminate]].
  specialize (L2 es eq_refl). unfold mk_bpm_events.
  destruct (R <=? 0) eqn:ER; [split; [reflexivity | discriminate]|]. apply Z.leb_gt in ER.
  destruct es as [|e0 rest]; [split; [reflexivity | discriminate]|].
  destruct (b_tick e0 =? 0); [|split; [reflexivity | discriminate]].
  split; [exact I|]. intros B H; inversion H; subst B. unfold BIB, NBB in *. cbn [resolution evs].
  split; [lia | exact L2].
Qed.

Lemma C18_errors : C18_errors_stmt.
Proof.
  intros c text want Hc Hb.
  assert (H : eok PB (from_file c text want)).
  { apply (from_file_okP c Hc PB eq_refl eq_refl eq_refl (line_bounded (tbl c)) NBB) with (BI := BIB) (TB := TBB).
    - intros l s v HL Hi Hd Hv. unfold NBB. apply (py_int_small (tbl c) s v); [|exact Hv].
      apply HL; assumption.
    - unfold NBB; lia.
    - unfold NBB; intros; lia.
    - unfold NBB, TBB; intros; lia.
    - unfold NBB, TBB; intros; lia.
    - intros B t h. apply ts_eok_B.
    - intros datas R. apply build_bpm_events_B.
    - intros B [HR _]. rewrite C04_threshold_float; [exact I|].
      change (2 ^ 50) with 1125899906842624. lia.
    - intros us Hus. unfold td_of_us. unfold NBB in Hus. rewrite td_check_le; [exact I | lia].
    - apply bounded_lines. exact Hb. }
  unfold documented. destruct (from_file c text want); [exact I | exact H].
Qed.
