(** Proofs/Utf8Examples.v — closed instances of the UTF-8 codec (non-vacuity of Proofs/Utf8.v). *)
From CP Require Import Base.Prelude Base.Str Base.Utf8.
Open Scope N_scope.

(** "A" (1 byte), U+00E9 (2 bytes), U+20AC (3 bytes), U+1F600 (4 bytes). *)
Definition sample : str := [65; 233; 8364; 128512].

Example sample_scalar : forallb scalar sample = true.
Proof. vm_compute. reflexivity. Qed.

Example sample_encoded :
  utf8_encode sample = [65; 195; 169; 226; 130; 172; 240; 159; 152; 128].
Proof. vm_compute. reflexivity. Qed.

Example sample_roundtrip : utf8_decode (utf8_encode sample) = Ok sample.
Proof. vm_compute. reflexivity. Qed.

(** The extremes of every length class round-trip. *)
Example bounds_roundtrip :
  let s := [0; 127; 128; 2047; 2048; 55295; 57344; 65535; 65536; 1114111] in
  forallb scalar s = true /\ utf8_decode (utf8_encode s) = Ok s.
Proof. vm_compute. split; reflexivity. Qed.

Example surrogate_not_scalar : scalar 55296 = false /\ scalar 57343 = false /\ scalar 1114112 = false.
Proof. vm_compute. repeat split; reflexivity. Qed.

(** Rejected inputs: each is a ValueError. *)
Example overlong2 : utf8_decode [192; 128] = Err EValue.
Proof. vm_compute. reflexivity. Qed.

Example overlong2_c1 : utf8_decode [193; 191] = Err EValue.
Proof. vm_compute. reflexivity. Qed.

Example overlong3 : utf8_decode [224; 128; 128] = Err EValue.
Proof. vm_compute. reflexivity. Qed.

Example overlong4 : utf8_decode [240; 128; 128; 128] = Err EValue.
Proof. vm_compute. reflexivity. Qed.

Example surrogate : utf8_decode [237; 160; 128] = Err EValue.
Proof. vm_compute. reflexivity. Qed.

Example above_10FFFF : utf8_decode [244; 144; 128; 128] = Err EValue.
Proof. vm_compute. reflexivity. Qed.

Example lead_F5 : utf8_decode [245; 128; 128; 128] = Err EValue.
Proof. vm_compute. reflexivity. Qed.

Example lone_continuation : utf8_decode [128] = Err EValue.
Proof. vm_compute. reflexivity. Qed.

Example lone_continuation_mid : utf8_decode [65; 191; 66] = Err EValue.
Proof. vm_compute. reflexivity. Qed.

Example truncated3 : utf8_decode [226; 130] = Err EValue.
Proof. vm_compute. reflexivity. Qed.

Example truncated_after_ascii : utf8_decode [65; 240; 159; 152] = Err EValue.
Proof. vm_compute. reflexivity. Qed.

Example bad_continuation : utf8_decode [195; 65] = Err EValue.
Proof. vm_compute. reflexivity. Qed.

Example not_a_byte : utf8_decode [256] = Err EValue.
Proof. vm_compute. reflexivity. Qed.

(** The byte-order mark. *)
Example bom_decode : utf8_decode [239; 187; 191] = Ok [BOM].
Proof. vm_compute. reflexivity. Qed.

Example bom_sig_decode : utf8_sig_decode [239; 187; 191] = Ok [].
Proof. vm_compute. reflexivity. Qed.

Example bom_encode : utf8_encode [BOM] = UTF8_BOM.
Proof. vm_compute. reflexivity. Qed.

(** Only one mark is dropped; text after it is kept. *)
Example bom_sig_decode_twice : utf8_sig_decode (UTF8_BOM ++ UTF8_BOM ++ [65]) = Ok [BOM; 65].
Proof. vm_compute. reflexivity. Qed.

Example nobom_sig_decode : utf8_sig_decode (utf8_encode sample) = Ok sample.
Proof. vm_compute. reflexivity. Qed.
