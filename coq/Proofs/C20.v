(** Proofs/C20.v — every module is importable first; import order does not matter.

    The theorems are generic in the import programs [P].  [cfg_ok_C20 P] is a decidable check:
    it enumerates the interpreter states reachable from the fresh interpreter by top-level
    imports ([reach P], a breadth-first closure) and verifies BY COMPUTATION that
      - every reachable state is in normal form and each of its module records is either
        "absent" or the CANONICAL record of that module (the record the module has after being
        imported first into a fresh interpreter);
      - importing any module into any reachable state succeeds, lands in the enumeration again,
        and makes present exactly the modules that were present plus those that importing the
        module FIRST makes present ([dep]).
    From that, by induction on the import sequence: every sequence of imports succeeds, the set of
    loaded modules is the union of the [dep]-sets of the requested modules, and every loaded
    module has its canonical record (same names, same objects) — hence two sequences over the
    same set of modules end in literally the same state. *)
From CP Require Import Base.Prelude Model.Imports.
From Coq Require String Permutation.
Open Scope Z_scope.

(** *** The checker *)
Definition mem_state (s : state) (R : list state) : bool := existsb (state_eqb s) R.

Definition is_absent (r : mrec) : bool := mrec_eqb r absent_rec.

(** The state after [import m] in a fresh interpreter (the fresh state itself if that fails). *)
Definition canon_st (P : progs) (m : modname) : state :=
  match step P (st0 P) m with Ok s => s | Err _ => st0 P end.
Definition centry (P : progs) (m : modname) : mrec := get (canon_st P m) m.
Definition canonical (P : progs) (m : modname) : namespace := ns (centry P m).

Definition dep_in (c : state) (m' : modname) : bool := negb (is_absent (get c m')).
(** [dep P m m']: importing [m] first puts [m'] into sys.modules. *)
Definition dep (P : progs) (m m' : modname) : bool := dep_in (canon_st P m) m'.

Definition norm (P : progs) (st : state) : state := map (fun m => (m, get st m)) (mods P).

Definition successors (P : progs) (st : state) : list state :=
  flat_map (fun m => match step P st m with Ok s => [s] | Err _ => [] end) (mods P).

Fixpoint add_new (seen new cands : list state) : list state * list state :=
  match cands with
  | [] => (seen, new)
  | c :: r => if mem_state c seen then add_new seen new r else add_new (c :: seen) (c :: new) r
  end.

Fixpoint bfs (P : progs) (rounds : nat) (seen frontier : list state) : list state :=
  match rounds with
  | O => seen
  | S k =>
      match frontier with
      | [] => seen
      | _ => let '(seen', new) := add_new seen [] (flat_map (successors P) frontier) in
             bfs P k seen' new
      end
  end.

Definition reach (P : progs) : list state := bfs P (S (length P)) [st0 P] [st0 P].

Definition check_state (P : progs) (st : state) : bool :=
  state_eqb st (norm P st)
  && forallb (fun m' => is_absent (get st m') || mrec_eqb (get st m') (centry P m')) (mods P).

Definition check_step_with (P : progs) (R : list state) (c : state) (st : state) (m : modname) : bool :=
  match step P st m with
  | Ok st' =>
      mem_state st' R
      && forallb (fun m' => Bool.eqb (is_absent (get st' m'))
                                     (is_absent (get st m') && negb (dep_in c m'))) (mods P)
  | Err _ => false
  end.
Definition check_step (P : progs) (R : list state) (st : state) (m : modname) : bool :=
  check_step_with P R (canon_st P m) st m.

Definition check_canon (P : progs) (m : modname) : bool :=
  is_ok (step P (st0 P) m) && is_loaded (canon_st P m) m.

Definition cfg_ok_on (P : progs) (R : list state) : bool :=
  mem_state (st0 P) R
  && forallb (fun m => is_absent (get (st0 P) m)) (mods P)
  && forallb (check_state P) R
  && forallb (fun st => forallb (check_step P R st) (mods P)) R
  && forallb (check_canon P) (mods P).

Definition cfg_ok_C20 (P : progs) : bool := cfg_ok_on P (reach P).

(** *** Small facts *)
Lemma mem_state_In s R : mem_state s R = true -> In s R.
Proof.
  unfold mem_state. intro H. apply existsb_exists in H as (x & Hx & He).
  apply state_eqb_eq in He. subst. exact Hx.
Qed.

Lemma is_absent_true r : is_absent r = true -> r = absent_rec.
Proof. apply mrec_eqb_eq. Qed.

Lemma get_map_notin (f : modname -> mrec) (l : list modname) (m : modname) :
  ~ In m l -> get (map (fun k => (k, f k)) l) m = absent_rec.
Proof.
  induction l as [|k l IH]; simpl; intro H; [reflexivity|].
  destruct (String.eqb k m) eqn:E.
  - apply String.eqb_eq in E. subst. exfalso. apply H. left. reflexivity.
  - apply IH. intro Hi. apply H. right. exact Hi.
Qed.

Lemma existsb_same_elements {A} (f : A -> bool) (l1 l2 : list A) :
  (forall x, In x l1 <-> In x l2) -> existsb f l1 = existsb f l2.
Proof.
  intro H. destruct (existsb f l1) eqn:E1, (existsb f l2) eqn:E2; try reflexivity.
  - apply existsb_exists in E1 as (x & Hx & Hf).
    assert (existsb f l2 = true) by (apply existsb_exists; exists x; split; [apply H; exact Hx | exact Hf]).
    congruence.
  - apply existsb_exists in E2 as (x & Hx & Hf).
    assert (existsb f l1 = true) by (apply existsb_exists; exists x; split; [apply H; exact Hx | exact Hf]).
    congruence.
Qed.

(** *** Soundness of the checker *)
Section Sound.
Variable P : progs.
Variable R : list state.
Hypothesis Hok : cfg_ok_on P R = true.

Let ms := mods P.

Lemma ok_parts :
  In (st0 P) R
  /\ (forall m, In m ms -> get (st0 P) m = absent_rec)
  /\ (forall st, In st R -> check_state P st = true)
  /\ (forall st m, In st R -> In m ms -> check_step P R st m = true)
  /\ (forall m, In m ms -> check_canon P m = true).
Proof.
  unfold cfg_ok_on in Hok. repeat (apply andb_true_iff in Hok as [Hok ?]).
  repeat split.
  - apply mem_state_In. exact Hok.
  - intros m Hm. apply is_absent_true.
    match goal with H : forallb (fun m => is_absent _) _ = true |- _ =>
      rewrite forallb_forall in H; apply H; exact Hm end.
  - intros st Hst.
    match goal with H : forallb (check_state P) R = true |- _ =>
      rewrite forallb_forall in H; apply H; exact Hst end.
  - intros st m Hst Hm.
    match goal with H : forallb (fun st => forallb _ _) R = true |- _ =>
      rewrite forallb_forall in H; specialize (H st Hst);
      rewrite forallb_forall in H; apply H; exact Hm end.
  - intros m Hm.
    match goal with H : forallb (check_canon P) _ = true |- _ =>
      rewrite forallb_forall in H; apply H; exact Hm end.
Qed.

Lemma state_normal st : In st R -> st = norm P st.
Proof.
  intro H. destruct ok_parts as (_ & _ & Hst & _). specialize (Hst st H).
  unfold check_state in Hst. apply andb_true_iff in Hst as [Hn _]. apply state_eqb_eq in Hn. exact Hn.
Qed.

Lemma state_entry st m : In st R -> In m ms ->
  get st m = if is_absent (get st m) then absent_rec else centry P m.
Proof.
  intros H Hm. destruct ok_parts as (_ & _ & Hst & _). specialize (Hst st H).
  unfold check_state in Hst. apply andb_true_iff in Hst as [_ He].
  rewrite forallb_forall in He. specialize (He m Hm).
  destruct (is_absent (get st m)) eqn:Ea.
  - apply is_absent_true. exact Ea.
  - simpl in He. apply mrec_eqb_eq. exact He.
Qed.

Lemma get_outside st m : In st R -> ~ In m ms -> get st m = absent_rec.
Proof.
  intros H Hm. rewrite (state_normal st H). unfold norm. apply get_map_notin. exact Hm.
Qed.

Lemma canon_loaded m : In m ms ->
  step P (st0 P) m = Ok (canon_st P m) /\ status (centry P m) = Loaded /\ dep P m m = true.
Proof.
  intro Hm. destruct ok_parts as (_ & _ & _ & _ & Hc). specialize (Hc m Hm).
  unfold check_canon in Hc. apply andb_true_iff in Hc as [H1 H2].
  assert (Hs : status (centry P m) = Loaded).
  { unfold is_loaded in H2. unfold centry. destruct (status (get (canon_st P m) m)); try discriminate. reflexivity. }
  split; [|split].
  - unfold canon_st. destruct (step P (st0 P) m); [reflexivity | discriminate].
  - exact Hs.
  - unfold dep, dep_in. fold (centry P m).
    destruct (is_absent (centry P m)) eqn:E; [|reflexivity].
    apply is_absent_true in E. rewrite E in Hs. discriminate.
Qed.

Lemma step_inv st m : In st R -> In m ms ->
  exists st', step P st m = Ok st' /\ In st' R /\
    forall m', In m' ms -> is_absent (get st' m') = is_absent (get st m') && negb (dep P m m').
Proof.
  intros Hst Hm. destruct ok_parts as (_ & _ & _ & Hs & _). specialize (Hs st m Hst Hm).
  unfold check_step, check_step_with in Hs. destruct (step P st m) as [st'|e]; [|discriminate].
  apply andb_true_iff in Hs as [H1 H2]. exists st'. split; [reflexivity|]. split.
  - apply mem_state_In. exact H1.
  - intros m' Hm'. rewrite forallb_forall in H2. specialize (H2 m' Hm').
    apply Bool.eqb_prop in H2. exact H2.
Qed.

Lemma run_inv seq : (forall m, In m seq -> In m ms) ->
  forall st, In st R ->
  exists st', run_imports_from P st seq = Ok st' /\ In st' R /\
    forall m', In m' ms ->
      is_absent (get st' m') = is_absent (get st m') && negb (existsb (fun m => dep P m m') seq).
Proof.
  induction seq as [|m seq IH]; intros Hsub st Hst.
  - exists st. split; [reflexivity|]. split; [exact Hst|].
    intros m' _. simpl. rewrite andb_true_r. reflexivity.
  - destruct (step_inv st m Hst (Hsub m (or_introl eq_refl))) as (st1 & E1 & HR1 & Hc1).
    destruct (IH (fun x Hx => Hsub x (or_intror Hx)) st1 HR1) as (st2 & E2 & HR2 & Hc2).
    exists st2. split; [|split].
    + unfold run_imports_from in *. simpl. rewrite E1. simpl. exact E2.
    + exact HR2.
    + intros m' Hm'. rewrite (Hc2 m' Hm'), (Hc1 m' Hm'). simpl.
      rewrite negb_orb, andb_assoc. reflexivity.
Qed.

(** The complete description of the state after any sequence of imports. *)
Lemma run_final seq : (forall m, In m seq -> In m ms) ->
  exists st, run_imports P seq = Ok st /\ In st R /\
    forall m', In m' ms ->
      get st m' = if existsb (fun m => dep P m m') seq then centry P m' else absent_rec.
Proof.
  intro Hsub. destruct ok_parts as (H0 & Habs & _).
  destruct (run_inv seq Hsub (st0 P) H0) as (st & E & HR & Hc).
  exists st. split; [exact E|]. split; [exact HR|].
  intros m' Hm'. rewrite (state_entry st m' HR Hm'), (Hc m' Hm'), (Habs m' Hm').
  change (is_absent absent_rec) with true. simpl.
  destruct (existsb (fun m => dep P m m') seq); reflexivity.
Qed.

Theorem sound_main seq : (forall m, In m seq -> In m ms) ->
  exists st, run_imports P seq = Ok st
    /\ (forall m, is_loaded st m = true -> namespace_of st m = canonical P m)
    /\ (forall m, In m ms -> is_loaded st m = existsb (fun x => dep P x m) seq)
    /\ (forall m, In m seq -> is_loaded st m = true).
Proof.
  intro Hsub. destruct (run_final seq Hsub) as (st & E & HR & Hg).
  assert (Hl : forall m, In m ms -> is_loaded st m = existsb (fun x => dep P x m) seq).
  { intros m Hm. unfold is_loaded. rewrite (Hg m Hm).
    destruct (existsb (fun x => dep P x m) seq); [|reflexivity].
    destruct (canon_loaded m Hm) as (_ & Hs & _). rewrite Hs. reflexivity. }
  exists st. split; [exact E|]. split; [|split].
  - intros m Hm. destruct (in_dec String.string_dec m ms) as [Hin|Hout].
    + unfold namespace_of, canonical. rewrite (Hg m Hin).
      rewrite (Hl m Hin) in Hm. rewrite Hm. reflexivity.
    + unfold is_loaded in Hm. rewrite (get_outside st m HR Hout) in Hm. discriminate.
  - exact Hl.
  - intros m Hm. rewrite (Hl m (Hsub m Hm)). apply existsb_exists. exists m. split; [exact Hm|].
    apply (canon_loaded m (Hsub m Hm)).
Qed.

Theorem sound_same seq1 seq2 :
  (forall m, In m seq1 -> In m ms) -> (forall m, In m seq1 <-> In m seq2) ->
  exists st, run_imports P seq1 = Ok st /\ run_imports P seq2 = Ok st.
Proof.
  intros Hsub Hsame.
  assert (Hsub2 : forall m, In m seq2 -> In m ms) by (intros m Hm; apply Hsub, Hsame, Hm).
  destruct (run_final seq1 Hsub) as (st1 & E1 & HR1 & Hg1).
  destruct (run_final seq2 Hsub2) as (st2 & E2 & HR2 & Hg2).
  exists st1. split; [exact E1|]. rewrite E2. f_equal.
  rewrite (state_normal st1 HR1), (state_normal st2 HR2). unfold norm.
  apply map_ext_in. intros m Hm. f_equal. fold ms in Hm.
  rewrite (Hg1 m Hm), (Hg2 m Hm).
  rewrite (existsb_same_elements (fun x => dep P x m) seq1 seq2 Hsame). reflexivity.
Qed.
End Sound.

(** *** C20 *)
Definition C20_stmt : Prop :=
  forall P, cfg_ok_C20 P = true ->
  forall seq, (forall m, In m seq -> In m (mods P)) ->
  exists st, run_imports P seq = Ok st
    /\ (forall m, is_loaded st m = true -> namespace_of st m = canonical P m)
    /\ (forall m, In m seq -> is_loaded st m = true).

Theorem C20 : C20_stmt.
Proof.
  intros P Hok seq Hsub. destruct (sound_main P (reach P) Hok seq Hsub) as (st & E & Hc & _ & Hl).
  exists st. auto.
Qed.

(** The set of modules that end up loaded, too, depends only on which modules were requested. *)
Theorem C20_loaded_set P : cfg_ok_C20 P = true ->
  forall seq, (forall m, In m seq -> In m (mods P)) ->
  exists st, run_imports P seq = Ok st
    /\ forall m, In m (mods P) -> is_loaded st m = existsb (fun x => dep P x m) seq.
Proof.
  intros Hok seq Hsub. destruct (sound_main P (reach P) Hok seq Hsub) as (st & E & _ & Hl & _).
  exists st. auto.
Qed.

(** Each module can be the very first import of a fresh interpreter. *)
Corollary C20_first P : cfg_ok_C20 P = true ->
  forall m, In m (mods P) ->
  exists st, run_imports P [m] = Ok st /\ is_loaded st m = true
    /\ namespace_of st m = canonical P m.
Proof.
  intros Hok m Hm.
  destruct (C20 P Hok [m]) as (st & E & Hc & Hl).
  { intros x [<-|[]]. exact Hm. }
  exists st. split; [exact E|]. split; [apply Hl; left; reflexivity|].
  apply Hc, Hl. left. reflexivity.
Qed.

(** Two import sequences over the same set of modules end in the same interpreter state
    (same sys.modules, same names bound to the same objects in every module). *)
Corollary C20_same_names P : cfg_ok_C20 P = true ->
  forall seq1 seq2, (forall m, In m seq1 -> In m (mods P)) -> (forall m, In m seq1 <-> In m seq2) ->
  exists st, run_imports P seq1 = Ok st /\ run_imports P seq2 = Ok st.
Proof. intros Hok seq1 seq2. apply (sound_same P (reach P) Hok). Qed.

Corollary C20_permutation P : cfg_ok_C20 P = true ->
  forall seq1 seq2, (forall m, In m seq1 -> In m (mods P)) -> Permutation.Permutation seq1 seq2 ->
  exists st, run_imports P seq1 = Ok st /\ run_imports P seq2 = Ok st.
Proof.
  intros Hok seq1 seq2 Hsub Hp. apply (C20_same_names P Hok seq1 seq2 Hsub).
  intro m. split; intro H.
  - eapply Permutation.Permutation_in; eauto.
  - eapply Permutation.Permutation_in; [apply Permutation.Permutation_sym|]; eauto.
Qed.

(** The observable prediction (what tools/c20_impl.py reports) is a function of the final state,
    hence order-independent as well. *)
Corollary C20_same_prediction P : cfg_ok_C20 P = true ->
  forall seq1 seq2, (forall m, In m seq1 -> In m (mods P)) -> (forall m, In m seq1 <-> In m seq2) ->
  predict P seq1 = predict P seq2 /\ is_ok (predict P seq1) = true.
Proof.
  intros Hok seq1 seq2 Hsub Hs. destruct (C20_same_names P Hok seq1 seq2 Hsub Hs) as (st & E1 & E2).
  unfold predict. rewrite E1, E2. split; reflexivity.
Qed.
